#!/usr/bin/env python3
"""Write lean/SparseV.lean importing every module of the library (so `lake build SparseV` checks everything)."""
from pathlib import Path
LEAN = Path(__file__).resolve().parent.parent / "lean"
mods = []
for p in sorted((LEAN / "SparseV").rglob("*.lean")):
    rel = p.relative_to(LEAN)
    if any("." in part for part in rel.parts[:-1]):
        continue
    mods.append(".".join(rel.with_suffix("").parts))
txt = "".join(f"import {m}\n" for m in mods)
f = LEAN / "SparseV.lean"
if not f.exists() or f.read_text() != txt:
    f.write_text(txt)

#!/usr/bin/env python3
"""Write lean/SparseV.lean importing every module of the library (so `lake build SparseV` checks everything)."""
from pathlib import Path
LEAN = Path(__file__).resolve().parent.parent / "lean"
mods = []
for p in sorted((LEAN / "SparseV").rglob("*.lean")):
    rel = p.relative_to(LEAN)
    if any("." in part for part in rel.parts[:-1]):
        continue
    mods.append(".".join(rel.with_suffix("").parts))
txt = "".join(f"import {m}\n" for m in mods)
f = LEAN / "SparseV.lean"
if not f.exists() or f.read_text() != txt:
    f.write_text(txt)

# DriverOps.lean: the list of op tables
ops = sorted(p.stem for p in (LEAN / "DriverOps").glob("*.lean") if p.stem != "Base")
txt = "".join(f"import DriverOps.{o}\n" for o in ops)
txt += "open Lean\nnamespace DriverOps\ndef tables : List (String → Array Json → R (Option Json)) := [" + ", ".join(o[0].lower() + o[1:] for o in ops) + "]\nend DriverOps\n"
f = LEAN / "DriverOps.lean"
if not f.exists() or f.read_text() != txt:
    f.write_text(txt)

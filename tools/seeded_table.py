#!/usr/bin/env python3
"""Print the markdown table of seeded changes (seeded/*/meta.json, confirm.json, result_quick.json)."""
import json
from pathlib import Path
ROOT = Path(__file__).resolve().parent.parent
rows = []
for d in sorted((ROOT / "seeded").iterdir()):
    if not (d / "meta.json").exists():
        continue
    m = json.loads((d / "meta.json").read_text())
    c = json.loads((d / "confirm.json").read_text()) if (d / "confirm.json").exists() else {}
    r = json.loads((d / "result_quick.json").read_text()) if (d / "result_quick.json").exists() else {}
    verdicts = []
    for chk, runs in (r.get("checks") or {}).items():
        for x in runs:
            rep = x.get("replay") or {}
            kind = "failing input" if x["exit"] == 1 and "no-failing-input-found" not in x["verdict"] else ("no-failing-input-found" if x["exit"] == 1 else "MISSED")
            verdicts.append(f"{chk}: {kind}" + (f" ({rep.get('family')})" if rep.get("family") else ""))
    what = (m.get("what") or "").replace("\n", " ")
    rows.append(f"| {d.name} | {', '.join(m.get('files') or []) if isinstance(m.get('files'), list) else m.get('files')} | {what[:150]} | "
                f"{'yes' if c.get('confirmed') else ('?' if not c else 'NO')} | {'; '.join(verdicts)} | {m.get('history', '')} |")
print("| id | file(s) | change | confirmed (demo fails with / passes without; suite passes) | quick check verdict | history |")
print("|---|---|---|---|---|---|")
print("\n".join(rows))

#!/usr/bin/env python3
"""Print the markdown table of seeded changes (seeded/*/meta.json, confirm.json, result_quick.json)."""
import json
from pathlib import Path
ROOT = Path(__file__).resolve().parent.parent
rows = []
for d in sorted((ROOT / "seeded").iterdir()):
    if not (d / "meta.json").exists():
        continue
    m = json.loads((d / "meta.json").read_text())
    c = json.loads((d / "confirm.json").read_text()) if (d / "confirm.json").exists() else {}
    r = json.loads((d / "result_quick.json").read_text()) if (d / "result_quick.json").exists() else {}
    verdicts = []
    for chk, runs in (r.get("checks") or {}).items():
        for x in runs:
            rep = x.get("replay") or {}
            kind = "failing input" if x["exit"] == 1 and "no-failing-input-found" not in x["verdict"] else ("no-failing-input-found" if x["exit"] == 1 else "MISSED")
            verdicts.append(f"{chk}: {kind}" + (f" ({rep.get('family')})" if rep.get("family") else ""))
    if m.get("obsolete"):
        verdicts = ["n/a: no longer a breaking change on the current tree (see history)"]
    what = (m.get("what") or "").replace("\n", " ")
    rows.append(f"| {d.name} | {', '.join(m.get('files') or []) if isinstance(m.get('files'), list) else m.get('files')} | {what[:150]} | "
                f"{'yes' if c.get('confirmed') else ('?' if not c else 'NO')} | {'; '.join(verdicts)} | {m.get('history', '')} |")
tot = len(rows)
missed_first = sum(1 for r in rows if "missed" in r.split("|")[-2] or "first only" in r.split("|")[-2] or "first caught only" in r.split("|")[-2])
now_missed = sum(1 for r in rows if "MISSED" in r and "n/a:" not in r and "failing input" not in r.split("|")[-3] and "no-failing-input-found" not in r.split("|")[-3])
nofail = sum(1 for r in rows if "no-failing-input-found" in r.split("|")[-3])
print(f"SUMMARY: {tot} kept changes; {tot - missed_first} were caught by the check as it stood when the change arrived, {missed_first} were missed or caught only "
      f"as `no-failing-input-found` at first and are caught after the strengthening named in the last column; as of this commit {now_missed} are missed and "
      f"{nofail} are caught without a failing input.\n")
print("| id | file(s) | change | confirmed (demo fails with / passes without; suite passes) | quick check verdict | history |")
print("|---|---|---|---|---|---|")
print("\n".join(rows))

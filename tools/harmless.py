#!/usr/bin/env python3
"""Run the registered checks against the corpus of HARMLESS rewrites (harmless/<name>.diff).

A harmless rewrite changes the text of a function of /repo that tie T1 translates (a fragment of
tools/py2lean_targets.py / tools/targets.d, or the source a table of tools/tables.d is read off) WITHOUT changing
its behaviour.  The checks must stay silent on every one of them: an alarm on code for which the property holds
is the worst outcome a check can have.  (tools/seeded.py is the mirror image: property-BREAKING changes, which
must be caught.)

Per entry:  harmless/<name>.diff   git diff against /repo HEAD
            harmless/<name>.json   {"file", "function", "what", "why_equivalent", "checks": [...],
                                    "tests": [pytest arguments, relative to the tree], "grid": [keys of harmless/grids.d]}

usage: tools/harmless.py [name ...] [--mode verify|translate|proof|check] [--seeds 0] [--parallel N] [--out FILE]

  verify     apply the diff in a scratch worktree of /repo (/tmp/mut/hx_<name>), run the listed test files there and
             the differential grids of harmless/grids.d (same function, patched tree against unpatched tree, exhaustive
             small box); records harmless/verified/<name>.json.  Says nothing about the checks.
  translate  run the translator on the patched tree into a scratch directory: refused targets, changed files.
  proof      translate, put the result in lean/SparseV/Generated and build `SparseV.Audit.<check>` for every listed check
             (= every theorem of the check, over the regenerated definitions).  Cheap (no harness legs); results are
             cached per distinct generated text.
  check      what a user would see: `VERIF_REPO=<tree> PYTHONPATH=<tree> ./check <id> --tier quick` for every listed
             check and seed (default mode).

Prints a table (one row per rewrite), writes the JSON given by --out (default harmless/results_<mode>.json) and
exits 1 if any check alarmed (or, in verify mode, if a rewrite is not behaviour-preserving).  A rewrite whose json says
"expected": "residual" (with "residual_why") is one the framework cannot relate to the original without guessing: it is run
and reported like the others, but its alarm is by design and does not count towards the exit status.

  report     tools/harmless.py --mode report --before A.json[,B.json…] --after C.json[,D.json…]  prints the before/after
             table (markdown) from result files of proof / check runs.
"""
from __future__ import annotations

import argparse
import hashlib
import json
import os
import re
import shutil
import subprocess
import sys
import tempfile
import time
from pathlib import Path

ROOT = Path(__file__).resolve().parent.parent
HARM = ROOT / "harmless"
LEAN = ROOT / "lean"
GEN = LEAN / "SparseV" / "Generated"
PY = "/venv/bin/python"
REPO = "/repo"

sys.path.insert(0, str(ROOT / "harness"))


def sh(cmd, **kw):
    return subprocess.run(cmd, shell=True, capture_output=True, text=True, **kw)


def corpus(names):
    all_names = sorted(p.stem for p in HARM.glob("*.diff") if (HARM / f"{p.stem}.json").exists())
    if not names:
        return all_names
    sel = []
    for n in names:
        hit = [a for a in all_names if a == n or a.startswith(n)]
        if not hit:
            sys.exit(f"no corpus entry matches {n}")
        sel += [h for h in hit if h not in sel]
    return sel


def meta(name):
    return json.loads((HARM / f"{name}.json").read_text())


def is_residual(name):
    """a rewrite the corpus itself marks as still alarming by design (harmless/<name>.json: "expected": "residual")"""
    return meta(name).get("expected") == "residual"


def count_bad(name, statuses):
    """an alarm counts unless the rewrite is a declared residual case"""
    alarm = any(s != "OK" for s in statuses)
    return alarm and not is_residual(name)


class Tree:
    """scratch worktree of /repo with harmless/<name>.diff applied"""

    def __init__(self, name, suffix=""):
        self.name = name
        self.wt = Path(f"/tmp/mut/hx_{name}{suffix}.{os.getpid()}")

    def __enter__(self):
        sh(f"git -C {REPO} worktree remove --force {self.wt}")
        shutil.rmtree(self.wt, ignore_errors=True)
        self.wt.parent.mkdir(parents=True, exist_ok=True)
        r = sh(f"git -C {REPO} worktree add --detach {self.wt} HEAD && git -C {self.wt} apply {HARM / (self.name + '.diff')}")
        if r.returncode != 0:
            self.__exit__(None, None, None)
            raise RuntimeError(f"{self.name}: could not apply: {r.stderr[-400:]}")
        return self.wt

    def __exit__(self, *exc):
        sh(f"git -C {REPO} worktree remove --force {self.wt}")
        shutil.rmtree(self.wt, ignore_errors=True)
        sh(f"git -C {REPO} worktree prune")


# ------------------------------------------------------------------------------------------------ verify

def run_grid(key, tree):
    env = dict(os.environ, PYTHONPATH=str(tree), PYTHONHASHSEED="0", NUMBA_CACHE_DIR="/var/tmp/verif-numba-cache")
    r = subprocess.run([PY, str(ROOT / "tools" / "harmless_grid.py"), key], capture_output=True, text=True, env=env,
                       cwd=str(tree), timeout=1800)
    if r.returncode != 0:
        return {"error": (r.stderr or r.stdout)[-600:]}
    return json.loads(r.stdout.strip().splitlines()[-1])


_base_grid = {}


def verify(name, wt):
    m = meta(name)
    res = {"diff_sha": hashlib.sha256((HARM / f"{name}.diff").read_bytes()).hexdigest()[:16], "tests": None, "grids": {}}
    ok = True
    tests = m.get("tests") or []
    if tests:
        env = dict(os.environ, PYTHONPATH=str(wt), NUMBA_CACHE_DIR="/var/tmp/verif-numba-cache")
        r = subprocess.run([PY, "-m", "pytest", "-q", "-x", "--no-cov", "-n", "4", "-p", "no:cacheprovider", *tests], capture_output=True, text=True,
                           env=env, cwd=str(wt), timeout=3600)
        tail = (r.stdout.strip().splitlines() or [""])[-1]
        res["tests"] = {"args": tests, "exit": r.returncode, "tail": tail[-200:]}
        ok &= r.returncode == 0
    for key in m.get("grid") or []:
        if key not in _base_grid:
            _base_grid[key] = run_grid(key, REPO)
        a, b = _base_grid[key], run_grid(key, wt)
        same = ("error" not in a and "error" not in b and (a["points"], a["digest"]) == (b["points"], b["digest"]) and a["points"] > 0
                and b["tree"] == str(wt) and a["tree"] == REPO)  # each run really imported the tree it was meant to
        res["grids"][key] = {"same": same, "points": b.get("points"), "digest": b.get("digest"),
                             **({"base": a, "patched": b} if not same else {})}
        ok &= same
    if not tests and not m.get("grid"):
        ok = False
        res["note"] = "neither tests nor grid listed"
    res["harmless"] = bool(ok)
    return res


# ------------------------------------------------------------------------------------------------ translate / proof

def translate(tree, out):
    r = subprocess.run([PY, str(ROOT / "tools" / "py2lean.py"), "--repo", str(tree), "--out", str(out)], capture_output=True, text=True)
    try:
        info = json.loads(r.stdout.strip().splitlines()[-1])
    except Exception:
        info = {"functions": [], "refused": [f"py2lean: {r.stderr[-300:]}"]}
    info.pop("changed", None)
    return info


def gen_texts(d):
    return {p.name: p.read_text() for p in sorted(Path(d).glob("*.lean"))}


def uses_of(check):
    """names of the generated definitions a check depends on (the `uses=` of its core.prove call)"""
    src = (ROOT / "harness" / f"{check.lower()}.py").read_text()
    m = re.search(r"core\.prove\([^)]*?uses=(\[[^\]]*\]|USES)", src, re.S)
    if not m:
        return None
    txt = m.group(1)
    if txt == "USES":
        txt = re.search(r"^USES\s*=\s*(\[[^\]]*\])", src, re.S | re.M).group(1)
    return re.findall(r'"([^"]+)"', txt)


def lean_tree_hash():
    h = hashlib.sha256()
    for p in sorted(LEAN.rglob("*.lean")):
        if ".lake" in p.parts or "Generated" in p.parts:
            continue
        h.update(str(p.relative_to(LEAN)).encode())
        h.update(p.read_bytes())
    return h.hexdigest()[:16]


def expected_theorems(check):
    import core
    return core.expected_theorems(check)


def proof_one(check, refused):
    """build every theorem of `check` over the definitions currently in lean/SparseV/Generated"""
    t0 = time.time()
    uses = uses_of(check)
    ref = [fn for fn in refused if uses is None or any(fn.startswith(u + ":") or fn.startswith(f"table {u}:") for u in uses)]
    r = subprocess.run(["lake", "build", f"SparseV.Audit.{check}"], cwd=LEAN, capture_output=True, text=True, timeout=3600)
    out = r.stdout + r.stderr
    seen = set(re.findall(r"'([^']+)' (?:depends on axioms|does not depend on any axioms)", out))
    thms = expected_theorems(check)
    missing = [t for t in thms if t not in seen] if r.returncode == 0 else thms
    errors = sorted(set(re.findall(r"error: (?:\S*?/)?(SparseV/\S+?\.lean):(\d+):\d+", out)))
    status = "OK"
    if ref:
        status = "REFUSED"
    elif r.returncode != 0 or missing:
        status = "PROOF-BREAKS"
    return {"status": status, "refused": ref, "errors": [f"{f}:{l}" for f, l in errors][:12],
            "broken_theorems": len(missing), "of": len(thms), "wall_s": round(time.time() - t0, 1),
            "log": out[-1500:] if status == "PROOF-BREAKS" else ""}


# ------------------------------------------------------------------------------------------------ check

def check_one(check, wt, seed, tier):
    t0 = time.time()
    env = dict(os.environ, VERIF_REPO=str(wt), PYTHONPATH=str(wt), VERIF_SEED=str(seed))
    r = subprocess.run([str(ROOT / "check"), check, "--tier", tier], capture_output=True, text=True, env=env, cwd=str(ROOT), timeout=7200)
    lines = [l for l in r.stdout.splitlines() if l.startswith(("VIOLATION", "OK", "KNOWN-FINDING"))]
    viol = [l for l in lines if l.startswith("VIOLATION")]
    rec = {"seed": int(seed), "exit": r.returncode, "verdict": viol[0] if viol else (lines[-1] if lines else r.stderr[-300:]),
           "wall_s": round(time.time() - t0, 1)}
    status = "OK" if r.returncode == 0 else "ALARM"
    if viol and "replay=" in viol[0]:
        rp = ROOT / viol[0].split("replay=")[1].split()[0]
        if rp.exists():
            j = json.loads(rp.read_text())
            nlc = j.get("no_longer_checks") or j.get("broken") or []
            rec["no_longer_checks"] = nlc[:30]
            rec["why"] = {k: v[:200] for k, v in list((j.get("why") or {}).items())[:4]}
            f = j.get("failure") or {}
            if f:
                rec["failure"] = {"family": f.get("family"), "detail": (f.get("detail") or "")[:300]}
                status = "FAILING-INPUT"
            elif any(x.startswith("T1:") for x in nlc):
                status = "REFUSED"
            elif any(x.startswith("theorem:") for x in nlc):
                status = "PROOF-BREAKS"
            elif j.get("correspondence_failures"):
                rec["correspondence"] = [{"family": c.get("family"), "detail": (c.get("detail") or "")[:200]} for c in j["correspondence_failures"][:3]]
                status = "LEG-A"
    rec["status"] = status
    return rec


# ------------------------------------------------------------------------------------------------ report

def summarise(rec):
    """one word per rewrite: OK / REFUSED / PROOF-BREAKS / … (the worst status over its checks), and the checks that alarm"""
    order = ["OK", "LEG-A", "ALARM", "PROOF-BREAKS", "REFUSED", "FAILING-INPUT"]
    worst, where = "OK", []
    for c, v in (rec or {}).get("checks", {}).items():
        for x in (v if isinstance(v, list) else [v]):
            st = x["status"]
            if st != "OK":
                where.append(c)
            if order.index(st) > order.index(worst):
                worst = st
    return worst, sorted(set(where))


def report(before, after):
    def load(paths):
        res, modes = {}, set()
        for p in paths:
            if p:
                j = json.loads(Path(p).read_text())
                modes.add(j.get("mode"))
                res.update(j["results"])
        return res, "/".join(sorted(m for m in modes if m))
    b, bm = load(before)
    a, am = load(after)
    names = sorted(set(a) | set(b))
    print(f"| rewrite | function | what | checks | before ({bm}) | after ({am}) |")
    print("|---|---|---|---|---|---|")
    tot = {"before": {}, "after": {}}
    for n in names:
        m = meta(n) if (HARM / f"{n}.json").exists() else {}
        cells = []
        for key, res in (("before", b), ("after", a)):
            if n not in res:
                cells.append("—")
                continue
            st, where = summarise(res[n])
            tot[key][st] = tot[key].get(st, 0) + 1
            cells.append("survives" if st == "OK" else f"{st.lower()} ({', '.join(where)})")
        if m.get("expected") == "residual":
            cells[1] += " — residual by design"
        print(f"| {n} | `{m.get('function', '?')}` | {m.get('what', '')} | {', '.join(m.get('checks', []))} | {cells[0]} | {cells[1]} |")
    for key in ("before", "after"):
        print(f"\n{key}: " + ", ".join(f"{v} {'survive' if k == 'OK' else k.lower()}" for k, v in sorted(tot[key].items())) + f" (of {sum(tot[key].values())})")
    return 0


# ------------------------------------------------------------------------------------------------ main

def main():
    ap = argparse.ArgumentParser()
    ap.add_argument("names", nargs="*")
    ap.add_argument("--mode", default="check", choices=["verify", "translate", "proof", "check", "report"])
    ap.add_argument("--before", default="")
    ap.add_argument("--after", default="")
    ap.add_argument("--checks", default=None, help="override the checks listed in the json files")
    ap.add_argument("--seeds", default="0")
    ap.add_argument("--tier", default="quick")
    ap.add_argument("--parallel", type=int, default=1, help="check mode: run the checks of one rewrite concurrently")
    ap.add_argument("--out", default=None)
    ap.add_argument("--keep-going", action="store_true", default=True)
    a = ap.parse_args()
    if a.mode == "report":
        return report(a.before.split(","), a.after.split(","))
    names = corpus(a.names)
    out_path = Path(a.out) if a.out else HARM / f"results_{a.mode}.json"
    results = {}
    if out_path.exists() and a.names:
        try:
            results = json.loads(out_path.read_text()).get("results", {})
        except Exception:
            results = {}
    bad = 0

    def save():
        out_path.write_text(json.dumps({"mode": a.mode, "lean": lean_tree_hash(), "results": results}, indent=1, sort_keys=True))

    if a.mode == "verify":
        vdir = HARM / "verified"
        vdir.mkdir(exist_ok=True)
        for n in names:
            with Tree(n) as wt:
                v = verify(n, wt)
            print(f"{n:28s} {'harmless' if v['harmless'] else 'NOT-VERIFIED'}  tests={v['tests'] and v['tests']['tail']}  "
                  f"grids={ {k: (g['same'], g['points']) for k, g in v['grids'].items()} }", flush=True)
            bad += not v["harmless"]
            (vdir / f"{n}.json").write_text(json.dumps(v, indent=1, sort_keys=True) + "\n")
        return 1 if bad else 0

    scratch = Path(tempfile.mkdtemp(prefix="hx_gen_", dir="/var/tmp"))
    try:
        base_dir = scratch / "base"
        base_info = translate(REPO, base_dir)
        base = gen_texts(base_dir)
        if a.mode in ("translate", "proof"):
            # 1. translate every patched tree (cheap), 2. group by generated text, 3. one build per distinct text and check
            tr = {}
            for n in names:
                with Tree(n, ".t") as wt:
                    d = scratch / n
                    info = translate(wt, d)
                    texts = gen_texts(d)
                tr[n] = {"refused": info.get("refused", []), "changed": sorted(k for k in set(base) | set(texts) if base.get(k) != texts.get(k)),
                         "hash": hashlib.sha256(json.dumps(texts, sort_keys=True).encode()).hexdigest()[:16], "dir": str(d)}
            if a.mode == "translate":
                for n in names:
                    results[n] = {k: tr[n][k] for k in ("refused", "changed", "hash")}
                    print(f"{n:28s} refused={tr[n]['refused']} changed={tr[n]['changed']}", flush=True)
                save()
                return 0
            import core
            cache_path = ROOT / ".harmless_proof_cache.json"
            cache = json.loads(cache_path.read_text()) if cache_path.exists() else {}
            lh = lean_tree_hash()
            order = sorted(names, key=lambda n: tr[n]["hash"])
            with core.build_lock():
                try:
                    cur = None
                    for n in order:
                        checks = a.checks.split(",") if a.checks else meta(n)["checks"]
                        rec = {"generated": {k: tr[n][k] for k in ("refused", "changed", "hash")}, "checks": {}}
                        for c in checks:
                            # the refusals are part of the key: a table extractor that refuses falls back to a default value, so a
                            # refused rewrite can have the same generated text as an accepted one
                            rk = hashlib.sha256(json.dumps(sorted(tr[n]["refused"])).encode()).hexdigest()[:8]
                            key = f"{lh}:{tr[n]['hash']}:{rk}:{c}"
                            if key not in cache:
                                if cur != tr[n]["hash"]:
                                    # put this rewrite's generated files in place (refused targets are missing from them,
                                    # as in a real run: dependants fail to build)
                                    for f, txt in gen_texts(tr[n]["dir"]).items():
                                        if not (GEN / f).exists() or (GEN / f).read_text() != txt:
                                            (GEN / f).write_text(txt)
                                    cur = tr[n]["hash"]
                                cache[key] = proof_one(c, tr[n]["refused"])
                                cache_path.write_text(json.dumps(cache))
                            rec["checks"][c] = cache[key]
                        results[n] = rec
                        row = " ".join(f"{c}:{v['status']}" for c, v in rec["checks"].items())
                        print(f"{n:28s} changed={','.join(x[:-5] for x in tr[n]['changed']) or '-':24s} {row}"
                              + ("   (declared residual)" if is_residual(n) else ""), flush=True)
                        bad += count_bad(n, [v["status"] for v in rec["checks"].values()])
                        save()
                finally:
                    for f, txt in base.items():
                        if not (GEN / f).exists() or (GEN / f).read_text() != txt:
                            (GEN / f).write_text(txt)
        else:
            saved = {}
            try:
                for n in names:
                    checks = a.checks.split(",") if a.checks else meta(n)["checks"]
                    for c in checks:
                        for f in [ROOT / "evidence" / f"{c}.json"] + sorted((ROOT / "replays" / c).glob("*")):
                            if f.is_file() and f not in saved:
                                saved[f] = f.read_bytes()
                    with Tree(n) as wt:
                        jobs = [(c, s) for c in checks for s in a.seeds.split(",")]
                        if a.parallel > 1:
                            from concurrent.futures import ThreadPoolExecutor
                            with ThreadPoolExecutor(a.parallel) as ex:
                                outs = list(ex.map(lambda j: (j[0], check_one(j[0], wt, j[1], a.tier)), jobs))
                        else:
                            outs = [(c, check_one(c, wt, s, a.tier)) for c, s in jobs]
                    rec = {"checks": {}}
                    for c, r in outs:
                        rec["checks"].setdefault(c, []).append(r)
                    results[n] = rec
                    row = " ".join(f"{c}:{'/'.join(x['status'] for x in v)}" for c, v in rec["checks"].items())
                    print(f"{n:28s} {row}" + ("   (declared residual)" if is_residual(n) else ""), flush=True)
                    bad += count_bad(n, [x["status"] for v in rec["checks"].values() for x in v])
                    save()
            finally:
                for f, b in saved.items():
                    f.write_bytes(b)
                for f in list((ROOT / "replays").glob("*/violation.json")):
                    if f not in saved:
                        f.unlink()
                translate(REPO, GEN)
    finally:
        shutil.rmtree(scratch, ignore_errors=True)
    print(f"\n{len(names)} rewrites, {bad} with an alarm ({a.mode} mode) -> {out_path}")
    return 1 if bad else 0


if __name__ == "__main__":
    sys.exit(main())

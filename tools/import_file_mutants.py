#!/usr/bin/env python3
"""Import the deliverables of a file-targeted mutant sub-agent (/tmp/mut/fN/_out: A/B/C.diff, demo_*.py, meta.json with a
"property" field per change) as seeded/FN-A, FN-B, FN-C.  usage: tools/import_file_mutants.py f1"""
import json, re, shutil, sys
from pathlib import Path
ROOT = Path(__file__).resolve().parent.parent
key = sys.argv[1]
out = Path(f"/tmp/mut/{key}/_out")
meta = json.loads((out / "meta.json").read_text())
for k in ("A", "B", "C"):
    if k not in meta or not (out / f"{k}.diff").exists():
        continue
    m = meta[k]
    props = re.findall(r"C\d\d", str(m.get("property", "")))
    d = ROOT / "seeded" / f"{key.upper()}-{k}"
    d.mkdir(parents=True, exist_ok=True)
    shutil.copy(out / f"{k}.diff", d / "patch.diff")
    shutil.copy(out / f"demo_{k}.py", d / "demo.py")
    (d / "meta.json").write_text(json.dumps({
        "property": props[0] if props else None, "checks": props or ["ALL"], "named_by_author": m.get("property"),
        "origin": f"fresh sub-agent given the texts of all properties and told to work in one source file ({key})",
        "files": m.get("files"), "what": m.get("what"), "needs": m.get("needs"), "agent_tests_run": m.get("tests_run")}, indent=1))
    print("imported", d.name, props)

#!/venv/bin/python
"""Measured coverage audit of the value-correctness checks against the public API of pydata/sparse.

  tools/coverage_audit.py surface                       print the public surface (JSON)
  tools/coverage_audit.py measure --raw DIR [--checks C01,C02,…] [--seed N]
        run `./check Cxx --tier quick` for each check with the recording proxies armed
        (tools/covhook on PYTHONPATH, VERIF_COVERAGE=DIR/Cxx; worker subprocesses inherit both)
  tools/coverage_audit.py report --raw DIR --out coverage [--tag before]
        merge the recordings with the probed surface → <out>/api_matrix[.tag].json, <out>/API_COVERAGE[.tag].md

What counts as "value-checked": a call made directly from harness code (no other public call of the library active)
while a comparison scope is on the Python stack — a harness function that compares the result with NumPy (table
VALUE_SCOPES below; `oracle.compare`, the per-check compare_* functions, C10's evaluate, C04's worker product call,
C07's judge, C12's apply/do_read, C19's case_* functions, and extra_ops.judge).  Calls made elsewhere
(generators that build operands, leg A representation comparisons, C06's canonical-form programs) are "called only".
Calls made by the library itself (depth > 0) are counted per operation but never taken as coverage.
"""
from __future__ import annotations

import argparse
import inspect
import json
import os
import subprocess
import sys
import time
from pathlib import Path

ROOT = Path(__file__).resolve().parent.parent
HOOK = ROOT / "tools" / "covhook"
DEFAULT_CHECKS = ["C01", "C02", "C03", "C04", "C05", "C06", "C07", "C08", "C09", "C10", "C12", "C19"]
FORMATS = ["coo", "gcxs", "dok"]

# harness functions inside which a result is compared with NumPy (module.function of any frame on the stack)
VALUE_SCOPES = {
    "oracle.compare", "c01.compare_elemwise", "c01.leg_c_programs", "c03.compare_reduction", "c05.leg_c", "c05.leg_c_narrow",
    "c07.judge", "c07.mixed_dtype_joins", "c07.fill_contribution", "c10.evaluate", "c04_worker.do_product",
    "c12.apply", "c12.same_dense", "c12.do_read", "c12.leg_cast", "c12.leg_raw_setitem",
    "c19.case_eye", "c19.case_eye_spelling", "c19.case_fill", "c19.case_like", "c19.case_asarray", "c19.case_random", "c19.case_random_defaults",
    "extra_ops.judge", "extra_ops.judge_elemwise",  # (not extra_ops.to_sparse / build_operands: building an operand is not a comparison)
}
VALUE_MODULES = set()  # harness modules every function of which compares values
OBSERVER_MODULES = {"extra_ops", "oracle", "impl"}  # a depth-0 call of an OBSERVERS operation straight from these modules is the comparison looking at a result
FORM_SCOPES = {"c06.leg_c", "c06.step"}  # canonical form / nnz only: the VALUE is not compared
# operations that the comparison itself uses to look at a result; a depth-0 call of these whose innermost harness frame is
# the comparator is the observation, not the operation under test
OBSERVERS = {"m:todense", "p:dtype", "p:ndim", "p:nnz", "p:size", "p:format", "p:compressed_axes", "p:nbytes", "p:density", "m:__str__", "m:__repr__",
             "m:__len__", "p:device", "m:asformat"}

# which property's quantifier covers an operation (base name) — used to say where a gap belongs
OWNER = {}
for _n in ("transpose T mT permute_dims matrix_transpose swapaxes moveaxis reshape flatten squeeze expand_dims broadcast_to broadcast_arrays "
           "flip roll pad").split():
    OWNER[_n] = "C08"
for _n in "concatenate concat stack triu tril diagonal diagonalize take".split():
    OWNER[_n] = "C09"
for _n in "sort argmax argmin unique_values unique_counts nonzero argwhere".split():
    OWNER[_n] = "C10"
for _n in "sum prod min max any all mean var std nansum nanprod nanmax nanmin nanmean nanreduce reduce amax amin".split():
    OWNER[_n] = "C03"
for _n in "dot matmul tensordot einsum vecdot kron outer __matmul__ __rmatmul__".split():
    OWNER[_n] = "C04"
for _n in ("asformat todense tocoo todok to_coo tocsr tocsc to_scipy_sparse from_numpy from_coo from_iter from_scipy_sparse as_coo asCOO asnumpy "
           "change_compressed_axes maybe_densify COO() GCXS() DOK() __array__").split():
    OWNER[_n] = "C05"
for _n in "eye zeros ones full empty zeros_like ones_like full_like empty_like asarray random".split():
    OWNER[_n] = "C19"
for _n in "__getitem__".split():
    OWNER[_n] = "C02"
for _n in "__setitem__".split():
    OWNER[_n] = "C12"
for _n in "copy save_npz load_npz __getstate__ __setstate__".split():
    OWNER[_n] = "C14"
for _n in ("astype round round_ clip conj real imag isnan isinf isposinf isneginf isfinite where elemwise abs equal "
           "__neg__ __pos__ __abs__ __invert__ __lt__ __le__ __gt__ __ge__ __eq__ __ne__ __array_ufunc__").split():
    OWNER[_n] = "C01"
for _b in ["add", "sub", "mul", "truediv", "floordiv", "mod", "pow", "and", "or", "xor", "lshift", "rshift", "divmod"]:
    for _p in ("__%s__", "__r%s__", "__i%s__"):
        OWNER[_p % _b] = "C01"
OWNER["__imatmul__"] = "C04"
NOT_VALUE_OPS = {
    "can_cast": "dtype predicate (no array value)", "result_type": "dtype arithmetic (no array value)", "load_npz": "C14 (persistence)", "save_npz": "C14 (persistence)",
    "__array_namespace__": "returns the module", "__array_function__": "dispatch (C17); recorded as n:<name>", "__repr__": "text", "__str__": "text", "_repr_html_": "text",
    "__dask_tokenize__": "token", "__sizeof__": "size", "enable_caching": "C11", "device": "constant", "to_device": "identity", "__len__": "shape[0]",
    "__bool__": "scalar conversion", "__int__": "scalar conversion", "__float__": "scalar conversion", "__complex__": "scalar conversion", "__index__": "scalar conversion",
    "__init__": "constructor (listed as Class())", "__array_ufunc__": "dispatch; recorded per ufunc as u:<name>", "SparseArray()": "abstract base class",
    "linear_loc": "helper of reshape (values visible through reshape)",
}


# ---------------------------------------------------------------------------------------------------------------
# the public surface, probed in a clean process
# ---------------------------------------------------------------------------------------------------------------

def probe_surface() -> dict:
    r = subprocess.run([sys.executable, __file__, "_probe"], capture_output=True, text=True, env={k: v for k, v in os.environ.items() if k != "VERIF_COVERAGE"})
    if r.returncode != 0:
        raise SystemExit("surface probe failed:\n" + r.stderr[-3000:])
    return json.loads(r.stdout)


def _probe():
    import warnings

    import numpy as np
    import sparse
    from numpy.lib.mixins import NDArrayOperatorsMixin
    from sparse.numba_backend._sparse_array import SparseArray

    warnings.simplefilter("ignore")
    sys.path.insert(0, str(HOOK))
    import covrec  # only for the list of operator names

    out = {"functions": {}, "types": [], "constants": [], "ufuncs": {}, "methods": {}, "properties": {}, "classmethods": {}}
    base = np.array([[0.0, 1.5, 0.0], [2.0, 0.0, 0.0], [0.0, 0.0, -1.0]])

    def arrays():
        c = sparse.COO.from_numpy(base)
        return {"coo": c, "gcxs": sparse.GCXS.from_coo(c), "dok": sparse.DOK.from_coo(c)}

    recipes = {
        "argwhere": lambda f, x: f(x), "asCOO": lambda f, x: f(x), "as_coo": lambda f, x: f(x), "asarray": lambda f, x: f(x), "asnumpy": lambda f, x: f(x),
        "astype": lambda f, x: f(x, np.int64), "broadcast_arrays": lambda f, x: f(x, x), "broadcast_to": lambda f, x: f(x, (2, 3, 3)),
        "can_cast": lambda f, x: f(x, np.dtype("float32")), "clip": lambda f, x: f(x, 0, 1), "concat": lambda f, x: f([x, x]), "concatenate": lambda f, x: f([x, x]),
        "stack": lambda f, x: f([x, x]), "diagonal": lambda f, x: f(x), "diagonalize": lambda f, x: f(x), "dot": lambda f, x: f(x, x), "matmul": lambda f, x: f(x, x),
        "einsum": lambda f, x: f("ij,jk->ik", x, x), "elemwise": lambda f, x: f(np.add, x, x), "expand_dims": lambda f, x: f(x, axis=0), "flip": lambda f, x: f(x),
        "kron": lambda f, x: f(x, x), "moveaxis": lambda f, x: f(x, 0, 1), "nanreduce": lambda f, x: f(x, np.add, axis=0), "outer": lambda f, x: f(x[0], x[1]),
        "pad": lambda f, x: f(x, 1), "permute_dims": lambda f, x: f(x, (1, 0)), "reshape": lambda f, x: f(x, (9,)), "result_type": lambda f, x: f(x, np.int8),
        "roll": lambda f, x: f(x, 1), "round": lambda f, x: f(x), "sort": lambda f, x: f(x), "squeeze": lambda f, x: f(x), "take": lambda f, x: f(x, np.array([0, 2]), axis=0),
        "tensordot": lambda f, x: f(x, x, axes=1), "tril": lambda f, x: f(x), "triu": lambda f, x: f(x), "vecdot": lambda f, x: f(x, x), "where": lambda f, x: f(x > 0, x, x),
        "zeros_like": lambda f, x: f(x), "ones_like": lambda f, x: f(x), "full_like": lambda f, x: f(x, 2.0), "empty_like": lambda f, x: f(x),
        "isposinf": lambda f, x: f(x), "isneginf": lambda f, x: f(x), "matrix_transpose": lambda f, x: f(x), "nonzero": lambda f, x: f(x),
        "unique_counts": lambda f, x: f(x), "unique_values": lambda f, x: f(x),
        "save_npz": None, "load_npz": None, "eye": None, "zeros": None, "ones": None, "full": None, "empty": None, "random": None,
    }
    reductions = ["sum", "prod", "max", "min", "mean", "var", "std", "any", "all", "nansum", "nanprod", "nanmax", "nanmin", "nanmean", "argmax", "argmin"]

    def try_call(thunk):
        try:
            thunk()
            return "yes"
        except (NotImplementedError, AttributeError) as e:
            return "no:" + type(e).__name__
        except TypeError as e:
            return "no:TypeError:" + str(e)[:60]
        except ValueError as e:
            return "raises:ValueError:" + str(e)[:60]
        except Exception as e:  # noqa: BLE001
            return "raises:" + type(e).__name__ + ":" + str(e)[:60]

    for name in sorted(sparse.__all__):
        v = getattr(sparse, name)
        if not callable(v):
            out["constants"].append(name)
            continue
        if isinstance(v, type):
            out["types"].append(name)
            continue
        if isinstance(v, np.ufunc):
            offered = {}
            for fmt, x in arrays().items():
                xi = x.astype(np.int64) if name.startswith("bitwise") else x
                offered[fmt] = try_call((lambda: v(xi)) if v.nin == 1 else (lambda: v(xi, xi)))
            out["ufuncs"][name] = {"nin": v.nin, "numpy_name": v.__name__, "offered": offered}
            continue
        try:
            sig = inspect.signature(v)
            params = [{"name": p.name, "kind": p.kind.name, "default": None if p.default is p.empty else repr(p.default)[:40]} for p in sig.parameters.values()]
        except Exception:  # noqa: BLE001
            params = None
        offered = {}
        if name in recipes and recipes[name] is None:
            offered = {"-": "no array argument"}
        else:
            for fmt, x in arrays().items():
                if name in recipes:
                    offered[fmt] = try_call(lambda: recipes[name](v, x))
                elif name in reductions:
                    offered[fmt] = try_call(lambda: v(x, axis=0))
                else:
                    offered[fmt] = try_call(lambda: v(x))
                    if offered[fmt].startswith("no:TypeError") and "missing" in offered[fmt]:
                        offered[fmt] = try_call(lambda: v(x, x))
        out["functions"][name] = {"module": getattr(v, "__module__", "?"), "params": params, "offered": offered}

    classes = {"SparseArray": SparseArray, "COO": sparse.COO, "GCXS": sparse.GCXS, "DOK": sparse.DOK}
    for label, cls in classes.items():
        members = {}
        for klass in cls.__mro__:
            if klass is object:
                continue
            for n, v in klass.__dict__.items():
                if n in members:
                    continue
                if n.startswith("_") and n not in covrec.DUNDERS:
                    continue
                if klass is NDArrayOperatorsMixin and not inspect.isfunction(v):
                    continue
                kind = ("property" if isinstance(v, property) else "classmethod" if isinstance(v, (classmethod, staticmethod)) else "method" if inspect.isfunction(v) else None)
                if kind is None:
                    continue
                f = v.fget if isinstance(v, property) else (v.__func__ if isinstance(v, (classmethod, staticmethod)) else v)
                try:
                    ps = [p.name for p in inspect.signature(f).parameters.values()][1:]
                except Exception:  # noqa: BLE001
                    ps = None
                members[n] = {"kind": kind, "defined_in": klass.__name__, "params": ps}
        out["methods"][label] = members
    # is a method actually offered on the format (hasattr is not enough: DOK inherits reductions that raise NotImplementedError)
    mrec = {"astype": lambda x: x.astype(np.int64), "clip": lambda x: x.clip(0, 1), "reshape": lambda x: x.reshape((9,)), "swapaxes": lambda x: x.swapaxes(0, 1),
            "broadcast_to": lambda x: x.broadcast_to((2, 3, 3)), "dot": lambda x: x.dot(x), "reduce": lambda x: x.reduce(np.add, axis=0), "asformat": lambda x: x.asformat("coo"),
            "__getitem__": lambda x: x[0], "__setitem__": lambda x: x.__setitem__((0, 0), 1.0), "to_device": lambda x: x.to_device("cpu"),
            "change_compressed_axes": lambda x: x.change_compressed_axes((1,)), "__array_function__": None, "__array_ufunc__": None, "__setstate__": None, "__init__": None,
            "__array_namespace__": lambda x: x.__array_namespace__(), "__index__": lambda x: x[0, 1].__index__() if hasattr(x[0, 1], "__index__") else 0,
            "__divmod__": lambda x: divmod(x, 2.0), "__rdivmod__": lambda x: divmod(2.0, x), "__bool__": lambda x: bool(x[0:1, 1:2]), "__int__": lambda x: int(x[0:1, 1:2]),
            "__float__": lambda x: float(x[0:1, 1:2]), "__complex__": lambda x: complex(x[0:1, 1:2]), "enable_caching": lambda x: x.enable_caching()}
    intops = ("and", "or", "xor", "lshift", "rshift", "invert")
    for label, cls in classes.items():
        if label == "SparseArray":
            continue
        for n, m in out["methods"][label].items():
            x = arrays()[label.lower()]
            if n.strip("_") in intops or n.strip("_")[1:] in intops:
                x = (x.astype(np.int64) if label != "DOK" else sparse.DOK.from_coo(arrays()["coo"].astype(np.int64)))
            if m["kind"] == "classmethod":
                m["offered"] = "yes"
                continue
            if m["kind"] == "property":
                m["offered"] = try_call(lambda: getattr(x, n))
                continue
            if n in mrec:
                m["offered"] = "yes" if mrec[n] is None else try_call(lambda: mrec[n](x))
                continue
            f = getattr(x, n)
            r = try_call(lambda: f())
            if r.startswith("no:TypeError") and ("missing" in r or "argument" in r or "expected" in r):
                y = 2 if n.startswith(("__i", "__r")) and False else x
                r = try_call(lambda: f(y))
            m["offered"] = r
    print(json.dumps(out))


# ---------------------------------------------------------------------------------------------------------------
# measurement
# ---------------------------------------------------------------------------------------------------------------

def measure(raw: Path, checks, seed=0, tier="quick"):
    raw.mkdir(parents=True, exist_ok=True)
    timings = {}
    for c in checks:
        d = raw / c
        if d.exists():
            for p in d.glob("rec-*.json"):
                p.unlink()
        env = dict(os.environ)
        env["VERIF_COVERAGE"] = str(d)
        env["VERIF_SEED"] = str(seed)
        env["PYTHONPATH"] = str(HOOK) + (os.pathsep + env["PYTHONPATH"] if env.get("PYTHONPATH") else "")
        t0 = time.time()
        r = subprocess.run([str(ROOT / "check"), c, "--tier", tier], capture_output=True, text=True, env=env)
        verdict = [l for l in r.stdout.splitlines() if l.startswith(("OK", "VIOLATION", "KNOWN-FINDING"))]
        timings[c] = {"wall_s": round(time.time() - t0, 1), "rc": r.returncode, "verdict": verdict[-3:], "recordings": len(list(d.glob("rec-*.json"))) if d.exists() else 0}
        print(c, timings[c], flush=True)
    (raw / "timings.json").write_text(json.dumps(timings, indent=1))


# ---------------------------------------------------------------------------------------------------------------
# report
# ---------------------------------------------------------------------------------------------------------------

def scope_kind(scope: str, op: str) -> str:
    frames = scope.split("<")
    inner = frames[0]
    val = any(f in VALUE_SCOPES or f.split(".")[0] in VALUE_MODULES for f in frames)
    if val:
        if op in OBSERVERS and (inner in VALUE_SCOPES or inner.split(".")[0] in OBSERVER_MODULES):
            # C05's subject IS conversion/densification: there the observer calls are the operation under test
            if inner.startswith("c05."):
                return "value"
            return "observe"
        return "value"
    if any(f in FORM_SCOPES for f in frames):
        return "form"
    return "called"


def merge(dst: dict, src: dict):
    for k, v in src.items():
        if isinstance(v, dict):
            merge(dst.setdefault(k, {}), v)
        else:
            dst[k] = dst.get(k, 0) + v


def base_name(op: str) -> str:
    kind, _, name = op.partition(":")
    if kind == "u":
        return "ufunc " + name
    if kind == "c":
        return name.split(".")[-1] if "." in name else name
    return name


def load_raw(raw: Path):
    """-> {check: {op: {kind: merged-fields}}}, {check: {op: inner-count}}"""
    per_check, inner = {}, {}
    for d in sorted(p for p in raw.iterdir() if p.is_dir()):
        ops, inn = {}, {}
        for f in d.glob("rec-*.json"):
            try:
                blob = json.loads(f.read_text())
            except Exception:  # noqa: BLE001
                continue
            for op, scopes in blob["rec"].items():
                for scope, fields in scopes.items():
                    k = scope_kind(scope, op)
                    slot = ops.setdefault(op, {}).setdefault(k, {})
                    merge(slot, fields)
                    sc = slot.setdefault("scopes", {})
                    sc[scope] = sc.get(scope, 0) + fields.get("calls", {}).get("n", 0)
            for op, n in blob.get("inner", {}).items():
                inn[op] = inn.get(op, 0) + n
        per_check[d.name] = ops
        inner[d.name] = inn
    return per_check, inner


NUMPY_UFUNC_ALIAS = {"acos": "arccos", "acosh": "arccosh", "asin": "arcsin", "asinh": "arcsinh", "atan": "arctan", "atan2": "arctan2", "atanh": "arctanh",
                     "bitwise_invert": "invert", "bitwise_left_shift": "left_shift", "bitwise_not": "invert", "bitwise_right_shift": "right_shift", "pow": "power",
                     "divide": "true_divide", "abs": "absolute", "conj": "conjugate", "remainder": "remainder"}


def build_matrix(surface: dict, per_check: dict, inner: dict) -> dict:
    """rows: one per public operation spelling"""
    rows = {}

    def row(op_id, label, family, offered, params=None):
        rows[op_id] = {"label": label, "family": family, "owner": OWNER.get(base_name(op_id).replace("ufunc ", ""), None), "offered": offered, "params": params or [],
                       "value_checked_by": {}, "form_checked_by": {}, "called_by": {}, "observed_by": {}, "inner_calls": {}}

    for n, info in surface["functions"].items():
        row("f:" + n, f"sparse.{n}", "function", info["offered"], [p["name"] for p in (info["params"] or [])])
    for n, info in surface["ufuncs"].items():
        row("u:" + info["numpy_name"], f"sparse.{n} = np.{info['numpy_name']} (ufunc protocol)", "ufunc", info["offered"])
    seen = set()
    for label, members in surface["methods"].items():
        for n, m in members.items():
            if m["kind"] == "classmethod":
                op_id = f"c:{m['defined_in'] if m['defined_in'] != 'SparseArray' else label}.{n}"
                if op_id not in rows:
                    row(op_id, f"{label}.{n}", "classmethod", {label.lower(): "yes"}, m["params"])
                continue
            op_id = ("p:" if m["kind"] == "property" else "m:") + n
            if n == "__init__":
                op_id = f"c:{label}()"
                row(op_id, f"{label}(…)", "constructor", {label.lower(): "yes"}, m["params"])
                continue
            if op_id in seen:
                rows[op_id]["offered"][label.lower()] = m.get("offered", "yes")
                continue
            seen.add(op_id)
            row(op_id, f"x.{n}" if m["kind"] == "method" else f"x.{n} (property)", m["kind"], {label.lower(): m.get("offered", "yes")}, m["params"])
    for r in rows.values():
        r["offered"].pop("sparsearray", None)

    for check, ops in per_check.items():
        for op, kinds in ops.items():
            if op not in rows:
                # ufunc methods (u:add.reduce), numpy functions (n:sum) and anything not in the static surface
                fam = {"u": "ufunc-method", "n": "numpy-function (__array_function__)"}.get(op[0], "other")
                row(op, op, fam, {})
            for k, fields in kinds.items():
                tgt = {"value": "value_checked_by", "form": "form_checked_by", "called": "called_by", "observe": "observed_by"}[k]
                rows[op][tgt][check] = fields
        for op, n in inner[check].items():
            if op in rows:
                rows[op]["inner_calls"][check] = n
    return rows


def fmt_set(d, key):
    return sorted((d.get(key) or {}).keys())


def union(fields_by_check, key):
    s = set()
    for f in fields_by_check.values():
        s |= set((f.get(key) or {}).keys())
    return sorted(s)


PARAM_INTEREST = ["axis", "keepdims", "dtype", "out", "where", "casting", "order", "mode", "k", "return_type", "axes", "copy", "decimals", "correction", "ddof",
                  "descending", "stable", "offset", "axis1", "axis2", "shift", "compressed_axes", "format", "fill_value", "shape", "constant_values", "source", "destination",
                  "idx_dtype", "a_min", "a_max", "M", "N", "identity", "method", "pad_width", "indices", "check", "name", "device", "density", "nnz", "random_state", "data_rvs"]


def gaps_of(rows: dict) -> dict:
    g = {"never_value_checked": [], "format_never_value_checked": [], "params_never_varied": [], "fills_never_nonzero": [], "never_zero_extent": [], "never_0d": [],
         "dtype_kinds_missing": []}
    for op, r in sorted(rows.items()):
        name = base_name(op).replace("ufunc ", "")
        if name in NOT_VALUE_OPS or r["family"] in ("ufunc-method", "numpy-function (__array_function__)", "other"):
            continue
        if r["family"] == "property" and name in ("dtype", "ndim", "size", "nnz", "format", "compressed_axes", "nbytes", "density", "device"):
            continue
        vc = r["value_checked_by"]
        offered = [f for f, s in r["offered"].items() if s == "yes" and f in FORMATS]
        if not vc:
            g["never_value_checked"].append({"op": op, "label": r["label"], "owner": r["owner"], "offered": offered,
                                             "called_only_by": sorted(set(r["called_by"]) | set(r["form_checked_by"]))})
            continue
        seen_f = set(union(vc, "fmt"))
        for f in offered:
            hit = f in seen_f or (f == "gcxs" and seen_f & {"csr", "csc"}) and False
            if not hit and r["family"] not in ("constructor", "classmethod"):
                g["format_never_value_checked"].append({"op": op, "label": r["label"], "owner": r["owner"], "format": f, "seen": sorted(seen_f)})
        fills = set(union(vc, "fill"))
        if seen_f and not (fills - {"zero", "-0.0", "-", "?"}):
            g["fills_never_nonzero"].append({"op": op, "label": r["label"], "owner": r["owner"], "fills": sorted(fills)})
        if seen_f and "True" not in union(vc, "zero_extent"):
            g["never_zero_extent"].append({"op": op, "label": r["label"], "owner": r["owner"]})
        if seen_f and "0" not in union(vc, "nd"):
            g["never_0d"].append({"op": op, "label": r["label"], "owner": r["owner"]})
        kinds = {dt_kind(d) for d in union(vc, "dt")}
        miss = sorted({"b", "i", "u", "f", "c"} - kinds)
        if seen_f and miss:
            g["dtype_kinds_missing"].append({"op": op, "label": r["label"], "owner": r["owner"], "missing_kinds": miss, "seen": sorted(union(vc, "dt"))})
        for p in r["params"]:
            if p in ("self", "x", "a", "b", "x1", "x2", "arrays", "operands", "array", "obj", "args", "kwargs", "condition", "y", "other", "func", "matrix", "filename", "cls"):
                continue
            classes = set(union(vc, "p:" + p))
            if "<array>" in classes or any(c.startswith("<arrays") for c in classes):
                continue  # an array-valued parameter: its variation is the formats/dtypes/fills columns
            if len(classes) <= 1:
                g["params_never_varied"].append({"op": op, "label": r["label"], "owner": r["owner"], "param": p, "seen": sorted(classes)})
    return g


def dt_kind(dt: str) -> str:
    import numpy as np

    try:
        return np.dtype(dt).kind
    except Exception:  # noqa: BLE001
        return "?"


def write_md(out: Path, rows: dict, gaps: dict, timings: dict, tag: str, checks):
    L = []
    A = L.append
    A(f"# API coverage of the value-correctness checks ({'snapshot: ' + tag if tag else 'current'})")
    A("")
    A("Generated by `tools/coverage_audit.py` (measure + report); do not edit.  Measured on a quick-tier run, VERIF_SEED=0, of: " + ", ".join(checks) + ".")
    A("")
    A("A call is **value-checked** when it is made directly from harness code inside a function that compares the result with NumPy "
      "(see `VALUE_SCOPES` in the tool); **form** = only canonical form / nnz is checked (C06); **called** = the harness calls it (operand construction, "
      "leg A representation comparison) without comparing the value; *inner* calls (made by the library itself) are never counted as coverage.")
    A("")
    if timings:
        A("| check | wall s | exit | verdict |")
        A("|---|---|---|---|")
        for c, t in timings.items():
            A(f"| {c} | {t['wall_s']} | {t['rc']} | {'; '.join(v[:70] for v in t['verdict'][-2:])} |")
        A("")
    n_ops = sum(1 for r in rows.values() if r["family"] not in ("ufunc-method", "numpy-function (__array_function__)", "other"))
    n_val = sum(1 for r in rows.values() if r["value_checked_by"] and r["family"] not in ("ufunc-method", "numpy-function (__array_function__)", "other"))
    A(f"**Summary**: {n_ops} public operations (spellings) in the static surface, {n_val} value-checked by at least one check; "
      f"{len(gaps['never_value_checked'])} never value-checked, {len(gaps['format_never_value_checked'])} (operation, format) pairs offered but never value-checked, "
      f"{len(gaps['params_never_varied'])} parameters never varied, {len(gaps['fills_never_nonzero'])} operations only with zero fill, "
      f"{len(gaps['never_zero_extent'])} never with a zero-extent axis, {len(gaps['never_0d'])} never 0-d.")
    A("")
    A("## Gaps")
    A("")
    A("### Operations never value-checked")
    A("")
    A("| operation | property | offered on | only called by |")
    A("|---|---|---|---|")
    for e in gaps["never_value_checked"]:
        A(f"| `{e['label']}` | {e['owner'] or '-'} | {', '.join(e['offered']) or '-'} | {', '.join(e['called_only_by']) or '-'} |")
    A("")
    A("### (operation, format) offered but never value-checked")
    A("")
    A("| operation | property | format | formats seen |")
    A("|---|---|---|---|")
    for e in gaps["format_never_value_checked"]:
        A(f"| `{e['label']}` | {e['owner'] or '-'} | {e['format']} | {', '.join(e['seen'])} |")
    A("")
    A("### Parameters never varied in a value-checked call (≤ 1 class of value seen)")
    A("")
    A("| operation | property | parameter | seen |")
    A("|---|---|---|---|")
    for e in gaps["params_never_varied"]:
        A(f"| `{e['label']}` | {e['owner'] or '-'} | `{e['param']}` | {', '.join(e['seen']) or 'never passed'} |")
    A("")
    A("### Only zero fill seen")
    A("")
    A(", ".join(f"`{e['label']}`" for e in gaps["fills_never_nonzero"]) or "none")
    A("")
    A("### Never with a zero-extent axis")
    A("")
    A(", ".join(f"`{e['label']}`" for e in gaps["never_zero_extent"]) or "none")
    A("")
    A("### Never 0-d")
    A("")
    A(", ".join(f"`{e['label']}`" for e in gaps["never_0d"]) or "none")
    A("")
    A("### dtype kinds missing (of b, i, u, f, c)")
    A("")
    A("| operation | missing kinds | dtypes seen |")
    A("|---|---|---|")
    for e in gaps["dtype_kinds_missing"]:
        A(f"| `{e['label']}` | {', '.join(e['missing_kinds'])} | {', '.join(e['seen'])} |")
    A("")
    A("## Matrix")
    A("")
    A("| operation | property | offered | value-checked by (formats) | fills | dtypes | ndim | zero-extent | idx dtypes | parameters seen | form-only | called-only |")
    A("|---|---|---|---|---|---|---|---|---|---|---|---|")
    for op, r in sorted(rows.items(), key=lambda kv: (kv[1]["owner"] or "Z", kv[1]["label"])):
        vc = r["value_checked_by"]
        by = "; ".join(f"{c} ({','.join(fmt_set(f, 'fmt')) or '-'})" for c, f in sorted(vc.items()))
        params = []
        pnames = set()
        for f in vc.values():
            pnames |= {k[2:] for k in f if k.startswith("p:")}
        for p in sorted(pnames):
            cl = [c for c in union(vc, "p:" + p) if c != "<array>"]
            if cl and p not in ("self",):
                params.append(f"{p}∈{{{', '.join(cl[:7])}{'…' if len(cl) > 7 else ''}}}")
        idxk = union(vc, "index")
        if idxk:
            params.append("index∈{" + ", ".join(idxk) + "}")
        off = ",".join(f for f, s in r["offered"].items() if s == "yes")
        A(f"| `{r['label']}` | {r['owner'] or '-'} | {off or '-'} | {by or '**none**'} | {','.join(union(vc, 'fill'))} | {','.join(union(vc, 'dt'))} | {','.join(union(vc, 'nd'))} | "
          f"{','.join(union(vc, 'zero_extent'))} | {','.join(union(vc, 'idx'))} | {'; '.join(params)} | {','.join(sorted(r['form_checked_by']))} | {','.join(sorted(r['called_by']))} |")
    A("")
    out.write_text("\n".join(L) + "\n")


def report(raw: Path, outdir: Path, tag: str):
    surface = probe_surface()
    per_check, inner = load_raw(raw)
    rows = build_matrix(surface, per_check, inner)
    gaps = gaps_of(rows)
    timings = json.loads((raw / "timings.json").read_text()) if (raw / "timings.json").exists() else {}
    outdir.mkdir(parents=True, exist_ok=True)
    suffix = f".{tag}" if tag else ""
    # compact matrix: drop the per-scope detail of "called" entries
    slim = {}
    for op, r in rows.items():
        rr = dict(r)
        for k in ("called_by", "observed_by", "form_checked_by"):
            rr[k] = {c: {"calls": f.get("calls", {}).get("n", 0), "fmt": fmt_set(f, "fmt"), "scopes": sorted(f.get("scopes", {}))[:6]} for c, f in r[k].items()}
        slim[op] = rr
    (outdir / f"api_matrix{suffix}.json").write_text(json.dumps({"checks": sorted(per_check), "surface_counts": {k: len(v) for k, v in surface.items()}, "rows": slim, "gaps": gaps,
                                                                  "timings": timings}, indent=1, sort_keys=True))
    write_md(outdir / f"API_COVERAGE{suffix}.md", rows, gaps, timings, tag, sorted(per_check))
    print(json.dumps({k: len(v) for k, v in gaps.items()}))


def main():
    if len(sys.argv) > 1 and sys.argv[1] == "_probe":
        return _probe()
    ap = argparse.ArgumentParser()
    ap.add_argument("cmd", choices=["surface", "measure", "report"])
    ap.add_argument("--raw", default=str(ROOT / "coverage" / "raw"))
    ap.add_argument("--out", default=str(ROOT / "coverage"))
    ap.add_argument("--tag", default="")
    ap.add_argument("--checks", default=",".join(DEFAULT_CHECKS))
    ap.add_argument("--seed", type=int, default=0)
    ap.add_argument("--tier", default="quick")
    a = ap.parse_args()
    if a.cmd == "surface":
        print(json.dumps(probe_surface(), indent=1))
    elif a.cmd == "measure":
        measure(Path(a.raw), [c.strip().upper() for c in a.checks.split(",") if c.strip()], a.seed, a.tier)
    else:
        report(Path(a.raw), Path(a.out), a.tag)


if __name__ == "__main__":
    main()

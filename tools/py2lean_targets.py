"""Fragment descriptors for py2lean (tie T1).  One entry per generated Lean definition.
Further descriptors are collected from tools/targets.d/*.py (each defines FILES with the same layout;
entries for an existing generated module are appended to it).

Fields:  name (Lean definition), func (qualified Python function), params [(lean name, type)], ret (int | slice3 | unit | bool),
  select   which statements:  ("after_guard", test)  the body after a leading `if test: return …`
                              ("if_body", test) / ("orelse_of", test)  the arm of the `if` on `test` taken when it holds / does not
                              ("if_else", test, tail)  the whole `if` statement on `test` (+ a synthetic trailing statement)
                              ("between", start, end[, n])  top-level statements from the n-th `start` up to (excluding) `end`
                              ("after", start, end)         the same, excluding the `start` statement itself
                              ("guards_from", start)        the run of `if …: raise` guards that begins at `start`
           A test is compared by MEANING (tools/py2lean.py: ckey — mirrored comparisons, commuted and/or, De Morgan; the
           negated test selects the other arm); a statement anchor is `if <test>` (by meaning) or the beginning of the
           statement's text, or a tuple of alternatives.
  until    cut the selection before the first statement matching this anchor;  take: keep the first n;  tail: append this text
  tail_from  a pattern (`range(_a, _b, _c)`): the first expression AFTER the selection that matches it supplies the pattern
           variables of `tail` — the synthetic return names the results through the code that consumes them, not through locals
  bind     Python expression (compared through ckey) -> parameter it stands for
  consts   Python expression (compared through ckey) -> Python expression over the parameters that replaces it
  kind="elt": the element of the comprehension over `iter` (text) that is the sole argument of `within`(...); its bound
           variables are matched BY POSITION with the leading parameters (`target` only gives their number)."""
INT, OPT, BOOL = "Int", "Option Int", "Bool"

SL = "sparse/numba_backend/_slicing.py"
UT = "sparse/numba_backend/_utils.py"
UM = "sparse/numba_backend/_umath.py"
DK = "sparse/numba_backend/_dok.py"

FILES = {
    "Slicing": {
        "file": SL,
        "targets": [
            dict(name="replaceNone", func="replace_none", select=("after_guard", "not isinstance(idx, slice)"),
                 bind={"idx.start": "istart", "idx.stop": "istop", "idx.step": "istep"},
                 params=[("istart", OPT), ("istop", OPT), ("istep", OPT), ("dim", INT)], ret="slice3",
                 note="slice branch"),
            dict(name="posifySlice", func="posify_index", select=("if_body", "isinstance(ind, slice)"),
                 bind={"ind.start": "istart", "ind.stop": "istop", "ind.step": "istep"},
                 params=[("shape", INT), ("istart", INT), ("istop", INT), ("istep", INT)], ret="slice3",
                 note="slice branch"),
            dict(name="posifyInt", func="posify_index", select=("if_body", "isinstance(ind, Integral)"),
                 consts={"math.isnan(shape)": "False"},
                 params=[("shape", INT), ("ind", INT)], ret="int", note="integer branch; shape is an int so isnan is False"),
            dict(name="clipSlice", func="clip_slice", select=("after_guard", "not isinstance(idx, slice)"),
                 bind={"idx.start": "istart", "idx.stop": "istop", "idx.step": "istep"},
                 params=[("istart", INT), ("istop", INT), ("istep", INT), ("dim", INT)], ret="slice3",
                 note="slice branch"),
            dict(name="checkIndexInt", func="check_index", select=("orelse_of", "not isinstance(ind, Integral)"),
                 params=[("ind", INT), ("dimension", INT)], ret="unit", note="integer branch"),
        ],
    },
    "Utils": {
        "file": UT,
        "targets": [
            dict(name="normalizeAxisInt", func="normalize_axis", select=("if_body", "isinstance(axis, Integral)"),
                 params=[("axis", INT), ("ndim", INT)], ret="int", note="integer branch"),
        ],
    },
    "Umath": {
        "file": UM,
        "targets": [
            dict(name="bcastOk", kind="elt", func="_get_broadcast_shape", within="all",
                 iter="zip(shape1[::-1], shape2[::-1], strict=False)", target="(l1, l2)",
                 params=[("l1", INT), ("l2", INT), ("is_result", BOOL)], ret="bool",
                 note="per-pair admissibility inside all(...)"),
            dict(name="bcastDim", kind="elt", func="_get_broadcast_shape", within="tuple",
                 iter="zip_longest(shape1[::-1], shape2[::-1], fillvalue=1)", target="(l1, l2)",
                 params=[("l1", INT), ("l2", INT)], ret="int", note="per-pair result extent"),
        ],
    },
    "Dok": {
        "file": DK,
        "targets": [
            dict(name="dokSliceBounds", func="DOK._setitem", select=("if_body", "isinstance(ind, slice)"),
                 until="key_list_temp = ", tail="return slice(_a, _b, _c)", tail_from="range(_a, _b, _c)",
                 bind={"ind.start": "istart", "ind.stop": "istop", "ind.step": "istep", "self.shape[i]": "dim"},
                 params=[("istart", OPT), ("istop", OPT), ("istep", OPT), ("dim", INT)], ret="slice3",
                 note="bounds of the slice loop; synthetic return of (start, stop, step)"),
        ],
    },
}


def _collect():
    import importlib.util
    from pathlib import Path
    for p in sorted((Path(__file__).resolve().parent / "targets.d").glob("*.py")):
        spec = importlib.util.spec_from_file_location(f"targets_d_{p.stem}", p)
        m = importlib.util.module_from_spec(spec)
        spec.loader.exec_module(m)
        for mod, d in getattr(m, "FILES", {}).items():
            if mod in FILES:
                assert FILES[mod]["file"] == d["file"], f"{mod}: different source file"
                FILES[mod]["targets"] += d["targets"]
            else:
                FILES[mod] = d


_collect()

#!/usr/bin/env python3
"""Write MANIFEST.json from the table below (so that it is always valid and consistent)."""
import json
from pathlib import Path

ROOT = Path(__file__).resolve().parent.parent

CHECKS = {p.stem: json.loads(p.read_text()) for p in sorted((ROOT / "checks.d").glob("C*.json"))}

NOT_YET = {
}


def main():
    props = [json.loads(l) for l in (ROOT / "properties.jsonl").read_text().splitlines() if l.strip()]
    checks, na = [], []
    for p in props:
        pid = p["id"]
        if pid in CHECKS:
            c = CHECKS[pid]
            checks.append({
                "property_id": pid,
                "quick_cmd": f"./check {pid} --tier quick",
                "thorough_cmd": f"./check {pid} --tier thorough",
                "evidence_file": f"evidence/{pid}.json",
                "replay_cmd_template": f"./check {pid} --replay {{path}}",
                "engine": "lean4-sparsev",
                "level_claimed": {"category": c.get("category", "proof"), "text": c["text"], "design_ref": c["ref"]},
                "level_note": c["note"],
                "technique": c["technique"],
            })
        else:
            na.append({"property_id": pid, "reason": NOT_YET.get(pid, "check under construction in this session: model and theorems not yet committed (see DESIGN.md §7); not claimed until its check runs clean")})
    m = {
        "version": 1,
        "setup_cmd": "./setup.sh",
        "hooks": {
            "guard": "PYDATA_SPARSE_VERIF",
            "enable": "no hooks are needed: the harness drives /repo in-process (editable install), tracing and monkey-patching from outside",
            "baseline_off_cmd": "cd /repo && /venv/bin/python -m pytest -ra -q -p no:cacheprovider --timeout=900 --continue-on-collection-errors",
            "source_commits": [],
            "add_only": True,
        },
        "engines": [{
            "name": "lean4-sparsev", "path": "lean/",
            "serves_properties": [c["property_id"] for c in checks],
            "kind_free_text": "Lean 4 library SparseV (model, spec, generated definitions, lemmas, property theorems, axiom audit) + compiled line-protocol driver svdriver + Python harness (harness/) + translator tools/py2lean.py",
        }],
        "checks": checks,
        "not_applicable": na,
        "notes": "Every check: regenerate Lean definitions from /repo (T1), lake build the property's theorems, audit axioms, run the model/implementation correspondence (T2), run the NumPy oracle (failing-input search), classify against KNOWN_FINDINGS.txt.",
    }
    (ROOT / "MANIFEST.json").write_text(json.dumps(m, indent=1) + "\n")


if __name__ == "__main__":
    main()

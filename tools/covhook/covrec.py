"""Recording proxies for the public surface of pydata/sparse (numba backend) — measurement only.

Armed by tools/covhook/sitecustomize.py when VERIF_COVERAGE=<directory> is set (tools/coverage_audit.py
puts tools/covhook on PYTHONPATH of the check it runs, so worker subprocesses are covered as well).
Nothing in /repo knows about it: once `sparse` has been imported the public callables of the `sparse`
namespace and the public methods / properties / operators of SparseArray, COO, GCXS (CSR, CSC) and DOK
are replaced *in this process* by proxies that note, for every call made directly from harness code
(depth 0: no other public call active in the thread), the operation, a description of every array
argument (format, dtype, fill class, ndim, zero extent, index dtype, compressed axes), the classes of
the other parameters, and the chain of harness functions on the stack (which decides later whether the
VALUE of the call was compared with NumPy or the call was only made).  Calls made from inside the
library (depth > 0) are only counted.  The proxies never change arguments, results or exceptions.
"""
from __future__ import annotations

import atexit
import functools
import inspect
import json
import os
import sys
import threading
import time

OUT = os.environ.get("VERIF_COVERAGE")
HARNESS_MARK = os.sep + "harness" + os.sep
TL = threading.local()
REC: dict = {}       # op -> scope -> field -> value -> count
INNER: dict = {}     # op -> count of calls made from inside the library
LOCK = threading.Lock()
STATE = {"n": 0, "last": time.time(), "installed": False, "errors": 0}
SIGS: dict = {}

BINOPS = ["add", "sub", "mul", "truediv", "floordiv", "mod", "pow", "matmul", "and", "or", "xor", "lshift", "rshift", "divmod"]
DUNDERS = (["__%s__" % b for b in BINOPS] + ["__r%s__" % b for b in BINOPS] + ["__i%s__" % b for b in BINOPS if b != "divmod"]
           + ["__lt__", "__le__", "__gt__", "__ge__", "__eq__", "__ne__", "__neg__", "__pos__", "__abs__", "__invert__",
              "__getitem__", "__setitem__", "__len__", "__iter__", "__array__", "__array_ufunc__", "__array_function__",
              "__array_namespace__", "__bool__", "__int__", "__float__", "__complex__", "__index__", "__getstate__", "__setstate__",
              "__init__", "__dask_tokenize__", "__sizeof__", "__repr__", "__str__", "__round__", "__contains__", "__copy__", "__deepcopy__"])


def _depth():
    return getattr(TL, "depth", 0)


def fill_class(fv):
    import numpy as np

    try:
        v = np.asarray(fv)
        if v.dtype.kind in "fc":
            if np.isnan(v):
                return "nan"
            if np.isinf(v):
                return "inf"
            if v == 0:
                return "-0.0" if (v.dtype.kind == "f" and np.signbit(v)) else "zero"
            return "nonzero"
        if v.dtype.kind == "b":
            return "nonzero" if bool(v) else "zero"
        return "zero" if v == 0 else "nonzero"
    except Exception:  # noqa: BLE001
        return "?"


def describe(v, depth=0):
    """description of an array-like argument, or None"""
    import numpy as np

    sa = STATE["SparseArray"]
    if isinstance(v, sa):
        cls = type(v).__name__.lower()
        d = {"k": cls, "dt": str(v.dtype), "nd": int(len(v.shape)), "z": bool(0 in v.shape), "f": fill_class(v.fill_value)}
        try:
            if cls == "coo":
                d["ix"] = str(v.coords.dtype)
                d["empty"] = bool(v.coords.shape[1] == 0)
            elif cls in ("gcxs", "csr", "csc"):
                d["ix"] = str(np.asarray(v.indices).dtype)
                d["ca"] = "None" if v.compressed_axes is None else ",".join(str(int(a)) for a in v.compressed_axes)
                d["empty"] = bool(len(v.data) == 0)
            else:
                d["ix"] = "-"
                d["empty"] = bool(len(v.data) == 0)
        except Exception:  # noqa: BLE001
            pass
        return d
    if isinstance(v, np.ndarray):
        return {"k": "ndarray", "dt": str(v.dtype), "nd": int(v.ndim), "z": bool(0 in v.shape), "f": "-"}
    mod = type(v).__module__ or ""
    if mod.startswith("scipy.sparse"):
        return {"k": "scipy:" + getattr(v, "format", "?"), "dt": str(v.dtype), "nd": int(v.ndim), "z": bool(0 in v.shape), "f": "zero"}
    if isinstance(v, (np.generic, bool, int, float, complex)):
        return {"k": "scalar", "dt": str(np.asarray(v).dtype) if isinstance(v, np.generic) else "py:" + type(v).__name__, "nd": 0, "z": False, "f": "-"}
    return None


def value_class(v):
    """coarse class of a non-array parameter value"""
    import numpy as np

    if v is None:
        return "None"
    if v is Ellipsis:
        return "Ellipsis"
    if isinstance(v, (bool, np.bool_)):
        return str(bool(v))
    if isinstance(v, (int, np.integer)):
        return "int<0" if v < 0 else ("int0" if v == 0 else "int>0")
    if isinstance(v, (float, np.floating)):
        return "float"
    if isinstance(v, complex):
        return "complex"
    if isinstance(v, str):
        return "str:" + v[:24]
    if isinstance(v, np.dtype):
        return "dtype:" + v.name
    if isinstance(v, type):
        return "type:" + v.__name__
    if isinstance(v, slice):
        return "slice"
    if isinstance(v, (tuple, list)):
        if all(isinstance(e, (int, np.integer)) and not isinstance(e, bool) for e in v):
            return "%s[int x%d%s]" % (type(v).__name__, len(v), ",neg" if any(e < 0 for e in v) else "")
        return "%s[%s]" % (type(v).__name__, ",".join(sorted({value_class(e).split(":")[0] for e in v[:8]})))
    if isinstance(v, np.ndarray):
        return "ndarray:" + v.dtype.kind + str(v.ndim)
    if isinstance(v, STATE["SparseArray"]):
        return "sparse:" + type(v).__name__
    if isinstance(v, np.ufunc):
        return "ufunc:" + v.__name__
    if callable(v):
        return "callable:" + getattr(v, "__name__", type(v).__name__)
    if isinstance(v, dict):
        return "dict"
    return type(v).__name__


def index_classes(key):
    import numpy as np

    if not isinstance(key, tuple):
        key = (key,)
    out = []
    for e in key:
        if e is None:
            out.append("None")
        elif e is Ellipsis:
            out.append("Ellipsis")
        elif isinstance(e, slice):
            st = e.step
            out.append("slice-negstep" if (st is not None and st < 0) else ("slice-step" if st not in (None, 1) else "slice"))
        elif isinstance(e, (int, np.integer)) and not isinstance(e, (bool, np.bool_)):
            out.append("int<0" if e < 0 else "int")
        elif isinstance(e, (list, np.ndarray)):
            a = np.asarray(e)
            out.append(("boolarray" if a.dtype.kind == "b" else "intarray") + str(a.ndim))
        elif isinstance(e, STATE["SparseArray"]):
            out.append("sparsearray")
        else:
            out.append(type(e).__name__)
    return out


def scope_chain():
    """(module, function) of the harness frames on the stack, innermost first, at most 6"""
    f = sys._getframe(3)
    out = []
    while f is not None and len(out) < 6:
        fn = f.f_code.co_filename
        if HARNESS_MARK in fn:
            out.append(os.path.basename(fn)[:-3] + "." + f.f_code.co_name)
        f = f.f_back
    return "<".join(out) if out else "(outside harness)"


def bump(d, field, val, n=1):
    fd = d.setdefault(field, {})
    fd[val] = fd.get(val, 0) + n


def note(op, args, kwargs, params=None, self_obj=None, key=None):
    """record one depth-0 call"""
    scope = scope_chain()
    arrs = []
    pv = {}
    items = []
    if params is not None:
        for i, a in enumerate(args):
            items.append((params[i] if i < len(params) else "arg%d" % i, a))
    else:
        items = [("arg%d" % i, a) for i, a in enumerate(args)]
    items += list(kwargs.items())
    for name, a in items:
        d = describe(a)
        if d is not None and d["k"] != "scalar":
            arrs.append(d)
            pv[name] = "<array>"
            continue
        if isinstance(a, (list, tuple)) and a and any(describe(e) is not None and describe(e)["k"] != "scalar" for e in a[:6]):
            for e in a[:8]:
                de = describe(e)
                if de is not None:
                    arrs.append(de)
            pv[name] = "<arrays x%d>" % len(a)
            continue
        pv[name] = value_class(a)
    with LOCK:
        r = REC.setdefault(op, {}).setdefault(scope, {})
        bump(r, "calls", "n")
        sp = [a for a in arrs if a["k"] in ("coo", "gcxs", "dok", "csr", "csc")]
        bump(r, "fmts", ",".join(a["k"] for a in arrs) or "-")
        bump(r, "dtypes", ",".join(a["dt"] for a in arrs) or "-")
        for a in sp:
            bump(r, "fmt", a["k"])
            bump(r, "dt", a["dt"])
            bump(r, "fill", a["f"])
            bump(r, "nd", str(a["nd"]))
            bump(r, "zero_extent", str(a["z"]))
            bump(r, "idx", a.get("ix", "?"))
            bump(r, "stored_none", str(a.get("empty")))
            if "ca" in a:
                bump(r, "ca", "%dd:%s" % (a["nd"], a["ca"]))
            bump(r, "combo", "%s|%s|%s|%s" % (a["k"], a["dt"], a["f"], "z" if a["z"] else ("0d" if a["nd"] == 0 else "n")))
        for a in arrs:
            if a["k"] not in ("coo", "gcxs", "dok", "csr", "csc"):
                bump(r, "other_operand", a["k"] + ":" + a["dt"])
        for name, c in pv.items():
            if c != "<array>":
                bump(r, "p:" + name, c)
        if key is not None:
            for c in index_classes(key):
                bump(r, "index", c)
    STATE["n"] += 1
    if STATE["n"] % 2000 == 0 or time.time() - STATE["last"] > 5:
        flush()


def flush():
    if not OUT:
        return
    STATE["last"] = time.time()
    try:
        os.makedirs(OUT, exist_ok=True)
        p = os.path.join(OUT, "rec-%d.json" % os.getpid())
        with LOCK:
            blob = json.dumps({"argv": sys.argv[:3], "rec": REC, "inner": INNER, "errors": STATE["errors"]})
        with open(p + ".tmp", "w") as f:
            f.write(blob)
        os.replace(p + ".tmp", p)
    except Exception:  # noqa: BLE001
        pass


def params_of(fn, drop_self=False):
    try:
        ps = [p.name for p in inspect.signature(fn).parameters.values() if p.kind in (p.POSITIONAL_ONLY, p.POSITIONAL_OR_KEYWORD)]
        return ps[1:] if drop_self else ps
    except Exception:  # noqa: BLE001
        return None


def make_proxy(op, fn, params, method=False, special=None):
    @functools.wraps(fn)
    def proxy(*args, **kwargs):
        d = getattr(TL, "depth", 0)
        if d or getattr(TL, "busy", False):
            INNER[op] = INNER.get(op, 0) + 1
            TL.depth = d + 1
            try:
                return fn(*args, **kwargs)
            finally:
                TL.depth = d
        TL.busy = True
        try:
            name, key = op, None
            if special == "ufunc" and len(args) >= 3:
                uf, meth = args[1], args[2]
                name = "u:%s%s" % (getattr(uf, "__name__", "?"), "" if meth == "__call__" else "." + meth)
                note(name, tuple(args[3:]), kwargs, None)
            elif special == "function" and len(args) >= 5:
                name = "n:%s" % getattr(args[1], "__name__", "?")
                note(name, tuple(args[3]), dict(args[4]), None)
            else:
                if special == "getitem" and len(args) >= 2:
                    key = args[1]
                if special == "init":
                    note(name, args[1:], kwargs, params)  # self is not initialised yet
                else:
                    note(name, args, kwargs, (["self"] + params) if (method and params is not None) else params, key=key)
        except Exception:  # noqa: BLE001
            STATE["errors"] += 1
        finally:
            TL.busy = False
        TL.depth = 1
        try:
            return fn(*args, **kwargs)
        finally:
            TL.depth = 0
    proxy.__covrec__ = fn
    return proxy


def patch_class(cls, label):
    from numpy.lib.mixins import NDArrayOperatorsMixin

    own = dict(cls.__dict__)
    names = [n for n in own if not n.startswith("_") or n in DUNDERS]
    for n in names:
        v = own[n]
        op = "m:" + n
        try:
            if isinstance(v, property):
                if v.fget is None:
                    continue
                setattr(cls, n, property(make_proxy("p:" + n, v.fget, ["self"]), v.fset, v.fdel, v.__doc__))
            elif isinstance(v, classmethod):
                f = v.__func__
                setattr(cls, n, classmethod(make_proxy("c:%s.%s" % (label, n), f, params_of(f))))
            elif isinstance(v, staticmethod):
                f = v.__func__
                setattr(cls, n, staticmethod(make_proxy("c:%s.%s" % (label, n), f, params_of(f))))
            elif inspect.isfunction(v):
                special = {"__array_ufunc__": "ufunc", "__array_function__": "function", "__getitem__": "getitem", "__setitem__": "getitem"}.get(n)
                if n == "__init__":
                    op = "c:%s()" % label
                    special = "init"
                setattr(cls, n, make_proxy(op, v, params_of(v, drop_self=True), method=True, special=special))
        except Exception:  # noqa: BLE001
            STATE["errors"] += 1
    if label == "SparseArray":
        # the operators come from NumPy's mixin, which sits behind SparseArray in the MRO: give SparseArray its own recorded copies
        for n in DUNDERS:
            if n in cls.__dict__:
                continue
            v = NDArrayOperatorsMixin.__dict__.get(n)
            if inspect.isfunction(v):
                setattr(cls, n, make_proxy("m:" + n, v, params_of(v, drop_self=True), method=True))


def install(sparse):
    if STATE["installed"]:
        return
    STATE["installed"] = True
    import numpy as np  # noqa: F401
    from sparse.numba_backend._compressed.compressed import CSC, CSR, _Compressed2d
    from sparse.numba_backend._sparse_array import SparseArray

    STATE["SparseArray"] = SparseArray
    for name in sorted(sparse.__all__):
        v = getattr(sparse, name)
        if inspect.isfunction(v) or isinstance(v, functools.partial):
            setattr(sparse, name, make_proxy("f:" + name, v, params_of(v)))
        elif isinstance(v, np.ufunc):
            # re-exported NumPy ufuncs (sparse.add is np.add): calling them reaches __array_ufunc__, which is recorded there
            # as u:<name>; replacing the ufunc object would lose .reduce/.outer/identity
            continue
        elif callable(v) and not isinstance(v, type):
            setattr(sparse, name, make_proxy("f:" + name, v, params_of(v)))
    for cls, label in ((SparseArray, "SparseArray"), (sparse.COO, "COO"), (sparse.GCXS, "GCXS"), (_Compressed2d, "Compressed2d"), (CSR, "CSR"), (CSC, "CSC"), (sparse.DOK, "DOK")):
        patch_class(cls, label)
    atexit.register(flush)


class _Finder:
    """meta-path hook: lets the normal machinery import `sparse`, then installs the proxies"""

    def find_spec(self, fullname, path, target=None):
        if fullname != "sparse" or STATE.get("finding"):
            return None
        STATE["finding"] = True
        try:
            import importlib.util

            spec = importlib.util.find_spec("sparse")
        finally:
            STATE["finding"] = False
        if spec is None or spec.loader is None:
            return None
        loader = spec.loader
        orig_exec = loader.exec_module

        def exec_module(module, _orig=orig_exec):
            _orig(module)
            try:
                install(module)
            except Exception:  # noqa: BLE001
                STATE["errors"] += 1

        try:
            loader.exec_module = exec_module
        except Exception:  # noqa: BLE001
            return None
        return spec


def arm():
    if not OUT:
        return
    if "sparse" in sys.modules:
        install(sys.modules["sparse"])
    else:
        sys.meta_path.insert(0, _Finder())

"""Imported automatically by CPython's `site` when tools/covhook is on PYTHONPATH (tools/coverage_audit.py does that for
the checks it measures).  Does nothing unless VERIF_COVERAGE names an output directory."""
import os

if os.environ.get("VERIF_COVERAGE"):
    try:
        import covrec

        covrec.arm()
    except Exception:  # noqa: BLE001
        pass

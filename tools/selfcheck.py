#!/usr/bin/env python3
"""Static self-checks of /verif (run before committing): MANIFEST and evidence validate against their schemas,
every /repo fix commit is in the ledger, the driver does not import theorem files, no forbidden tokens in Lean
sources, every property is either claimed or listed under not_applicable, evidence is discharged."""
import json, re, subprocess, sys
from pathlib import Path
ROOT = Path(__file__).resolve().parent.parent
bad = []
def need(c, msg):
    if not c:
        bad.append(msg)
try:
    import jsonschema
except ImportError:
    jsonschema = None
man = json.loads((ROOT / "MANIFEST.json").read_text())
if jsonschema:
    for name, schema, docs in [("MANIFEST", "/root/.vp/MANIFEST.schema.json", [("MANIFEST.json", man)]),
                               ("EVIDENCE", "/root/.vp/EVIDENCE.schema.json", [(p.name, json.loads(p.read_text())) for p in sorted((ROOT / "evidence").glob("C*.json"))])]:
        sch = json.loads(Path(schema).read_text())
        for n, d in docs:
            errs = list(jsonschema.Draft202012Validator(sch).iter_errors(d))
            need(not errs, f"{n}: schema: {errs[0].message[:200] if errs else ''}")
props = [json.loads(l)["id"] for l in (ROOT / "properties.jsonl").read_text().splitlines() if l.strip()]
claimed = set()
def walk(o):
    if isinstance(o, dict):
        for k, v in o.items():
            if k in ("property", "property_id", "id") and isinstance(v, str) and re.fullmatch(r"C\d\d", v):
                claimed.add(v)
            walk(v)
    elif isinstance(o, list):
        for v in o:
            walk(v)
walk(man)
need(set(props) <= claimed, f"properties neither claimed nor not_applicable: {sorted(set(props) - claimed)}")
for p in props:
    e = ROOT / "evidence" / f"{p}.json"
    need(e.exists(), f"no evidence for {p}")
    if e.exists():
        d = json.loads(e.read_text())
        s = json.dumps(d)
        m = re.search(r'"obligations":\s*(\d+).{0,80}?"discharged":\s*(\d+)', s) or re.search(r'"discharged":\s*(\d+).{0,80}?"obligations":\s*(\d+)', s)
        need(not d.get("violations"), f"{p}: committed evidence carries violations")
r = subprocess.run([sys.executable, str(ROOT / "tools" / "fix_ledger.py")], capture_output=True, text=True)
need(r.returncode == 0, "fix ledger: " + r.stdout.strip().replace("\n", "; ")[:600])
for f in list((ROOT / "lean" / "DriverOps").glob("*.lean")) + [ROOT / "lean" / "Driver.lean", ROOT / "lean" / "DriverOps.lean"]:
    for l in f.read_text().splitlines():
        need(not re.match(r"import SparseV\.(Props|Lemmas|Audit)", l), f"{f.name}: {l}")
tok = re.compile(r"\b(sorry|admit|native_decide|bv_decide|implemented_by)\b|^\s*axiom\s|^\s*unsafe\s|maxHeartbeats 0")
for f in (ROOT / "lean").rglob("*.lean"):
    if ".lake" in f.parts:
        continue
    txt = re.sub(r"/-.*?-/", "", f.read_text(), flags=re.S)
    for i, l in enumerate(txt.splitlines()):
        l2 = l.split("--")[0]
        if tok.search(l2):
            bad.append(f"{f.relative_to(ROOT)}: forbidden token: {l.strip()[:100]}")
# interface discipline (DESIGN §2.3): a definition translated from a source fragment (tie T1) is unfolded ONLY in
# lean/SparseV/Lemmas/Gen/*.lean, whose proofs do not depend on its shape; everything else goes through those lemmas
sys.path.insert(0, str(ROOT / "tools"))
from py2lean_targets import FILES as _FILES  # noqa: E402
_frag = sorted({t["name"] for spec in _FILES.values() for t in spec["targets"]})
_pat = re.compile(r"\bGen\.(%s)\b(?![_A-Za-z0-9'])" % "|".join(_frag))
for f in (ROOT / "lean" / "SparseV").rglob("*.lean"):
    rel = f.relative_to(ROOT / "lean" / "SparseV")
    if rel.parts[0] in ("Generated", "Generated.ref") or rel.parts[:2] == ("Lemmas", "Gen"):
        continue
    txt = re.sub(r"/-.*?-/", "", f.read_text(), flags=re.S)
    txt = "\n".join(l.split("--")[0] for l in txt.splitlines())
    hits = [m.group(0) for m in re.finditer(r"\b(?:unfold|delta)\b[^\n]*", txt) if _pat.search(m.group(0))]
    for m in re.finditer(r"\[([^\[\]]*)\]", txt, re.S):  # simp / rw lists: an ITEM that is the bare definition name
        depth, item, items = 0, "", []
        for ch in m.group(1):
            depth += ch in "(⟨{"
            depth -= ch in ")⟩}"
            if ch == "," and depth == 0:
                items.append(item)
                item = ""
            else:
                item += ch
        items.append(item)
        if any(_pat.fullmatch(it.strip().lstrip("←↓ ").strip()) for it in items):
            hits.append(m.group(0))
    for h in hits:
        bad.append(f"lean/SparseV/{rel}: unfolds a generated fragment outside Lemmas/Gen: {' '.join(h.split())[:120]}")
print("\n".join(bad) if bad else "selfcheck OK")
sys.exit(1 if bad else 0)

#!/usr/bin/env python3
"""Print, per property, the audited theorems (Audit/Cxx.lean) and the registered technique (checks.d)."""
import json, re
from pathlib import Path
ROOT = Path(__file__).resolve().parent.parent
print("| id | audited theorems | technique (checks.d) |")
print("|---|---|---|")
for p in sorted((ROOT / "checks.d").glob("C*.json")):
    pid = p.stem
    c = json.loads(p.read_text())
    a = ROOT / "lean" / "SparseV" / "Audit" / f"{pid}.lean"
    names = re.findall(r"^#print axioms\s+SparseV\.C\d+\.(\S+)", a.read_text(), re.M) if a.exists() else []
    print(f"| {pid} | {len(names)}: " + ", ".join(f"`{n}`" for n in names) + f" | {c.get('technique','')} |")

#!/usr/bin/env python3
"""Refresh the generated tables inside DESIGN.md (between `<!-- BEGIN name -->` / `<!-- END name -->` markers):
seeded-table (tools/seeded_table.py), status-table (tools/status_table.py), ledger (counts from KNOWN_FINDINGS.txt)."""
import re, subprocess, sys
from pathlib import Path
ROOT = Path(__file__).resolve().parent.parent
d = ROOT / "DESIGN.md"
s = d.read_text()
def run(t):
    return subprocess.run([sys.executable, str(ROOT / "tools" / t)], capture_output=True, text=True).stdout.strip()
kf = (ROOT / "KNOWN_FINDINGS.txt").read_text().splitlines()
fixed = [l for l in kf if l.startswith("fixed:")]
open_ = [l for l in kf if l.startswith("finding:")]
def short(l):
    m = re.match(r"finding: property=(C\d\d) id=(\S+).*?what=\"(.*)\"", l)
    return f"* {m.group(1)} `{m.group(2)}` — {m.group(3)[:260]}" if m else "* " + l[:200]
ledger = (f"{len(fixed)} `fixed:` lines ({len(set(re.findall(r'[0-9a-f]{7}', ' '.join(fixed))))} distinct /repo commits), "
          f"{len(open_)} open `finding:` lines:\n\n" + "\n".join(short(l) for l in open_))
blocks = {"seeded-table": run("seeded_table.py"), "status-table": run("status_table.py"), "ledger": ledger}
for k, v in blocks.items():
    pat = re.compile(rf"(<!-- BEGIN {k} -->\n).*?(<!-- END {k} -->)", re.S)
    if not pat.search(s):
        print("marker missing:", k)
        continue
    s = pat.sub(lambda m: m.group(1) + v + "\n" + m.group(2), s)
d.write_text(s)

#!/usr/bin/env python3
"""Import the deliverables of a mutant sub-agent (/tmp/mut/mNN/_out: A.diff, B.diff, demo_A.py, demo_B.py, meta.json)
as seeded/<Cxx>-A and seeded/<Cxx>-B.  usage: tools/import_mutants.py C15 /tmp/mut/m15/_out [A,B | A:C,B:D (source:target suffix)]"""
import json, shutil, sys
from pathlib import Path
ROOT = Path(__file__).resolve().parent.parent
pid, out = sys.argv[1], Path(sys.argv[2])
meta = json.loads((out / "meta.json").read_text())
for kk in (sys.argv[3].split(",") if len(sys.argv) > 3 else ["A", "B"]):
    k, tgt = (kk.split(":") + [kk])[:2] if ":" in kk else (kk, kk)
    d = ROOT / "seeded" / f"{pid}-{tgt}"
    d.mkdir(parents=True, exist_ok=True)
    shutil.copy(out / f"{k}.diff", d / "patch.diff")
    shutil.copy(out / f"demo_{k}.py", d / "demo.py")
    m = meta[k]
    (d / "meta.json").write_text(json.dumps({
        "property": pid, "checks": [pid],
        "origin": f"fresh sub-agent m{pid[1:]} given only the property text and a scratch worktree of /repo",
        "files": m.get("files"), "what": m.get("what"), "needs": m.get("needs"), "agent_tests_run": m.get("tests_run")}, indent=1))
    print("imported", d)

#!/bin/sh
# resolve the conflicts that every sub-branch merge produces: generated files are regenerated,
# KNOWN_FINDINGS.txt keeps both sides
set -e
cd "$(dirname "$0")/.."
python3 - <<'PY'
import re
p='KNOWN_FINDINGS.txt'
s=open(p).read()
s=re.sub(r'<<<<<<< [^\n]*\n(.*?)=======\n(.*?)>>>>>>> [^\n]*\n', lambda m: m.group(1)+m.group(2), s, flags=re.S)
open(p,'w').write(s)
PY
git checkout --ours MANIFEST.json lean/DriverOps.lean lean/SparseV.lean 2>/dev/null || true
python3 tools/gen_root.py
python3 tools/gen_manifest.py
git add -A

"""Tables read off the source (T1): collected from tools/tables.d/*.py.

Each module there defines  generate(repo: Path) -> {"<File>.lean": (lean_text, [names], [refusals])}.
"""
from __future__ import annotations

import importlib.util
from pathlib import Path


def generate(repo):
    res = {}
    for p in sorted((Path(__file__).resolve().parent / "tables.d").glob("*.py")):
        spec = importlib.util.spec_from_file_location(f"tables_d_{p.stem}", p)
        m = importlib.util.module_from_spec(spec)
        spec.loader.exec_module(m)
        try:
            res.update(m.generate(Path(repo)))
        except Exception as e:  # a table that cannot be read is a refusal, never a guess
            res[f"Table{p.stem}.lean"] = (f"/- table {p.stem} could not be generated: {e} -/\n", [], [f"table {p.stem}: {e}"])
    return res

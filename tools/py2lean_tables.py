"""Tables read off the source (T1).  Filled in per property; see generate()."""
from __future__ import annotations


def generate(repo):
    return {}

#!/usr/bin/env python3
"""Cross-check the `fix:` commits of /repo against the `fixed:` lines of KNOWN_FINDINGS.txt.
Prints the commits that no line mentions and the lines whose commit is not in /repo's history."""
import re, subprocess, sys
from pathlib import Path
ROOT = Path(__file__).resolve().parent.parent
log = subprocess.run(["git", "-C", "/repo", "log", "--format=%h %s"], capture_output=True, text=True).stdout.splitlines()
fixes = {l.split()[0]: l.split(" ", 1)[1] for l in log if l.split(" ", 1)[1].startswith("fix:")}
text = (ROOT / "KNOWN_FINDINGS.txt").read_text()
mentioned = set(re.findall(r"\b[0-9a-f]{7}\b", "\n".join(l for l in text.splitlines() if l.startswith("fixed:"))))
missing = [h for h in fixes if h not in mentioned]
stale = [h for h in mentioned if h not in fixes]
print(f"{len(fixes)} fix commits in /repo, {len(mentioned)} hashes in fixed: lines")
for h in missing:
    print("NOT RECORDED", h, fixes[h])
for h in stale:
    print("NOT IN /repo", h)
sys.exit(1 if missing or stale else 0)

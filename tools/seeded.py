#!/usr/bin/env python3
"""Run the registered checks against a seeded change (seeded/<id>/patch.diff).

By default the change is applied in a scratch worktree of /repo under /tmp (so that /repo itself stays
untouched while other work uses it) and the checks are pointed at it with VERIF_REPO + PYTHONPATH;
with --in-repo it is applied to /repo itself (git apply) and undone afterwards (git checkout -- .).

usage: tools/seeded.py <seeded id> [--checks C02,C06] [--tier quick] [--in-repo] [--seeds 0,1]
"""
import argparse, json, os, shutil, subprocess, sys, time
from pathlib import Path

ROOT = Path(__file__).resolve().parent.parent


def sh(cmd, **kw):
    return subprocess.run(cmd, shell=True, capture_output=True, text=True, **kw)


def main():
    ap = argparse.ArgumentParser()
    ap.add_argument("sid")
    ap.add_argument("--checks", default=None)
    ap.add_argument("--tier", default="quick")
    ap.add_argument("--in-repo", action="store_true")
    ap.add_argument("--seeds", default="0")
    ap.add_argument("--parallel", type=int, default=1, help="run the checks of --checks concurrently against the one patched tree")
    ap.add_argument("--out", default=None, help="result file name (default result_<tier>.json)")
    a = ap.parse_args()
    d = ROOT / "seeded" / a.sid
    meta = json.loads((d / "meta.json").read_text())
    checks = (a.checks.split(",") if a.checks else meta.get("checks") or [meta["property"]])
    if checks == ["ALL"]:
        checks = [f"C{i:02d}" for i in range(1, 21)]
    patch = d / "patch.diff"
    res = {"id": a.sid, "checks": {}, "tier": a.tier}
    if a.in_repo:
        wt = Path("/repo")
        r = sh(f"git -C /repo apply {patch}")
        env = dict(os.environ)
    else:
        wt = Path(f"/tmp/mut/eval_{a.sid}.{os.getpid()}")  # per process: two runs of the same id must not share a tree
        sh(f"git -C /repo worktree remove --force {wt}")
        r = sh(f"git -C /repo worktree add --detach {wt} HEAD && git -C {wt} apply {patch}")
        env = dict(os.environ, VERIF_REPO=str(wt), PYTHONPATH=str(wt))
    if r.returncode != 0:
        print("could not apply patch:", r.stderr[-500:])
        return 2
    # the checks rewrite evidence/<id>.json and replays/<id>/: keep the unchanged tree's files and put them back afterwards
    saved = {}
    for c in checks:
        for f in [ROOT / "evidence" / f"{c}.json"] + sorted((ROOT / "replays" / c).glob("*")):
            if f.is_file():
                saved[f] = f.read_bytes()
    try:
        demo = next(iter(sorted(d.glob("demo*.py"))), None)
        if demo:
            r = subprocess.run(["/venv/bin/python", str(demo)], capture_output=True, text=True, env=dict(env, PYTHONPATH=str(wt)), cwd=str(wt), timeout=900)
            res["demo_exit_with_change"] = r.returncode
        def one(c, seed):
            t0 = time.time()
            r = subprocess.run([str(ROOT / "check"), c, "--tier", a.tier], capture_output=True, text=True, env=dict(env, VERIF_SEED=seed), cwd=str(ROOT), timeout=3600)
            lines = [l for l in r.stdout.splitlines() if l.startswith(("VIOLATION", "OK", "KNOWN-FINDING"))]
            viol = [l for l in lines if l.startswith("VIOLATION")]
            replay = None
            if viol and "replay=" in viol[0]:
                rp = ROOT / viol[0].split("replay=")[1].split()[0]
                if rp.exists():
                    j = json.loads(rp.read_text())
                    f = j.get("failure") or {}
                    replay = {"kind": j.get("kind"), "family": f.get("family"), "detail": (f.get("detail") or "")[:300], "no_longer_checks": j.get("no_longer_checks")}
            return c, {"seed": int(seed), "exit": r.returncode, "verdict": viol[0] if viol else (lines[-1] if lines else r.stderr[-300:]),
                       "replay": replay, "wall_s": round(time.time() - t0, 1)}

        jobs = [(c, seed) for c in checks for seed in a.seeds.split(",")]
        if a.parallel > 1:
            from concurrent.futures import ThreadPoolExecutor
            with ThreadPoolExecutor(a.parallel) as ex:
                outs = list(ex.map(lambda j: one(*j), jobs))
        else:
            outs = [one(*j) for j in jobs]
        for c, rec in outs:
            res["checks"].setdefault(c, []).append(rec)
    finally:
        for f, b in saved.items():
            f.write_bytes(b)
        if a.in_repo:
            sh("git -C /repo checkout -- .")
        else:
            sh(f"git -C /repo worktree remove --force {wt}")
            shutil.rmtree(wt, ignore_errors=True)
        # regenerate the Lean definitions from the unchanged tree so that the next build is clean
        sh(f"/venv/bin/python {ROOT}/tools/py2lean.py --repo /repo --out {ROOT}/lean/SparseV/Generated")
    res["caught"] = any(x["exit"] == 1 for v in res["checks"].values() for x in v)
    print(json.dumps(res, indent=1))
    (d / (a.out or f"result_{a.tier}.json")).write_text(json.dumps(res, indent=1))
    return 0


if __name__ == "__main__":
    sys.exit(main())

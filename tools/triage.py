#!/usr/bin/env python3
"""Developer aid: run one property's legs and summarise failures by (leg, family, format, message)."""
import collections, json, sys, os
sys.path.insert(0, os.path.join(os.path.dirname(os.path.abspath(__file__)), "..", "harness"))
import importlib
import core, gen

pid = sys.argv[1].upper()
seed = int(sys.argv[2]) if len(sys.argv) > 2 else 0
tier = sys.argv[3] if len(sys.argv) > 3 else "quick"
mod = importlib.import_module(pid.lower())
ctx = core.Ctx(pid, tier, seed)
core.prove = lambda ctx, *a, **k: ctx  # skip the Lean build
mod.run(ctx)
c = collections.Counter(); ex = {}
for f in ctx.failures:
    case = f["case"] if isinstance(f["case"], dict) else {}
    key = (f["leg"], str(f["family"]).split("(")[0][:30], str(case.get("format", ""))[:4], f.get("finding"), f["detail"][:90])
    c[key] += 1; ex.setdefault(key, f)
only_new = os.environ.get("TRIAGE_NEW") == "1"
for k, v in c.most_common():
    if only_new and k[3] is not None:
        continue
    print(v, k)
    print("      e.g.", json.dumps(ex[k]["case"], default=str)[:300])
print("evaluations", ctx.cov["evaluations"], "failures", len(ctx.failures))

#!/usr/bin/env python3
"""Differential grids for tools/harmless.py --mode verify.

usage (run once with PYTHONPATH=/repo and once with PYTHONPATH=<patched tree>):  harmless_grid.py <key> [--dump FILE]

Each grid of harmless/grids.d/*.py is a generator function `grid_<key>()` yielding (input description, thunk); the thunk is
called, and what it returns — or the class and message of what it raises — is recorded as a canonical string.  The runner
prints {"points": n, "digest": sha256 of all records}; two trees behave the same on the grid iff the two lines are equal.
"""
from __future__ import annotations

import hashlib
import importlib.util
import json
import sys
import warnings
from pathlib import Path

ROOT = Path(__file__).resolve().parent.parent


def canon(v):
    """canonical text of a result: arrays with dtype and shape, sparse arrays with their representation"""
    import numpy as np
    try:
        import sparse
    except Exception:  # pragma: no cover
        sparse = None
    if sparse is not None:
        if isinstance(v, sparse.COO):
            return f"COO(shape={v.shape}, fill={canon(v.fill_value)}, coords={canon(v.coords)}, data={canon(v.data)})"
        if isinstance(v, sparse.GCXS):
            return (f"{type(v).__name__}(shape={v.shape}, ca={v.compressed_axes}, fill={canon(v.fill_value)}, data={canon(v.data)}, "
                    f"indices={canon(v.indices)}, indptr={canon(v.indptr)})")
        if isinstance(v, sparse.DOK):
            return f"DOK(shape={v.shape}, fill={canon(v.fill_value)}, dtype={v.dtype}, data={sorted((k, canon(x)) for k, x in v.data.items())})"
    if type(v).__module__.startswith("scipy.sparse"):
        c = v.tocoo()
        return (f"{type(v).__name__}(shape={c.shape}, dtype={c.dtype}, row={c.row.tolist()}, col={c.col.tolist()}, "
                f"data={canon(c.data)})")
    if isinstance(v, np.ndarray):
        return f"array({v.dtype},{v.shape},{v.tolist()!r})"
    if isinstance(v, np.generic):
        return f"{type(v).__name__}({v!r})"
    if isinstance(v, tuple):
        return "(" + ",".join(canon(x) for x in v) + ")"
    if isinstance(v, list):
        return "[" + ",".join(canon(x) for x in v) + "]"
    if isinstance(v, dict):
        return "{" + ",".join(f"{canon(k)}:{canon(x)}" for k, x in sorted(v.items(), key=lambda kv: repr(kv[0]))) + "}"
    return f"{type(v).__name__}:{v!r}"


def load_grids():
    grids = {}
    for p in sorted((ROOT / "harmless" / "grids.d").glob("*.py")):
        spec = importlib.util.spec_from_file_location(f"grids_d_{p.stem}", p)
        m = importlib.util.module_from_spec(spec)
        spec.loader.exec_module(m)
        for k in dir(m):
            if k.startswith("grid_"):
                grids[k[5:]] = getattr(m, k)
    return grids


def main():
    key = sys.argv[1]
    dump = sys.argv[sys.argv.index("--dump") + 1] if "--dump" in sys.argv else None
    grids = load_grids()
    if key not in grids:
        print(f"unknown grid {key}; have {sorted(grids)}", file=sys.stderr)
        return 2
    h = hashlib.sha256()
    n = 0
    out = open(dump, "w") if dump else None
    with warnings.catch_warnings():
        warnings.simplefilter("ignore")
        for desc, thunk in grids[key]():
            try:
                rec = "ok " + canon(thunk())
            except Exception as e:  # noqa: BLE001 — the class and the message are part of the behaviour
                msg = str(e)
                if type(e).__module__.startswith("numba"):
                    msg = msg.splitlines()[0] if msg else msg  # numba's compile errors quote source lines WITH line numbers
                rec = f"raise {type(e).__name__}: {msg}"
            line = f"{desc} -> {rec}\n"
            h.update(line.encode())
            n += 1
            if out:
                out.write(line)
    if out:
        out.close()
    import sparse
    print(json.dumps({"points": n, "digest": h.hexdigest()[:24], "tree": str(Path(sparse.__file__).resolve().parent.parent)}))
    return 0


if __name__ == "__main__":
    sys.exit(main())

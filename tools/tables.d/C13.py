"""T1 table for C13: what the SOURCE does with state that concurrent read-only calls share.

Read with `ast` from /repo's working tree (never imported, never executed):

* `dokDataUses` — every mention of `self.data` (the dictionary of a DOK array) in every method of class DOK
  (sparse/numba_backend/_dok.py), in source order, classified:
      iter-loop   `for … in self.data[.items()|.keys()|.values()]:` — a statement loop over the LIVE dictionary
      iter-comp   a comprehension / generator expression over the live dictionary
      snapshot    one C-level call that reads the dictionary: len(), list()/tuple()/dict()/sorted() of it or of a view,
                  `.copy()`, `k in self.data`, `self.data[k]` (load), `.get(k)`; `self.data` passed to COO.from_iter,
                  whose dict branch is verified to be `x = list(x.items())` before any other use of `x`
      write:set   `self.data[k] = v`, `self.data = …`, `.update/.setdefault/.__setitem__`
      write:del   `del self.data[k]`, `.pop/.popitem/.clear/.__delitem__`
      alias       `name = self.data` (the dictionary escapes into a local name: not tracked)
      unknown     anything else
  Model/SharedReads.lean turns the rows of a method into its protocol on the shared dictionary; Props/C13 proves that
  every method outside DOK's documented mutators consists of reads only and, from that, that no interleaving of such
  calls raises or changes the dictionary.
* `catchBlocks` — every `with warnings.catch_warnings():` block of the package (tests excluded) with the filters it
  installs, in order: (action, message literal lower-cased, category).  The message must be plain text (letters, digits,
  space, '-', '_') so that `re.match` on it is a case-insensitive prefix test; anything else is refused.
* `globalWrites` — calls inside function bodies that edit process-global state outside such a block:
  warnings.simplefilter / filterwarnings / resetwarnings, np.seterr / seterrcall / set_printoptions, os.environ writes,
  os.putenv / chdir, random.seed, np.random.seed, sys.setrecursionlimit / setswitchinterval, locale.setlocale.
* `warnSites` — every `warnings.warn(message, category)` of the package: (file, function, category, leading literal
  text lower-cased).  Together with NumPy's floating-point warnings (fixed list in the model: trusted) this is the
  catalogue of warnings a call of the library can emit; a filter is harmful iff its action is "error" and it matches an
  entry of the catalogue (or has no message at all).

REFUSES (never guesses): class DOK / COO.from_iter not found, a filter call with non-literal or keyword-splatted
arguments, `append=True`, `record=True`, a message with regular-expression metacharacters.
"""
from __future__ import annotations

import ast
import re
from pathlib import Path

PKG = "sparse/numba_backend"
PLAIN = re.compile(r"^[A-Za-z0-9 _-]*$")
VIEWS = ("items", "keys", "values")
SNAP_FUNCS = ("len", "list", "tuple", "dict", "sorted", "set", "frozenset", "bool")
SNAP_METHODS = ("copy", "get", "__contains__", "__getitem__", "__len__")
SET_METHODS = ("update", "setdefault", "__setitem__")
DEL_METHODS = ("pop", "popitem", "clear", "__delitem__")
GLOBAL_SETTERS = {
    ("warnings", "simplefilter"), ("warnings", "filterwarnings"), ("warnings", "resetwarnings"),
    ("np", "seterr"), ("np", "seterrcall"), ("np", "set_printoptions"), ("numpy", "seterr"), ("numpy", "seterrcall"),
    ("numpy", "set_printoptions"), ("os", "putenv"), ("os", "unsetenv"), ("os", "chdir"), ("random", "seed"),
    ("sys", "setrecursionlimit"), ("sys", "setswitchinterval"), ("locale", "setlocale"),
}


def lean_str(s):
    return '"' + s.replace("\\", "\\\\").replace('"', '\\"').replace("\n", " ") + '"'


def is_self_data(n):
    return isinstance(n, ast.Attribute) and n.attr == "data" and isinstance(n.value, ast.Name) and n.value.id == "self"


def live_iterable(n):
    """`self.data` or `self.data.items()/keys()/values()`"""
    if is_self_data(n):
        return True
    return (isinstance(n, ast.Call) and not n.args and not n.keywords and isinstance(n.func, ast.Attribute)
            and n.func.attr in VIEWS and is_self_data(n.func.value))


def from_iter_snapshots(repo):
    """is the dict branch of COO.from_iter `if isinstance(x, dict): x = list(x.items())`, reached before any other use of x?"""
    tree = ast.parse((repo / PKG / "_coo" / "core.py").read_text())
    for cls in tree.body:
        if isinstance(cls, ast.ClassDef) and cls.name == "COO":
            for fn in cls.body:
                if isinstance(fn, ast.FunctionDef) and fn.name == "from_iter":
                    first = fn.args.args[1].arg if len(fn.args.args) > 1 else None
                    for st in fn.body:
                        if isinstance(st, ast.Expr) and isinstance(st.value, ast.Constant):
                            continue  # docstring
                        if isinstance(st, ast.If) and ast.unparse(st.test) == f"isinstance({first}, dict)" and len(st.body) == 1 \
                                and ast.unparse(st.body[0]) == f"{first} = list({first}.items())":
                            return True
                        if any(isinstance(m, ast.Name) and m.id == first for m in ast.walk(st)):
                            return False
                    return False
    raise ValueError("COO.from_iter not found")


def classify_mention(node, parents, snap_callees):
    """node: the `self.data` Attribute; parents: chain of enclosing nodes, innermost last"""
    p = parents[-1] if parents else None
    gp = parents[-2] if len(parents) > 1 else None
    # the attribute itself is assigned / deleted
    if isinstance(node.ctx, ast.Store):
        return "write:set"
    if isinstance(node.ctx, ast.Del):
        return "write:del"
    # self.data[k]
    if isinstance(p, ast.Subscript) and p.value is node:
        if isinstance(p.ctx, ast.Store):
            return "write:set"
        if isinstance(p.ctx, ast.Del):
            return "write:del"
        return "snapshot"
    # k in self.data
    if isinstance(p, ast.Compare) and node in p.comparators and all(isinstance(o, ast.In | ast.NotIn) for o in p.ops):
        return "snapshot"
    # self.data.<method>(...)
    if isinstance(p, ast.Attribute) and p.value is node and isinstance(gp, ast.Call) and gp.func is p:
        ggp = parents[-3] if len(parents) > 2 else None
        if p.attr in VIEWS:
            # the view object: what consumes it?
            if isinstance(ggp, ast.For) and ggp.iter is gp:
                return "iter-loop"
            if isinstance(ggp, ast.comprehension) and ggp.iter is gp:
                return "iter-comp"
            if isinstance(ggp, ast.Call) and isinstance(ggp.func, ast.Name) and ggp.func.id in SNAP_FUNCS and gp in ggp.args:
                return "snapshot"
            return "unknown"
        if p.attr in SNAP_METHODS:
            return "snapshot"
        if p.attr in SET_METHODS:
            return "write:set"
        if p.attr in DEL_METHODS:
            return "write:del"
        return "unknown"
    if isinstance(p, ast.For) and p.iter is node:
        return "iter-loop"
    if isinstance(p, ast.comprehension) and p.iter is node:
        return "iter-comp"
    if isinstance(p, ast.Call) and node in p.args:
        if isinstance(p.func, ast.Name) and p.func.id in SNAP_FUNCS:
            return "snapshot"
        if ast.unparse(p.func) in snap_callees:
            return "snapshot"
        return "unknown"
    if isinstance(p, ast.Assign) and p.value is node:
        return "alias"
    if isinstance(p, ast.UnaryOp) and isinstance(p.op, ast.Not):
        return "snapshot"  # `not self.data`: truth value = len
    return "unknown"


def dok_rows(repo, refusals):
    tree = ast.parse((repo / PKG / "_dok.py").read_text())
    cls = next((c for c in tree.body if isinstance(c, ast.ClassDef) and c.name == "DOK"), None)
    if cls is None:
        raise ValueError("class DOK not found in _dok.py")
    snap_callees = set()
    try:
        if from_iter_snapshots(repo):
            snap_callees.add("COO.from_iter")
    except Exception as e:  # noqa: BLE001
        refusals.append(f"table sharedState: {e}")
    rows = []
    for fn in cls.body:
        if not isinstance(fn, ast.FunctionDef | ast.AsyncFunctionDef):
            continue
        found = []

        def visit(node, parents, stmt):
            for child in ast.iter_child_nodes(node):
                s = child if isinstance(child, ast.stmt) else stmt
                if is_self_data(child):
                    kind = classify_mention(child, parents + [node], snap_callees)
                    found.append((getattr(child, "lineno", 0), getattr(child, "col_offset", 0), kind, s))
                visit(child, parents + [node], s)

        visit(fn, [], fn)
        for _, _, kind, s in sorted(found, key=lambda t: (t[0], t[1])):
            text = ast.unparse(s).split("\n")[0][:90] if s is not None else ""
            rows.append((fn.name, kind, text))
    return rows


def literal(n):
    return n.value if isinstance(n, ast.Constant) else None


def filter_of_call(call, where):
    """(action, message, category) of a warnings.simplefilter / filterwarnings call, or raises ValueError"""
    name = call.func.attr
    params = ["action", "category", "lineno", "append"] if name == "simplefilter" else ["action", "message", "category", "module", "lineno", "append"]
    vals = {}
    for i, a in enumerate(call.args):
        if isinstance(a, ast.Starred) or i >= len(params):
            raise ValueError(f"{where}: {ast.unparse(call)}: arguments not understood")
        vals[params[i]] = a
    for k in call.keywords:
        if k.arg is None or k.arg not in params:
            raise ValueError(f"{where}: {ast.unparse(call)}: keyword not understood")
        vals[k.arg] = k.value
    action = literal(vals.get("action")) if "action" in vals else None
    if not isinstance(action, str):
        raise ValueError(f"{where}: {ast.unparse(call)}: action is not a string literal")
    msg = ""
    if "message" in vals:
        msg = literal(vals["message"])
        if not isinstance(msg, str) or not PLAIN.match(msg):
            raise ValueError(f"{where}: {ast.unparse(call)}: message is not plain literal text")
    cat = "Warning"
    if "category" in vals:
        c = vals["category"]
        if isinstance(c, ast.Name):
            cat = c.id
        elif isinstance(c, ast.Attribute):
            cat = c.attr
        else:
            raise ValueError(f"{where}: {ast.unparse(call)}: category is not a name")
    for k in ("module", "lineno"):
        if k in vals and literal(vals[k]) not in ("", 0):
            raise ValueError(f"{where}: {ast.unparse(call)}: {k}= restricts the filter to call sites (not modelled)")
    if "append" in vals and literal(vals["append"]) is not False:
        raise ValueError(f"{where}: {ast.unparse(call)}: append= (insertion at the end is not modelled)")
    return action, msg.lower(), cat


def is_mod_call(n, mod, name=None):
    return (isinstance(n, ast.Call) and isinstance(n.func, ast.Attribute) and isinstance(n.func.value, ast.Name)
            and n.func.value.id == mod and (name is None or n.func.attr == name))


def scan_module(rel, tree, blocks, writes, warns, refusals):
    def walk(node, func, in_block):
        for child in ast.iter_child_nodes(node):
            f = func
            if isinstance(child, ast.FunctionDef | ast.AsyncFunctionDef | ast.ClassDef):
                f = f"{func}.{child.name}" if func else child.name
            if isinstance(child, ast.With) and any(is_mod_call(it.context_expr, "warnings", "catch_warnings")
                                                   or (isinstance(it.context_expr, ast.Call) and isinstance(it.context_expr.func, ast.Name)
                                                       and it.context_expr.func.id == "catch_warnings") for it in child.items):
                where = f"{rel}:{func or '<module>'}"
                for it in child.items:
                    ce = it.context_expr
                    if isinstance(ce, ast.Call) and (ce.args or ce.keywords) and "catch_warnings" in ast.unparse(ce.func):
                        refusals.append(f"table sharedState: {where}: {ast.unparse(ce)}: arguments of catch_warnings are not modelled")
                fs = []
                for st in ast.walk(child):
                    if is_mod_call(st, "warnings") and st.func.attr in ("simplefilter", "filterwarnings"):
                        try:
                            fs.append((st.lineno, st.col_offset, filter_of_call(st, where)))
                        except ValueError as e:
                            refusals.append(f"table sharedState: {e}")
                    elif is_mod_call(st, "warnings", "resetwarnings"):
                        refusals.append(f"table sharedState: {where}: resetwarnings() inside a catch_warnings block is not modelled")
                blocks.append((rel, func or "<module>", [f for _, _, f in sorted(fs)]))
                walk(child, f, True)
                continue
            if isinstance(child, ast.Call) and func and not isinstance(node, ast.Module):
                fn = child.func
                if isinstance(fn, ast.Attribute) and isinstance(fn.value, ast.Name) and (fn.value.id, fn.attr) in GLOBAL_SETTERS:
                    if not (in_block and fn.value.id == "warnings" and fn.attr in ("simplefilter", "filterwarnings")):
                        writes.append((rel, func, ast.unparse(child)[:90]))
                if ast.unparse(fn) in ("np.random.seed", "numpy.random.seed"):
                    writes.append((rel, func, ast.unparse(child)[:90]))
                if is_mod_call(child, "warnings", "warn"):
                    msg, cat = "", "UserWarning"
                    if child.args:
                        a0 = child.args[0]
                        if isinstance(a0, ast.Constant) and isinstance(a0.value, str):
                            msg = a0.value
                        elif isinstance(a0, ast.JoinedStr) and a0.values and isinstance(a0.values[0], ast.Constant):
                            msg = str(a0.values[0].value)
                    c = child.args[1] if len(child.args) > 1 else next((k.value for k in child.keywords if k.arg == "category"), None)
                    if isinstance(c, ast.Name):
                        cat = c.id
                    elif isinstance(c, ast.Attribute):
                        cat = c.attr
                    warns.append((rel, func, cat, re.sub(r"[^a-z0-9 _-].*$", "", msg.lower().split("\n")[0])[:60]))
            if func and isinstance(child, ast.Assign | ast.AugAssign | ast.Delete):
                tg = child.targets if isinstance(child, ast.Assign | ast.Delete) else [child.target]
                for t in tg:
                    if isinstance(t, ast.Subscript) and ast.unparse(t.value) == "os.environ":
                        writes.append((rel, func, ast.unparse(child)[:90]))
                    if isinstance(t, ast.Attribute) and ast.unparse(t) in ("warnings.filters", "warnings.showwarning", "sys.stdout", "sys.stderr"):
                        writes.append((rel, func, ast.unparse(child)[:90]))
            walk(child, f, in_block)

    walk(tree, "", False)


def generate(repo: Path):
    refusals = []
    try:
        rows = dok_rows(repo, refusals)
    except Exception as e:  # noqa: BLE001
        refusals.append(f"table sharedState: {e}")
        rows = []
    blocks, writes, warns = [], [], []
    base = repo / PKG
    for p in sorted(base.rglob("*.py")):
        rel = str(p.relative_to(base))
        if "tests" in p.relative_to(base).parts or rel.startswith("tests"):
            continue
        try:
            scan_module(rel, ast.parse(p.read_text()), blocks, writes, warns, refusals)
        except SyntaxError as e:
            refusals.append(f"table sharedState: cannot parse {rel}: {e}")
    q = lean_str
    row_txt = ",\n  ".join(f"({q(m)}, {q(k)}, {q(t)})" for m, k, t in rows)
    blk_txt = ",\n  ".join(f"({q(f)}, {q(fn)}, [" + ", ".join(f"({q(a)}, {q(m)}, {q(c)})" for a, m, c in fs) + "])" for f, fn, fs in blocks)
    wr_txt = ",\n  ".join(f"({q(f)}, {q(fn)}, {q(t)})" for f, fn, t in writes)
    wn_txt = ",\n  ".join(f"({q(f)}, {q(fn)}, {q(c)}, {q(m)})" for f, fn, c, m in warns)
    txt = ("/- GENERATED by tools/py2lean.py (tools/tables.d/C13.py) from sparse/numba_backend — do not edit. -/\n"
           "import SparseV.Model.Basic\nnamespace SparseV.Gen\n\n"
           "/-- (method of class DOK, kind of use, statement) for every mention of `self.data`, in source order -/\n"
           f"def dokDataUses : List (String × String × String) := [\n  {row_txt}\n]\n\n"
           "/-- (file, function, filters installed in order: (action, message lower-cased, category)) per `with warnings.catch_warnings()` block -/\n"
           f"def catchBlocks : List (String × String × List (String × String × String)) := [\n  {blk_txt}\n]\n\n"
           "/-- (file, function, call) for every edit of process-global state inside a function body outside such a block -/\n"
           f"def globalWrites : List (String × String × String) := [\n  {wr_txt}\n]\n\n"
           "/-- (file, function, category, leading literal text lower-cased) for every `warnings.warn` of the package -/\n"
           f"def warnSites : List (String × String × String × String) := [\n  {wn_txt}\n]\n\nend SparseV.Gen\n")
    return {"SharedState.lean": (txt, ["sharedState"], refusals)}

"""T1 table for C20: who keeps which buffer alive in sparse/mlir_backend, as the SOURCE says.

Read with `ast` from /repo's working tree (never imported, never executed):

* `formats.py`, the class `Storage` nested in `ConcreteFormat._get_ctypes_type(self, *, owns_memory=False)`:
    - `get_constituent_arrays`: the statements in order.  The views must be built by `ranked_memref_to_numpy(field)` over
      `self.get__fields_()` (raw-pointer views: no NumPy base chain to whatever owns the memory) and returned unchanged;
      the keep-alive loop `for arr in arrays: _hold_ref(arr, self)` is READ together with the condition it runs under
      (`always`, `if owns_memory`, `if not owns_memory`, absent) -> `mlirHoldViews`, and with whether the base walk
      `while isinstance(arr.base, np.ndarray): arr = arr.base` stands before the `_hold_ref` call (the keep-alive then goes on
      the array at the bottom of NumPy's base chain, /repo d206752) -> `mlirHoldOnBaseRoot`,
    - `from_constituent_arrays`: the storage is `cls(*(numpy_to_ranked_memref(arr) for arr in arrs))` (pointers into the
      arrays given, no copy); the loop `for arr in arrs: _hold_ref(storage, arr)` is READ with its condition -> `mlirHoldInputs`,
    - `__del__`: `for field in self.get__fields_(): free_memref(field)`, READ with the condition the method is defined under
      -> `mlirFreeFields`,
    - the default of the parameter `owns_memory` -> `mlirOwnsDefault`,
* `_common.py`: `_hold_ref(owner, obj)` (Py_IncRef now, Py_DecRef in a `weakref.finalize` of `owner`) and `free_memref`
  (libc `free` of the `allocated` pointer) must have the text the model was written for,
* `_conversions.py`: `from_constituent_arrays` (which storage class: the `owns_memory` keyword of `_get_ctypes_type`) ->
  `mlirFromArraysOwns`; `_from_numpy` (optional `arr.copy`, then the flattened C-contiguous array is what the storage points
  into); `_from_scipy` (the matrix's own `indptr/indices/data` or `row/col/data` arrays, copied first under `if copy:`);
  `to_numpy` (a `reshape(...).transpose(...)` of the single array of `get_constituent_arrays()`: a NumPy view whose `base`
  is that array); `to_scipy` (the arrays of `get_constituent_arrays()` handed to the SciPy constructors as they are);
  `asarray` (dispatch; a backend array is returned as it is unless `copy`),
* `_array.py`: `Array.copy` (`arr.copy()` of every constituent array, then `from_constituent_arrays`) and
  `Array.get_constituent_arrays` (forwards to the storage),
* `_ops.py`: the storage class of the result of `add` / `asformat` / `reshape` (`_get_ctypes_type(owns_memory=...)`) ->
  `mlirOpOwns`.

REFUSES (never guesses): a statement of the methods above that is neither a pinned statement nor a keep-alive loop under
one of the understood conditions; a `_hold_ref` call anywhere else in the package; a constructor path whose `owns_memory`
argument is not a literal.
"""
from __future__ import annotations

import ast
from pathlib import Path

PKG = "sparse/mlir_backend"
OUT = "MlirHold.lean"
NAMES = ["mlirHoldViews", "mlirHoldInputs", "mlirFreeFields", "mlirOwnsDefault", "mlirFromArraysOwns", "mlirOpOwns", "mlirHoldOnBaseRoot"]


class Refuse(Exception):
    pass


def norm(node):
    return ast.unparse(node).strip()


def find(body, cls, name):
    for n in body:
        if isinstance(n, cls) and getattr(n, "name", None) == name:
            return n
    raise Refuse(f"`{name}` not found")


def strip_doc(body):
    if body and isinstance(body[0], ast.Expr) and isinstance(body[0].value, ast.Constant) and isinstance(body[0].value.value, str):
        return body[1:]
    return body


def cond_of(test):
    """condition on the closure variable `owns_memory`"""
    t = norm(test)
    if t == "owns_memory":
        return "ifOwns"
    if t in ("not owns_memory", "owns_memory is False", "owns_memory == False"):
        return "ifNotOwns"
    raise Refuse(f"condition `{t}` is not a test of `owns_memory`")


BASE_WALK = "while isinstance(arr.base, np.ndarray):\n    arr = arr.base"


def read_for(s, head, hold, what, walk_allowed):
    """the keep-alive loop `for arr in <seq>: [base walk] _hold_ref(...)`: returns whether the base walk
    (`while isinstance(arr.base, np.ndarray): arr = arr.base`, the keep-alive goes on the array at the bottom of NumPy's base
    chain) stands before the `_hold_ref` call"""
    if not isinstance(s, ast.For) or s.orelse or f"for {norm(s.target)} in {norm(s.iter)}:" != head:
        raise Refuse(f"{what}: `{norm(s)[:120]}` is not the loop `{head}`")
    body = [norm(b) for b in s.body]
    if body == [hold]:
        return False
    if walk_allowed and body == [BASE_WALK, hold]:
        return True
    raise Refuse(f"{what}: body of `{head}` is {body!r:.200}, not [`{hold}`] or [base walk, `{hold}`]")


def read_loop(stmts, head, hold, what, walk_allowed=False):
    """`stmts`: the statements between the pinned first statement and the pinned `return`.  Understood: nothing (the edge is
    never made), the loop itself, or the loop as the only statement of `if owns_memory:` / `if not owns_memory:` (no else).
    Returns (condition, base walk present)."""
    if not stmts:
        return "never", False
    if len(stmts) != 1:
        raise Refuse(f"{what}: {len(stmts)} statements where the keep-alive loop is expected: {[norm(s)[:60] for s in stmts]}")
    s = stmts[0]
    if isinstance(s, ast.For):
        return "always", read_for(s, head, hold, what, walk_allowed)
    if isinstance(s, ast.If):
        c = cond_of(s.test)
        if s.orelse:
            raise Refuse(f"{what}: `if {norm(s.test)}` has an else branch")
        if len(s.body) != 1:
            raise Refuse(f"{what}: body of `if {norm(s.test)}` is not the keep-alive loop alone")
        return c, read_for(s.body[0], head, hold, what, walk_allowed)
    raise Refuse(f"{what}: statement `{norm(s)[:100]}` not understood")


def expect(stmt, text, what):
    if norm(stmt) != text:
        raise Refuse(f"{what}: `{norm(stmt)[:140]}` where `{text}` is expected")


def read_storage(tree):
    cf = find(tree.body, ast.ClassDef, "ConcreteFormat")
    gct = find(cf.body, ast.FunctionDef, "_get_ctypes_type")
    kw = {a.arg: d for a, d in zip(gct.args.kwonlyargs, gct.args.kw_defaults)}
    if "owns_memory" not in kw or not isinstance(kw["owns_memory"], ast.Constant) or not isinstance(kw["owns_memory"].value, bool):
        raise Refuse("_get_ctypes_type: keyword-only parameter `owns_memory` with a literal default expected")
    owns_default = kw["owns_memory"].value
    st = find(gct.body, ast.ClassDef, "Storage")
    # --- get_constituent_arrays
    g = strip_doc(find(st.body, ast.FunctionDef, "get_constituent_arrays").body)
    if len(g) < 2:
        raise Refuse("Storage.get_constituent_arrays: too short")
    expect(g[0], "arrays = tuple((ranked_memref_to_numpy(field) for field in self.get__fields_()))", "Storage.get_constituent_arrays")
    expect(g[-1], "return arrays", "Storage.get_constituent_arrays")
    hold_views, base_walk = read_loop(g[1:-1], "for arr in arrays:", "_hold_ref(arr, self)", "Storage.get_constituent_arrays",
                                      walk_allowed=True)
    # --- from_constituent_arrays
    fdef = find(st.body, ast.FunctionDef, "from_constituent_arrays")
    if [norm(d) for d in fdef.decorator_list] != ["classmethod"]:
        raise Refuse("Storage.from_constituent_arrays is not a classmethod")
    f = strip_doc(fdef.body)
    if len(f) < 2:
        raise Refuse("Storage.from_constituent_arrays: too short")
    expect(f[0], "storage = cls(*(numpy_to_ranked_memref(arr) for arr in arrs))", "Storage.from_constituent_arrays")
    expect(f[-1], "return storage", "Storage.from_constituent_arrays")
    hold_inputs, _ = read_loop(f[1:-1], "for arr in arrs:", "_hold_ref(storage, arr)", "Storage.from_constituent_arrays")
    # --- __del__ (directly in the class body, or under `if owns_memory:`)
    free_loop = "for field in self.get__fields_():\n    free_memref(field)"
    free = "never"
    for n in st.body:
        if isinstance(n, ast.FunctionDef) and n.name == "__del__":
            body = strip_doc(n.body)
            if len(body) != 1 or norm(body[0]) != free_loop:
                raise Refuse("Storage.__del__ is not the loop freeing every field")
            free = "always"
        elif isinstance(n, ast.If):
            dels = [m for m in ast.walk(n) if isinstance(m, ast.FunctionDef) and m.name == "__del__"]
            if not dels:
                raise Refuse(f"Storage: `if {norm(n.test)}` in the class body does not define `__del__`")
            c = cond_of(n.test)
            if n.orelse or len(n.body) != 1 or n.body[0] is not dels[0]:
                raise Refuse("Storage: the conditional `__del__` definition has another shape")
            body = strip_doc(dels[0].body)
            if len(body) != 1 or norm(body[0]) != free_loop:
                raise Refuse("Storage.__del__ is not the loop freeing every field")
            free = c
    # the other methods of the class do not touch ownership: no `_hold_ref` / `free_memref` anywhere else in the file
    holds = [norm(c) for c in ast.walk(tree) if isinstance(c, ast.Call) and norm(c.func) in ("_hold_ref", "free_memref")]
    want = {"_hold_ref(arr, self)": hold_views != "never", "_hold_ref(storage, arr)": hold_inputs != "never",
            "free_memref(field)": free != "never"}
    if sorted(holds) != sorted(k for k, v in want.items() if v):
        raise Refuse(f"formats.py: `_hold_ref` / `free_memref` calls {sorted(holds)} (expected only those of the Storage class)")
    return hold_views, hold_inputs, free, owns_default, base_walk


COMMON_TEXTS = {
    "_hold_ref": "def _hold_ref(owner, obj):\n    ptr = ctypes.py_object(obj)\n    ctypes.pythonapi.Py_IncRef(ptr)\n\n"
                 "    def finalizer(ptr):\n        ctypes.pythonapi.Py_DecRef(ptr)\n    weakref.finalize(owner, finalizer, ptr)",
    "free_memref": "def free_memref(obj: ctypes.Structure) -> None:\n    libc.free(ctypes.cast(obj.allocated, ctypes.c_void_p))",
    "ranked_memref_to_numpy": "def ranked_memref_to_numpy(ref: ctypes.Structure) -> np.ndarray:\n    return rt.ranked_memref_to_numpy([ref])",
}


def read_common(tree):
    for name, text in COMMON_TEXTS.items():
        d = find(tree.body, ast.FunctionDef, name)
        if norm(d) != text:
            raise Refuse(f"_common.{name} has another text than the one the ownership model was written for")
    n2m = find(tree.body, ast.FunctionDef, "numpy_to_ranked_memref")
    body = strip_doc(n2m.body)
    if norm(body[0]) != "memref = rt.get_ranked_memref_descriptor(arr)":
        raise Refuse("_common.numpy_to_ranked_memref does not take the descriptor of the array given (no copy)")


def owns_kw(call, default, what):
    """the literal `owns_memory` argument of a `X._get_ctypes_type(...)` call"""
    if call.args:
        raise Refuse(f"{what}: positional arguments to `_get_ctypes_type`")
    val = default
    for k in call.keywords:
        if k.arg != "owns_memory" or not isinstance(k.value, ast.Constant) or not isinstance(k.value.value, bool):
            raise Refuse(f"{what}: `_get_ctypes_type({norm(k)})` is not a literal `owns_memory`")
        val = k.value.value
    return val


def ctypes_calls(fn):
    return [c for c in ast.walk(fn) if isinstance(c, ast.Call) and isinstance(c.func, ast.Attribute) and c.func.attr == "_get_ctypes_type"]


def read_conversions(tree, owns_default):
    # from_constituent_arrays
    f = find(tree.body, ast.FunctionDef, "from_constituent_arrays")
    body = strip_doc(f.body)
    calls = ctypes_calls(f)
    if len(body) != 2 or len(calls) != 1:
        raise Refuse("_conversions.from_constituent_arrays: two statements with one `_get_ctypes_type` call expected")
    from_arrays_owns = owns_kw(calls[0], owns_default, "_conversions.from_constituent_arrays")
    expect(body[0], f"storage = {norm(calls[0])}.from_constituent_arrays(arrays)", "_conversions.from_constituent_arrays")
    expect(body[1], "return Array(storage=storage, shape=shape)", "_conversions.from_constituent_arrays")
    # _from_numpy: optional copy, flatten, one-array storage
    f = strip_doc(find(tree.body, ast.FunctionDef, "_from_numpy").body)
    texts = [norm(s) for s in f]
    for need in ("if copy:\n    arr = arr.copy(order='C')", "arr_flat = np.ascontiguousarray(arr).reshape(-1)",
                 "return from_constituent_arrays(format=dense_format, arrays=(arr_flat,), shape=arr.shape)"):
        if need not in texts:
            raise Refuse(f"_conversions._from_numpy: statement `{need}` not found")
    if texts.index("if copy:\n    arr = arr.copy(order='C')") > texts.index("arr_flat = np.ascontiguousarray(arr).reshape(-1)"):
        raise Refuse("_conversions._from_numpy: the copy is made after the flattening")
    # _from_scipy: the matrix's own arrays (copied under `if copy:`) reach from_constituent_arrays
    f = find(tree.body, ast.FunctionDef, "_from_scipy")
    m = [s for s in strip_doc(f.body) if isinstance(s, ast.Match)]
    if len(m) != 1 or norm(m[0].subject) != "arr.format":
        raise Refuse("_conversions._from_scipy: `match arr.format` expected")
    seen = {}
    for case in m[0].cases:
        pat = norm(case.pattern)
        texts = [norm(s) for s in case.body]
        if pat == "'csr' | 'csc'":
            need = ["indptr = arr.indptr", "indices = arr.indices", "data = arr.data",
                    "if copy:\n    indptr = indptr.copy()\n    indices = indices.copy()\n    data = data.copy()",
                    "return from_constituent_arrays(format=csx_format, arrays=(indptr, indices, data), shape=arr.shape)"]
        elif pat == "'coo'":
            need = ["row, col = (arr.row, arr.col)", "pos = np.array([0, arr.nnz], dtype=np.int64)", "data = arr.data",
                    "if copy:\n    data = data.copy()\n    row = row.copy()\n    col = col.copy()",
                    "return from_constituent_arrays(format=coo_format, arrays=(pos, row, col, data), shape=arr.shape)"]
        elif pat == "_":
            if len(case.body) != 1 or not isinstance(case.body[0], ast.Raise):
                raise Refuse("_conversions._from_scipy: the default case does not raise")
            continue
        else:
            raise Refuse(f"_conversions._from_scipy: case `{pat}` not understood")
        for n in need:
            if n not in texts:
                raise Refuse(f"_conversions._from_scipy case {pat}: statement `{n}` not found")
        seen[pat] = True
    if len(seen) != 2:
        raise Refuse("_conversions._from_scipy: cases 'csr' | 'csc' and 'coo' expected")
    # to_numpy: a view chain on the single constituent array
    f = strip_doc(find(tree.body, ast.FunctionDef, "to_numpy").body)
    texts = [norm(s) for s in f]
    if "data, = arr.get_constituent_arrays()" not in texts:
        raise Refuse("_conversions.to_numpy: `(data,) = arr.get_constituent_arrays()` not found")
    ret = f[-1]
    ok = (isinstance(ret, ast.Return) and isinstance(ret.value, ast.Call) and isinstance(ret.value.func, ast.Attribute)
          and ret.value.func.attr == "transpose" and isinstance(ret.value.func.value, ast.Call)
          and isinstance(ret.value.func.value.func, ast.Attribute) and ret.value.func.value.func.attr == "reshape"
          and norm(ret.value.func.value.func.value) == "data")
    if not ok:
        raise Refuse(f"_conversions.to_numpy: returns `{norm(ret)[:100]}`, not `data.reshape(...).transpose(...)`")
    # to_scipy: the constituent arrays go to the SciPy constructors as they are
    f = find(tree.body, ast.FunctionDef, "to_scipy")
    m = [s for s in strip_doc(f.body) if isinstance(s, ast.Match)]
    if len(m) != 1:
        raise Refuse("_conversions.to_scipy: one `match` expected")
    ncase = 0
    for case in m[0].cases:
        texts = [norm(s) for s in ast.walk(case) if isinstance(s, ast.stmt)]
        if norm(case.pattern) == "_":
            continue
        ncase += 1
        if "indptr, indices, data = arr.get_constituent_arrays()" in texts:
            for need in ("return sps.csr_array((data, indices, indptr), shape=arr.shape)",
                         "return sps.csc_array((data, indices, indptr), shape=arr.shape)"):
                if need not in texts:
                    raise Refuse(f"_conversions.to_scipy: `{need}` not found")
        elif "_, row, col, data = arr.get_constituent_arrays()" in texts:
            if "return sps.coo_array((data, (row, col)), shape=arr.shape)" not in texts:
                raise Refuse("_conversions.to_scipy: the COO case does not hand (data, (row, col)) to coo_array")
        else:
            raise Refuse("_conversions.to_scipy: a case that does not unpack `arr.get_constituent_arrays()`")
    if ncase != 2:
        raise Refuse("_conversions.to_scipy: two format cases expected")
    # asarray
    f = strip_doc(find(tree.body, ast.FunctionDef, "asarray").body)
    texts = [norm(s) for s in f]
    for need in ("if sps is not None and isinstance(arr, ScipySparseArray):\n    return _from_scipy(arr, copy=copy)",
                 "if isinstance(arr, np.ndarray):\n    return _from_numpy(arr, copy=copy)",
                 "if isinstance(arr, Array):\n    if copy:\n        arr = arr.copy()\n    return arr"):
        if need not in texts:
            raise Refuse(f"_conversions.asarray: statement `{need.splitlines()[0]}` … not found")
    # no `_hold_ref` outside formats.py
    if any(isinstance(c, ast.Call) and norm(c.func).endswith("_hold_ref") for c in ast.walk(tree)):
        raise Refuse("_conversions.py calls `_hold_ref`: an edge the ownership model does not have")
    return from_arrays_owns


def read_array(tree):
    cls = find(tree.body, ast.ClassDef, "Array")
    c = [norm(s) for s in strip_doc(find(cls.body, ast.FunctionDef, "copy").body)]
    for need in ("arrs = tuple((arr.copy() for arr in self.get_constituent_arrays()))",
                 "return from_constituent_arrays(format=self.format, arrays=arrs, shape=self.shape)"):
        if need not in c:
            raise Refuse(f"Array.copy: statement `{need}` not found")
    g = [norm(s) for s in strip_doc(find(cls.body, ast.FunctionDef, "get_constituent_arrays").body)]
    if g != ["return self._storage.get_constituent_arrays()"]:
        raise Refuse("Array.get_constituent_arrays does not forward to the storage")
    if any(isinstance(c, ast.Call) and norm(c.func).endswith("_hold_ref") for c in ast.walk(tree)):
        raise Refuse("_array.py calls `_hold_ref`: an edge the ownership model does not have")


def read_ops(tree, owns_default):
    res = []
    for name in ("add", "asformat", "reshape"):
        f = find(tree.body, ast.FunctionDef, name)
        calls = [c for c in ctypes_calls(f)]
        if len(calls) != 1:
            raise Refuse(f"_ops.{name}: one `_get_ctypes_type` call expected, {len(calls)} found")
        res.append((name, owns_kw(calls[0], owns_default, f"_ops.{name}")))
    if any(isinstance(c, ast.Call) and norm(c.func).endswith("_hold_ref") for c in ast.walk(tree)):
        raise Refuse("_ops.py calls `_hold_ref`: an edge the ownership model does not have")
    return res


def generate(repo: Path):
    src = f"{PKG}/formats.py, _common.py, _conversions.py, _array.py, _ops.py"
    try:
        p = repo / PKG
        hold_views, hold_inputs, free, owns_default, base_walk = read_storage(ast.parse((p / "formats.py").read_text()))
        read_common(ast.parse((p / "_common.py").read_text()))
        from_arrays_owns = read_conversions(ast.parse((p / "_conversions.py").read_text()), owns_default)
        read_array(ast.parse((p / "_array.py").read_text()))
        op_owns = read_ops(ast.parse((p / "_ops.py").read_text()), owns_default)
    except (Refuse, OSError, SyntaxError, AttributeError, IndexError) as e:
        msg = str(e) or type(e).__name__
        return {OUT: (f"/- GENERATED by tools/tables.d/C20.py — REFUSED: {msg} -/\n", [], [f"{n}: {msg}" for n in NAMES[:1]])}
    b = lambda v: "true" if v else "false"  # noqa: E731
    ops = ", ".join(f'("{n}", {b(v)})' for n, v in op_owns)
    txt = f"""/- GENERATED by tools/py2lean.py (tools/tables.d/C20.py) from {src} — do not edit. -/
import SparseV.Model.Basic
namespace SparseV.Gen

/-- the condition a statement of the class `Storage` (nested in `ConcreteFormat._get_ctypes_type(self, *, owns_memory)`) runs
under, as a test of `owns_memory` -/
inductive OwnsCond
  | always | ifOwns | ifNotOwns | never
  deriving DecidableEq, Repr

/-- does the statement run in the class built with this value of `owns_memory` -/
def OwnsCond.eval : OwnsCond → Bool → Bool
  | .always, _ => true
  | .ifOwns, o => o
  | .ifNotOwns, o => !o
  | .never, _ => false

/-- `Storage.get_constituent_arrays`: `for arr in arrays: _hold_ref(arr, self)` — every returned NumPy view (a raw-pointer
view made by `ranked_memref_to_numpy`) keeps the storage alive -/
def mlirHoldViews : OwnsCond := .{hold_views}

/-- `Storage.get_constituent_arrays`: inside that loop, before the `_hold_ref` call, `while isinstance(arr.base, np.ndarray):
arr = arr.base` — the keep-alive goes on the array at the BOTTOM of NumPy's base chain.  (For complex64 / complex128 / float16
`ranked_memref_to_numpy` returns `raw.view(dtype)`, and NumPy bases every further view on `raw`.) -/
def mlirHoldOnBaseRoot : Bool := {b(base_walk)}

/-- `Storage.from_constituent_arrays`: `for arr in arrs: _hold_ref(storage, arr)` — the storage (which points into the
arrays given, no copy) keeps them alive -/
def mlirHoldInputs : OwnsCond := .{hold_inputs}

/-- `Storage.__del__`: `for field in self.get__fields_(): free_memref(field)` -/
def mlirFreeFields : OwnsCond := .{free}

/-- default of `owns_memory` in `_get_ctypes_type` -/
def mlirOwnsDefault : Bool := {b(owns_default)}

/-- `owns_memory` of the storage class `_conversions.from_constituent_arrays` instantiates (everything built from NumPy /
SciPy input, user buffers, `Array.copy`, `asarray(copy=True)` goes through it) -/
def mlirFromArraysOwns : Bool := {b(from_arrays_owns)}

/-- `owns_memory` of the result storage of each operation of `_ops.py` -/
def mlirOpOwns : List (String × Bool) := [{ops}]

end SparseV.Gen
"""
    return {OUT: (txt, NAMES, [])}

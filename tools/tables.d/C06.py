"""C06 table: every `COO(...)` / `GCXS(...)` construction site that makes a promise to the constructor
(`sorted=` other than False, `has_duplicates=` other than True, or a ready-made (data, indices, indptr) triple), per (file, function),
with the promise expressions in a CANONICAL spelling.  A new or changed site changes the table the Lean theorem
`promise_sites_covered` is checked against.

What is pinned is the promise, not the way the call is written.  The following do not change a row:

* the order of the keywords of the call, the order of the functions in the file (rows are a sorted set);
* a promise passed through a local: a name bound EXACTLY ONCE in the function by a plain `name = <expression>` is replaced by that
  expression when the expression is a literal, or when the binding is one of the statements IMMEDIATELY BEFORE the statement that
  contains the call (only other such bindings in between: nothing can run between the binding and the call) and the expression
  contains no call (names, attribute reads, comparisons, `not` / `and` / `or`, literals): `flag = axis == 0` … `sorted=flag` is
  `sorted=axis == 0`;
* the NAME of a local whose value is computed some other way (bound more than once, bound by a loop / unpacking, bound from a call):
  the row says `<local>` — neither the old table nor this one says anything about HOW such a flag is computed (that is what the
  correspondence legs of C01 / C02 check); a literal or an expression over parameters written in its place is a different row;
* `c == <literal>` written `<literal> == c`;
* the triple of a GCXS site passed through a local (a local name as first argument of `GCXS(...)` is a triple-producing helper's
  result or a tuple bound before: both are rows `triple`; a PARAMETER handed on is not a site of its own);
* `COO` / `GCXS` imported under another name (`from .core import COO as C`).

It REFUSES a construction site that unpacks `**kwargs` (unless that is a local bound once to a dict display with literal keys):
the promise could not be read."""
from __future__ import annotations

import ast
from pathlib import Path

FILES = ["_coo/core.py", "_coo/common.py", "_coo/indexing.py", "_umath.py", "_common.py", "_dok.py", "_io.py", "_utils.py",
         "_compressed/compressed.py", "_compressed/common.py", "_compressed/indexing.py", "_sparse_array.py"]
LOCAL = "<local>"
FUNC = ast.FunctionDef | ast.AsyncFunctionDef | ast.Lambda


def lean_str(s):
    return '"' + s.replace("\\", "\\\\").replace('"', '\\"') + '"'


class Scope:
    """bindings of the names of one function body (nested functions / classes / comprehensions are scopes of their own)"""

    def __init__(self, fn):
        self.fn = fn
        self.params = set()
        if fn is not None and not isinstance(fn, ast.Module):
            a = fn.args
            self.params = {p.arg for p in a.posonlyargs + a.args + a.kwonlyargs} | ({a.vararg.arg} if a.vararg else set()) | ({a.kwarg.arg} if a.kwarg else set())
        self.simple = {}    # name -> [Assign statements `name = expr`]
        self.other = set()  # names bound any other way (loop target, unpacking, augmented assignment, with/except/import, walrus, global)
        self.prev = {}      # id(statement) -> the statement before it in its block (None for the first)
        self.holder = {}    # id(node) -> the statement (of a block of this scope) that contains it
        if fn is None:
            return
        body = fn.body if isinstance(fn.body, list) else [ast.Expr(fn.body)]
        self._block(body)

    def _block(self, stmts):
        prev = None
        for st in stmts:
            self.prev[id(st)] = prev
            prev = st
            self._stmt(st)

    def _stmt(self, st):
        if isinstance(st, ast.FunctionDef | ast.AsyncFunctionDef | ast.ClassDef):
            self.other.add(st.name)
            return
        if isinstance(st, ast.Assign) and len(st.targets) == 1 and isinstance(st.targets[0], ast.Name):
            self.simple.setdefault(st.targets[0].id, []).append(st)
            self._expr(st.value, st)
            return
        for field, value in ast.iter_fields(st):
            if field in ("body", "orelse", "finalbody") and isinstance(value, list) and value and isinstance(value[0], ast.stmt):
                self._block(value)
            elif field == "handlers":
                for h in value:
                    if h.name:
                        self.other.add(h.name)
                    self._block(h.body)
            elif field == "cases":
                for c in value:
                    for n in ast.walk(c.pattern):
                        for nm in (getattr(n, "name", None), getattr(n, "rest", None)):
                            if isinstance(nm, str):
                                self.other.add(nm)
                    self._block(c.body)
            elif isinstance(value, ast.AST):
                self._expr(value, st)
            elif isinstance(value, list):
                for v in value:
                    if isinstance(v, ast.AST):
                        self._expr(v, st)
        if isinstance(st, ast.Import | ast.ImportFrom):
            for a in st.names:
                self.other.add((a.asname or a.name).split(".")[0])
        if isinstance(st, ast.Global | ast.Nonlocal):
            self.other.update(st.names)

    def _expr(self, e, st):
        """binding occurrences inside an expression / a target of statement `st`; does not enter nested scopes"""
        todo = [e]
        while todo:
            n = todo.pop()
            self.holder[id(n)] = st
            if isinstance(n, ast.Name) and isinstance(n.ctx, ast.Store | ast.Del):
                self.other.add(n.id)
            if isinstance(n, ast.NamedExpr) and isinstance(n.target, ast.Name):
                self.other.add(n.target.id)
            if isinstance(n, FUNC | ast.ListComp | ast.SetComp | ast.DictComp | ast.GeneratorExp):
                # a scope of its own — but its call sites belong to this statement
                for sub in ast.walk(n):
                    self.holder.setdefault(id(sub), st)
                continue
            todo.extend(ast.iter_child_nodes(n))

    def is_local(self, name):
        return name in self.simple or name in self.other

    def single(self, name):
        """the one `name = expr` statement that binds `name` in this function, if that is its only binding"""
        if name in self.other or name in self.params or len(self.simple.get(name, [])) != 1:
            return None
        return self.simple[name][0]


CALL_FREE = (ast.Name, ast.Attribute, ast.Constant, ast.Compare, ast.BoolOp, ast.UnaryOp, ast.Tuple, ast.List, ast.Subscript, ast.Slice, ast.BinOp,
             ast.expr_context, ast.cmpop, ast.boolop, ast.unaryop, ast.operator)


def call_free(e):
    return all(isinstance(n, CALL_FREE) for n in ast.walk(e))


def adjacent_before(scope, binding, site_stmt):
    """is `binding` one of the single-use temporaries bound immediately before `site_stmt` (only other plain `name = <call-free
    expression or literal>` statements in between)?"""
    st = scope.prev.get(id(site_stmt))
    while st is not None:
        if st is binding:
            return True
        if not (isinstance(st, ast.Assign) and len(st.targets) == 1 and isinstance(st.targets[0], ast.Name) and call_free(st.value)):
            return False
        st = scope.prev.get(id(st))
    return False


def resolve(scope, e, site_stmt, depth=0):
    """the promise expression with the resolvable locals replaced by what they were bound to (a copy)"""
    if depth > 8:
        return e

    class R(ast.NodeTransformer):
        def visit_Name(self, n):
            if not isinstance(n.ctx, ast.Load):
                return n
            b = scope.single(n.id)
            if b is not None:
                if isinstance(b.value, ast.Constant):
                    return b.value
                if site_stmt is not None and call_free(b.value) and adjacent_before(scope, b, site_stmt):
                    return resolve(scope, b.value, b, depth + 1)
            return n

        def visit_Lambda(self, n):
            return n

        def visit_GeneratorExp(self, n):
            return n
        visit_ListComp = visit_SetComp = visit_DictComp = visit_GeneratorExp

    import copy
    return R().visit(copy.deepcopy(e))


def promise_text(scope, e, site_stmt):
    """canonical text of a promise: resolvable temporaries replaced; a promise that is nothing but the name of a local of the function
    (one that could not be resolved: computed by several statements, a loop, a call) reads `<local>` whatever the local is called"""
    r = resolve(scope, e, site_stmt)
    if isinstance(r, ast.Name) and scope.is_local(r.id) and r.id not in scope.params:   # a parameter keeps its name (parameters are API)
        return LOCAL
    return canon(r)


def canon(e):
    """canonical text: a literal operand of `==` / `!=` on the right"""
    class C(ast.NodeTransformer):
        def visit_Compare(self, n):
            self.generic_visit(n)
            if len(n.ops) == 1 and isinstance(n.ops[0], ast.Eq | ast.NotEq) and isinstance(n.left, ast.Constant) and not isinstance(n.comparators[0], ast.Constant):
                n.left, n.comparators = n.comparators[0], [n.left]
            return n
    return ast.unparse(C().visit(e))


def generate(repo: Path):
    base = Path(repo) / "sparse" / "numba_backend"
    rows, refusals = [], []
    for rel in FILES:
        p = base / rel
        try:
            tree = ast.parse(p.read_text())
        except Exception as e:  # noqa: BLE001
            refusals.append(f"table promiseSites: cannot parse {rel}: {e}")
            continue
        # names under which the two constructors are known in this file (`from .core import COO as C`)
        ctor = {"COO": "COO", "cls": "COO", "GCXS": "GCXS"}
        for n in ast.walk(tree):
            if isinstance(n, ast.ImportFrom):
                for a in n.names:
                    if a.name in ("COO", "GCXS") and a.asname:
                        ctor[a.asname] = a.name

        def visit(node, qual, scope):
            for child in ast.iter_child_nodes(node):
                q, sc = qual, scope
                if isinstance(child, ast.FunctionDef | ast.AsyncFunctionDef | ast.ClassDef):
                    q = f"{qual}.{child.name}" if qual else child.name
                if isinstance(child, ast.FunctionDef | ast.AsyncFunctionDef):
                    sc = Scope(child)
                if isinstance(child, ast.Call):
                    fn = child.func
                    name = fn.id if isinstance(fn, ast.Name) else (fn.attr if isinstance(fn, ast.Attribute) else None)
                    kind = ctor.get(name)
                    if kind is not None:
                        site = scope.holder.get(id(child))
                        kws = {k.arg: k.value for k in child.keywords if k.arg}
                        for k in child.keywords:
                            if k.arg is None:
                                b = scope.single(k.value.id) if isinstance(k.value, ast.Name) else None
                                dct = b.value if b is not None else k.value
                                if isinstance(dct, ast.Dict) and all(isinstance(x, ast.Constant) and isinstance(x.value, str) for x in dct.keys):
                                    for kk, vv in zip(dct.keys, dct.values, strict=True):
                                        kws.setdefault(kk.value, vv)
                                else:
                                    refusals.append(f"table promiseSites: {rel}:{qual or '<module>'}: construction site `{ast.unparse(child)[:80]}` unpacks "
                                                    f"`**{ast.unparse(k.value)}`: its promises cannot be read")

                        def text(key, default):
                            return promise_text(scope, kws[key], site) if key in kws else default
                        s, d, pr = text("sorted", "False"), text("has_duplicates", "True"), text("prune", "False")
                        if kind == "COO" and (s != "False" or d != "True"):
                            rows.append((rel, qual or "<module>", "COO", s, d, pr))
                        if name != "cls" and kind == "GCXS" and child.args:
                            a0 = child.args[0]
                            if isinstance(a0, ast.Name):
                                b = scope.single(a0.id)
                                if b is not None and isinstance(b.value, ast.Tuple):
                                    a0 = b.value
                            if isinstance(a0, ast.Tuple) or (isinstance(a0, ast.Name) and (a0.id == "arg" or (scope.is_local(a0.id) and a0.id not in scope.params))):
                                # GCXS((data, indices, indptr), ...): the triple is taken as is (never re-validated)
                                rows.append((rel, qual or "<module>", "GCXS", "triple", "triple", pr))
                visit(child, q, sc)
        visit(tree, "", Scope(None))
    rows = sorted(set(rows))
    body = ",\n  ".join(f"({lean_str(a)}, {lean_str(b)}, {lean_str(c)}, {lean_str(d)}, {lean_str(e)}, {lean_str(f)})" for a, b, c, d, e, f in rows)
    txt = ("/- GENERATED by tools/py2lean.py (tables.d/C06.py) — do not edit. -/\nimport SparseV.Model.Basic\nnamespace SparseV.Gen\n\n"
           "/-- (file, function, constructor, `sorted=` expression, `has_duplicates=` expression, `prune=` expression); a promise that is a\n"
           "local computed in the function reads `<local>` -/\n"
           f"def promiseSites : List (String × String × String × String × String × String) := [\n  {body}\n]\n\nend SparseV.Gen\n")
    return {"PromiseSites.lean": (txt, ["promiseSites"], refusals)}

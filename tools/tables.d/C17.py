"""T1 table for C17: every spelling of every public operation, as the SOURCE wires it.

Read with `ast` from /repo's working tree (never imported, never executed):

* the namespace `sparse` (names bound in sparse/numba_backend/__init__.py, `__all__`, re-exports from NumPy),
* every function of the namespace: its signature and, if its body is a single `return` (after an understood
  prelude: local imports, `assert out is None`, `p = asCOO(p…)` conversions, `out` normalisation, argument
  validation that only raises), the call it forwards to — target method / function / ufunc route, positional
  arguments, keyword map (callee keyword <- own parameter or constant), own parameters it drops,
* every attribute of the array classes (methods with signature and forwarding call, properties, aliases such as
  `amax = max`, data attributes, attributes assigned on `self`), their bases and MRO,
* `__array_namespace__`'s return value,
* `SparseArray.__array_function__` (pinned: one of two understood texts) and `SparseArray.__array_ufunc__`, the latter walked
  top-level statement by statement IN SOURCE ORDER (`read_array_ufunc`): the fixed stages must have the text the model
  `Dispatch.arrayUfunc` was written for, the stages that carry decisions are READ into generated definitions — the `nout != 1`
  branch (`ufuncMultiOutGuard`, `ufuncMultiOutSplit`: which ufunc is returned as which tuple of `np.<component>(*inputs, **kwargs)`
  calls, under which conditions), the initialiser of the trial call of the out= path (`ufuncOutTrialOnes`), the last statement of
  the `outer` branch (`outerFinalReverse`), and the statements of the out= block after the computation (`ufuncOutSteps`: unpack,
  shape check, dense result refused, conversion to the format of `out`, shallow copy, return).

Read from the installed NumPy (the SPECIFICATION side: how NumPy spells a call, which operators call which ufunc):

* `inspect.signature` of every NumPy function that dispatches through `__array_function__` and whose name the sparse
  namespace or an array class answers to, and the (module path, `__name__`) of ALL such functions of numpy,
  numpy.linalg, numpy.fft (the domain of the NEP-18 lookup),
* the operator table of `numpy.lib.mixins.NDArrayOperatorsMixin` (read with `ast` from its source file),
* the ufuncs with a core signature (`gufuncs`) and the ufuncs with more than one result (`multiOutUfuncs`).

REFUSES (never guesses) a single-`return` function whose returned expression is not one of the understood
forwarding shapes, a forwarding call with `*args`/`**kwargs`, a namespace name whose definition is not found, and any statement of
`__array_ufunc__` that is neither a fixed stage with the expected meaning nor one of the understood decision-carrying shapes.

WHAT IS PINNED IS THE MEANING, NOT THE SPELLING.  The table must not change (and nothing must be refused) when the source is rewritten
without changing its behaviour; the following are therefore canonicalised before anything is emitted or compared:

* ORDER.  Rows are sorted (namespace functions by name, private functions by target, class attributes by class and name — a name
  defined twice in a class body keeps its LAST definition, as Python does); interned names are numbered in sorted order (after the
  fixed ones); `namespaceAttrs` is sorted.  Nothing observable depends on the order of the functions in a file, of the methods in a
  class body, of the entries of `__all__` or of the import statements.
* FORWARDING CALLS (`canon_call`).  When the callee's signature is known (a package function; a method of COO when the receiver was
  converted with `asCOO`), arguments are put in the callee's own terms: the longest prefix of its positional parameters that the call
  supplies (positionally or by keyword) is listed positionally, the rest by keyword — `f(x, axis=a)` and `f(x, a)` are the same row.
  Keywords are sorted by name when at most one argument expression of the call can have an effect (everything else being plain
  names / literals): Python binds keywords by name, only the evaluation order of the values is observable.  NOT for the calls into
  NumPy's dispatch (`np.add.reduce(self, out=…, axis=…)`, `self.__array_ufunc__(np.clip, "__call__", self, a_min=…)`): there the order
  of the keywords is the order of `kwargs`, which NumPy repeats in the message of the TypeError it raises when every operand answers
  NotImplemented — the differential grid of the harmless-rewrite corpus showed that reordering them changes that message.
* TEMPORARIES (`inline_temps`).  `t = E` immediately followed by the only use of `t` is read as that use with `E` in place of `t`,
  provided nothing that could have an effect is evaluated between `E` and the place of `t` (so `result = f(x); return result` is
  `return f(x)`; `q = f(); r = g(); return q, r` is `return f(), g()`, but `r = g(); q = f(); return q, r` is NOT).  A local bound once
  from a read-only expression over parameters that are never rebound (`name = func.__name__`) is replaced everywhere.
* The `try: return f() except NotImplementedError: return NotImplemented` shape may bind the value first and return it from the
  `else` clause or after the statement; argument validation may be nested ifs as long as every leaf raises.
* Base classes and the module returned by `__array_namespace__` are resolved through import aliases and dotted paths.
* THE TWO PROTOCOL METHODS (`__array_function__`, `__array_ufunc__`) are compared with the texts the model was written for by
  `Match`, which relates two ASTs modulo: renaming of local and comprehension variables (a bijection, function-wide; parameters are API
  and must keep their names), order of the operands of `and` / `or` when all of them are read-only tests, order of the operands of
  `==` `!=` `is` `is not` (and `<`/`>` mirrored) when both are read-only, De Morgan / double negation (`nnf`), `any(not P …)` for
  `not all(P …)`, `if c: A else: B` against `if not c: B else: A`, `if c: A(returns); B` against `if not c: B(returns); A`, an
  `else` after a body that returns, `with contextlib.suppress(E): S` for `try: S except E: pass`, the order of the arms of an
  if/elif chain that compares ONE name with different literals, the order of adjacent assignments of literals to different names,
  `[x] = y` for `(x,) = y`, `tuple(l[::-1])` for `tuple(reversed(l))` on a list built in the same block.  The `nout != 1` branch is
  read as the set of its PATHS (conditions in negation normal form → what is returned), so any nesting / order of its tests gives the
  same `ufuncMultiOutSplit`.
  None of these can hide a change of behaviour: each is an equivalence of Python semantics under the stated side conditions
  (read-only operands; single binding; adjacency), checked syntactically, and whatever does not fit is refused as before.
"""
from __future__ import annotations

import ast
import copy
import inspect
from pathlib import Path

PKG = "sparse/numba_backend"
MODULES = {
    "_common": "_common.py", "_coo.common": "_coo/common.py", "_coo.core": "_coo/core.py", "_coo.indexing": "_coo/indexing.py",
    "_compressed.compressed": "_compressed/compressed.py", "_compressed.common": "_compressed/common.py",
    "_compressed.indexing": "_compressed/indexing.py", "_dok": "_dok.py", "_umath": "_umath.py",
    "_sparse_array": "_sparse_array.py", "_utils": "_utils.py", "_io": "_io.py",
}
PACKAGE_INITS = {"_coo": "_coo/__init__.py", "_compressed": "_compressed/__init__.py", "": "__init__.py"}
ARRAY_CLASSES = ["SparseArray", "COO", "GCXS", "DOK"]
CONVERTERS = {"asCOO", "as_coo", "_validate_coo_input"}

PRELUDE = '''/- GENERATED by tools/py2lean.py (tools/tables.d/C17.py) from the dispatch wiring of sparse/numba_backend and from the
   installed NumPy's signatures/operator mixin — do not edit.

   Every name (operation, class, module-qualified definition, parameter, default text, ufunc, NumPy spelling) is INTERNED:
   it appears as its row number in `names` (a `Nat`), because the property theorems are decided by the kernel over the
   whole table and the kernel compares numbers fast and strings slowly.  `names` gives the text back; `nm_*` are the
   numbers of the names the model and the theorems mention. -/
import SparseV.Model.Basic
namespace SparseV.Gen

/-- an interned name: index into `names` -/
abbrev Name := Nat

/-- a Python signature -/
structure Sig where
  posonly : List Name                 -- positional-only parameters
  pos : List Name                     -- positional-or-keyword parameters
  kwonly : List Name                  -- keyword-only parameters
  varargs : Bool
  varkw : Bool
  defaults : List (Name × Name)       -- parameter ↦ default (normalised source text, interned)
  deriving Repr, DecidableEq

/-- where an argument of a forwarding call comes from -/
inductive Src
  | param (name : Name)      -- an own parameter, passed on unchanged
  | const (text : Name)      -- anything else (a literal, an expression): source text
  | star (name : Name)       -- the own `*args` / `**kwargs`, unpacked unchanged
  deriving Repr, DecidableEq

/-- what a function/method body does with its call -/
inductive Fwd
  | method (name : Name) (pos : List Src) (kw : List (Name × Src))
      -- `return <first parameter>.name(pos…, k=v…)`   (keyword `**` = unpacked own kwargs)
  | func (target : Name) (pos : List Src) (kw : List (Name × Src))
      -- `return target(pos…, k=v…)`, target = module-qualified function of the package
  | ufuncReduce (ufunc : Name) (kw : List (Name × Src))   -- `np.<ufunc>.reduce(self, k=v…)`
  | ufuncCall (ufunc : Name) (kw : List (Name × Src))     -- `self.__array_ufunc__(np.<f>, "__call__", self, k=v…)` / `np.<f>(self)`
  | attr (name : Name)                                     -- `return <first parameter>.name`
  | binop (dunder : Name)                                  -- `return x1 == x2`
  | impl                                                   -- own implementation (several statements)
  deriving Repr, DecidableEq

/-- kind of an attribute -/
inductive Kind
  | function | ufunc | method | property | classmethod | staticmethod | data | cls | module | value
  deriving Repr, DecidableEq

/-- one way the source offers an operation -/
structure Entry where
  op : Name          -- the name it answers to
  owner : Name       -- `sparse` for a name of the namespace, `private` for a package function reached only by forwarding,
                     -- else the class whose body defines it
  kind : Kind
  target : Name      -- module-qualified definition (`_common.sum`, `SparseArray.sum`, `numpy.add`)
  sig : Sig
  fwd : Fwd
  dropped : List Name     -- own parameters that the forwarding call does not use
  supportNumpy : Bool     -- decorated with `_support_numpy` (dense input is passed to NumPy)
  deriving Repr

/-- one statement of the `if out is not None:` block that follows the computation in `SparseArray.__array_ufunc__` (what happens to the
computed `result` before it becomes the content of the caller's `out` array) -/
inductive OutStep
  | unpack                            -- `(out,) = out`
  | shapeCheck                        -- `if out.shape != result.shape: raise ValueError(…)`
  | refuseDense                       -- `if not isinstance(result, SparseArray): raise ValueError(…)`
  | convertFormat (keepAxes : Bool)   -- `if type(result) is not type(out): result = result.asformat(out.format, …)`; `keepAxes`: a GCXS
                                      -- target with ≥ 2 dimensions passes its own `compressed_axes` to the conversion
  | shallowCopy                       -- `out._make_shallow_copy_of(result)`: `out.__dict__ = result.__dict__.copy()`
  | returnOut                         -- `return out`
  deriving Repr, DecidableEq

def Sig.empty : Sig := { posonly := [], pos := [], kwonly := [], varargs := false, varkw := false, defaults := [] }
/-- parameters that can be passed positionally, in order -/
def Sig.positional (s : Sig) : List Name := s.posonly ++ s.pos
/-- all named parameters -/
def Sig.params (s : Sig) : List Name := s.posonly ++ s.pos ++ s.kwonly
'''


class Refuse(Exception):
    pass


def _strip_doc(body):
    if body and isinstance(body[0], ast.Expr) and isinstance(getattr(body[0], "value", None), ast.Constant) and isinstance(body[0].value.value, str):
        return body[1:]
    return body


def norm_default(node):
    if node is None:
        return None
    if isinstance(node, ast.Constant) and isinstance(node.value, float) and node.value == int(node.value):
        return str(int(node.value))
    return ast.unparse(node)


def sig_of(fn: ast.FunctionDef, drop_first=False):
    a = fn.args
    posonly = [p.arg for p in a.posonlyargs]
    pos = [p.arg for p in a.args]
    allpos = a.posonlyargs + a.args
    defaults = {}
    for p, d in zip(allpos[len(allpos) - len(a.defaults):], a.defaults):
        defaults[p.arg] = norm_default(d)
    for p, d in zip(a.kwonlyargs, a.kw_defaults):
        if d is not None:
            defaults[p.arg] = norm_default(d)
    if drop_first:
        if posonly:
            posonly = posonly[1:]
        elif pos:
            pos = pos[1:]
    return dict(posonly=posonly, pos=pos, kwonly=[p.arg for p in a.kwonlyargs], varargs=a.vararg is not None, varkw=a.kwarg is not None,
                defaults=defaults)


def sig_of_runtime(f):
    """Sig of a NumPy function from inspect.signature"""
    s = inspect.signature(f)
    d = dict(posonly=[], pos=[], kwonly=[], varargs=False, varkw=False, defaults={})
    for p in s.parameters.values():
        if p.kind == p.POSITIONAL_ONLY:
            d["posonly"].append(p.name)
        elif p.kind == p.POSITIONAL_OR_KEYWORD:
            d["pos"].append(p.name)
        elif p.kind == p.KEYWORD_ONLY:
            d["kwonly"].append(p.name)
        elif p.kind == p.VAR_POSITIONAL:
            d["varargs"] = True
        else:
            d["varkw"] = True
        if p.default is not p.empty:
            r = repr(p.default)
            d["defaults"][p.name] = "<no value>" if "no value" in r else (str(int(p.default)) if isinstance(p.default, float) and p.default == int(p.default) else r)
    return d


# ------------------------------------------------------------------------------------------------
# module loading / name resolution (same scheme as tables.d/C07.py; kept separate so that each table stands alone)
# ------------------------------------------------------------------------------------------------

class Mod:
    def __init__(self, key, tree):
        self.key, self.tree = key, tree
        self.funcs, self.classes, self.imports, self.aliases = {}, {}, {}, {}
        for n in tree.body:
            if isinstance(n, ast.FunctionDef):
                self.funcs[n.name] = n
            elif isinstance(n, ast.ClassDef):
                self.classes[n.name] = n
            elif isinstance(n, ast.ImportFrom):
                self.imp(n, self.imports)
            elif isinstance(n, ast.Assign) and len(n.targets) == 1 and isinstance(n.targets[0], ast.Name) and isinstance(n.value, ast.Name):
                self.aliases[n.targets[0].id] = n.value.id

    def imp(self, n, table):
        if n.level == 0 and (n.module or "") == "numpy":
            for a in n.names:
                table[a.asname or a.name] = ("numpy", a.name)
            return
        if n.module == "sparse" or (n.level == 0 and (n.module or "").startswith("sparse")):
            base = ""
        elif n.level == 0:
            return
        else:
            pk = self.key.split(".")[:-1]
            up = n.level - 1
            pk = pk[: len(pk) - up] if up else pk
            base = ".".join(pk + ([n.module] if n.module else []))
        for a in n.names:
            table[a.asname or a.name] = (base, a.name)


def load(repo: Path):
    root = repo / PKG
    mods = {k: Mod(k, ast.parse((root / rel).read_text())) for k, rel in MODULES.items()}
    inits = {k: Mod(k + ".__init__" if k else "__init__", ast.parse((root / rel).read_text())) for k, rel in PACKAGE_INITS.items()}
    return mods, inits


def resolve_name(mods, inits, modkey, name, depth=0):
    if depth > 6:
        return None
    if modkey == "numpy":
        return ("numpy", name)
    if modkey in mods:
        m = mods[modkey]
        if name in m.funcs or name in m.classes:
            return (modkey, name)
        if name in m.aliases:
            return resolve_name(mods, inits, modkey, m.aliases[name], depth + 1)
        if name in m.imports:
            b, orig = m.imports[name]
            return resolve_name(mods, inits, b, orig, depth + 1)
        return None
    if modkey in inits:
        m = inits[modkey]
        if name in m.imports:
            b, orig = m.imports[name]
            return resolve_name(mods, inits, b, orig, depth + 1)
    return None


# ------------------------------------------------------------------------------------------------
# equivalences of Python source that the readers below work modulo (each one is an equivalence of the LANGUAGE under the side condition
# stated with it; nothing here knows anything about pydata/sparse)
# ------------------------------------------------------------------------------------------------

PURE_CALLS = {"len", "isinstance", "type", "hasattr", "all", "any", "callable"}
SCOPES = (ast.Lambda, ast.ListComp, ast.SetComp, ast.DictComp, ast.GeneratorExp, ast.FunctionDef, ast.AsyncFunctionDef, ast.ClassDef)
FLIP = {ast.Eq: ast.NotEq, ast.NotEq: ast.Eq, ast.Is: ast.IsNot, ast.IsNot: ast.Is, ast.In: ast.NotIn, ast.NotIn: ast.In}
MIRROR = {ast.Lt: ast.Gt, ast.Gt: ast.Lt, ast.LtE: ast.GtE, ast.GtE: ast.LtE, ast.Eq: ast.Eq, ast.NotEq: ast.NotEq, ast.Is: ast.Is, ast.IsNot: ast.IsNot}


def is_trivial(e):
    """evaluating it cannot have an effect and cannot observe one: a name, a literal, an attribute read of such"""
    return isinstance(e, ast.Name | ast.Constant) or (isinstance(e, ast.Attribute) and is_trivial(e.value))


def is_pure(e):
    """a read-only test: names, literals, attribute reads, comparisons, not/and/or, and a few builtins applied to such (`getattr` only
    with a default).  Operands of this kind may be evaluated in any order."""
    if isinstance(e, ast.Name | ast.Constant):
        return True
    if isinstance(e, ast.Attribute):
        return is_pure(e.value)
    if isinstance(e, ast.UnaryOp) and isinstance(e.op, ast.Not):
        return is_pure(e.operand)
    if isinstance(e, ast.BoolOp):
        return all(is_pure(v) for v in e.values)
    if isinstance(e, ast.Compare):
        return is_pure(e.left) and all(is_pure(c) for c in e.comparators)
    if isinstance(e, ast.Tuple):
        return all(is_pure(v) for v in e.elts)
    if isinstance(e, ast.Call) and isinstance(e.func, ast.Name) and not e.keywords:
        if e.func.id in PURE_CALLS or (e.func.id == "getattr" and len(e.args) == 3):
            return all(is_pure(a) for a in e.args)
    if isinstance(e, ast.GeneratorExp) and len(e.generators) == 1:
        g = e.generators[0]
        return not g.is_async and is_pure(e.elt) and is_pure(g.iter) and all(is_pure(i) for i in g.ifs)
    return False


def terminates(stmts):
    return bool(stmts) and isinstance(stmts[-1], ast.Return | ast.Raise | ast.Continue | ast.Break)


def nnf(e, neg=False):
    """negation normal form of a test (a new tree).  `not` is pushed to the atoms; `is`/`is not`, `in`/`not in`, `==`/`!=` absorb it
    (the values compared with `==` in the code read here are strings, ints, tuples and classes: two-valued equality); `any(P for …)`
    is written `not all(not P for …)`."""
    if isinstance(e, ast.UnaryOp) and isinstance(e.op, ast.Not):
        return nnf(e.operand, not neg)
    if isinstance(e, ast.BoolOp):
        op = (ast.Or() if isinstance(e.op, ast.And) else ast.And()) if neg else e.op
        vals = []
        for v in e.values:
            w = nnf(v, neg)
            vals += w.values if isinstance(w, ast.BoolOp) and type(w.op) is type(op) else [w]
        return ast.BoolOp(op=op, values=vals)
    if isinstance(e, ast.Compare) and len(e.ops) == 1 and type(e.ops[0]) in FLIP:
        return ast.Compare(left=e.left, ops=[FLIP[type(e.ops[0])]()], comparators=e.comparators) if neg else e
    if (isinstance(e, ast.Call) and isinstance(e.func, ast.Name) and e.func.id in ("all", "any") and len(e.args) == 1 and not e.keywords
            and isinstance(e.args[0], ast.GeneratorExp)):
        g = e.args[0]
        is_any = e.func.id == "any"
        inner = ast.Call(func=ast.Name(id="all", ctx=ast.Load()), args=[ast.GeneratorExp(elt=nnf(g.elt, is_any), generators=g.generators)], keywords=[])
        return ast.UnaryOp(op=ast.Not(), operand=inner) if neg != is_any else inner
    if isinstance(e, ast.Constant) and isinstance(e.value, bool):
        return ast.Constant(value=(not e.value) if neg else e.value)
    return ast.UnaryOp(op=ast.Not(), operand=e) if neg else e


def _stores(node):
    """names bound anywhere below `node` (any binding form), with multiplicity"""
    out = []
    for n in ast.walk(node):
        if isinstance(n, ast.Name) and isinstance(n.ctx, ast.Store | ast.Del):
            out.append(n.id)
        elif isinstance(n, ast.ExceptHandler) and n.name:
            out.append(n.name)
        elif isinstance(n, ast.alias):
            out.append((n.asname or n.name).split(".")[0])
        elif isinstance(n, ast.FunctionDef | ast.AsyncFunctionDef | ast.ClassDef):
            out.append(n.name)
        elif isinstance(n, ast.arg):
            out.append(n.arg)
    return out


def _loads(node, name):
    return [n for n in ast.walk(node) if isinstance(n, ast.Name) and n.id == name and isinstance(n.ctx, ast.Load)]


def _blocks(stmts):
    """every statement list below (and including) `stmts`"""
    yield stmts
    for st in stmts:
        for field in ("body", "orelse", "finalbody"):
            sub = getattr(st, field, None)
            if isinstance(sub, list) and sub and isinstance(sub[0], ast.stmt) and not isinstance(st, SCOPES):
                yield from _blocks(sub)
        for h in getattr(st, "handlers", []) or []:
            yield from _blocks(h.body)


def _header(st):
    """the expressions a statement evaluates BEFORE anything else of it runs, exactly once"""
    if isinstance(st, ast.Return | ast.Expr):
        return [st.value] if st.value is not None else []
    if isinstance(st, ast.Assign | ast.AnnAssign | ast.AugAssign):
        return [st.value] if st.value is not None else []
    if isinstance(st, ast.If):
        return [st.test]
    if isinstance(st, ast.For):
        return [st.iter]
    if isinstance(st, ast.Raise):
        return [x for x in (st.exc,) if x is not None]
    return []


class _Found(Exception):
    pass


def _evaluated_before(expr, target):
    """(reachable unconditionally?, non-trivial nodes whose evaluation is complete before the Name node `target` is read)"""
    done = []
    state = {"conditional": False}

    def visit(n, conditional):
        if n is target:
            state["conditional"] = conditional
            raise _Found
        if isinstance(n, SCOPES):
            if any(x is target for x in ast.walk(n)):
                state["conditional"] = True
                raise _Found
            done.append(n)
            return
        if isinstance(n, ast.IfExp):
            visit(n.test, conditional)
            visit(n.body, True)
            visit(n.orelse, True)
        elif isinstance(n, ast.BoolOp):
            for i, v in enumerate(n.values):
                visit(v, conditional or i > 0)
        else:
            for c in ast.iter_child_nodes(n):
                if isinstance(c, ast.expr | ast.keyword | ast.Starred | ast.Slice | ast.comprehension):
                    visit(c, conditional)
        if isinstance(n, ast.expr) and not is_trivial(n):
            done.append(n)
    try:
        visit(expr, False)
    except _Found:
        return (not state["conditional"]), done
    return False, done


class _Subst(ast.NodeTransformer):
    def __init__(self, name, value):
        self.name, self.value = name, value

    def visit_Name(self, n):
        if n.id == self.name and isinstance(n.ctx, ast.Load):
            return copy.deepcopy(self.value)
        return n


def inline_temps(body, params):
    """`body` (a function body, already a private copy) with its temporaries read through.

    A. `t = E` immediately followed by a statement that reads `t` in what it evaluates first, exactly once in the whole function, `t`
       bound nowhere else, the read not inside a conditional sub-expression / lambda / comprehension, and nothing but names, literals
       and attribute reads evaluated between: the statement with `E` in place of `t`.
    B. `t = E` at the top level of the function, `t` bound nowhere else, `E` built from literals, parameters that the function never
       rebinds (and whose attributes it never assigns), attribute reads, `type(·)` and three-argument `getattr(·, 'name', literal)`,
       every read of `t` in a later top-level statement: `E` in place of every read."""
    fn_stores = _stores(ast.Module(body=body, type_ignores=[]))
    frozen = {p for p in params if p not in fn_stores}
    for n in ast.walk(ast.Module(body=body, type_ignores=[])):
        if isinstance(n, ast.Attribute) and isinstance(n.ctx, ast.Store) and isinstance(n.value, ast.Name):
            frozen.discard(n.value.id)

    def stable(e):
        if isinstance(e, ast.Constant):
            return True
        if isinstance(e, ast.Name):
            return e.id in frozen
        if isinstance(e, ast.Attribute):
            return stable(e.value)
        if isinstance(e, ast.Call) and isinstance(e.func, ast.Name) and not e.keywords:
            if e.func.id == "type" and len(e.args) == 1:
                return stable(e.args[0])
            if e.func.id == "getattr" and len(e.args) == 3:
                return stable(e.args[0]) and isinstance(e.args[1], ast.Constant) and isinstance(e.args[2], ast.Constant)
        return False

    changed = True
    while changed:
        changed = False
        whole = ast.Module(body=body, type_ignores=[])
        counts = {}
        for s in _stores(whole):
            counts[s] = counts.get(s, 0) + 1
        # B
        for i, st in enumerate(body):
            if not (isinstance(st, ast.Assign) and len(st.targets) == 1 and isinstance(st.targets[0], ast.Name)):
                continue
            t = st.targets[0].id
            if counts.get(t) != 1 or t in params or not stable(st.value) or isinstance(st.value, ast.Name):
                continue
            if any(_loads(x, t) for x in body[:i + 1]) or not any(_loads(x, t) for x in body[i + 1:]):
                continue
            sub = _Subst(t, st.value)
            body[i + 1:] = [sub.visit(x) for x in body[i + 1:]]
            del body[i]
            changed = True
            break
        if changed:
            continue
        # A
        for blk in _blocks(body):
            for i in range(len(blk) - 1):
                st, nxt = blk[i], blk[i + 1]
                if not (isinstance(st, ast.Assign) and len(st.targets) == 1 and isinstance(st.targets[0], ast.Name)):
                    continue
                t = st.targets[0].id
                if counts.get(t) != 1 or t in params:
                    continue
                uses = _loads(whole, t)
                if len(uses) != 1:
                    continue
                for h in _header(nxt):
                    if not any(x is uses[0] for x in ast.walk(h)):
                        continue
                    ok, before = _evaluated_before(h, uses[0])
                    if ok and not before:
                        sub = _Subst(t, st.value)
                        for f, v in ast.iter_fields(nxt):
                            if v is h:
                                setattr(nxt, f, sub.visit(h))
                        del blk[i]
                        changed = True
                    break
                if changed:
                    break
            if changed:
                break
    return body


def _const_key(v):
    if isinstance(v, ast.Constant):
        return repr(v.value)
    if isinstance(v, ast.List | ast.Tuple | ast.Set) and not v.elts:
        return type(v).__name__
    if isinstance(v, ast.Dict) and not v.keys:
        return "Dict"
    return None


class _Norm(ast.NodeTransformer):
    """structural canonicalisation (independent of the names of locals)"""

    def visit_With(self, n):
        self.generic_visit(n)
        if (len(n.items) == 1 and n.items[0].optional_vars is None and isinstance(n.items[0].context_expr, ast.Call)
                and ast.unparse(n.items[0].context_expr.func) in ("contextlib.suppress", "suppress") and len(n.items[0].context_expr.args) == 1
                and not n.items[0].context_expr.keywords):
            h = ast.ExceptHandler(type=n.items[0].context_expr.args[0], name=None, body=[ast.Pass()])
            return ast.Try(body=n.body, handlers=[h], orelse=[], finalbody=[])
        return n

    def visit_Assign(self, n):
        self.generic_visit(n)
        n.targets = [ast.Tuple(elts=t.elts, ctx=t.ctx) if isinstance(t, ast.List) else t for t in n.targets]
        return n

    def visit_If(self, n):
        self.generic_visit(n)
        n.test = nnf(n.test)
        return n

    def visit_IfExp(self, n):
        self.generic_visit(n)
        n.test = nnf(n.test)
        return n

    def visit_Compare(self, n):
        self.generic_visit(n)
        if (len(n.ops) == 1 and isinstance(n.ops[0], ast.Eq | ast.NotEq) and isinstance(n.left, ast.Constant)
                and not isinstance(n.comparators[0], ast.Constant) and is_pure(n.comparators[0])):
            n.left, n.comparators = n.comparators[0], [n.left]     # a literal operand of `==` on the right
        return n

    def visit_comprehension(self, n):
        self.generic_visit(n)
        n.ifs = [nnf(i) for i in n.ifs]
        return n


def _chain(st):
    """[(test, body)…], else-body of an if/elif chain"""
    arms, cur = [], st
    while True:
        arms.append((cur.test, cur.body))
        if len(cur.orelse) == 1 and isinstance(cur.orelse[0], ast.If):
            cur = cur.orelse[0]
        else:
            return arms, cur.orelse


def _norm_block(stmts):
    out = []
    for st in stmts:
        for field in ("body", "orelse", "finalbody"):
            sub = getattr(st, field, None)
            if isinstance(sub, list) and sub and isinstance(sub[0], ast.stmt) and not isinstance(st, SCOPES):
                setattr(st, field, _norm_block(sub))
        for h in getattr(st, "handlers", []) or []:
            h.body = _norm_block(h.body)
        if isinstance(st, ast.If) and st.orelse:
            arms, last = _chain(st)
            keys = []
            for t, _ in arms:
                if (isinstance(t, ast.Compare) and len(t.ops) == 1 and isinstance(t.ops[0], ast.Eq) and isinstance(t.left, ast.Name)
                        and isinstance(t.comparators[0], ast.Constant)):
                    keys.append((t.left.id, repr(t.comparators[0].value)))
                else:
                    keys = None
                    break
            if keys and len(arms) > 1 and len({k[0] for k in keys}) == 1 and len({k[1] for k in keys}) == len(keys):
                # one name compared with different literals: at most one arm runs, whatever the order
                arms = [a for _, a in sorted(zip(keys, arms, strict=True), key=lambda ka: ka[0])]
                node = last
                for t, b in reversed(arms):
                    node = [ast.If(test=t, body=b, orelse=node)]
                st = node[0]
        if isinstance(st, ast.If) and st.orelse and terminates(st.body):
            # an `else` after a body that does not fall through
            out.append(ast.If(test=st.test, body=st.body, orelse=[]))
            out += st.orelse
            continue
        out.append(st)
    # adjacent assignments of literals to different names commute
    i = 0
    while i < len(out):
        j = i
        names = []
        while (j < len(out) and isinstance(out[j], ast.Assign) and len(out[j].targets) == 1 and isinstance(out[j].targets[0], ast.Name)
               and _const_key(out[j].value) is not None and out[j].targets[0].id not in names):
            names.append(out[j].targets[0].id)
            j += 1
        if j - i > 1:
            out[i:j] = sorted(out[i:j], key=lambda a: _const_key(a.value))
        i = max(j, i + 1)
    return out


def normalise(body, params):
    """a function body in canonical form (a new tree): docstring dropped, temporaries read through, `with suppress` as try, tests in
    negation normal form, no `else` after a returning body, comparison chains on one name and runs of literal assignments sorted"""
    body = copy.deepcopy(list(_strip_doc(body)))
    body = inline_temps(body, params)
    mod = _Norm().visit(ast.Module(body=body, type_ignores=[]))
    return _norm_block(mod.body)


class Match:
    """structural comparison of a PATTERN (source text the model was written for) with the working tree's code, modulo the equivalences
    listed in the module docstring.  `plocals`: the local names of the pattern (they may be called anything in the code, consistently);
    every other name must be the same on both sides."""

    def __init__(self, plocals, reserved=()):
        self.plocals = set(plocals)
        self.reserved = set(reserved)
        self.env, self.rev = {}, {}

    def snap(self):
        return dict(self.env), dict(self.rev)

    def restore(self, s):
        self.env, self.rev = dict(s[0]), dict(s[1])

    def attempt(self, f):
        s = self.snap()
        if f():
            return True
        self.restore(s)
        return False

    def name(self, p, a):
        if p in self.plocals:
            if p in self.env:
                return self.env[p] == a
            if a in self.rev or a in self.reserved:
                return False
            self.env[p], self.rev[a] = a, p
            return True
        return p == a and a not in self.rev

    def perm(self, ps, as_):
        if len(ps) != len(as_):
            return False
        if not ps:
            return True
        for i in range(len(as_)):
            if self.attempt(lambda i=i: self.node(ps[0], as_[i]) and self.perm(ps[1:], as_[:i] + as_[i + 1:])):
                return True
        return False

    def seq(self, ps, as_):
        return len(ps) == len(as_) and all(self.node(p, a) for p, a in zip(ps, as_, strict=True))

    def scoped(self, gens_p, gens_a, rest):
        """comprehension: its target names are local to it"""
        if len(gens_p) != len(gens_a):
            return False
        targets = {n.id for g in gens_p for n in ast.walk(g.target) if isinstance(n, ast.Name)}
        saved = {t: (self.env.pop(t, None)) for t in targets}
        for t, v in saved.items():
            if v is not None:
                self.rev.pop(v, None)
        added = self.plocals | targets
        old_pl, self.plocals = self.plocals, added
        ok = all(self.node(gp.iter, ga.iter) and self.node(gp.target, ga.target) and self.seq(gp.ifs, ga.ifs) and gp.is_async == ga.is_async
                 for gp, ga in zip(gens_p, gens_a, strict=True)) and rest()
        for t in targets:
            v = self.env.pop(t, None)
            if v is not None:
                self.rev.pop(v, None)
        for t, v in saved.items():
            if v is not None:
                self.env[t], self.rev[v] = v, t
        self.plocals = old_pl
        return ok

    def node(self, p, a):
        if isinstance(p, ast.AST) != isinstance(a, ast.AST):
            return False
        if not isinstance(p, ast.AST):
            if isinstance(p, list):
                return isinstance(a, list) and (self.block(p, a) if p and isinstance(p[0], ast.stmt) or a and isinstance(a[0], ast.stmt) else self.seq(p, a))
            return type(p) is type(a) and p == a
        if type(p) is not type(a):
            return False
        if isinstance(p, ast.Name):
            return self.name(p.id, a.id)
        if isinstance(p, ast.arg):
            return self.name(p.arg, a.arg)
        if isinstance(p, ast.alias):
            return p.name == a.name and self.name(p.asname or p.name, a.asname or a.name)
        if isinstance(p, ast.ExceptHandler):
            return ((p.name is None) == (a.name is None) and (p.name is None or self.name(p.name, a.name))
                    and ((p.type is None) == (a.type is None)) and (p.type is None or self.node(p.type, a.type)) and self.block(p.body, a.body))
        if isinstance(p, ast.BoolOp):
            if type(p.op) is not type(a.op):
                return False
            if all(is_pure(v) for v in p.values) and all(is_pure(v) for v in a.values):
                return self.perm(list(p.values), list(a.values))
            return self.seq(p.values, a.values)
        if isinstance(p, ast.Compare) and len(p.ops) == 1 and len(a.ops) == 1:
            if type(p.ops[0]) is type(a.ops[0]) and self.attempt(lambda: self.node(p.left, a.left) and self.node(p.comparators[0], a.comparators[0])):
                return True
            if MIRROR.get(type(p.ops[0])) is type(a.ops[0]) and is_pure(a.left) and is_pure(a.comparators[0]):
                return self.attempt(lambda: self.node(p.left, a.comparators[0]) and self.node(p.comparators[0], a.left))
            return False
        if isinstance(p, ast.GeneratorExp | ast.ListComp | ast.SetComp):
            return self.scoped(p.generators, a.generators, lambda: self.node(p.elt, a.elt))
        if isinstance(p, ast.DictComp):
            return self.scoped(p.generators, a.generators, lambda: self.node(p.key, a.key) and self.node(p.value, a.value))
        if isinstance(p, ast.If):
            if self.attempt(lambda: self.node(p.test, a.test) and self.block(p.body, a.body) and self.block(p.orelse, a.orelse)):
                return True
            if p.orelse and a.orelse:
                return self.attempt(lambda: self.node(p.test, nnf(a.test, True)) and self.block(p.body, a.orelse) and self.block(p.orelse, a.body))
            return False
        if isinstance(p, ast.IfExp):
            if self.attempt(lambda: self.node(p.test, a.test) and self.node(p.body, a.body) and self.node(p.orelse, a.orelse)):
                return True
            return self.attempt(lambda: self.node(p.test, nnf(a.test, True)) and self.node(p.body, a.orelse) and self.node(p.orelse, a.body))
        for (fp, vp), (fa, va) in zip(ast.iter_fields(p), ast.iter_fields(a), strict=True):
            if fp != fa:
                return False
            if fp in ("ctx", "type_comment", "kind"):
                continue
            if not self.node(vp, va):
                return False
        return True

    def block(self, ps, as_):
        """two statement lists; `if c: A(returns); R(returns)` also matches `if not c: R; A`"""
        if not ps or not as_:
            return not ps and not as_
        p, a = ps[0], as_[0]
        if self.attempt(lambda: self.node(p, a) and self.block(ps[1:], as_[1:])):
            return True
        if (isinstance(p, ast.If) and isinstance(a, ast.If) and not p.orelse and not a.orelse and terminates(p.body) and terminates(a.body)
                and terminates(ps[1:]) and terminates(as_[1:])):
            return self.attempt(lambda: self.node(p.test, nnf(a.test, True)) and self.block(p.body, as_[1:]) and self.block(ps[1:], a.body))
        return False


def parse_pattern(src, params):
    return normalise(ast.parse(src).body, params)


def paths(stmts, conds=()):
    """the ways through a block that consists of ifs and returns only: [(conditions (negation normal form), returned expression)]"""
    if not stmts:
        raise Refuse("a path falls off the end of the block")
    st = stmts[0]
    if isinstance(st, ast.Return):
        return [(list(conds), st.value)]
    if isinstance(st, ast.If):
        yes = st.body + ([] if terminates(st.body) else stmts[1:])
        no = st.orelse + ([] if st.orelse and terminates(st.orelse) else stmts[1:])
        return paths(yes, (*conds, nnf(st.test))) + paths(no, (*conds, nnf(st.test, True)))
    raise Refuse(f"statement `{ast.unparse(st)[:100]}` is neither an `if` nor a `return`")


def conjuncts(conds):
    out = []
    for c in conds:
        out += c.values if isinstance(c, ast.BoolOp) and isinstance(c.op, ast.And) else [c]
    return out


# ------------------------------------------------------------------------------------------------
# the forwarding shape of one function body
# ------------------------------------------------------------------------------------------------

def call_args(call, params, who, star=(None, None)):
    """positional sources and (keyword, source) pairs of a forwarding call.  `*args` / `**kwargs` are understood only when they pass
    the function's OWN variadic parameters through unchanged (written `*name` / (`**`, name)); anything else is refused."""
    vararg, varkw = star

    def src(v):
        if isinstance(v, ast.Name) and v.id in params:
            return ("param", v.id)
        return ("const", norm_default(v) or "")
    pos = []
    for a in call.args:
        if isinstance(a, ast.Starred):
            if isinstance(a.value, ast.Name) and a.value.id == vararg:
                pos.append(("star", vararg))
                continue
            raise Refuse(f"{who}: forwarding call unpacks `*{ast.unparse(a.value)}`: `{ast.unparse(call)[:100]}`")
        pos.append(src(a))
    kw = []
    for k in call.keywords:
        if k.arg is None:
            if isinstance(k.value, ast.Name) and k.value.id == varkw:
                kw.append(("**", ("star", varkw)))
                continue
            raise Refuse(f"{who}: forwarding call unpacks `**{ast.unparse(k.value)}`: `{ast.unparse(call)[:100]}`")
        kw.append((k.arg, src(k.value)))
    return pos, kw


def _raises_only(st):
    """argument validation: an `if` (nested ifs, elif / else arms included) every leaf of which raises"""
    if isinstance(st, ast.Raise):
        return True
    if isinstance(st, ast.If):
        return all(_raises_only(x) for x in st.body) and all(_raises_only(x) for x in st.orelse)
    return False


def _untemp_try(body):
    """`try: t = E except X: return Y else: return t` and `try: t = E except X: return Y` + `return t` (nothing else reads or binds `t`)
    read as `try: return E except X: return Y`: the handler returns, so both returns are reached exactly when `E` did not raise X."""
    if not body or not isinstance(body[-1], ast.Return | ast.Try):
        return body
    whole = ast.Module(body=body, type_ignores=[])
    for k in (1, 2):
        if len(body) < k or not isinstance(body[-k], ast.Try):
            continue
        tr = body[-k]
        if not (len(tr.body) == 1 and isinstance(tr.body[0], ast.Assign) and len(tr.body[0].targets) == 1 and isinstance(tr.body[0].targets[0], ast.Name)
                and not tr.finalbody and all(terminates(h.body) for h in tr.handlers)):
            continue
        t = tr.body[0].targets[0].id
        ret = tr.orelse[0] if (k == 1 and len(tr.orelse) == 1) else (body[-1] if (k == 2 and not tr.orelse) else None)
        if not (isinstance(ret, ast.Return) and isinstance(ret.value, ast.Name) and ret.value.id == t):
            continue
        if _stores(whole).count(t) != 1 or len(_loads(whole, t)) != 1:
            continue
        new_try = ast.Try(body=[ast.Return(value=tr.body[0].value)], handlers=tr.handlers, orelse=[], finalbody=[])
        return body[:len(body) - k] + [new_try]
    return body


def forward_of(fn: ast.FunctionDef, who, modkey, mods, inits, is_method, ufunc_name):
    """(fwd tuple, dropped params, prelude notes).  The body is read with its temporaries read through (`inline_temps`); if THAT reading
    is refused although the body as written is simply an implementation of its own (several statements), it is one."""
    try:
        return _forward_of(fn, who, modkey, mods, inits, is_method, ufunc_name, True)
    except Refuse:
        r = _forward_of(fn, who, modkey, mods, inits, is_method, ufunc_name, False)
        if r[0] == ("impl",):
            return r
        raise


def _forward_of(fn: ast.FunctionDef, who, modkey, mods, inits, is_method, ufunc_name, read_through):
    a = fn.args
    params = [p.arg for p in a.posonlyargs + a.args + a.kwonlyargs]
    star = (a.vararg.arg if a.vararg else None, a.kwarg.arg if a.kwarg else None)
    first = params[0] if params else None
    body = copy.deepcopy(list(_strip_doc(fn.body)))
    if read_through:
        body = _untemp_try(inline_temps(body, set(params) | {x for x in star if x}))
    local_imports = {}
    tmp = Mod(modkey, ast.Module(body=[], type_ignores=[]))
    rest, notes = [], []
    for st in body:
        if isinstance(st, ast.ImportFrom):
            tmp.imp(st, local_imports)
            continue
        if isinstance(st, ast.Import):
            continue
        if isinstance(st, ast.Assert) and ast.unparse(st.test) == "out is None":
            notes.append("asserts out is None")
            continue
        if (isinstance(st, ast.Assign) and len(st.targets) == 1 and isinstance(st.targets[0], ast.Name) and isinstance(st.value, ast.Call)
                and isinstance(st.value.func, ast.Name) and st.value.func.id in CONVERTERS and st.value.args
                and isinstance(st.value.args[0], ast.Name) and st.value.args[0].id == st.targets[0].id and st.targets[0].id in params):
            notes.append(f"converts {st.targets[0].id}")
            continue
        if _raises_only(st):
            notes.append("validates")
            continue
        if isinstance(st, ast.If) and not st.orelse and len(st.body) == 1:
            b = st.body[0]
            if (isinstance(b, ast.Assign) and len(b.targets) == 1 and isinstance(b.targets[0], ast.Name) and b.targets[0].id in params
                    and ast.unparse(b.value) == f"({b.targets[0].id},)"):
                notes.append(f"normalises {b.targets[0].id}")
                continue
        rest.append(st)
    # try: return f(...) except NotImplementedError: return NotImplemented
    if (len(rest) == 1 and isinstance(rest[0], ast.Try) and len(rest[0].body) == 1 and isinstance(rest[0].body[0], ast.Return)
            and len(rest[0].handlers) == 1 and ast.unparse(rest[0].handlers[0].type) == "NotImplementedError"
            and ast.unparse(rest[0].handlers[0].body[0]) == "return NotImplemented" and not rest[0].orelse and not rest[0].finalbody):
        rest = [rest[0].body[0]]
        notes.append("NotImplementedError -> NotImplemented")
    if len(rest) != 1 or not isinstance(rest[0], ast.Return) or rest[0].value is None:
        return ("impl",), [], notes
    e = rest[0].value

    def res(name):
        if name in local_imports:
            b, orig = local_imports[name]
            return resolve_name(mods, inits, b, orig)
        return resolve_name(mods, inits, modkey, name)

    used = {n.id for n in ast.walk(e) if isinstance(n, ast.Name)}
    dropped = [p for p in params if p not in used and p != "self"]
    if isinstance(e, ast.Call):
        vals = [a.value if isinstance(a, ast.Starred) else a for a in e.args] + [k.value for k in e.keywords]
        if sum(1 for v in vals if not (is_trivial(v) or isinstance(v, ast.Lambda))) <= 1:
            notes.append("args-commute")
    if isinstance(e, ast.Attribute) and isinstance(e.value, ast.Name) and e.value.id == first:
        return ("attr", e.attr), dropped, notes
    if isinstance(e, ast.Compare) and len(e.ops) == 1 and isinstance(e.left, ast.Name) and isinstance(e.comparators[0], ast.Name):
        sym = {ast.Eq: "__eq__", ast.NotEq: "__ne__", ast.Lt: "__lt__", ast.LtE: "__le__", ast.Gt: "__gt__", ast.GtE: "__ge__"}.get(type(e.ops[0]))
        if sym and e.left.id == first:
            return ("binop", sym), dropped, notes
    if isinstance(e, ast.Call):
        f = e.func
        # `return conv(<first parameter>).m(…)`: the conversion written inline instead of as a prelude statement
        if (isinstance(f, ast.Attribute) and isinstance(f.value, ast.Call) and isinstance(f.value.func, ast.Name) and f.value.func.id in CONVERTERS
                and len(f.value.args) == 1 and not f.value.keywords and isinstance(f.value.args[0], ast.Name) and f.value.args[0].id == first
                and f.attr != "__array_ufunc__"):
            notes.append(f"converts {first}")
            pos, kw = call_args(e, params, who, star)
            used_in_call = {n.id for a_ in list(e.args) + [k.value for k in e.keywords] for n in ast.walk(a_) if isinstance(n, ast.Name)} | {first}
            return ("method", f.attr, pos, kw), [p for p in params if p not in used_in_call and p != "self"], notes
        if isinstance(f, ast.Attribute) and isinstance(f.value, ast.Name) and f.value.id == first and first is not None:
            if f.attr == "__array_ufunc__":
                # self.__array_ufunc__(np.<f>, "__call__", self, k=v…)
                if (len(e.args) == 3 and isinstance(e.args[1], ast.Constant) and e.args[1].value == "__call__"
                        and isinstance(e.args[2], ast.Name) and e.args[2].id == first):
                    _, kw = call_args(ast.Call(func=f, args=[], keywords=e.keywords), params, who, star)
                    return ("ufuncCall", ufunc_name(ast.unparse(e.args[0])), kw), dropped, notes
                raise Refuse(f"{who}: `{ast.unparse(e)}` is not the understood `self.__array_ufunc__(np.f, \"__call__\", self, …)`")
            pos, kw = call_args(e, params, who, star)
            return ("method", f.attr, pos, kw), dropped, notes
        if isinstance(f, ast.Attribute) and f.attr == "reduce" and isinstance(f.value, ast.Attribute) and isinstance(f.value.value, ast.Name) and f.value.value.id == "np":
            if len(e.args) == 1 and isinstance(e.args[0], ast.Name) and e.args[0].id == first:
                _, kw = call_args(ast.Call(func=f, args=[], keywords=e.keywords), params, who, star)
                return ("ufuncReduce", ufunc_name("np." + f.value.attr), kw), dropped, notes
        if isinstance(f, ast.Attribute) and isinstance(f.value, ast.Name) and f.value.id == "np":
            if len(e.args) >= 1 and isinstance(e.args[0], ast.Name) and e.args[0].id == first and is_method:
                _, kw = call_args(ast.Call(func=f, args=[], keywords=e.keywords), params, who, star)
                return ("ufuncCall", ufunc_name("np." + f.attr), kw), dropped, notes
        if isinstance(f, ast.Name):
            r = res(f.id)
            if r is not None and r[0] != "numpy" and any(isinstance(x, ast.Name) and x.id == first for x in list(e.args) + [k.value for k in e.keywords]):
                pos, kw = call_args(e, params, who, star)
                return ("func", f"{r[0]}.{r[1]}", pos, kw), dropped, notes
        # any other single `return <expression>` (e.g. `return np.transpose(a.nonzero())`, `return tuple(self.coords)`) is an
        # implementation written as one expression: its core is the function itself
    return ("impl",), [], notes


# ------------------------------------------------------------------------------------------------
# collection
# ------------------------------------------------------------------------------------------------

class Interner:
    def __init__(self):
        self.ids, self.names = {}, []

    def __call__(self, s):
        if s not in self.ids:
            self.ids[s] = len(self.names)
            self.names.append(s)
        return self.ids[s]


IN = Interner()
FIXED = ["sparse", "private", "self", "out", "**", "NDArrayOperatorsMixin", "COO", "GCXS", "DOK", "SparseArray",
         "forward", "reflected", "inplace", "unary", "numpy"]


def lean_str(s):
    return '"' + s.replace("\\", "\\\\").replace('"', '\\"') + '"'


def nm(s):
    return str(IN(s))


def lean_list(xs, f=nm):
    return "[" + ", ".join(f(x) for x in xs) + "]"


def lean_pairs(ps):
    return "[" + ", ".join(f"({nm(a)}, {nm(b)})" for a, b in ps) + "]"


def lean_sig(s):
    if s is None:
        return "Sig.empty"
    return (f"{{ posonly := {lean_list(s['posonly'])}, pos := {lean_list(s['pos'])}, kwonly := {lean_list(s['kwonly'])}, "
            f"varargs := {'true' if s['varargs'] else 'false'}, varkw := {'true' if s['varkw'] else 'false'}, "
            f"defaults := {lean_pairs(sorted(s['defaults'].items()))} }}")


def lean_src(s):
    return f".{s[0]} {nm(s[1])}"


def lean_kw(ps):
    return "[" + ", ".join(f"({nm(a)}, {lean_src(b)})" for a, b in ps) + "]"


def lean_fwd(f):
    k = f[0]
    if k == "method":
        return f".method {nm(f[1])} {lean_list(f[2], lean_src)} {lean_kw(f[3])}"
    if k == "func":
        return f".func {nm(f[1])} {lean_list(f[2], lean_src)} {lean_kw(f[3])}"
    if k == "ufuncReduce":
        return f".ufuncReduce {nm(f[1])} {lean_kw(f[2])}"
    if k == "ufuncCall":
        return f".ufuncCall {nm(f[1])} {lean_kw(f[2])}"
    if k == "attr":
        return f".attr {nm(f[1])}"
    if k == "binop":
        return f".binop {nm(f[1])}"
    return ".impl"


def lean_kind(k):
    return "." + {"class": "cls"}.get(k, k)


def describe_sig(s):
    if s is None:
        return ""
    parts = list(s["posonly"]) + (["/"] if s["posonly"] else []) + list(s["pos"])
    if s["varargs"]:
        parts.append("*args")
    elif s["kwonly"]:
        parts.append("*")
    parts += list(s["kwonly"])
    if s["varkw"]:
        parts.append("**kw")
    return "(" + ", ".join(p + ("=" + s["defaults"][p] if p in s["defaults"] else "") for p in parts) + ")"


def describe_fwd(f):
    def src(x):
        return x[1] if x[0] == "param" else ("*" + x[1] if x[0] == "star" else "«" + x[1] + "»")
    k = f[0]
    if k in ("method", "func"):
        args = [src(x) for x in f[2]] + [(a + "=" if a != "**" else "**") + src(b) for a, b in f[3]]
        return ("." if k == "method" else "") + f[1] + "(" + ", ".join(args) + ")"
    if k in ("ufuncReduce", "ufuncCall"):
        return ("np." + f[1] + (".reduce" if k == "ufuncReduce" else "")) + "(self, " + ", ".join(a + "=" + src(b) for a, b in f[2]) + ")"
    if k in ("attr", "binop"):
        return k + " " + f[1]
    return "impl"


AF_PARAMS = ["self", "func", "types", "args", "kwargs"]
AF_LOCALS = {"module", "sparse_func", "submodules", "submodule", "method"}
AF_SHAPE_A = "import sparse as module\nsparse_func = None\ntry:\n    submodules = getattr(func, '__module__', 'numpy').split('.')[1:]\n    for submodule in submodules:\n        module = getattr(module, submodule)\n    sparse_func = getattr(module, func.__name__)\nexcept AttributeError:\n    pass\nelse:\n    return sparse_func(*args, **kwargs)\nwith contextlib.suppress(AttributeError):\n    sparse_func = getattr(type(self), func.__name__)\nif not isinstance(sparse_func, Callable) and len(args) == 1 and (len(kwargs) == 0):\n    try:\n        return getattr(self, func.__name__)\n    except AttributeError:\n        pass\nif sparse_func is None:\n    return NotImplemented\nreturn sparse_func(*args, **kwargs)"
AF_SHAPE_B = AF_SHAPE_A.replace(
    "else:\n    return sparse_func(*args, **kwargs)\nwith",
    "else:\n    if not _binds(sparse_func, args, kwargs):\n        method = getattr(type(self), func.__name__, None)\n"
    "        if isinstance(method, Callable) and _binds(method, args, kwargs):\n            return method(*args, **kwargs)\n"
    "    return sparse_func(*args, **kwargs)\nwith")
BINDS_BODY = "try:\n    inspect.signature(func).bind(*args, **kwargs)\nexcept TypeError:\n    return False\nexcept ValueError:\n    return True\nreturn True"
# ---- SparseArray.__array_ufunc__, stage by stage (top level, in source order) -------------------------------------------------
UF_PARAMS = (["self", "ufunc", "method"], "inputs", "kwargs")
UF_ALL_PARAMS = ["self", "ufunc", "method", "inputs", "kwargs"]
UF_LOCALS = {"out", "x", "test_args", "test_kwargs", "test_out", "a", "cum_ndim", "inputs_transformed", "inp", "result", "kw"}
UF_POP_OUT = "out = kwargs.pop('out', None)"
UF_FOREIGN_OUT = "if out is not None and (not all((isinstance(x, type(self)) for x in out))):\n    return NotImplemented"
UF_SIGNATURE = ("if getattr(ufunc, 'signature', None) is not None:\n"
                "    return self.__array_function__(ufunc, (np.ndarray, type(self)), inputs, kwargs)")
UF_NOUT_TEST = "getattr(ufunc, 'nout', 1) != 1"
UF_TRIAL = ("if out is not None:\n"
            "    test_args = [np.{init}((1,), dtype=a.dtype) if hasattr(a, 'dtype') else a for a in inputs]\n"
            "    test_kwargs = kwargs.copy()\n"
            "    if method == 'reduce':\n        test_kwargs['axis'] = None\n"
            "    test_out = tuple((np.empty((1,), dtype=a.dtype) for a in out))\n"
            "    if len(test_out) == 1:\n        test_out = test_out[0]\n"
            "    getattr(ufunc, method)(*test_args, out=test_out, **test_kwargs)\n"
            "    kwargs['dtype'] = out[0].dtype")
UF_TRIAL_INIT = {"ones": True, "empty": False}
UF_COMPUTE = ("if method == '__call__':\n    result = elemwise(ufunc, *inputs, **kwargs)\n"
              "elif method == 'reduce':\n    result = SparseArray._reduce(ufunc, *inputs, **kwargs)\n"
              "else:\n    return NotImplemented")
UF_RETURN = "return result"
UF_CONVERT = {
    "convertFormat true": ("kw = {'compressed_axes': out.compressed_axes} if out.format == 'gcxs' and out.ndim >= 2 else {}\n"
                           "result = result.asformat(out.format, **kw)"),
    "convertFormat false": "result = result.asformat(out.format)",
}
UF_OUTER = ("method = '__call__'\ncum_ndim = 0\ninputs_transformed = []\n"
            "for inp in reversed(inputs):\n    inputs_transformed.append(inp[(Ellipsis,) + (None,) * cum_ndim])\n    cum_ndim += inp.ndim\n"
            "inputs = {last}")
# the last statement of the `outer` branch: are the operands put back into the caller's order?  (`inputs_transformed` is the list built by
# the loop above it: its reversed slice holds what `reversed` yields)
OUTER_LAST = {"tuple(reversed(inputs_transformed))": True, "tuple(inputs_transformed[::-1])": True, "tuple(inputs_transformed)": False}
UF_TESTS = {"out_given": "out is not None", "out_missing": "out is None", "nout": UF_NOUT_TEST, "outer": "method == 'outer'",
            "shape": "out.shape != result.shape", "dense": "not isinstance(result, SparseArray)", "type": "type(result) is not type(out)",
            "call": "method == '__call__'"}


def _pat(src, params):
    return parse_pattern(src, params)


def _pat_test(src, params):
    return _pat(f"if {src}:\n    pass", params)[0].test


def _reserved(pats, plocals):
    out = set()
    for p in pats:
        for n in ast.walk(ast.Module(body=p, type_ignores=[])):
            if isinstance(n, ast.Name) and n.id not in plocals:
                out.add(n.id)
    return out


def _raises_value_error(body):
    return (len(body) == 1 and isinstance(body[0], ast.Raise) and isinstance(body[0].exc, ast.Call)
            and isinstance(body[0].exc.func, ast.Name) and body[0].exc.func.id == "ValueError")


def read_multi_out(m: Match, stmts, tests):
    """the `nout != 1` branch, read as the set of its paths: every path ends in `return NotImplemented` or in
    `return (np.<A>(*inputs, **kwargs), …)`; a path of the second kind must be taken exactly under `ufunc is np.<U> and method == '__call__'
    and out is None` (further conditions only if they follow from `ufunc is np.<U>`: tests for another ufunc that failed).
    -> [(U, [A, …])].  The operands of every component call must be the caller's own, unchanged and in order; anything else is refused."""
    split = []
    try:
        ps = paths(stmts)
    except Refuse as e:
        raise Refuse(f"__array_ufunc__: the `nout != 1` branch: {e}") from None
    for conds, value in ps:
        if isinstance(value, ast.Name) and value.id == "NotImplemented":
            continue
        if not (isinstance(value, ast.Tuple) and value.elts):
            raise Refuse(f"__array_ufunc__: the `nout != 1` branch returns `{ast.unparse(value)[:120] if value is not None else None}`: neither NotImplemented "
                         "nor a tuple `(np.f(*inputs, **kwargs), …)`")
        parts = []
        for c in value.elts:
            if not (isinstance(c, ast.Call) and ast.unparse(c.func).startswith("np.") and [ast.unparse(a) for a in c.args] == ["*inputs"]
                    and [(k.arg, ast.unparse(k.value)) for k in c.keywords] == [(None, "kwargs")]):
                raise Refuse(f"__array_ufunc__: component `{ast.unparse(c)}` of a multi-output computation is not `np.f(*inputs, **kwargs)`")
            parts.append(ast.unparse(c.func))
        which, need, extra = [], {"call": False, "out_missing": False}, []
        for c in conjuncts(conds):
            if isinstance(c, ast.Compare) and len(c.ops) == 1 and isinstance(c.ops[0], ast.Is) and ast.unparse(c.left) == "ufunc" and ast.unparse(c.comparators[0]).startswith("np."):
                which.append(ast.unparse(c.comparators[0]))
            elif m.attempt(lambda c=c: m.node(tests["call"], c)):
                need["call"] = True
            elif m.attempt(lambda c=c: m.node(tests["out_missing"], c)):
                need["out_missing"] = True
            else:
                extra.append(c)
        if len(set(which)) != 1 or not all(need.values()):
            raise Refuse("__array_ufunc__: condition of a multi-output computation not understood: `" + " and ".join(ast.unparse(c) for c in conds) + "`")
        for c in extra:
            # a failed test for ANOTHER ufunc: `ufunc is not np.V or …` follows from `ufunc is np.U`
            alts = c.values if isinstance(c, ast.BoolOp) and isinstance(c.op, ast.Or) else [c]
            if not any(isinstance(x, ast.Compare) and len(x.ops) == 1 and isinstance(x.ops[0], ast.IsNot) and ast.unparse(x.left) == "ufunc"
                       and ast.unparse(x.comparators[0]).startswith("np.") and ast.unparse(x.comparators[0]) != which[0] for x in alts):
                raise Refuse(f"__array_ufunc__: extra condition `{ast.unparse(c)}` on a multi-output computation")
        split.append((which[0], parts))
    if len({u for u, _ in split}) != len(split):
        raise Refuse("__array_ufunc__: the `nout != 1` branch computes one ufunc in two ways")
    return sorted(split)


def read_out_steps(m: Match, stmts, tests, pats):
    """the statements of the out= block AFTER the computation: each one of the understood steps, in source order"""
    steps = []
    for st in stmts:
        def test_is(key, st=st):
            return isinstance(st, ast.If) and not st.orelse and m.attempt(lambda: m.node(tests[key], st.test))
        if m.attempt(lambda st=st: m.block(pats["unpack"], [st])):
            steps.append("unpack")
        elif test_is("shape") and _raises_value_error(st.body):
            steps.append("shapeCheck")
        elif test_is("dense") and _raises_value_error(st.body):
            steps.append("refuseDense")
        elif test_is("type"):
            for name in UF_CONVERT:
                if m.attempt(lambda name=name, st=st: m.block(pats[name], st.body)):
                    steps.append(name)
                    break
            else:
                raise Refuse("__array_ufunc__: the format conversion of the out= block is not the understood `result.asformat(out.format, …)`:\n"
                             + "\n".join(ast.unparse(b) for b in st.body)[:300])
        elif m.attempt(lambda st=st: m.block(pats["shallow"], [st])):
            steps.append("shallowCopy")
        elif m.attempt(lambda st=st: m.block(pats["return_out"], [st])):
            steps.append("returnOut")
        else:
            raise Refuse(f"__array_ufunc__: statement of the out= block not understood: `{ast.unparse(st)[:160]}`")
    return steps


def read_array_ufunc(uf: ast.FunctionDef, np):
    """SparseArray.__array_ufunc__ read stage by stage, IN SOURCE ORDER, on its canonical form (`normalise`) and modulo `Match`.  The
    fixed stages must MEAN what the model `Dispatch.arrayUfunc` was written for; the stages that carry decisions are READ into generated
    definitions: the `nout != 1` branch (present?, which ufunc is computed as which tuple of component calls), the initialiser of the
    trial call, the last statement of the `outer` branch, and the statements of the out= block after the computation."""
    a = uf.args
    if ([p.arg for p in a.args], a.vararg and a.vararg.arg, a.kwarg and a.kwarg.arg) != UF_PARAMS or a.kwonlyargs or a.posonlyargs:
        raise Refuse("__array_ufunc__: parameters changed")
    P = UF_ALL_PARAMS
    body = normalise(uf.body, P)
    pats = {"pop": _pat(UF_POP_OUT, P), "foreign": _pat(UF_FOREIGN_OUT, P), "signature": _pat(UF_SIGNATURE, P), "compute": _pat(UF_COMPUTE, P),
            "return": _pat(UF_RETURN, P), "unpack": _pat("(out,) = out", P), "shallow": _pat("out._make_shallow_copy_of(result)", P),
            "return_out": _pat("return out", P)}
    pats.update({f"trial {k}": _pat(UF_TRIAL.format(init=k), P) for k in UF_TRIAL_INIT})
    pats.update({f"outer {k}": _pat(UF_OUTER.format(last=k), P) for k in OUTER_LAST})
    pats.update({k: _pat(v, P) for k, v in UF_CONVERT.items()})
    tests = {k: _pat_test(v, P) for k, v in UF_TESTS.items()}
    m = Match(UF_LOCALS, _reserved(list(pats.values()), UF_LOCALS) | set(P))

    def text(i, n=400):
        return ast.unparse(body[i])[:n] if i < len(body) else "<end of body>"

    def expect(i, key, what):
        k = len(pats[key])
        if not m.attempt(lambda: m.block(pats[key], body[i:i + k])):
            raise Refuse(f"SparseArray.__array_ufunc__: statement {i} is not the understood {what}:\n" + text(i))
        return i + k
    i = expect(0, "pop", "`out = kwargs.pop('out', None)`")
    i = expect(i, "foreign", "foreign-`out` test")
    i = expect(i, "signature", "generalised-ufunc hand-over")
    info = {"multi_guard": False, "multi_split": []}
    if i < len(body) and isinstance(body[i], ast.If) and not body[i].orelse and m.attempt(lambda: m.node(tests["nout"], body[i].test)):
        if not terminates(body[i].body):
            raise Refuse("__array_ufunc__: the `nout != 1` branch does not end in a return")
        info["multi_guard"] = True
        for u, parts in read_multi_out(m, body[i].body, tests):
            names = []
            for t in [u] + parts:
                obj = getattr(np, t[len("np."):], None)
                if not isinstance(obj, np.ufunc):
                    raise Refuse(f"__array_ufunc__: `{t}` in the `nout != 1` branch is not a NumPy ufunc")
                names.append(obj.__name__)
            info["multi_split"].append((names[0], names[1:]))
        info["multi_split"].sort()
        i += 1
    for k, v in UF_TRIAL_INIT.items():
        if i < len(body) and m.attempt(lambda k=k: m.block(pats[f"trial {k}"], body[i:i + 1])):
            info["trial_ones"] = v
            break
    else:
        raise Refuse("SparseArray.__array_ufunc__: the trial call of the out= path is not the understood block:\n" + text(i, 600))
    i += 1
    outer = body[i] if i < len(body) else None
    if not (isinstance(outer, ast.If) and not outer.orelse and m.attempt(lambda: m.node(tests["outer"], outer.test))):
        raise Refuse("__array_ufunc__: the `outer` branch was not found where the model expects it")
    for k, v in OUTER_LAST.items():
        if m.attempt(lambda k=k: m.block(pats[f"outer {k}"], outer.body)):
            info["outer_final_reverse"] = v
            break
    else:
        raise Refuse("__array_ufunc__: the `outer` branch is not the understood reverse walk that adds trailing axes:\n"
                     + "\n".join(ast.unparse(st) for st in outer.body)[:400])
    i += 1
    i = expect(i, "compute", "`__call__` -> elemwise / `reduce` -> _reduce / else NotImplemented")
    post = body[i] if i < len(body) else None
    if isinstance(post, ast.If) and not post.orelse and m.attempt(lambda: m.node(tests["out_given"], post.test)):
        # if out is not None: <steps>   return result
        info["out_steps"] = read_out_steps(m, post.body, tests, pats)
        i = expect(i + 1, "return", "`return result`")
        if i != len(body):
            raise Refuse(f"SparseArray.__array_ufunc__: unexpected statements after `return result`: {text(i, 200)}")
    elif (isinstance(post, ast.If) and not post.orelse and m.attempt(lambda: m.node(tests["out_missing"], post.test))
          and m.attempt(lambda: m.block(pats["return"], post.body))):
        # if out is None: return result   <steps, which must not fall off the end of the function>
        info["out_steps"] = read_out_steps(m, body[i + 1:], tests, pats)
        if not info["out_steps"] or info["out_steps"][-1] != "returnOut":
            raise Refuse("__array_ufunc__: the out= block written after `if out is None: return result` does not end in `return out`")
    else:
        raise Refuse("__array_ufunc__: the out= block after the computation was not found")
    return info


UFUNC_DEFAULT = {"multi_guard": False, "multi_split": [], "trial_ones": False, "outer_final_reverse": True, "out_steps": []}


def lookup_algorithm(repo: Path):
    """The hand-written Lean model `Dispatch.nep18` / `Dispatch.arrayUfunc` follows the MEANING of SparseArray.__array_function__ and
    __array_ufunc__.  This pins it: the method must be — modulo the equivalences of `Match` / `normalise` — one of the two texts the
    model was written for (the second one adds the 'does the call bind to the namespace function, else try the method' step); anything
    else is refused, so that a changed lookup algorithm cannot be 'proved' against a stale model."""
    tree = ast.parse((repo / PKG / "_sparse_array.py").read_text())
    cls = next(n for n in tree.body if isinstance(n, ast.ClassDef) and n.name == "SparseArray")
    fn = next(n for n in cls.body if isinstance(n, ast.FunctionDef) and n.name == "__array_function__")
    if [a.arg for a in fn.args.args] != AF_PARAMS or fn.args.vararg or fn.args.kwarg or fn.args.kwonlyargs or fn.args.posonlyargs:
        raise Refuse("__array_function__: parameters changed")
    body = normalise(fn.body, AF_PARAMS)
    pa, pb = _pat(AF_SHAPE_A, AF_PARAMS), _pat(AF_SHAPE_B, AF_PARAMS)
    reserved = _reserved([pa, pb], AF_LOCALS) | set(AF_PARAMS)
    if Match(AF_LOCALS, reserved).block(pa, body):
        return False
    if Match(AF_LOCALS, reserved).block(pb, body):
        helper = next((n for n in tree.body if isinstance(n, ast.FunctionDef) and n.name == "_binds"), None)
        hp = ["func", "args", "kwargs"]
        if (helper is None or [a.arg for a in helper.args.args] != hp
                or not Match(set(), {"inspect", "TypeError", "ValueError"} | set(hp)).block(_pat(BINDS_BODY, hp), normalise(helper.body, hp))):
            raise Refuse("__array_function__ uses _binds, whose body is not the understood `inspect.signature(func).bind(*args, **kwargs)` test")
        return True
    raise Refuse("SparseArray.__array_function__ is not one of the two lookup algorithms the model `Dispatch.nep18` was written for")


def ufunc_algorithm(repo: Path, np):
    """what `read_array_ufunc` reads from the working tree's SparseArray.__array_ufunc__"""
    tree = ast.parse((repo / PKG / "_sparse_array.py").read_text())
    cls = next(n for n in tree.body if isinstance(n, ast.ClassDef) and n.name == "SparseArray")
    uf = next(n for n in cls.body if isinstance(n, ast.FunctionDef) and n.name == "__array_ufunc__")
    return read_array_ufunc(uf, np)


def generate(repo):
    repo = Path(repo)
    refusals, entries = [], []
    try:
        import numpy as np
    except Exception as e:  # noqa: BLE001
        return {"Dispatch.lean": (f"/- numpy not importable: {e} -/\n", [], [f"table dispatchTable: numpy not importable ({e})"])}

    def ufunc_name(text):
        """`np.round` / `np.ndarray.astype` -> canonical name of the NumPy callable"""
        obj = np
        try:
            for part in text.split(".")[1:]:
                obj = getattr(obj, part)
        except AttributeError:
            raise Refuse(f"`{text}` is not an attribute of numpy") from None
        return getattr(obj, "__name__", text.split(".")[-1])

    mods, inits = load(repo)
    init = inits[""]
    allv = None
    for n in init.tree.body:
        if isinstance(n, ast.Assign) and any(isinstance(t, ast.Name) and t.id == "__all__" for t in n.targets):
            allv = [e.value for e in n.value.elts]
    if allv is None:
        refusals.append("table dispatchTable: __all__ not found")
        allv = []
    # top-level package `sparse`: star-import of numba_backend.__all__ + the explicitly imported sub-modules + its own names
    top = ast.parse((repo / "sparse" / "__init__.py").read_text())
    top_extra = {}

    def module_level(stmts):
        for st in stmts:
            yield st
            if isinstance(st, ast.If):
                yield from module_level(st.body)
                yield from module_level(st.orelse)

    for n in module_level(top.body):
        if isinstance(n, ast.ImportFrom) and n.module == "sparse.numba_backend":
            for a in n.names:
                if a.name not in ("*", "__all__"):
                    top_extra[a.asname or a.name] = "module"
        elif isinstance(n, ast.Import):
            for a in n.names:
                top_extra[(a.asname or a.name).split(".")[0]] = "module"
        elif isinstance(n, ast.ImportFrom) and n.level == 0 and n.module in ("enum",):
            for a in n.names:
                top_extra[a.asname or a.name] = "class"
        elif isinstance(n, ast.ClassDef):
            top_extra[n.name] = "class"
        elif isinstance(n, ast.Assign):
            for t in n.targets:
                if isinstance(t, ast.Name) and not (t.id.startswith("__") and t.id.endswith("__")):
                    top_extra[t.id] = "value"
        elif isinstance(n, ast.Delete):
            for t in n.targets:
                if isinstance(t, ast.Name):
                    top_extra.pop(t.id, None)
    top_extra.update({"numba_backend": "module", "_version": "module"})

    namespace = []  # (name, kind, target)
    for name in allv:
        if name in init.imports and init.imports[name][0] == "numpy":
            orig = init.imports[name][1]
            obj = getattr(np, orig, None)
            if isinstance(obj, np.ufunc):
                namespace.append((name, "ufunc", f"numpy.{obj.__name__}"))
                entries.append(dict(op=name, owner="sparse", kind="ufunc", target=f"numpy.{obj.__name__}", sig=None,
                                    fwd=("ufuncCall", obj.__name__, []), dropped=[], support=False))
            elif isinstance(obj, type):
                namespace.append((name, "class", f"numpy.{orig}"))
            elif callable(obj):
                namespace.append((name, "function", f"numpy.{orig}"))
            else:
                namespace.append((name, "value", f"numpy.{orig}"))
            continue
        r = resolve_name(mods, inits, "", name)
        if r is None:
            refusals.append(f"table dispatchTable: public name {name}: definition not found")
            continue
        mk, dn = r
        if dn in mods[mk].classes:
            namespace.append((name, "class", f"{mk}.{dn}"))
            continue
        fn = mods[mk].funcs[dn]
        who = f"{mk}.{dn}"
        try:
            fwd, dropped, notes = forward_of(fn, who, mk, mods, inits, False, ufunc_name)
        except Refuse as e:
            refusals.append(f"table dispatchTable: {e}")
            continue
        support = any(isinstance(d, ast.Name) and d.id == "_support_numpy" for d in fn.decorator_list)
        namespace.append((name, "function", who))
        entries.append(dict(op=name, owner="sparse", kind="function", target=who, sig=sig_of(fn), fwd=fwd, dropped=dropped, support=support, notes=notes))
    for n, k in sorted(top_extra.items()):
        if n not in {x[0] for x in namespace}:
            namespace.append((n, k, f"sparse.{n}"))

    # package functions that methods forward to but that are not public under that name (e.g. _umath.broadcast_to)
    def add_private(target):
        mk, dn = target.rsplit(".", 1)
        if any(e["target"] == target and e["owner"] == "private" for e in entries):
            return
        fn = mods[mk].funcs.get(dn)
        if fn is None:
            return
        fwd, dropped, notes = forward_of(fn, target, mk, mods, inits, False, ufunc_name)
        entries.append(dict(op=dn, owner="private", kind="function", target=target, sig=sig_of(fn), fwd=fwd, dropped=dropped, support=False, notes=notes))

    # classes
    class_info = {}
    for mk, m in mods.items():
        # names of this module that are other names for a class (`from x import C as D`, `import a.b` … `a.b.C`)
        renamed = {}
        for n in ast.walk(m.tree):
            if isinstance(n, ast.ImportFrom):
                for a in n.names:
                    if a.asname:
                        renamed[a.asname] = a.name
        for cn, c in m.classes.items():
            if cn not in ARRAY_CLASSES:
                continue
            bases = []
            for b in c.bases:
                if isinstance(b, ast.Name):
                    bases.append(renamed.get(b.id, b.id))
                elif isinstance(b, ast.Attribute):
                    bases.append(b.attr)      # `np.lib.mixins.NDArrayOperatorsMixin`: the class is named by the last component
                else:
                    bases.append(ast.unparse(b))
            current, inst = {}, set()      # attribute -> its entry (a later definition of the same name replaces the earlier one, as in Python)
            for s in c.body:
                if isinstance(s, ast.FunctionDef):
                    decos = [ast.unparse(d) for d in s.decorator_list]
                    kind = "property" if "property" in decos else "classmethod" if "classmethod" in decos else "staticmethod" if "staticmethod" in decos else "method"
                    who = f"{cn}.{s.name}"
                    try:
                        fwd, dropped, notes = forward_of(s, who, mk, mods, inits, True, ufunc_name) if kind in ("method", "property") else (("impl",), [], [])
                    except Refuse as e:
                        refusals.append(f"table dispatchTable: {e}")
                        continue
                    if fwd[0] == "func":
                        try:
                            add_private(fwd[1])
                        except Refuse as e:
                            refusals.append(f"table dispatchTable: {e}")
                    current[s.name] = dict(op=s.name, owner=cn, kind=kind, target=who, sig=sig_of(s, drop_first=kind in ("method", "property", "classmethod")),
                                           fwd=fwd, dropped=dropped, support=False, notes=notes)
                    for n in ast.walk(s):
                        if isinstance(n, ast.Attribute) and isinstance(n.ctx, ast.Store) and isinstance(n.value, ast.Name) and n.value.id == "self":
                            inst.add(n.attr)
                elif isinstance(s, ast.Assign) and len(s.targets) == 1 and isinstance(s.targets[0], ast.Name):
                    t = s.targets[0].id
                    if isinstance(s.value, ast.Name):
                        if s.value.id in current:
                            current[t] = dict(current[s.value.id], op=t)
                            continue
                        r = resolve_name(mods, inits, mk, s.value.id)
                        if r is not None and r[1] in mods.get(r[0], Mod("", ast.Module(body=[], type_ignores=[]))).funcs:
                            fn = mods[r[0]].funcs[r[1]]
                            current[t] = dict(op=t, owner=cn, kind="method", target=f"{r[0]}.{r[1]}", sig=sig_of(fn, drop_first=True),
                                              fwd=("impl",), dropped=[], support=False, notes=[])
                            continue
                    current[t] = dict(op=t, owner=cn, kind="data", target=f"{cn}.{t}", sig=None, fwd=("impl",), dropped=[], support=False, notes=[])
            attrs = [current[k] for k in sorted(current)]
            class_info[cn] = dict(bases=bases, attrs=attrs, inst=sorted(inst), mod=mk)
    for cn in ARRAY_CLASSES:
        if cn in class_info:
            entries += class_info[cn]["attrs"]

    def mro(cn):
        out, todo = [], [cn]
        while todo:
            c = todo.pop(0)
            if c not in out:
                out.append(c)
                todo += [b for b in class_info.get(c, {}).get("bases", [])]
        return out

    # __array_namespace__ returns the module `sparse`
    ans = None
    try:
        for s in mods["_sparse_array"].classes["SparseArray"].body:
            if isinstance(s, ast.FunctionDef) and s.name == "__array_namespace__":
                last = _strip_doc(s.body)[-1]
                imports = {a.asname or a.name: a.name for n in s.body if isinstance(n, ast.Import) for a in n.names}
                if isinstance(last, ast.Return) and isinstance(last.value, ast.Name) and last.value.id in imports:
                    ans = imports[last.value.id]
        if ans is None:
            raise Refuse("SparseArray.__array_namespace__ does not end in `import <module>` … `return <module>`")
    except (KeyError, Refuse) as e:
        refusals.append(f"table dispatchTable: {e}")
        ans = "?"

    # NumPy side: operator mixin (AST of its source) and the array-function-dispatched functions
    operators = []
    try:
        import numpy.lib.mixins as mx
        mt = ast.parse(Path(mx.__file__).read_text())
        cls = next(n for n in mt.body if isinstance(n, ast.ClassDef) and n.name == "NDArrayOperatorsMixin")
        for s in cls.body:
            if isinstance(s, ast.Assign) and isinstance(s.value, ast.Call) and isinstance(s.value.func, ast.Name):
                maker = s.value.func.id
                uf = ast.unparse(s.value.args[0]).split(".")[-1]
                uf = getattr(np, uf).__name__ if hasattr(np, uf) else uf
                tg = s.targets[0]
                names = [e.id for e in tg.elts] if isinstance(tg, ast.Tuple) else [tg.id]
                roles = {"_binary_method": ["forward"], "_reflected_binary_method": ["reflected"], "_inplace_binary_method": ["inplace"],
                         "_unary_method": ["unary"], "_numeric_methods": ["forward", "reflected", "inplace"]}.get(maker)
                if roles is None or len(roles) != len(names):
                    raise Refuse(f"NDArrayOperatorsMixin: `{ast.unparse(s)[:60]}` not understood")
                operators += [(n, uf, r) for n, r in zip(names, roles)]
        if not operators:
            raise Refuse("NDArrayOperatorsMixin: no operator found")
    except (Refuse, StopIteration, OSError) as e:
        refusals.append(f"table dispatchTable: {e}")

    answered = {x[0] for x in namespace} | {a["op"] for ci in class_info.values() for a in ci["attrs"]} | {i for ci in class_info.values() for i in ci["inst"]}
    np_funcs, np_sigs = [], []
    import numpy.fft
    import numpy.linalg
    for path, module in ((["numpy"], np), (["numpy", "linalg"], np.linalg), (["numpy", "fft"], np.fft)):
        for pub in sorted(dir(module)):
            if pub.startswith("_"):
                continue
            f = getattr(module, pub)
            if not callable(f) or isinstance(f, type | np.ufunc) or not hasattr(f, "_implementation"):
                continue
            mpath = (getattr(f, "__module__", "numpy") or "numpy").split(".")
            np_funcs.append((".".join(path + [pub]), mpath, f.__name__))
            if path == ["numpy"] and f.__name__ in answered:
                try:
                    np_sigs.append(("numpy." + pub, f.__name__, sig_of_runtime(f)))
                except (TypeError, ValueError):
                    pass
    gufuncs = sorted(n for n in dir(np) if isinstance(getattr(np, n), np.ufunc) and getattr(np, n).signature is not None)

    # ---- canonical form of the forwarding calls, canonical order of the rows
    def callee_sig(e):
        f = e["fwd"]
        if f[0] == "func":
            t = next((x for x in entries if x["owner"] in ("sparse", "private") and x["target"] == f[1]), None)
            if t is not None:
                return t["sig"]
            mk_, dn_ = f[1].rsplit(".", 1)
            fn_ = mods[mk_].funcs.get(dn_) if mk_ in mods else None
            return sig_of(fn_) if fn_ is not None else None
        if f[0] == "method" and e["owner"] in ("sparse", "private") and e["sig"]:
            own = e["sig"]["posonly"] + e["sig"]["pos"]
            if own and f"converts {own[0]}" in e.get("notes", []):      # the receiver is a COO (asCOO / _validate_coo_input return one or raise)
                for c in mro("COO"):
                    t = next((x for x in class_info.get(c, {}).get("attrs", []) if x["op"] == f[1]), None)
                    if t is not None:
                        return t["sig"] if t["kind"] == "method" else None
        return None

    def canon_call(e):
        """the forwarding call in the callee's own terms; only when the order of evaluation of its arguments cannot be observed"""
        f = e["fwd"]
        if f[0] not in ("method", "func", "ufuncReduce", "ufuncCall") or "args-commute" not in e.get("notes", []):
            return f
        if f[0] in ("ufuncReduce", "ufuncCall"):
            # a call INTO NumPy's dispatch: the order of its keywords is the order of `kwargs` in `__array_ufunc__`, and NumPy repeats it in
            # the TypeError it raises when every operand answers NotImplemented — observable, so it is part of the row
            return f
        pos, kw = list(f[2]), list(f[3])
        sg = callee_sig(e)
        if sg is not None and not any(x[0] == "star" for x in pos) and len(pos) <= len(sg["posonly"] + sg["pos"]) and len({k for k, _ in kw}) == len(kw):
            positional = sg["posonly"] + sg["pos"]
            kwd = dict(kw)
            new_pos = list(pos)
            for prm in positional[len(pos):]:
                if prm in kwd and prm not in sg["posonly"]:
                    new_pos.append(kwd.pop(prm))
                else:
                    break
            pos, kw = new_pos, [(k, v) for k, v in kw if k in kwd]
        return (f[0], f[1], pos, sorted(kw, key=lambda kv: (kv[0] == "**", kv[0])))

    for e in entries:
        e["fwd"] = canon_call(e)
    entries = (sorted((e for e in entries if e["owner"] == "sparse"), key=lambda e: e["op"])
               + sorted((e for e in entries if e["owner"] == "private"), key=lambda e: e["target"])
               + [e for e in entries if e["owner"] not in ("sparse", "private")])
    namespace.sort(key=lambda x: x[0])

    try:
        fallback = lookup_algorithm(repo)
    except (Refuse, StopIteration) as e:
        refusals.append(f"table dispatchTable: {e}")
        fallback = False
    try:
        ufi = ufunc_algorithm(repo, np)
    except (Refuse, StopIteration) as e:
        refusals.append(f"table dispatchTable: {e}")
        ufi = dict(UFUNC_DEFAULT)

    def render():
        body = ["def dispatchTable : List Entry := ["]
        rows = []
        for e in entries:
            rows.append(f"  -- {e['owner']}.{e['op']}{describe_sig(e['sig'])}  [{e['kind']} {e['target']}]  ->  {describe_fwd(e['fwd'])}"
                        + (f"   DROPS {e['dropped']}" if e['dropped'] else "") + "\n"
                        f"  {{ op := {nm(e['op'])}, owner := {nm(e['owner'])}, kind := {lean_kind(e['kind'])}, target := {nm(e['target'])},\n"
                        f"    sig := {lean_sig(e['sig'])},\n    fwd := {lean_fwd(e['fwd'])}, dropped := {lean_list(e['dropped'])}, "
                        f"supportNumpy := {'true' if e['support'] else 'false'} }}")
        body.append(",\n".join(rows))
        body.append("]\n")
        # indexes (row numbers into dispatchTable); Props/C17 proves that they are exactly what the table and the MRO say
        ns_index = [(e["op"], i) for i, e in enumerate(entries) if e["owner"] == "sparse"]
        target_index, seen_t = [], set()
        for i, e in enumerate(entries):
            if e["owner"] in ("sparse", "private") and e["target"] not in seen_t:
                seen_t.add(e["target"])
                target_index.append((e["target"], i))
        class_index = []
        for c in ARRAY_CLASSES:
            if c not in class_info:
                continue
            rows_c, seen_c = [], set()
            for k in mro(c):
                for i, e in enumerate(entries):
                    if e["owner"] == k and e["op"] not in seen_c:
                        seen_c.add(e["op"])
                        rows_c.append((e["op"], i))
            class_index.append((c, rows_c))
        body.append("/-- name of the namespace ↦ row of `dispatchTable` -/")
        body.append("def nsIndex : List (Name × Nat) := [" + ", ".join(f"({nm(o)}, {i})" for o, i in ns_index) + "]\n")
        body.append("/-- module-qualified package function ↦ row of `dispatchTable` (first row defining it) -/")
        body.append("def targetIndex : List (Name × Nat) := [" + ", ".join(f"({nm(o)}, {i})" for o, i in target_index) + "]\n")
        body.append("/-- class ↦ (attribute ↦ row of `dispatchTable`), flattened along the MRO, first definition wins -/")
        body.append("def classIndex : List (Name × List (Name × Nat)) := [\n  " + ",\n  ".join(
            f"({nm(c)}, [" + ", ".join(f"({nm(o)}, {i})" for o, i in rows_c) + "])" for c, rows_c in class_index) + "]\n")
        body.append("/-- attributes of the module `sparse` (numba backend): name, kind, definition -/")
        body.append("def namespaceAttrs : List (Name × Kind × Name) := [\n  " + ",\n  ".join(
            f"({nm(n)}, {lean_kind(k)}, {nm(t)}) /- {n} -/" for n, k, t in namespace) + "]\n")
        body.append("/-- method resolution order of the array classes (class bodies read from the source; `NDArrayOperatorsMixin` is NumPy's) -/")
        body.append("def classMro : List (Name × List Name) := [" + ", ".join(
            f"({nm(c)}, {lean_list(mro(c))})" for c in ARRAY_CLASSES if c in class_info) + "]\n")
        body.append("/-- attributes assigned on `self` in the class bodies (instance attributes, invisible to `getattr(type(self), …)`) -/")
        body.append("def instanceAttrs : List (Name × List Name) := [" + ", ".join(
            f"({nm(c)}, {lean_list(class_info[c]['inst'])})" for c in ARRAY_CLASSES if c in class_info) + "]\n")
        body.append("/-- does `__array_function__` hand a call that does not bind to the namespace function's signature to the method of the\n"
                    "same name (`_binds`)?  (false: the namespace function is called whatever the arguments are) -/")
        body.append(f"def nep18BindFallback : Bool := {'true' if fallback else 'false'}\n")
        body.append("/-- the `outer` branch of `__array_ufunc__` walks the inputs in reverse (each gets as many trailing new axes as the inputs after it\n"
                    "have dimensions); does it put them back into the caller's order before the element-wise call? -/")
        body.append(f"def outerFinalReverse : Bool := {'true' if ufi['outer_final_reverse'] else 'false'}\n")
        body.append("/-- does `__array_ufunc__` test `getattr(ufunc, 'nout', 1) != 1` (after the foreign-`out` test and the generalised-ufunc hand-over,\n"
                    "before anything is computed) and end that branch in `return NotImplemented`?  (false: a ufunc with several results goes on to the\n"
                    "element-wise machinery like any other) -/")
        body.append(f"def ufuncMultiOutGuard : Bool := {'true' if ufi['multi_guard'] else 'false'}\n")
        body.append("/-- inside that branch: ufunc ↦ the ufuncs whose results, in this order, make up the returned tuple.  Read from\n"
                    "`if ufunc is np.<u> and method == '__call__' and out is None: return (np.<a>(*inputs, **kwargs), np.<b>(*inputs, **kwargs))`:\n"
                    "only for the method `__call__`, only without `out=`, and every component is called with the caller's operands and keywords\n"
                    "unchanged and in the caller's order (the extractor refuses any other argument list) -/")
        body.append("def ufuncMultiOutSplit : List (Name × List Name) := [" + ", ".join(
            f"({nm(u)}, {lean_list(parts)}) /- {u} -> {', '.join(parts)} -/" for u, parts in ufi["multi_split"]) + "]\n")
        body.append("/-- the first argument of the trial call on the out= path is built with `np.ones` (true) or `np.empty` (false: uninitialised memory) -/")
        body.append(f"def ufuncOutTrialOnes : Bool := {'true' if ufi['trial_ones'] else 'false'}\n")
        body.append("/-- the statements of the `if out is not None:` block after the computation, in source order -/")
        body.append("def ufuncOutSteps : List OutStep := [" + ", ".join("." + st for st in ufi["out_steps"]) + "]\n")
        multi_out = sorted(n for n in dir(np) if isinstance(getattr(np, n), np.ufunc) and getattr(np, n).nout != 1)
        multi_out = sorted({getattr(np, n).__name__ for n in multi_out})
        body.append("/-- NumPy's ufuncs with more than one result (`ufunc.nout != 1`) -/")
        body.append(f"def multiOutUfuncs : List Name := {lean_list(multi_out)}\n")
        body.append("/-- what `x.__array_namespace__()` returns -/")
        body.append(f"def arrayNamespaceModule : Name := {nm(ans)}\n")
        body.append("/-- NumPy's operator mixin: special method, ufunc it calls, role (forward: ufunc(self, other); reflected: ufunc(other, self)) -/")
        body.append("def operatorTable : List (Name × Name × Name) := [\n  " + ",\n  ".join(
            f"({nm(a)}, {nm(b)}, {nm(c)}) /- {a} {b} {c} -/" for a, b, c in operators) + "]\n")
        body.append("/-- ufuncs with a core signature (generalised ufuncs): `__array_ufunc__` hands them to `__array_function__` -/")
        body.append(f"def gufuncs : List Name := {lean_list(gufuncs)}\n")
        body.append("/-- every NumPy function that dispatches through `__array_function__`: public spelling, module path of `func.__module__`\n"
                    "(after the leading `numpy`), `func.__name__` -/")
        body.append("def numpyFunctions : List (Name × List Name × Name) := [\n  " + ",\n  ".join(
            f"({nm(p)}, {lean_list(m[1:])}, {nm(n)}) /- {p} -/" for p, m, n in np_funcs) + "]\n")
        body.append("/-- NumPy's own signature (the caller's vocabulary) of the functions the library answers to: public spelling, module path,\n"
                    "`__name__`, signature -/")
        body.append("def numpySigs : List (Name × List Name × Name × Sig) := [\n  " + ",\n  ".join(
            f"({nm(p)}, [], {nm(n)}, {lean_sig(sg)}) /- {p}{describe_sig(sg)} -/" for p, n, sg in np_sigs) + "]\n")
        # names the model / the theorems mention
        wanted = FIXED + ["numpy.var", "numpy.std", "numpy.sum", "numpy.clip", "numpy.median", "numpy.transpose", "numpy.shape", "numpy.ndim",
                          "var", "std", "sum", "ddof", "correction", "axis", "matmul", "dot", "clip", "add", "__matmul__", "__rmatmul__",
                          "__add__", "__radd__", "SparseArray.var", "_common.matmul", "shape", "ndim", "transpose", "None",
                          "divmod", "floor_divide", "remainder", "modf", "frexp", "__divmod__", "__rdivmod__", "__floordiv__", "__rfloordiv__",
                          "__mod__", "__rmod__"]
        for w in wanted:
            IN(w)
        consts = []
        seen = set()
        for w in wanted:
            ident = "nm_" + "".join(ch if ch.isalnum() else "_" for ch in w.replace("**", "starstar"))
            if ident in seen:
                continue
            seen.add(ident)
            consts.append(f"def {ident} : Name := {IN(w)}  -- {w}")
        return [PRELUDE, "/-- id ↦ text -/", "def names : List String := [\n  " + ",\n  ".join(
            ", ".join(lean_str(x) for x in IN.names[i:i + 8]) for i in range(0, len(IN.names), 8)) + "]\n",
            "\n".join(consts) + "\n"] + body

    # interned names are numbered in SORTED order (after the fixed ones): render once to learn which names occur, then again
    global IN
    IN = Interner()
    render()
    occurring = sorted(set(IN.names) - set(FIXED))
    IN = Interner()
    for f in FIXED + occurring:
        IN(f)
    out = render()
    names = ["dispatchTable", "namespaceAttrs", "classMro", "instanceAttrs", "operatorTable", "numpyFunctions", "numpySigs"] if not refusals else []
    return {"Dispatch.lean": ("\n".join(out), names, refusals)}


if __name__ == "__main__":
    import json
    import sys
    res = generate(sys.argv[1] if len(sys.argv) > 1 else "/repo")
    txt, names, ref = res["Dispatch.lean"]
    print(json.dumps({"names": names, "refused": ref, "bytes": len(txt)}, indent=1))

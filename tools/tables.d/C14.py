"""T1 tables for C14 (copying and persistence round-trip exactly).

Read with `ast`, from /repo's current source:

* `_io.py: save_npz`  — the members written for every matrix, the type dispatch (exact `type(m) is C`
  or `isinstance(m, C)`), the members each branch adds, and how `compressed_axes=None` is stored;
* `_io.py: load_npz`  — the `try` blocks in order, the members each subscripts (in order), the class it
  constructs, and whether an empty `compressed_axes` member is decoded to `None`;
* `_coo/core.py: COO.__getstate__/__setstate__` — the state tuple, the unpacking order, what is reset;
* `_coo/numba_extension.py` — the struct members, the dtype of the native `shape` tuple, which Python
  attribute feeds which struct member (unboxing) and which struct member feeds which constructor
  argument (boxing).

What is pinned is the SEMANTICS of those functions, not their spelling.  Each reader below is a small
interpreter for straight-line code over a closed set of statement forms: a local bound once to a pure
expression is resolved, keyword arguments are matched by name (positional ones through the signature of the
callee, read from the source), `x is None` / `x is not None` and `a if c else b` / `if c: … else: …` are the
same test, dict entries can be given by a literal, by `dict(k=v)`, by `d[k] = v` or by `d.update(k=v)`.
Order is canonicalised exactly where it has no meaning:

* the members `save_npz` puts into the dict it hands to `np.savez` form a MAPPING (the archive is read by
  name): `npzCommon` and the member list of every branch of `npzWrite` are sorted by member name;
  the branches of the type dispatch keep their order unless every pair of tests is mutually exclusive
  (`type(m) is A` against `isinstance(m, B)` with A not a subclass of B, established from the class
  statements), in which case they are sorted by class name — independent `if` statements are accepted as a
  dispatch only in that case;
* `cooUnbox` (struct member ↦ attribute) and `cooBoxKwargs` (keyword ↦ struct member) are mappings: sorted by
  key; `cooSetStateReset` is a set of independent attribute stores: sorted.

Order is KEPT where it has a meaning: the `try` blocks of `load_npz` and the subscripts inside each block
(`npzRequire`: which exception a defective file raises depends on both), the state tuple and its unpacking
(`cooGetState`, `cooSetState`), the struct layout (`cooStruct`: `lower_constant_COO` packs positionally), the
positional arguments of the boxed call (`cooBoxArgs`).

Anything outside the recognised forms is REFUSED (no definition is emitted, so `Props/C14.lean` does not
build and the obligation stays undischarged); nothing is guessed.
"""
from __future__ import annotations

import ast
from pathlib import Path

IO = "sparse/numba_backend/_io.py"
CORE = "sparse/numba_backend/_coo/core.py"
GCXS_SRC = "sparse/numba_backend/_compressed/compressed.py"
NUMBA = "sparse/numba_backend/_coo/numba_extension.py"
OUT = "Npz.lean"
NAMES = ["npzCommon", "npzWrite", "npzNoneAxesAsEmpty", "npzRequire", "npzEmptyAxesAsNone", "npzRejectLeadingData", "npzVerifyCrc",
         "cooGetState", "cooSetState", "cooSetStateReset",
         "cooStruct", "cooShapeDtype", "cooUnbox", "cooBoxArgs", "cooBoxKwargs"]
KNOWN_CLASSES = {"COO", "GCXS"}
CLASS_SRC = {"COO": CORE, "GCXS": GCXS_SRC}
ATTRS = {"COO": {"data", "shape", "fill_value", "coords"},
         "GCXS": {"data", "shape", "fill_value", "indices", "indptr", "compressed_axes"}}
FOREIGN = {"numpy", "abc", "collections", "numbers", "typing"}  # libraries that cannot derive a class from this package's


class Refuse(Exception):
    pass


def u(n):
    return ast.unparse(n)


def nodoc(body):
    return [s for s in body if not (isinstance(s, ast.Expr) and isinstance(s.value, ast.Constant) and isinstance(s.value.value, str))]


def func(tree, name):
    for n in tree.body:
        if isinstance(n, ast.FunctionDef) and n.name == name:
            return n
    raise Refuse(f"function {name} not found")


def klass(tree, cls):
    for n in tree.body:
        if isinstance(n, ast.ClassDef) and n.name == cls:
            return n
    return None


def method(tree, cls, name):
    c = klass(tree, cls)
    if c is not None:
        for m in c.body:
            if isinstance(m, ast.FunctionDef) and m.name == name:
                return m
    raise Refuse(f"method {cls}.{name} not found")


def is_none(n):
    return isinstance(n, ast.Constant) and n.value is None


def single_target(st):
    return st.targets[0] if isinstance(st, ast.Assign) and len(st.targets) == 1 else None


def plain_params(f, what):
    a = f.args
    if a.vararg or a.kwarg or a.kwonlyargs or a.posonlyargs:
        raise Refuse(f"{what}: signature with */** parameters")
    return [x.arg for x in a.args]


# ---------------------------------------------------------------------------------------- class hierarchy

def not_subclass(repo: Path, sub: str, sup: str) -> bool:
    """True iff the class statements establish that `sub` does not derive from `sup`; False = not established"""
    seen = set()

    def walk(path: Path, name: str) -> bool:
        if (path, name) in seen:
            return True
        seen.add((path, name))
        try:
            tree = ast.parse(path.read_text())
        except (OSError, SyntaxError):
            return False
        c = klass(tree, name)
        if c is None or c.keywords and any(k.arg != "metaclass" for k in c.keywords):
            return False
        imported, modules = {}, {}
        for n in tree.body:
            if isinstance(n, ast.ImportFrom):
                for al in n.names:
                    imported[al.asname or al.name] = (n.level, n.module or "", al.name)
            elif isinstance(n, ast.Import):
                for al in n.names:
                    modules[al.asname or al.name.split(".")[0]] = al.name.split(".")[0]
        for b in c.bases:
            root = b
            while isinstance(root, ast.Attribute):
                root = root.value
            if not isinstance(root, ast.Name):
                return False
            if isinstance(b, ast.Attribute):
                if modules.get(root.id) in FOREIGN:
                    continue
                return False
            if b.id == sup:
                return False
            if klass(tree, b.id) is not None:
                if not walk(path, b.id):
                    return False
                continue
            if b.id not in imported:
                return False
            level, mod, orig = imported[b.id]
            if level == 0:
                if mod.split(".")[0] in FOREIGN:
                    continue
                return False
            if orig == sup:
                return False
            base = path.parent
            for _ in range(level - 1):
                base = base.parent
            cand = base.joinpath(*mod.split(".")) if mod else base
            target = cand.with_suffix(".py") if cand.with_suffix(".py").exists() else cand / "__init__.py"
            if not walk(target, orig):
                return False
        return True

    return sub != sup and sub in CLASS_SRC and walk(repo / CLASS_SRC[sub], sub)


# ---------------------------------------------------------------------------------------- save_npz

def type_test(test, mat):
    """-> (class name, exact?)"""
    if isinstance(test, ast.Compare) and len(test.ops) == 1 and isinstance(test.ops[0], ast.Is):
        a, b = test.left, test.comparators[0]
        for x, y in ((a, b), (b, a)):
            if u(x) == f"type({mat})" and isinstance(y, ast.Name):
                return y.id, True
    if (isinstance(test, ast.Call) and u(test.func) == "isinstance" and len(test.args) == 2 and not test.keywords
            and u(test.args[0]) == mat):
        c = test.args[1]
        if isinstance(c, ast.Tuple) and len(c.elts) == 1:
            c = c.elts[0]
        if isinstance(c, ast.Name):
            return c.id, False
    raise Refuse(f"save_npz: type test `{u(test)}` not understood")


def is_type_test(test, mat):
    try:
        type_test(test, mat)
        return True
    except Refuse:
        return False


class Save:
    """straight-line interpretation of save_npz: locals bound to `matrix.<attr>` (possibly with `None` replaced by an
    empty sequence), ONE dict that collects the members, a dispatch on the type of the matrix, the writer call"""

    def __init__(self, f, repo):
        self.repo = repo
        args = plain_params(f, "save_npz")
        if len(args) != 3:
            raise Refuse("save_npz: signature changed")
        self.fname, self.mat, self.comp = args
        self.nodes = None            # name of the dict
        self.common = []             # [(member, attr, enc)]
        self.branches = []           # [(cls, exact, [(member, attr, enc)])]  in source order
        self.chained = []            # for every branch: does it hang off the previous one by `elif`?
        self.writer = None           # local bound to `np.savez_compressed if compressed else np.savez`
        self.done = False
        env = {}
        for st in nodoc(f.body):
            if self.done:
                raise Refuse(f"save_npz: statement `{u(st)[:50]}` after the writer call")
            self.top(st, env)
        if not self.done:
            raise Refuse("save_npz: no writer call `np.savez_compressed(filename, **nodes)` / `np.savez(filename, **nodes)`")

    # -- values
    def attr_of(self, node, env):
        """`matrix.attr` or a local bound to one -> (attr, enc) else None"""
        if isinstance(node, ast.Attribute) and isinstance(node.value, ast.Name) and node.value.id == self.mat:
            return node.attr, "asis"
        if isinstance(node, ast.Name) and node.id in env:
            return env[node.id]
        return None

    def member_value(self, node, env):
        """-> (attr, encoding) with encoding 'asis' | 'noneAsEmpty'"""
        a = self.attr_of(node, env)
        if a is not None:
            return a
        inner = node
        if (isinstance(node, ast.Call) and u(node.func) in ("np.asarray", "np.array", "np.asanyarray") and len(node.args) == 1
                and all(k.arg == "dtype" for k in node.keywords)):
            inner = node.args[0]
        if isinstance(inner, ast.IfExp):
            t = inner.test
            if isinstance(t, ast.Compare) and len(t.ops) == 1 and is_none(t.comparators[0]):
                a = self.attr_of(t.left, env)
                empty, other = ((inner.body, inner.orelse) if isinstance(t.ops[0], ast.Is) else
                                (inner.orelse, inner.body) if isinstance(t.ops[0], ast.IsNot) else (None, None))
                if a is not None and a[1] == "asis" and empty is not None and u(empty) in ("()", "[]") and self.attr_of(other, env) == a:
                    return a[0], "noneAsEmpty"
        raise Refuse(f"save_npz: member value `{u(node)}` is not `matrix.<attr>` nor the recognised None-as-empty encoding")

    def entries(self, node, env):
        """a dict display / `dict(k=v, …)` -> [(member, attr, enc)] else None"""
        if isinstance(node, ast.Dict):
            out = []
            for k, v in zip(node.keys, node.values):
                if not (isinstance(k, ast.Constant) and isinstance(k.value, str)):
                    raise Refuse("save_npz: non-literal member name")
                out.append((k.value, *self.member_value(v, env)))
            return out
        if isinstance(node, ast.Call) and u(node.func) == "dict" and not node.args:
            if any(k.arg is None for k in node.keywords):
                raise Refuse("save_npz: ** in dict(...)")
            return [(k.arg, *self.member_value(k.value, env)) for k in node.keywords]
        return None

    # -- statements that may occur at the top level and inside a branch
    def simple(self, st, env, sink, where):
        tgt = single_target(st)
        if tgt is not None and isinstance(tgt, ast.Name) and tgt.id not in (self.nodes, self.mat, self.fname, self.comp):
            if tgt.id in env:
                raise Refuse(f"save_npz: local `{tgt.id}` bound twice")
            a = self.attr_of(st.value, env)
            if a is None:
                a = self.member_value(st.value, env)
            env[tgt.id] = a
            return True
        # `if L is None: L = ()`  on a local bound to an attribute
        if (isinstance(st, ast.If) and not st.orelse and len(st.body) == 1 and isinstance(st.test, ast.Compare) and len(st.test.ops) == 1
                and isinstance(st.test.ops[0], ast.Is) and is_none(st.test.comparators[0]) and isinstance(st.test.left, ast.Name)
                and st.test.left.id in env):
            t = single_target(st.body[0])
            if isinstance(t, ast.Name) and t.id == st.test.left.id and u(st.body[0].value) in ("()", "[]") and env[t.id][1] == "asis":
                env[t.id] = (env[t.id][0], "noneAsEmpty")
                return True
            raise Refuse(f"save_npz: statement `{u(st)[:50]}` {where}")
        if self.nodes is None:
            return False
        # nodes[k] = v
        if (tgt is not None and isinstance(tgt, ast.Subscript) and u(tgt.value) == self.nodes):
            if not (isinstance(tgt.slice, ast.Constant) and isinstance(tgt.slice.value, str)):
                raise Refuse(f"save_npz: assignment target `{u(tgt)}`")
            sink.append((tgt.slice.value, *self.member_value(st.value, env)))
            return True
        # nodes.update(k=v, …) / nodes.update({…})
        if (isinstance(st, ast.Expr) and isinstance(st.value, ast.Call) and u(st.value.func) == f"{self.nodes}.update"):
            c = st.value
            if len(c.args) > 1 or any(k.arg is None for k in c.keywords):
                raise Refuse(f"save_npz: `{u(st)[:50]}`")
            if c.args:
                e = self.entries(c.args[0], env)
                if e is None:
                    raise Refuse(f"save_npz: `{u(st)[:50]}`")
                sink += e
            sink += [(k.arg, *self.member_value(k.value, env)) for k in c.keywords]
            return True
        return False

    def top(self, st, env):
        tgt = single_target(st)
        # the dict
        if self.nodes is None and isinstance(tgt, ast.Name):
            e = self.entries(st.value, env)
            if e is not None:
                self.nodes = tgt.id
                self.common += e
                return
        # writer selected into a local
        if (isinstance(tgt, ast.Name) and isinstance(st.value, ast.IfExp) and self.writer is None
                and self.writers(st.value.test, u(st.value.body), u(st.value.orelse))):
            self.writer = tgt.id
            return
        if self.simple(st, env, self.common, "at the top level of save_npz"):
            return
        if self.nodes is not None and isinstance(st, ast.If):
            if is_type_test(st.test, self.mat):
                self.dispatch(st, env)
                return
            # if compressed: np.savez_compressed(f, **nodes) else: np.savez(f, **nodes)
            if len(st.body) == 1 and len(st.orelse) == 1:
                a, b = self.write_call(st.body[0]), self.write_call(st.orelse[0])
                if a and b and self.writers(st.test, a, b):
                    self.done = True
                    return
            if any(isinstance(n, ast.Name) and n.id == self.comp for n in ast.walk(st.test)):
                raise Refuse("save_npz: the writer call is not `np.savez_compressed(filename, **nodes)` / `np.savez(filename, **nodes)` selected by `compressed`")
            raise Refuse(f"save_npz: statement `{u(st)[:60]}` is neither the type dispatch nor the writer call")
        if self.nodes is not None and self.writer is not None and self.write_call(st) == self.writer:
            self.done = True
            return
        raise Refuse(f"save_npz: statement `{u(st)[:60]}` not understood")

    def writers(self, test, when_true, when_false):
        """the truth value of `compressed` selects np.savez_compressed, its negation np.savez"""
        if isinstance(test, ast.UnaryOp) and isinstance(test.op, ast.Not):
            test, when_true, when_false = test.operand, when_false, when_true
        return u(test) == self.comp and when_true == "np.savez_compressed" and when_false == "np.savez"

    def write_call(self, st):
        """`F(filename, **nodes)` -> text of F"""
        if not (isinstance(st, ast.Expr) and isinstance(st.value, ast.Call)):
            return None
        c = st.value
        if len(c.args) == 1 and u(c.args[0]) == self.fname and len(c.keywords) == 1 and c.keywords[0].arg is None and u(c.keywords[0].value) == self.nodes:
            return u(c.func)
        return None

    def dispatch(self, node, env):
        first = True
        while True:
            cls, exact = type_test(node.test, self.mat)
            if cls not in KNOWN_CLASSES:
                raise Refuse(f"save_npz: dispatch on unknown class {cls}")
            members, local = [], dict(env)
            for st in node.body:
                if not self.simple(st, local, members, f"in the {cls} branch"):
                    raise Refuse(f"save_npz: statement `{u(st)[:50]}` in the {cls} branch")
            for (_, a, _) in members:
                if a not in ATTRS[cls]:
                    raise Refuse(f"save_npz: attribute {a} in the {cls} branch")
            self.branches.append((cls, exact, members))
            self.chained.append(not first)
            first = False
            if not node.orelse:
                return
            if len(node.orelse) == 1 and isinstance(node.orelse[0], ast.If) and is_type_test(node.orelse[0].test, self.mat):
                node = node.orelse[0]
                continue
            raise Refuse("save_npz: the type dispatch has a final else branch")

    def exclusive(self, b1, b2):
        (c1, e1, _), (c2, e2, _) = b1, b2
        if c1 == c2:
            return False
        if e1 and e2:
            return True
        if e1 != e2:
            ex, inst = (c1, c2) if e1 else (c2, c1)
            return not_subclass(self.repo, ex, inst)
        return False

    def result(self):
        names = [k for k, _, _ in self.common]
        if len(set(names)) != len(names):
            raise Refuse("save_npz: a common member is written twice")
        for (_, a, enc) in self.common:
            if enc != "asis":
                raise Refuse("save_npz: encoded common member")
            if not all(a in ATTRS[c] for c in KNOWN_CLASSES):
                raise Refuse(f"save_npz: common attribute {a}")
        all_exclusive = all(self.exclusive(a, b) for i, a in enumerate(self.branches) for b in self.branches[i + 1:])
        if not all_exclusive and not all(self.chained[1:]):
            raise Refuse("save_npz: independent `if` statements on the type of the matrix whose tests are not known to be mutually exclusive")
        none_as_empty = None
        out = []
        for cls, exact, ms in self.branches:
            ks = [k for k, _, _ in ms]
            if len(set(ks)) != len(ks) or set(ks) & set(names):
                raise Refuse(f"save_npz: a member is overwritten in the {cls} branch")
            for _, a, enc in ms:
                if enc == "noneAsEmpty":
                    if a != "compressed_axes":
                        raise Refuse("save_npz: None-as-empty encoding on a member other than compressed_axes")
                    none_as_empty = True
                elif a == "compressed_axes":
                    none_as_empty = False
            out.append((cls, exact, sorted((k, a) for k, a, _ in ms)))
        if none_as_empty is None:
            raise Refuse("save_npz: compressed_axes is not written by any branch")
        if all_exclusive:
            out.sort(key=lambda b: b[0])
        return sorted((k, a) for k, a, _ in self.common), out, none_as_empty


def read_save(tree, repo):
    return Save(func(tree, "save_npz"), repo).result()


# ---------------------------------------------------------------------------------------- load_npz

CONV = {"shape": ["tuple"], "fill_value": ["item"]}


class Val:
    """a value inside a `try` block of load_npz"""

    def __init__(self, kind, member=None, conv=(), decoded=False, elts=None):
        self.kind, self.member, self.conv, self.decoded, self.elts = kind, member, list(conv), decoded, elts  # kind: member | triple | none


def ctor_params(repo, cls):
    try:
        tree = ast.parse((repo / CLASS_SRC[cls]).read_text())
        return plain_params(method(tree, cls, "__init__"), f"{cls}.__init__")[1:]
    except (OSError, SyntaxError, Refuse, KeyError):
        return None


class Block:
    """one `try` block: the order of the subscripts `fp[k]`, the constructor call and what it is given"""

    def __init__(self, fp, repo):
        self.fp, self.repo, self.env, self.order, self.ret = fp, repo, {}, [], None

    def value(self, node):
        """evaluate an expression; subscripts of fp are appended to self.order in evaluation order"""
        if isinstance(node, ast.Name):
            if node.id in self.env:
                v = self.env[node.id]
                return Val(v.kind, v.member, v.conv, v.decoded, v.elts)
            raise Refuse(f"load_npz: name `{node.id}` inside a try block")
        if is_none(node):
            return Val("none")
        if isinstance(node, ast.Call) and u(node.func) == "tuple" and len(node.args) == 1 and not node.keywords:
            v = self.value(node.args[0])
            if v.kind != "member":
                raise Refuse(f"load_npz: `{u(node)}`")
            v.conv.append("tuple")
            return v
        if isinstance(node, ast.Subscript) and u(node.slice) == "()":
            v = self.value(node.value)
            if v.kind != "member":
                raise Refuse(f"load_npz: `{u(node)}`")
            v.conv.append("item")
            return v
        if isinstance(node, ast.Subscript) and u(node.value) == self.fp:
            if not (isinstance(node.slice, ast.Constant) and isinstance(node.slice.value, str)):
                raise Refuse(f"load_npz: `{u(node)}` is not a member subscript")
            k = node.slice.value
            if k in self.order:
                raise Refuse(f"load_npz: member {k} read twice")
            self.order.append(k)
            return Val("member", k)
        if isinstance(node, ast.Tuple) and len(node.elts) == 3:
            return Val("triple", elts=[self.value(e) for e in node.elts])
        if isinstance(node, ast.IfExp):
            e = self.empty_test(node.test)
            if e is not None:
                name, empty_when_true = e
                a, b = (node.body, node.orelse) if empty_when_true else (node.orelse, node.body)
                if is_none(a) and isinstance(b, ast.Name) and b.id == name:
                    v = self.value(b)
                    v.decoded = True
                    return v
        raise Refuse(f"load_npz: `{u(node)[:60]}` is not a member subscript")

    def empty_test(self, t):
        """`L.size == 0` / `0 == L.size` / `not L.size` -> (L, True); `L.size != 0` / `L.size` -> (L, False)"""
        def size_of(n):
            if (isinstance(n, ast.Attribute) and n.attr == "size" and isinstance(n.value, ast.Name) and n.value.id in self.env
                    and self.env[n.value.id].kind == "member" and not self.env[n.value.id].conv):
                return n.value.id
            return None
        if isinstance(t, ast.UnaryOp) and isinstance(t.op, ast.Not):
            e = self.empty_test(t.operand)
            return None if e is None else (e[0], not e[1])
        if size_of(t):
            return size_of(t), False
        if isinstance(t, ast.Compare) and len(t.ops) == 1 and isinstance(t.ops[0], ast.Eq | ast.NotEq):
            a, b = t.left, t.comparators[0]
            for x, y in ((a, b), (b, a)):
                if size_of(x) and u(y) == "0":
                    return size_of(x), isinstance(t.ops[0], ast.Eq)
        return None

    def statement(self, st):
        tgt = single_target(st)
        if isinstance(tgt, ast.Name):
            self.env[tgt.id] = self.value(st.value)
            return
        if isinstance(st, ast.If):
            e = self.empty_test(st.test)
            if e is not None:
                name, empty_when_true = e
                body, orelse = (st.body, st.orelse) if empty_when_true else (st.orelse, st.body)
                if len(body) == 1 and len(orelse) <= 1:
                    t1 = single_target(body[0])
                    if isinstance(t1, ast.Name) and is_none(body[0].value):
                        if not orelse and t1.id == name:
                            self.env[name].decoded = True
                            return
                        if orelse:
                            t2 = single_target(orelse[0])
                            if isinstance(t2, ast.Name) and t2.id == t1.id and isinstance(orelse[0].value, ast.Name) and orelse[0].value.id == name:
                                v = self.value(orelse[0].value)
                                v.decoded = True
                                self.env[t1.id] = v
                                return
        raise Refuse(f"load_npz: statement `{u(st)[:60]}` inside a try block")

    def returns(self, st):
        ret = st.value
        if not isinstance(ret, ast.Call) or not isinstance(ret.func, ast.Name):
            raise Refuse("load_npz: a try block does not end in `return Class(...)`")
        cls = ret.func.id
        if cls not in KNOWN_CLASSES:
            raise Refuse(f"load_npz: constructs unknown class {cls}")
        if any(k.arg is None for k in ret.keywords) or any(isinstance(a, ast.Starred) for a in ret.args):
            raise Refuse("load_npz: * or ** in a constructor call")
        got = {}
        params = ctor_params(self.repo, cls) if ret.args else []
        if ret.args and (params is None or len(ret.args) > len(params)):
            raise Refuse(f"load_npz: positional argument to {cls} and its signature could not be read")
        for p, a in zip(params, ret.args):
            got[p] = a
        for k in ret.keywords:
            if k.arg in got:
                raise Refuse(f"load_npz: {cls}(...) receives {k.arg} twice")
            got[k.arg] = k.value
        # evaluate in source order: positional arguments, then keywords
        vals = {p: (self.value(n) if not (isinstance(n, ast.Constant) and isinstance(n.value, bool)) else n.value) for p, n in got.items()}

        def frm(p, want, decoded_ok=False):
            v = vals.get(p)
            if not isinstance(v, Val) or v.kind != "member" or v.member != want or v.conv != CONV.get(want, []) or (v.decoded and not decoded_ok):
                raise Refuse(f"load_npz: {cls}(...) field {want} does not receive the member of that name (converted as {CONV.get(want, [])})")
            return v

        if cls == "COO":
            need = ["coords", "data", "shape", "fill_value"]
            for k in need:
                frm(k, k)
            flags = {k: v for k, v in vals.items() if k not in need}
            if flags != {"sorted": True, "has_duplicates": False}:
                raise Refuse("load_npz: COO(...) is not constructed with exactly sorted=True, has_duplicates=False (the literal-load model does not apply)")
            decoded = None
        else:
            if set(vals) != {"arg", "shape", "fill_value", "compressed_axes"}:
                raise Refuse(f"load_npz: GCXS(...) arguments {sorted(vals)}")
            t = vals["arg"]
            if not isinstance(t, Val) or t.kind != "triple":
                raise Refuse("load_npz: GCXS(...) first argument is not a 3-tuple")
            for v, want in zip(t.elts, ("data", "indices", "indptr")):
                if v.kind != "member" or v.member != want or v.conv or v.decoded:
                    raise Refuse(f"load_npz: GCXS(...) field {want} does not receive the member of that name")
            frm("shape", "shape")
            frm("fill_value", "fill_value")
            decoded = frm("compressed_axes", "compressed_axes", decoded_ok=True).decoded
            need = ["data", "indices", "indptr", "compressed_axes", "shape", "fill_value"]
        if set(self.order) != set(need):
            raise Refuse(f"load_npz: {cls} branch reads {self.order}, constructor needs {sorted(need)}")
        self.ret = (cls, decoded)


def read_load(tree, repo):
    f = func(tree, "load_npz")
    if plain_params(f, "load_npz") != ["filename"]:
        raise Refuse("load_npz: signature changed")
    body = nodoc(f.body)
    if not (len(body) == 1 and isinstance(body[0], ast.With) and len(body[0].items) == 1):
        raise Refuse("load_npz: body is not a single `with np.load(filename) as fp:`")
    item = body[0].items[0]
    c = item.context_expr
    if not (isinstance(c, ast.Call) and u(c.func) == "np.load" and len(c.args) == 1 and u(c.args[0]) == "filename"
            and all(k.arg == "allow_pickle" and isinstance(k.value, ast.Constant) and k.value.value is False for k in c.keywords)
            and isinstance(item.optional_vars, ast.Name)):
        raise Refuse(f"load_npz: `{u(c)}` is not `np.load(filename)` (object arrays must stay unloadable)")
    fp = item.optional_vars.id
    tries = list(body[0].body)
    # optional leading guards on the archive itself: `if <test on fp.zip>: raise RuntimeError(...)`, the test a
    # disjunction of "data in front of the archive" (`header_offset`) and "a member fails its checksum" (`testzip()`)
    reject_leading = verify_crc = False
    while (tries and isinstance(tries[0], ast.If) and not tries[0].orelse and len(tries[0].body) == 1 and isinstance(tries[0].body[0], ast.Raise)
            and isinstance(tries[0].body[0].exc, ast.Call) and u(tries[0].body[0].exc.func) == "RuntimeError"):
        t = tries[0].test
        for part in (t.values if isinstance(t, ast.BoolOp) and isinstance(t.op, ast.Or) else [t]):
            txt = u(part)
            if f"{fp}.zip" in txt and "header_offset" in txt and txt.endswith("!= 0"):
                reject_leading = True
            elif txt == f"{fp}.zip.testzip() is not None":
                verify_crc = True
            else:
                raise Refuse(f"load_npz: guard `{txt[:60]}` not understood")
        tries = tries[1:]
    branches, empty_as_none = [], False
    for i, t in enumerate(tries):
        last = i == len(tries) - 1
        if not (isinstance(t, ast.Try) and len(t.handlers) == 1 and not t.finalbody and u(t.handlers[0].type) == "KeyError"):
            raise Refuse("load_npz: statement is not `try: ... except KeyError`")
        hb = list(t.handlers[0].body)
        if last:
            # optional temporaries holding the message (a string display), then `raise RuntimeError(...) [from e]`
            while len(hb) > 1 and isinstance(single_target(hb[0]), ast.Name) and isinstance(hb[0].value, ast.JoinedStr | ast.Constant):
                hb = hb[1:]
            if not (len(hb) == 1 and isinstance(hb[0], ast.Raise) and isinstance(hb[0].exc, ast.Call) and u(hb[0].exc.func) == "RuntimeError"):
                raise Refuse("load_npz: the last handler does not raise RuntimeError")
        elif not (len(hb) == 1 and isinstance(hb[0], ast.Pass)):
            raise Refuse("load_npz: a non-final KeyError handler does something")
        blk = Block(fp, repo)
        # `try: reads; return C(...)`  or  `try: reads / except KeyError: … / else: return C(...)`: the second form guards the
        # subscripts only, which is what the model (`loadFrom`: KeyError comes from `fetchAll` alone) describes in either case
        stmts = list(t.body)
        if t.orelse:
            if not (len(t.orelse) == 1 and isinstance(t.orelse[0], ast.Return)) or any(isinstance(s, ast.Return) for s in stmts):
                raise Refuse("load_npz: the else clause of a try block is not a single `return Class(...)`")
            stmts += t.orelse
        if not stmts or not isinstance(stmts[-1], ast.Return):
            raise Refuse("load_npz: a try block does not end in `return Class(...)`")
        for st in stmts[:-1]:
            blk.statement(st)
        blk.returns(stmts[-1])
        cls, decoded = blk.ret
        if decoded:
            empty_as_none = True
        branches.append((cls, blk.order))
    if not branches:
        raise Refuse("load_npz: no try block")
    gc = [b for b in branches if b[0] == "GCXS"]
    if len(gc) > 1:
        raise Refuse("load_npz: more than one GCXS block")
    return branches, empty_as_none, reject_leading, verify_crc


# ---------------------------------------------------------------------------------------- pickle state

def self_attr(e):
    return e.attr if isinstance(e, ast.Attribute) and isinstance(e.value, ast.Name) and e.value.id == "self" else None


def bind_pairs(st):
    """`a = x` -> [(a, x)];  `a, b = x, y` -> [(a, x), (b, y)]  (targets are Names) else None"""
    tgt = single_target(st)
    if isinstance(tgt, ast.Name):
        return [(tgt.id, st.value)]
    if (isinstance(tgt, ast.Tuple | ast.List) and isinstance(st.value, ast.Tuple | ast.List) and len(tgt.elts) == len(st.value.elts)
            and all(isinstance(e, ast.Name) for e in tgt.elts)):
        return [(t.id, v) for t, v in zip(tgt.elts, st.value.elts)]
    return None


def read_state(tree):
    g = nodoc(method(tree, "COO", "__getstate__").body)
    if not (g and isinstance(g[-1], ast.Return) and g[-1].value is not None):
        raise Refuse("COO.__getstate__ does not end in a return")
    env = {}

    def gval(node):
        """-> list of attribute names (a tuple) or one attribute name"""
        a = self_attr(node)
        if a is not None:
            return a
        if isinstance(node, ast.Name) and node.id in env:
            return env[node.id]
        if isinstance(node, ast.Tuple):
            vs = [gval(e) for e in node.elts]
            if all(isinstance(v, str) for v in vs):
                return vs
        raise Refuse(f"COO.__getstate__: `{u(node)}` is not a self attribute or a tuple of them")

    for st in g[:-1]:
        ps = bind_pairs(st)
        if ps is None:
            raise Refuse(f"COO.__getstate__: statement `{u(st)[:50]}`")
        vals = [gval(v) for _, v in ps]  # the right-hand sides are evaluated before any name is bound
        for (name, _), v in zip(ps, vals):
            if name in env:
                raise Refuse(f"COO.__getstate__: local `{name}` bound twice")
            env[name] = v
    get = gval(g[-1].value)
    if not isinstance(get, list):
        raise Refuse("COO.__getstate__ does not return a tuple")
    sm = method(tree, "COO", "__setstate__")
    s = nodoc(sm.body)
    params = plain_params(sm, "COO.__setstate__")
    if len(params) != 2:
        raise Refuse("COO.__setstate__: signature changed")
    state = params[1]
    tgt = single_target(s[0]) if s else None
    if not (isinstance(tgt, ast.Tuple | ast.List) and u(s[0].value) == state):
        raise Refuse("COO.__setstate__ does not start with the unpacking of `state`")
    # every position of the state goes to a self attribute, directly or through a local that is stored exactly once
    slots, local_pos = [], {}
    for i, e in enumerate(tgt.elts):
        a = self_attr(e)
        if a is not None:
            slots.append(a)
        elif isinstance(e, ast.Name) and e.id not in local_pos and e.id not in params:
            local_pos[e.id] = i
            slots.append(None)
        else:
            raise Refuse(f"COO.__setstate__: unpacking target `{u(e)}`")
    reset, nones = [], set()
    for x in s[1:]:
        t = single_target(x)
        if isinstance(t, ast.Name) and is_none(x.value) and t.id not in local_pos and t.id not in nones and t.id not in params:
            nones.add(t.id)
            continue
        a = self_attr(t) if t is not None else None
        if a is None:
            raise Refuse(f"COO.__setstate__: statement `{u(x)[:50]}`")
        if a in slots or a in reset:
            raise Refuse(f"COO.__setstate__: attribute {a} stored twice")
        if is_none(x.value) or isinstance(x.value, ast.Name) and x.value.id in nones:
            reset.append(a)
        elif isinstance(x.value, ast.Name) and x.value.id in local_pos and slots[local_pos[x.value.id]] is None:
            slots[local_pos[x.value.id]] = a
        else:
            raise Refuse(f"COO.__setstate__: statement `{u(x)[:50]}`")
    if None in slots:
        raise Refuse("COO.__setstate__: a position of the state is not stored in an attribute")
    if len(set(slots)) != len(slots):
        raise Refuse("COO.__setstate__: an attribute receives two positions of the state")
    return get, slots, sorted(reset)


# ---------------------------------------------------------------------------------------- numba boxing

def once(fn, name):
    """the value of `name = value` if that is the ONLY binding of the name in the function (no parameter, no second
    assignment, no loop / with / walrus target of that name), else None"""
    if any(a.arg == name for a in [*fn.args.args, *fn.args.kwonlyargs, *fn.args.posonlyargs, fn.args.vararg, fn.args.kwarg] if a is not None):
        return None
    stores = [n for n in ast.walk(fn) if isinstance(n, ast.Name) and n.id == name and isinstance(n.ctx, ast.Store)]
    if len(stores) != 1 or any(isinstance(n, ast.FunctionDef | ast.Lambda | ast.ClassDef) and n is not fn for n in ast.walk(fn)
                               if isinstance(n, ast.FunctionDef | ast.Lambda | ast.ClassDef)):
        return None
    for n in ast.walk(fn):
        if isinstance(n, ast.Assign) and len(n.targets) == 1 and n.targets[0] is stores[0]:
            return n.value
    return None


def resolve(fn, node):
    """a Name bound exactly once in the function -> the expression it is bound to"""
    if isinstance(node, ast.Name):
        v = once(fn, node.id)
        if v is not None:
            return v
    return node


def call_args(call, params, what):
    """positional + keyword arguments of a call matched against parameter names -> {param: node}"""
    if any(isinstance(a, ast.Starred) for a in call.args) or any(k.arg is None for k in call.keywords) or len(call.args) > len(params):
        raise Refuse(f"{what}: `{u(call)[:60]}`")
    got = dict(zip(params, call.args))
    for k in call.keywords:
        if k.arg in got or k.arg not in params:
            raise Refuse(f"{what}: `{u(call)[:60]}`")
        got[k.arg] = k.value
    if set(got) != set(params):
        raise Refuse(f"{what}: `{u(call)[:60]}`")
    return got


def numba_names(tree):
    """names bound at module level to numba's type namespace / to objects in it: {local name: dotted numba name}"""
    out = {}
    for n in tree.body:
        if isinstance(n, ast.Import):
            for al in n.names:
                if al.name == "numba" or al.name.startswith("numba."):
                    out[al.asname or al.name.split(".")[0]] = al.name if al.asname else "numba"
        elif isinstance(n, ast.ImportFrom) and n.level == 0 and n.module and (n.module == "numba" or n.module.startswith("numba.")):
            for al in n.names:
                out[al.asname or al.name] = f"{n.module}.{al.name}"
    return out


TYPES_NS = ("numba.core.types", "numba.types", "numba")


def numba_dotted(node, names):
    """`types.intp` -> 'numba.core.types.intp' etc., else None"""
    parts = []
    while isinstance(node, ast.Attribute):
        parts.append(node.attr)
        node = node.value
    if isinstance(node, ast.Name) and node.id in names:
        return ".".join([names[node.id], *reversed(parts)])
    return None


def in_types_ns(dotted, leaf):
    return dotted is not None and any(dotted == f"{ns}.{leaf}" for ns in TYPES_NS)


def read_numba(tree, repo):
    names = numba_names(tree)
    # struct members: the last argument of StructModel.__init__
    cm = method(tree, "COOModel", "__init__")
    members = None
    for n in ast.walk(cm):
        if not isinstance(n, ast.Call):
            continue
        fn = u(n.func)
        if fn == "models.StructModel.__init__":
            got = call_args(n, ["self", "dmm", "fe_type", "members"], "COOModel.__init__")
        elif fn == "super().__init__":
            got = call_args(n, ["dmm", "fe_type", "members"], "COOModel.__init__")
        else:
            continue
        if members is not None:
            raise Refuse("COOModel.__init__ initialises the struct model twice")
        fe = plain_params(cm, "COOModel.__init__")
        if len(fe) != 3 or u(got["dmm"]) != fe[1] or u(got["fe_type"]) != fe[2] or ("self" in got and u(got["self"]) != fe[0]):
            raise Refuse("COOModel.__init__: arguments of StructModel.__init__")
        lst = resolve(cm, got["members"])
        if not isinstance(lst, ast.List | ast.Tuple):
            raise Refuse(f"COOModel members `{u(lst)[:60]}` is not a list display")
        members = []
        for e in lst.elts:
            if not (isinstance(e, ast.Tuple) and len(e.elts) == 2 and isinstance(e.elts[0], ast.Constant)
                    and u(e.elts[1]) == f"{fe[2]}.{e.elts[0].value}_type"):
                raise Refuse(f"COOModel member `{u(e)}`")
            members.append(e.elts[0].value)
    if members is None:
        raise Refuse("COOModel.members not found")
    # shape_type
    spf = method(tree, "COOType", "shape_type")
    sp = nodoc(spf.body)
    if not (sp and isinstance(sp[-1], ast.Return) and isinstance(sp[-1].value, ast.Call)):
        raise Refuse("COOType.shape_type is not `types.UniTuple(<dtype>, self.ndim)`")
    for st in sp[:-1]:
        if not isinstance(single_target(st), ast.Name):
            raise Refuse("COOType.shape_type: statement")
    call = sp[-1].value
    if not in_types_ns(numba_dotted(call.func, names), "UniTuple"):
        raise Refuse("COOType.shape_type is not `types.UniTuple(<dtype>, self.ndim)`")
    got = call_args(call, ["dtype", "count"], "COOType.shape_type")
    if u(resolve(spf, got["count"])) != "self.ndim":
        raise Refuse("COOType.shape_type is not `types.UniTuple(<dtype>, self.ndim)`")
    dt = resolve(spf, got["dtype"])
    dd = numba_dotted(dt, names)
    if (isinstance(dt, ast.Call) and (numba_dotted(dt.func, names) or "").endswith("from_dtype") and len(dt.args) == 1 and not dt.keywords
            and u(dt.args[0]) == "self.coords_dtype"):
        shape_dtype = "coords"
    elif in_types_ns(dd, "intp") or in_types_ns(dd, "int64"):
        shape_dtype = "intp"
    else:
        raise Refuse(f"COOType.shape_type: element type `{u(dt)}`")
    # unboxing: V = _unbox_native_field(typ.F_type, obj, "attr", c) ; P = create_struct_proxy(typ)(…) ; P.F = V.value
    ub = func(tree, "unbox_COO")
    up = plain_params(ub, "unbox_COO")
    if len(up) != 3:
        raise Refuse("unbox_COO: signature changed")
    typ, obj, ctx = up
    src = {}
    hp = plain_params(func(tree, "_unbox_native_field"), "_unbox_native_field")
    if len(hp) != 4 or len(set(hp)) != 4:
        raise Refuse("_unbox_native_field: signature changed")
    for n in ast.walk(ub):
        if isinstance(n, ast.Assign) and isinstance(n.value, ast.Call) and u(n.value.func) == "_unbox_native_field":
            got = call_args(n.value, hp, "unbox_COO")
            got = {role: got[p] for role, p in zip(("typ", "obj", "field_name", "c"), hp)}
            fld = got["field_name"]
            tgt = single_target(n)
            if not (isinstance(fld, ast.Constant) and isinstance(fld.value, str) and isinstance(tgt, ast.Name)):
                raise Refuse(f"unbox_COO: `{u(n)[:60]}`")
            if u(got["typ"]) != f"{typ}.{fld.value}_type" or u(got["obj"]) != obj or u(got["c"]) != ctx:
                raise Refuse(f"unbox_COO: attribute {fld.value} unboxed as `{u(got['typ'])}`")
            if tgt.id in src or once(ub, tgt.id) is None:
                raise Refuse(f"unbox_COO: local `{tgt.id}` bound twice")
            src[tgt.id] = fld.value
    proxies = [t.id for n in ast.walk(ub) if isinstance(n, ast.Assign) and isinstance(n.value, ast.Call) and isinstance(n.value.func, ast.Call)
               and u(n.value.func) == f"cgutils.create_struct_proxy({typ})" for t in n.targets if isinstance(t, ast.Name)]
    if len(proxies) != 1 or once(ub, proxies[0]) is None:
        raise Refuse("unbox_COO: the struct proxy was not recognised")
    proxy = proxies[0]
    # temporaries `t = V.value` / `a, b = V.value, W.value`
    vals = {}
    for n in ast.walk(ub):
        if isinstance(n, ast.Assign):
            ps = bind_pairs(n)
            for name, v in ps or []:
                if isinstance(v, ast.Attribute) and v.attr == "value" and isinstance(v.value, ast.Name) and v.value.id in src:
                    if name in vals or name in src or name == proxy:
                        raise Refuse(f"unbox_COO: local `{name}` bound twice")
                    vals[name] = src[v.value.id]
    for name in vals:
        cnt = sum(1 for n in ast.walk(ub) if isinstance(n, ast.Name) and n.id == name and isinstance(n.ctx, ast.Store))
        if cnt != 1:
            raise Refuse(f"unbox_COO: local `{name}` bound twice")
    unbox = {}
    for n in ast.walk(ub):
        if isinstance(n, ast.Assign) and any(isinstance(t, ast.Attribute) and u(t.value) == proxy for t in n.targets):
            t = single_target(n)
            v = n.value
            if t is None:
                raise Refuse(f"unbox_COO: `{u(n)}`")
            if isinstance(v, ast.Attribute) and v.attr == "value" and isinstance(v.value, ast.Name) and v.value.id in src:
                a = src[v.value.id]
            elif isinstance(v, ast.Name) and v.id in vals:
                a = vals[v.id]
            else:
                raise Refuse(f"unbox_COO: `{u(n)}`")
            if t.attr in unbox:
                raise Refuse(f"unbox_COO: member {t.attr} stored twice")
            unbox[t.attr] = a
    if sorted(unbox) != sorted(members):
        raise Refuse(f"unbox_COO fills {sorted(unbox)}, struct has {sorted(members)}")
    # boxing: X = c.box(typ.F_type, P.F); args = tuple_pack([...]); kwargs = dict_pack([("k", X)]); call(class_obj, args, kwargs)
    bx = func(tree, "box_COO")
    bp = plain_params(bx, "box_COO")
    if len(bp) != 3:
        raise Refuse("box_COO: signature changed")
    typ, val, ctx = bp
    proxies = [t.id for n in ast.walk(bx) if isinstance(n, ast.Assign) and isinstance(n.value, ast.Call) and isinstance(n.value.func, ast.Call)
               and u(n.value.func) == f"cgutils.create_struct_proxy({typ})" and any(k.arg == "value" and u(k.value) == val for k in n.value.keywords)
               for t in n.targets if isinstance(t, ast.Name)]
    if len(proxies) != 1 or once(bx, proxies[0]) is None:
        raise Refuse("box_COO: the struct proxy was not recognised")
    proxy = proxies[0]
    objs, args, kwargs, called = {}, None, None, 0
    args_var = kwargs_var = cls_var = None
    for n in ast.walk(bx):
        if isinstance(n, ast.Assign) and isinstance(n.value, ast.Call):
            fn = u(n.value.func)
            tgt = single_target(n)
            if fn == f"{ctx}.box":
                got = call_args(n.value, ["typ", "val"], "box_COO")
                v = got["val"]
                if not (isinstance(v, ast.Attribute) and u(v.value) == proxy and u(got["typ"]) == f"{typ}.{v.attr}_type" and isinstance(tgt, ast.Name)
                        and once(bx, tgt.id) is not None):
                    raise Refuse(f"box_COO: `{u(n)}`")
                objs[tgt.id] = v.attr
            elif fn == f"{ctx}.pyapi.tuple_pack":
                lst = resolve(bx, n.value.args[0]) if len(n.value.args) == 1 and not n.value.keywords else None
                if args is not None or not isinstance(lst, ast.List | ast.Tuple) or not isinstance(tgt, ast.Name) or once(bx, tgt.id) is None:
                    raise Refuse(f"box_COO: `{u(n)[:60]}`")
                args, args_var = [objs.get(u(e)) for e in lst.elts], tgt.id
            elif fn == f"{ctx}.pyapi.dict_pack":
                lst = resolve(bx, n.value.args[0]) if len(n.value.args) == 1 and not n.value.keywords else None
                if kwargs is not None or not isinstance(lst, ast.List | ast.Tuple) or not isinstance(tgt, ast.Name) or once(bx, tgt.id) is None:
                    raise Refuse(f"box_COO: `{u(n)[:60]}`")
                kwargs, kwargs_var = [], tgt.id
                for e in lst.elts:
                    if not (isinstance(e, ast.Tuple) and len(e.elts) == 2 and isinstance(e.elts[0], ast.Constant) and isinstance(e.elts[0].value, str)):
                        raise Refuse(f"box_COO: keyword entry `{u(e)}`")
                    kwargs.append((e.elts[0].value, objs.get(u(e.elts[1]))))
            elif fn == f"{ctx}.pyapi.unserialize" and u(n.value) == f"{ctx}.pyapi.unserialize({ctx}.pyapi.serialize_object(COO))":
                if cls_var is not None or not isinstance(tgt, ast.Name) or once(bx, tgt.id) is None:
                    raise Refuse("box_COO: the class object is bound twice")
                cls_var = tgt.id
    for n in ast.walk(bx):
        if isinstance(n, ast.Call) and u(n.func) == f"{ctx}.pyapi.call":
            called += 1
            if [u(a) for a in n.args] != [cls_var, args_var, kwargs_var] or n.keywords:
                raise Refuse("box_COO: the call `COO(*args, **kwargs)` was not recognised")
    if args is None or kwargs is None or None in args or any(v is None for _, v in kwargs) or called != 1 or cls_var is None:
        raise Refuse("box_COO: the call `COO(*args, **kwargs)` was not recognised")
    kws = [k for k, _ in kwargs]
    if len(set(kws)) != len(kws):
        raise Refuse("box_COO: a keyword is passed twice")
    params = ctor_params(repo, "COO")
    if params is None or len(args) > len(params) or set(kws) & set(params[:len(args)]) or not set(kws) <= set(params):
        raise Refuse("box_COO: the arguments do not fit the signature of COO.__init__ (a parameter bound twice, or unknown)")
    return members, shape_dtype, sorted(unbox.items()), args, sorted(kwargs)


# ---------------------------------------------------------------------------------------- emit

def s(x):
    return '"' + x + '"'


def lst(xs):
    return "[" + ", ".join(xs) + "]"


def pairs(ps):
    return lst(f"({s(a)}, {s(b)})" for a, b in ps)


def generate(repo: Path):
    try:
        io_tree = ast.parse((repo / IO).read_text())
        common, write, none_as_empty = read_save(io_tree, repo)
        require, empty_as_none, reject_leading, verify_crc = read_load(io_tree, repo)
        get, st, reset = read_state(ast.parse((repo / CORE).read_text()))
        members, shape_dtype, unbox, bargs, bkwargs = read_numba(ast.parse((repo / NUMBA).read_text()), repo)
    except (Refuse, OSError, SyntaxError, AttributeError, IndexError) as e:
        msg = str(e) or type(e).__name__
        return {OUT: (f"/- GENERATED by tools/tables.d/C14.py — REFUSED: {msg} -/\n", [], [f"{n}: {msg}" for n in ("npzWrite", "npzRequire")])}
    b = lambda v: "true" if v else "false"  # noqa: E731
    txt = f"""/- GENERATED by tools/py2lean.py (tools/tables.d/C14.py) from {IO}, {CORE}, {NUMBA} — do not edit. -/
import SparseV.Model.Basic
namespace SparseV.Gen

/-- `save_npz`: members written for every matrix, as (member, attribute of the matrix), sorted by member (a mapping) -/
def npzCommon : List (String × String) := {pairs(common)}

/-- `save_npz`: the type dispatch in order: (class, `true` = `type(matrix) is C` / `false` = `isinstance(matrix, C)`,
members the branch adds as (member, attribute), sorted by member); a matrix matching no branch gets the common members only -/
def npzWrite : List (String × Bool × List (String × String)) :=
  {lst(f"({s(c)}, {b(e)}, {pairs(ms)})" for c, e, ms in write)}

/-- `save_npz`: `true` iff `compressed_axes = None` is stored as an empty array; `false` = stored as given
(`np.savez` turns `None` into a 0-d object array) -/
def npzNoneAxesAsEmpty : Bool := {b(none_as_empty)}

/-- `load_npz`: the `try … except KeyError` blocks in order: (class constructed, members subscripted, in order).
`np.load` is called without `allow_pickle`; COO is constructed with `sorted=True, has_duplicates=False`;
every constructor field receives the member of its own name. -/
def npzRequire : List (String × List String) :=
  {lst(f"({s(c)}, {lst(map(s, ms))})" for c, ms in require)}

/-- `load_npz`: `true` iff an empty `compressed_axes` member is turned into `None` before construction -/
def npzEmptyAxesAsNone : Bool := {b(empty_as_none)}

/-- `load_npz`: `true` iff an archive with data in front of it (`header_offset ≠ 0`) is rejected before any member is read -/
def npzRejectLeadingData : Bool := {b(reject_leading)}

/-- `load_npz`: `true` iff the checksum of every member is verified (`zip.testzip()`) before any member is read -/
def npzVerifyCrc : Bool := {b(verify_crc)}

/-- `COO.__getstate__`: the state tuple (attribute names) -/
def cooGetState : List String := {lst(map(s, get))}
/-- `COO.__setstate__`: the attributes the state tuple is unpacked into, in order -/
def cooSetState : List String := {lst(map(s, st))}
/-- `COO.__setstate__`: attributes reset to `None` afterwards (sorted) -/
def cooSetStateReset : List String := {lst(map(s, reset))}

/-- numba `COOModel`: struct members in order -/
def cooStruct : List String := {lst(map(s, members))}
/-- numba `COOType.shape_type`: element type of the native shape tuple: "coords" (the coords dtype) or "intp" -/
def cooShapeDtype : String := {s(shape_dtype)}
/-- `unbox_COO`: (struct member, Python attribute it is read from), sorted by member (a mapping) -/
def cooUnbox : List (String × String) := {pairs(unbox)}
/-- `box_COO`: struct members passed positionally to `COO(...)` -/
def cooBoxArgs : List String := {lst(map(s, bargs))}
/-- `box_COO`: (keyword, struct member) passed to `COO(...)`, sorted by keyword (a mapping) -/
def cooBoxKwargs : List (String × String) := {pairs(bkwargs)}

end SparseV.Gen
"""
    return {OUT: (txt, list(NAMES), [])}

"""T1 tables for C14 (copying and persistence round-trip exactly).

Read with `ast`, from /repo's current source:

* `_io.py: save_npz`  — the members written for every matrix, the type dispatch (exact `type(m) is C`
  or `isinstance(m, C)`), the members each branch adds, and how `compressed_axes=None` is stored;
* `_io.py: load_npz`  — the `try` blocks in order, the members each subscripts (in order), the class it
  constructs, and whether an empty `compressed_axes` member is decoded to `None`;
* `_coo/core.py: COO.__getstate__/__setstate__` — the state tuple, the unpacking order, what is reset;
* `_coo/numba_extension.py` — the struct members, the dtype of the native `shape` tuple, which Python
  attribute feeds which struct member (unboxing) and which struct member feeds which constructor
  argument (boxing).

Anything whose shape is not one of the recognised ones is REFUSED (no definition is emitted, so
`Props/C14.lean` does not build and the obligation stays undischarged); nothing is guessed.
"""
from __future__ import annotations

import ast
from pathlib import Path

IO = "sparse/numba_backend/_io.py"
CORE = "sparse/numba_backend/_coo/core.py"
NUMBA = "sparse/numba_backend/_coo/numba_extension.py"
OUT = "Npz.lean"
NAMES = ["npzCommon", "npzWrite", "npzNoneAxesAsEmpty", "npzRequire", "npzEmptyAxesAsNone", "npzRejectLeadingData", "npzVerifyCrc",
         "cooGetState", "cooSetState", "cooSetStateReset",
         "cooStruct", "cooShapeDtype", "cooUnbox", "cooBoxArgs", "cooBoxKwargs"]
KNOWN_CLASSES = {"COO", "GCXS"}
ATTRS = {"COO": {"data", "shape", "fill_value", "coords"},
         "GCXS": {"data", "shape", "fill_value", "indices", "indptr", "compressed_axes"}}


class Refuse(Exception):
    pass


def u(n):
    return ast.unparse(n)


def nodoc(body):
    return [s for s in body if not (isinstance(s, ast.Expr) and isinstance(s.value, ast.Constant) and isinstance(s.value.value, str))]


def func(tree, name):
    for n in tree.body:
        if isinstance(n, ast.FunctionDef) and n.name == name:
            return n
    raise Refuse(f"function {name} not found")


def method(tree, cls, name):
    for n in tree.body:
        if isinstance(n, ast.ClassDef) and n.name == cls:
            for m in n.body:
                if isinstance(m, ast.FunctionDef) and m.name == name:
                    return m
    raise Refuse(f"method {cls}.{name} not found")


# ---------------------------------------------------------------------------------------- save_npz

def matrix_attr(node, mat, locals_):
    """`matrix.attr` or a local bound to it -> attr name, else None"""
    if isinstance(node, ast.Attribute) and isinstance(node.value, ast.Name) and node.value.id == mat:
        return node.attr
    if isinstance(node, ast.Name) and node.id in locals_:
        return locals_[node.id]
    return None


def member_value(node, mat, locals_):
    """-> (attr, encoding) with encoding 'asis' | 'noneAsEmpty'"""
    a = matrix_attr(node, mat, locals_)
    if a is not None:
        return a, "asis"
    inner = node
    if (isinstance(node, ast.Call) and u(node.func) in ("np.asarray", "np.array", "np.asanyarray") and len(node.args) == 1
            and all(k.arg == "dtype" for k in node.keywords)):
        inner = node.args[0]
    if isinstance(inner, ast.IfExp):
        t = inner.test
        if (isinstance(t, ast.Compare) and len(t.ops) == 1 and isinstance(t.comparators[0], ast.Constant) and t.comparators[0].value is None):
            a = matrix_attr(t.left, mat, locals_)
            empty, other = (inner.body, inner.orelse) if isinstance(t.ops[0], ast.Is) else (inner.orelse, inner.body) if isinstance(t.ops[0], ast.IsNot) else (None, None)
            if a is not None and empty is not None and u(empty) in ("()", "[]") and matrix_attr(other, mat, locals_) == a:
                return a, "noneAsEmpty"
    raise Refuse(f"save_npz: member value `{u(node)}` is not `matrix.<attr>` nor the recognised None-as-empty encoding")


def type_test(test, mat):
    """-> (class name, exact?)"""
    if (isinstance(test, ast.Compare) and len(test.ops) == 1 and isinstance(test.ops[0], ast.Is)
            and u(test.left) == f"type({mat})" and isinstance(test.comparators[0], ast.Name)):
        return test.comparators[0].id, True
    if (isinstance(test, ast.Call) and u(test.func) == "isinstance" and len(test.args) == 2 and not test.keywords
            and u(test.args[0]) == mat and isinstance(test.args[1], ast.Name)):
        return test.args[1].id, False
    raise Refuse(f"save_npz: type test `{u(test)}` not understood")


def read_save(tree):
    f = func(tree, "save_npz")
    args = [a.arg for a in f.args.args]
    if len(args) != 3 or f.args.vararg or f.args.kwarg or f.args.kwonlyargs:
        raise Refuse("save_npz: signature changed")
    fname, mat, comp = args
    body = nodoc(f.body)
    if len(body) != 3:
        raise Refuse(f"save_npz: expected `nodes = {{...}}`, the type dispatch and the writer call; found {len(body)} statements")
    s0, s1, s2 = body
    if not (isinstance(s0, ast.Assign) and len(s0.targets) == 1 and isinstance(s0.targets[0], ast.Name) and isinstance(s0.value, ast.Dict)):
        raise Refuse("save_npz: first statement is not `nodes = {...}`")
    nodes = s0.targets[0].id
    common = []
    for k, v in zip(s0.value.keys, s0.value.values):
        if not (isinstance(k, ast.Constant) and isinstance(k.value, str)):
            raise Refuse("save_npz: non-literal member name")
        a, enc = member_value(v, mat, {})
        if enc != "asis":
            raise Refuse("save_npz: encoded common member")
        common.append((k.value, a))
    branches, none_as_empty = [], None
    node = s1
    while True:
        if not isinstance(node, ast.If):
            raise Refuse("save_npz: second statement is not the type dispatch")
        cls, exact = type_test(node.test, mat)
        if cls not in KNOWN_CLASSES:
            raise Refuse(f"save_npz: dispatch on unknown class {cls}")
        locals_, members = {}, []
        for st in node.body:
            if not (isinstance(st, ast.Assign) and len(st.targets) == 1):
                raise Refuse(f"save_npz: statement `{u(st)[:50]}` in the {cls} branch")
            tgt = st.targets[0]
            if isinstance(tgt, ast.Name):
                a = matrix_attr(st.value, mat, locals_)
                if a is None:
                    raise Refuse(f"save_npz: local `{u(st)[:50]}` is not an attribute of the matrix")
                locals_[tgt.id] = a
                continue
            if not (isinstance(tgt, ast.Subscript) and u(tgt.value) == nodes and isinstance(tgt.slice, ast.Constant) and isinstance(tgt.slice.value, str)):
                raise Refuse(f"save_npz: assignment target `{u(tgt)}`")
            a, enc = member_value(st.value, mat, locals_)
            if enc == "noneAsEmpty":
                if a != "compressed_axes":
                    raise Refuse("save_npz: None-as-empty encoding on a member other than compressed_axes")
                none_as_empty = True
            elif a == "compressed_axes":
                none_as_empty = False
            if a not in ATTRS[cls]:
                raise Refuse(f"save_npz: attribute {a} in the {cls} branch")
            members.append((tgt.slice.value, a))
        branches.append((cls, exact, members))
        if not node.orelse:
            break
        if len(node.orelse) == 1 and isinstance(node.orelse[0], ast.If):
            node = node.orelse[0]
            continue
        raise Refuse("save_npz: the type dispatch has a final else branch")
    for (k, a) in common:
        if not all(a in ATTRS[c] for c in KNOWN_CLASSES):
            raise Refuse(f"save_npz: common attribute {a}")
    # writer: if compressed: np.savez_compressed(filename, **nodes) else: np.savez(filename, **nodes)
    ok = (isinstance(s2, ast.If) and u(s2.test) == comp and len(s2.body) == 1 and len(s2.orelse) == 1)
    if ok:
        calls = []
        for st in (s2.body[0], s2.orelse[0]):
            if not (isinstance(st, ast.Expr) and isinstance(st.value, ast.Call)):
                ok = False
                break
            c = st.value
            calls.append(u(c.func))
            if not (len(c.args) == 1 and u(c.args[0]) == fname and len(c.keywords) == 1 and c.keywords[0].arg is None and u(c.keywords[0].value) == nodes):
                ok = False
        ok = ok and calls == ["np.savez_compressed", "np.savez"]
    if not ok:
        raise Refuse("save_npz: the writer call is not `np.savez_compressed(filename, **nodes)` / `np.savez(filename, **nodes)`")
    names = [k for k, _ in common]
    for _, _, ms in branches:
        for k, _ in ms:
            if k in names:
                raise Refuse(f"save_npz: member {k} overwritten by a branch")
    if none_as_empty is None:
        raise Refuse("save_npz: compressed_axes is not written by any branch")
    return common, branches, none_as_empty


# ---------------------------------------------------------------------------------------- load_npz

def fp_member(node, fp):
    """`fp["k"]`, `tuple(fp["k"])`, `fp["k"][()]` -> (k, conversion)"""
    conv = "asis"
    if isinstance(node, ast.Call) and u(node.func) == "tuple" and len(node.args) == 1 and not node.keywords:
        node, conv = node.args[0], "tuple"
    elif isinstance(node, ast.Subscript) and u(node.slice) == "()":
        node, conv = node.value, "item"
    if (isinstance(node, ast.Subscript) and u(node.value) == fp and isinstance(node.slice, ast.Constant) and isinstance(node.slice.value, str)):
        return node.slice.value, conv
    raise Refuse(f"load_npz: `{u(node)}` is not a member subscript")


CONV = {"shape": "tuple", "fill_value": "item"}


def read_load(tree):
    f = func(tree, "load_npz")
    if [a.arg for a in f.args.args] != ["filename"]:
        raise Refuse("load_npz: signature changed")
    body = nodoc(f.body)
    if not (len(body) == 1 and isinstance(body[0], ast.With) and len(body[0].items) == 1):
        raise Refuse("load_npz: body is not a single `with np.load(filename) as fp:`")
    item = body[0].items[0]
    c = item.context_expr
    if not (isinstance(c, ast.Call) and u(c.func) == "np.load" and len(c.args) == 1 and u(c.args[0]) == "filename"
            and all(k.arg == "allow_pickle" and isinstance(k.value, ast.Constant) and k.value.value is False for k in c.keywords)
            and isinstance(item.optional_vars, ast.Name)):
        raise Refuse(f"load_npz: `{u(c)}` is not `np.load(filename)` (object arrays must stay unloadable)")
    fp = item.optional_vars.id
    tries = list(body[0].body)
    # optional leading guards on the archive itself: `if <test on fp.zip>: raise RuntimeError(...)`, the test a
    # disjunction of "data in front of the archive" (`header_offset`) and "a member fails its checksum" (`testzip()`)
    reject_leading = verify_crc = False
    while (tries and isinstance(tries[0], ast.If) and not tries[0].orelse and len(tries[0].body) == 1 and isinstance(tries[0].body[0], ast.Raise)
            and isinstance(tries[0].body[0].exc, ast.Call) and u(tries[0].body[0].exc.func) == "RuntimeError"):
        t = tries[0].test
        for part in (t.values if isinstance(t, ast.BoolOp) and isinstance(t.op, ast.Or) else [t]):
            txt = u(part)
            if f"{fp}.zip" in txt and "header_offset" in txt and txt.endswith("!= 0"):
                reject_leading = True
            elif txt == f"{fp}.zip.testzip() is not None":
                verify_crc = True
            else:
                raise Refuse(f"load_npz: guard `{txt[:60]}` not understood")
        tries = tries[1:]
    branches, empty_as_none = [], False
    for i, t in enumerate(tries):
        last = i == len(tries) - 1
        if not (isinstance(t, ast.Try) and len(t.handlers) == 1 and not t.orelse and not t.finalbody and u(t.handlers[0].type) == "KeyError"):
            raise Refuse("load_npz: statement is not `try: ... except KeyError`")
        hb = t.handlers[0].body
        if last:
            if not (len(hb) == 1 and isinstance(hb[0], ast.Raise) and isinstance(hb[0].exc, ast.Call) and u(hb[0].exc.func) == "RuntimeError"):
                raise Refuse("load_npz: the last handler does not raise RuntimeError")
        elif not (len(hb) == 1 and isinstance(hb[0], ast.Pass)):
            raise Refuse("load_npz: a non-final KeyError handler does something")
        bound, order = {}, []
        ret = None
        for st in t.body:
            if isinstance(st, ast.Assign) and len(st.targets) == 1 and isinstance(st.targets[0], ast.Name):
                k, conv = fp_member(st.value, fp)
                if conv != CONV.get(k, "asis"):
                    raise Refuse(f"load_npz: member {k} is converted by `{conv}`")
                if k in order:
                    raise Refuse(f"load_npz: member {k} read twice")
                bound[st.targets[0].id] = k
                order.append(k)
            elif (isinstance(st, ast.If) and not st.orelse and len(st.body) == 1 and isinstance(st.body[0], ast.Assign)
                  and isinstance(st.test, ast.Compare) and len(st.test.ops) == 1 and isinstance(st.test.ops[0], ast.Eq)
                  and isinstance(st.test.left, ast.Attribute) and st.test.left.attr == "size" and isinstance(st.test.left.value, ast.Name)
                  and u(st.test.comparators[0]) == "0" and u(st.body[0].targets[0]) == st.test.left.value.id and u(st.body[0].value) == "None"
                  and bound.get(st.test.left.value.id) == "compressed_axes"):
                empty_as_none = True
            elif isinstance(st, ast.Return) and st is t.body[-1]:
                ret = st.value
            else:
                raise Refuse(f"load_npz: statement `{u(st)[:60]}` inside a try block")
        if not isinstance(ret, ast.Call) or not isinstance(ret.func, ast.Name):
            raise Refuse("load_npz: a try block does not end in `return Class(...)`")
        cls = ret.func.id
        kws = {k.arg: k.value for k in ret.keywords}
        if None in kws:
            raise Refuse("load_npz: ** in a constructor call")

        def frm(node, want):
            if not (isinstance(node, ast.Name) and bound.get(node.id) == want):
                raise Refuse(f"load_npz: constructor field {want} receives `{u(node)}`, not the member of that name")

        if cls == "COO":
            if ret.args:
                raise Refuse("load_npz: positional argument to COO")
            need = {"coords", "data", "shape", "fill_value"}
            for k in need:
                if k not in kws:
                    raise Refuse(f"load_npz: COO(...) without {k}=")
                frm(kws[k], k)
            flags = {k: v for k, v in kws.items() if k not in need}
            if set(flags) != {"sorted", "has_duplicates"} or u(flags["sorted"]) != "True" or u(flags["has_duplicates"]) != "False":
                raise Refuse("load_npz: COO(...) is not constructed with exactly sorted=True, has_duplicates=False (the literal-load model does not apply)")
        elif cls == "GCXS":
            if not (len(ret.args) == 1 and isinstance(ret.args[0], ast.Tuple) and len(ret.args[0].elts) == 3):
                raise Refuse("load_npz: GCXS(...) first argument is not a 3-tuple")
            for node, want in zip(ret.args[0].elts, ("data", "indices", "indptr")):
                frm(node, want)
            need = {"shape", "fill_value", "compressed_axes"}
            if set(kws) != need:
                raise Refuse(f"load_npz: GCXS(...) keywords {sorted(kws)}")
            for k in need:
                frm(kws[k], k)
            need = need | {"data", "indices", "indptr"}
        else:
            raise Refuse(f"load_npz: constructs unknown class {cls}")
        if set(order) != need:
            raise Refuse(f"load_npz: {cls} branch reads {order}, constructor needs {sorted(need)}")
        branches.append((cls, order))
    if not branches:
        raise Refuse("load_npz: no try block")
    return branches, empty_as_none, reject_leading, verify_crc


# ---------------------------------------------------------------------------------------- pickle state

def self_attrs(node):
    if not isinstance(node, ast.Tuple):
        raise Refuse(f"`{u(node)}` is not a tuple of self attributes")
    res = []
    for e in node.elts:
        if not (isinstance(e, ast.Attribute) and isinstance(e.value, ast.Name) and e.value.id == "self"):
            raise Refuse(f"`{u(e)}` is not a self attribute")
        res.append(e.attr)
    return res


def read_state(tree):
    g = nodoc(method(tree, "COO", "__getstate__").body)
    if not (len(g) == 1 and isinstance(g[0], ast.Return)):
        raise Refuse("COO.__getstate__ is not a single return")
    get = self_attrs(g[0].value)
    sm = method(tree, "COO", "__setstate__")
    s = nodoc(sm.body)
    state = sm.args.args[1].arg
    if not (s and isinstance(s[0], ast.Assign) and len(s[0].targets) == 1 and u(s[0].value) == state):
        raise Refuse("COO.__setstate__ does not start with the unpacking of `state`")
    st = self_attrs(s[0].targets[0])
    reset = []
    for x in s[1:]:
        if not (isinstance(x, ast.Assign) and len(x.targets) == 1 and isinstance(x.targets[0], ast.Attribute)
                and u(x.targets[0].value) == "self" and u(x.value) == "None"):
            raise Refuse(f"COO.__setstate__: statement `{u(x)[:50]}`")
        reset.append(x.targets[0].attr)
    return get, st, reset


# ---------------------------------------------------------------------------------------- numba boxing

def read_numba(tree):
    # struct members
    cm = method(tree, "COOModel", "__init__")
    members = None
    for st in cm.body:
        if isinstance(st, ast.Assign) and u(st.targets[0]) == "members" and isinstance(st.value, ast.List):
            members = []
            for e in st.value.elts:
                if not (isinstance(e, ast.Tuple) and len(e.elts) == 2 and isinstance(e.elts[0], ast.Constant)
                        and u(e.elts[1]) == f"fe_type.{e.elts[0].value}_type"):
                    raise Refuse(f"COOModel member `{u(e)}`")
                members.append(e.elts[0].value)
    if members is None:
        raise Refuse("COOModel.members not found")
    # shape_type
    sp = nodoc(method(tree, "COOType", "shape_type").body)
    if not (sp and isinstance(sp[-1], ast.Return) and isinstance(sp[-1].value, ast.Call) and u(sp[-1].value.func) == "types.UniTuple"
            and len(sp[-1].value.args) == 2 and u(sp[-1].value.args[1]) == "self.ndim"):
        raise Refuse("COOType.shape_type is not `types.UniTuple(<dtype>, self.ndim)`")
    dt = sp[-1].value.args[0]
    loc = {}
    for st in sp[:-1]:
        if not (isinstance(st, ast.Assign) and len(st.targets) == 1 and isinstance(st.targets[0], ast.Name)):
            raise Refuse("COOType.shape_type: statement")
        loc[st.targets[0].id] = st.value
    if isinstance(dt, ast.Name) and dt.id in loc:
        dt = loc[dt.id]
    if isinstance(dt, ast.Call) and u(dt.func).endswith("from_dtype") and len(dt.args) == 1 and u(dt.args[0]) == "self.coords_dtype":
        shape_dtype = "coords"
    elif u(dt) in ("types.intp", "numba.intp", "types.int64", "numba.int64"):
        shape_dtype = "intp"
    else:
        raise Refuse(f"COOType.shape_type: element type `{u(dt)}`")
    # unboxing: V = _unbox_native_field(typ.F_type, obj, "attr", c) ; coo.F = V.value
    ub = func(tree, "unbox_COO")
    src, unbox = {}, []
    for n in ast.walk(ub):
        if (isinstance(n, ast.Assign) and isinstance(n.value, ast.Call) and u(n.value.func) == "_unbox_native_field"
                and len(n.value.args) == 4 and isinstance(n.value.args[2], ast.Constant)):
            attr = n.value.args[2].value
            if u(n.value.args[0]) != f"typ.{attr}_type":
                raise Refuse(f"unbox_COO: attribute {attr} unboxed as `{u(n.value.args[0])}`")
            src[u(n.targets[0])] = attr
    for n in ast.walk(ub):
        if (isinstance(n, ast.Assign) and isinstance(n.targets[0], ast.Attribute) and u(n.targets[0].value) == "coo"):
            v = n.value
            if not (isinstance(v, ast.Attribute) and v.attr == "value" and u(v.value) in src):
                raise Refuse(f"unbox_COO: `{u(n)}`")
            unbox.append((n.targets[0].attr, src[u(v.value)]))
    if sorted(f for f, _ in unbox) != sorted(members):
        raise Refuse(f"unbox_COO fills {sorted(f for f, _ in unbox)}, struct has {sorted(members)}")
    # boxing: X_obj = c.box(typ.F_type, coo.F); args = tuple_pack([...]); kwargs = dict_pack([("k", obj)]); call(class_obj, args, kwargs)
    bx = func(tree, "box_COO")
    objs, args, kwargs, called = {}, None, None, False
    for n in ast.walk(bx):
        if isinstance(n, ast.Assign) and isinstance(n.value, ast.Call):
            fn = u(n.value.func)
            if fn == "c.box" and len(n.value.args) == 2:
                v = n.value.args[1]
                if not (isinstance(v, ast.Attribute) and u(v.value) == "coo" and u(n.value.args[0]) == f"typ.{v.attr}_type"):
                    raise Refuse(f"box_COO: `{u(n)}`")
                objs[u(n.targets[0])] = v.attr
            elif fn == "c.pyapi.tuple_pack":
                args = [objs.get(u(e)) for e in n.value.args[0].elts]
            elif fn == "c.pyapi.dict_pack":
                kwargs = [(e.elts[0].value, objs.get(u(e.elts[1]))) for e in n.value.args[0].elts]
        if isinstance(n, ast.Call) and u(n.func) == "c.pyapi.call" and [u(a) for a in n.args] == ["class_obj", "args", "kwargs"]:
            called = True
    cls_ok = any(isinstance(n, ast.Call) and u(n.func) == "c.pyapi.serialize_object" and u(n.args[0]) == "COO" for n in ast.walk(bx))
    if args is None or kwargs is None or None in args or any(v is None for _, v in kwargs) or not called or not cls_ok:
        raise Refuse("box_COO: the call `COO(*args, **kwargs)` was not recognised")
    return members, shape_dtype, unbox, args, kwargs


# ---------------------------------------------------------------------------------------- emit

def s(x):
    return '"' + x + '"'


def lst(xs):
    return "[" + ", ".join(xs) + "]"


def pairs(ps):
    return lst(f"({s(a)}, {s(b)})" for a, b in ps)


def generate(repo: Path):
    try:
        io_tree = ast.parse((repo / IO).read_text())
        common, write, none_as_empty = read_save(io_tree)
        require, empty_as_none, reject_leading, verify_crc = read_load(io_tree)
        get, st, reset = read_state(ast.parse((repo / CORE).read_text()))
        members, shape_dtype, unbox, bargs, bkwargs = read_numba(ast.parse((repo / NUMBA).read_text()))
    except (Refuse, OSError, SyntaxError, AttributeError, IndexError) as e:
        msg = str(e) or type(e).__name__
        return {OUT: (f"/- GENERATED by tools/tables.d/C14.py — REFUSED: {msg} -/\n", [], [f"{n}: {msg}" for n in ("npzWrite", "npzRequire")])}
    b = lambda v: "true" if v else "false"  # noqa: E731
    txt = f"""/- GENERATED by tools/py2lean.py (tools/tables.d/C14.py) from {IO}, {CORE}, {NUMBA} — do not edit. -/
import SparseV.Model.Basic
namespace SparseV.Gen

/-- `save_npz`: members written for every matrix, as (member, attribute of the matrix) -/
def npzCommon : List (String × String) := {pairs(common)}

/-- `save_npz`: the type dispatch in order: (class, `true` = `type(matrix) is C` / `false` = `isinstance(matrix, C)`,
members the branch adds as (member, attribute)); a matrix matching no branch gets the common members only -/
def npzWrite : List (String × Bool × List (String × String)) :=
  {lst(f"({s(c)}, {b(e)}, {pairs(ms)})" for c, e, ms in write)}

/-- `save_npz`: `true` iff `compressed_axes = None` is stored as an empty array; `false` = stored as given
(`np.savez` turns `None` into a 0-d object array) -/
def npzNoneAxesAsEmpty : Bool := {b(none_as_empty)}

/-- `load_npz`: the `try … except KeyError` blocks in order: (class constructed, members subscripted, in order).
`np.load` is called without `allow_pickle`; COO is constructed with `sorted=True, has_duplicates=False`;
every constructor field receives the member of its own name. -/
def npzRequire : List (String × List String) :=
  {lst(f"({s(c)}, {lst(map(s, ms))})" for c, ms in require)}

/-- `load_npz`: `true` iff an empty `compressed_axes` member is turned into `None` before construction -/
def npzEmptyAxesAsNone : Bool := {b(empty_as_none)}

/-- `load_npz`: `true` iff an archive with data in front of it (`header_offset ≠ 0`) is rejected before any member is read -/
def npzRejectLeadingData : Bool := {b(reject_leading)}

/-- `load_npz`: `true` iff the checksum of every member is verified (`zip.testzip()`) before any member is read -/
def npzVerifyCrc : Bool := {b(verify_crc)}

/-- `COO.__getstate__`: the state tuple (attribute names) -/
def cooGetState : List String := {lst(map(s, get))}
/-- `COO.__setstate__`: the attributes the state tuple is unpacked into, in order -/
def cooSetState : List String := {lst(map(s, st))}
/-- `COO.__setstate__`: attributes reset to `None` afterwards -/
def cooSetStateReset : List String := {lst(map(s, reset))}

/-- numba `COOModel`: struct members in order -/
def cooStruct : List String := {lst(map(s, members))}
/-- numba `COOType.shape_type`: element type of the native shape tuple: "coords" (the coords dtype) or "intp" -/
def cooShapeDtype : String := {s(shape_dtype)}
/-- `unbox_COO`: (struct member, Python attribute it is read from) -/
def cooUnbox : List (String × String) := {pairs(unbox)}
/-- `box_COO`: struct members passed positionally to `COO(...)` -/
def cooBoxArgs : List String := {lst(map(s, bargs))}
/-- `box_COO`: (keyword, struct member) passed to `COO(...)` -/
def cooBoxKwargs : List (String × String) := {pairs(bkwargs)}

end SparseV.Gen
"""
    return {OUT: (txt, list(NAMES), [])}

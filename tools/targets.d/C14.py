"""C14 — fragment descriptors (tie T1) for the constructor validation `load_npz` reaches.

`load_npz` hands the members of the file to `COO(...)` (with `sorted=True, has_duplicates=False`: no normalisation pass runs)
or to `GCXS((data, indices, indptr), shape=…, compressed_axes=…)`.  What decides whether a member set is accepted are the
consistency checks of the two constructors; they are translated from the source on every run:

Gen.gcxsCtorChecks : `GCXS.__init__`, the statements from `if self.data.ndim != 1` up to (excluding) `self.shape = shape`:
                     data 1-d; every extent a non-negative integer; len(data) == len(indices) for ndim >= 1; for ndim >= 2
                     len(indptr) == (product of the compressed extents) + 1, indptr[0] == 0, indptr[-1] == len(indices),
                     indptr non-decreasing; and, when there are stored indices and ndim >= 1: indices 1-d and every index in
                     [0, n_uncompressed) with n_uncompressed = shape[0] (ndim == 1) or the product of the uncompressed
                     extents (ndim >= 2).
                     Integer parameters (`bind`): the lengths, ndim, shape[0], indptr[0], indptr[-1], np.ndim(indices),
                     np.min(indices), np.max(indices).  Parameters standing for whole expressions (`consts`; a change of
                     the expression makes the translator refuse), with the meaning the model gives them (Model/Npz.lean):
                       rows         = reduce(operator.mul, (int(shape[a]) for a in compressed_axes), 1)      Npz.rowsOf
                       cols         = reduce(operator.mul, (int(sh) for a, sh in enumerate(shape)
                                                            if a not in compressed_axes), 1)                 Npz.colsOf
                       ptrDecreases = np.any(self.indptr[1:] < self.indptr[:-1])   some entry is smaller than
                                      its predecessor                                                        Npz.ptrDecreases
                       shapeOk      = all(<element> for sh in shape), whatever the element is: it is translated
                                      separately as Gen.gcxsShapeEltOk                                       s.all gcxsShapeEltOk
                       imin / imax  = np.min / np.max of a non-empty integer array                           Npz.listMin / listMax
                     Iterating `compressed_axes = None` (TypeError) is not an integer matter: the model (`gcxsChecks`)
                     runs `Gen.gcxsCtorChecksHead` and then raises it.
Gen.gcxsCtorChecksHead : the run of `if …: raise` guards that begins at `if self.data.ndim != 1` (it ends where the first
                     local is computed): what runs before the products over the compressed axes are formed.
Gen.gcxsShapeEltOk : the element of that `all(...)`: `isinstance(sh, Integral) and int(sh) >= 0` (members of an integer
                     array are Integral).
Gen.cooCtorChecks  : `COO.__init__`, from `if self.coords.ndim != 2` up to the `WARN_ON_TOO_DENSE` import: coords 2-d,
                     len(data) == coords.shape[1], len(shape) == coords.shape[0] — for every shape, `()` included.
Gen.shapeEltOk     : `SparseArray.__init__` (reached through `super().__init__`): the element of its `all(...)` over the shape.
                     (`within="all"`: the comprehension translated is the one that is the sole argument of `all(...)`; the same
                     function also has `tuple(int(sh) for sh in shape)`.)
"""
INT, BOOL = "Int", "Bool"

# `...`: whatever the element is — it is translated on its own (Gen.gcxsShapeEltOk, the `within="all"` descriptor above), and the
# model reads shapeOk as "every extent satisfies Gen.gcxsShapeEltOk"
ALL_SHAPE = "all((... for sh in shape))"
ANY_SHAPE = "any((... for sh in shape))"  # the dual spelling of the same guard (`if any(not ok …): raise`), see gen_elt
ROWS = "reduce(operator.mul, (int(shape[a]) for a in compressed_axes), 1)"
COLS = "reduce(operator.mul, (int(sh) for a, sh in enumerate(shape) if a not in compressed_axes), 1)"
PTR_DECREASES = "np.any(self.indptr[1:] < self.indptr[:-1])"

FILES = {
    "Compressed": {
        "file": "sparse/numba_backend/_compressed/compressed.py",
        "targets": [
            dict(name="gcxsShapeEltOk", kind="elt", func="GCXS.__init__", within="all", iter="shape", target="sh",
                 consts={"isinstance(sh, Integral)": "True"},
                 params=[("sh", INT)], ret="bool",
                 note="one extent of `shape` inside all(...): a non-negative integer"),
            dict(name="gcxsCtorChecksHead", func="GCXS.__init__",
                 select=("guards_from", "if self.data.ndim != 1"),
                 bind={"self.data.ndim": "dataNdim", "len(shape)": "ndim", "len(self.data)": "ndata", "len(self.indices)": "nind"},
                 consts={ALL_SHAPE: "shapeOk", ANY_SHAPE: "not shapeOk"},
                 params=[("dataNdim", INT), ("shapeOk", BOOL), ("ndim", INT), ("ndata", INT), ("nind", INT)], ret="unit",
                 note="the checks that run before the products over compressed_axes are formed"),
            dict(name="gcxsCtorChecks", func="GCXS.__init__",
                 select=("between", "if self.data.ndim != 1", "self.shape = shape"),
                 bind={"self.data.ndim": "dataNdim", "len(shape)": "ndim", "shape[0]": "sh0", "len(self.data)": "ndata",
                       "len(self.indices)": "nind", "len(self.indptr)": "nptr",
                       "self.indptr[0]": "p0", "self.indptr[-1]": "plast",
                       "np.ndim(self.indices)": "indicesNdim", "np.min(self.indices)": "imin", "np.max(self.indices)": "imax"},
                 consts={ALL_SHAPE: "shapeOk", ANY_SHAPE: "not shapeOk", ROWS: "rows", COLS: "cols", PTR_DECREASES: "ptrDecreases"},
                 params=[("dataNdim", INT), ("shapeOk", BOOL), ("ndim", INT), ("sh0", INT), ("ndata", INT), ("nind", INT),
                         ("nptr", INT), ("rows", INT), ("cols", INT), ("p0", INT), ("plast", INT), ("ptrDecreases", BOOL),
                         ("indicesNdim", INT), ("imin", INT), ("imax", INT)], ret="unit",
                 note="consistency checks of (data, indices, indptr) against shape and compressed_axes: lengths, end pointers, contents"),
        ],
    },
    "CooCore": {
        "file": "sparse/numba_backend/_coo/core.py",
        "targets": [
            dict(name="cooCtorChecks", func="COO.__init__",
                 select=("between", "if self.coords.ndim != 2", "from .._settings import"),
                 bind={"self.coords.ndim": "coordsNdim", "len(self.data)": "ndata", "self.coords.shape[1]": "ncols",
                       "len(self.shape)": "ndim", "self.coords.shape[0]": "nrows"},
                 params=[("coordsNdim", INT), ("ndata", INT), ("ncols", INT), ("ndim", INT), ("nrows", INT)], ret="unit",
                 note="consistency checks of coords/data/shape; they run for every shape"),
        ],
    },
    "SparseArray": {
        "file": "sparse/numba_backend/_sparse_array.py",
        "targets": [
            dict(name="shapeEltOk", kind="elt", func="SparseArray.__init__", within="all", iter="shape", target="sh",
                 consts={"isinstance(sh, Integral)": "True"},
                 params=[("sh", INT)], ret="bool",
                 note="one extent of `shape` inside all(...): a non-negative integer"),
        ],
    },
}

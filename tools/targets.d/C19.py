"""C19 — fragment descriptors (tie T1) for `eye` (_common.py) and the sampler selection of `random` (_utils.py).

Gen.eyeLen      : the `M is None` defaulting, the int() casts and the `data_length` arithmetic of `eye`
                  (everything between `if M is None` and `if data_length == 0`), returning data_length.
Gen.eyeCoord    : the second `if k > 0 / elif k < 0 / else` of `eye`, read element-wise: `np.arange(data_length)` at
                  position t is t, `v + k` / `v - k` act per element.  Returns (row, column, 0) of the t-th stored one.
Gen.randomBranch: the if/elif chain of `random` that picks the sampler.  Returns (code, n, N): which sampler and the
                  (sample size, population) it is called with.  Codes (fixed by the `consts` below: the CALL shapes are pinned —
                  another sampler, another argument order or a `reverse` over another population makes the translator refuse —
                  the integer arguments are translated):
                    0 arange(elements)                       1 choice(elements, nnz)
                    2 reverse(choice(elements, elements-nnz)) 3 reverse(algD(nnztemp, elements))
                    4 reverse(algA(nnztemp, elements))        5 algD(nnz, elements)      6 algA(nnz, elements)
                  `density >= 1` is a float test: it enters as the Boolean parameter dge1.
                  `nnz > elements / 2` is translated as `nnz * 2 > elements` (exact on integers below 2**53).
"""
INT, OPT, BOOL = "Int", "Option Int", "Bool"
T3 = "slice3"

FILES = {
    "Common": {
        "file": "sparse/numba_backend/_common.py",
        "targets": [
            dict(name="eyeLen", func="eye", select=("after", "from ._coo import COO", "if _d == 0"),
                 tail="return _d", tail_from="_d == 0",
                 params=[("N", INT), ("M", OPT), ("k", INT)], ret="int",
                 note="number of ones: M defaulting, int casts, data_length arithmetic"),
            dict(name="eyeCoord", func="eye", select=("after", "if _d == 0", "coords = "),
                 tail="return slice(_a, _b, 0)", tail_from="np.stack([_a, _b])",
                 consts={"np.arange(_L, dtype=np.intp)": "t"},  # position t of an arange, whatever its length is called
                 params=[("t", INT), ("k", INT)], ret="slice3",
                 note="coordinates of the t-th one, element-wise reading of the arange arithmetic; third component unused"),
        ],
    },
    "Utils": {
        "file": "sparse/numba_backend/_utils.py",
        "targets": [
            dict(name="randomBranch", func="random", select=("if_else", "nnz == elements or density >= 1", "return ind"),
                 consts={
                     "density >= 1": "dge1",
                     # `_N`, `_n`: pattern variables — the population and the sample size the sampler is handed, whatever
                     # integer expressions they are (translated like any other); `reverse` must be given the same population
                     "np.arange(_N)": "(0, nnz, _N)",
                     "random_state.choice(_N, _n)": "(1, _n, _N)",
                     "reverse(random_state.choice(_N, _n), _N)": "(2, _n, _N)",
                     "reverse(algD(_n, _N, random_state), _N)": "(3, _n, _N)",
                     "reverse(algA(_n, _N, random_state), _N)": "(4, _n, _N)",
                     "algD(_n, _N, random_state)": "(5, _n, _N)",
                     "algA(_n, _N, random_state)": "(6, _n, _N)",
                 },
                 params=[("nnz", INT), ("elements", INT), ("dge1", BOOL)], ret="slice3",
                 note="sampler selection: (code, sample size, population)"),
        ],
    },
}

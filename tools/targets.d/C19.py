"""C19 — fragment descriptors (tie T1) for `eye` (_common.py) and the sampler selection of `random` (_utils.py).

Gen.eyeLen      : the `M is None` defaulting, the int() casts and the `data_length` arithmetic of `eye`
                  (everything between `if M is None` and `if data_length == 0`), returning data_length.
Gen.eyeCoord    : the second `if k > 0 / elif k < 0 / else` of `eye`, read element-wise: `np.arange(data_length)` at
                  position t is t, `v + k` / `v - k` act per element.  Returns (row, column, 0) of the t-th stored one.
Gen.randomBranch: the if/elif chain of `random` that picks the sampler.  Returns (code, n, N): which sampler and the
                  (sample size, population) it is called with.  Codes (fixed by the `consts` below — a change of any
                  call expression makes the translator refuse):
                    0 arange(elements)                       1 choice(elements, nnz)
                    2 reverse(choice(elements, elements-nnz)) 3 reverse(algD(nnztemp, elements))
                    4 reverse(algA(nnztemp, elements))        5 algD(nnz, elements)      6 algA(nnz, elements)
                  `density >= 1` is a float test: it enters as the Boolean parameter dge1.
                  `nnz > elements / 2` is translated as `nnz * 2 > elements` (exact on integers below 2**53).
"""
INT, OPT, BOOL = "Int", "Option Int", "Bool"
T3 = "slice3"

FILES = {
    "Common": {
        "file": "sparse/numba_backend/_common.py",
        "targets": [
            dict(name="eyeLen", func="eye", select=("between", "if M is None", "if data_length == 0"),
                 tail="return data_length",
                 params=[("N", INT), ("M", OPT), ("k", INT)], ret="int",
                 note="number of ones: M defaulting, int casts, data_length arithmetic"),
            dict(name="eyeCoord", func="eye", select=("between", "if k > 0", "coords = ", 1),
                 tail="return slice(n_coords, m_coords, 0)",
                 consts={"np.arange(data_length, dtype=np.intp)": ("t", INT)},
                 params=[("t", INT), ("k", INT)], ret="slice3",
                 note="coordinates of the t-th one, element-wise reading of the arange arithmetic; third component unused"),
        ],
    },
    "Utils": {
        "file": "sparse/numba_backend/_utils.py",
        "targets": [
            dict(name="randomBranch", func="random", select=("if_else", "nnz == elements or density >= 1", "return ind"),
                 consts={
                     "density >= 1": ("(dge1 = true)", "Prop"),
                     "np.arange(elements)": ("((0 : Int), nnz, elements)", T3),
                     "random_state.choice(elements, nnz)": ("((1 : Int), nnz, elements)", T3),
                     "reverse(random_state.choice(elements, elements - nnz), elements)": ("((2 : Int), elements - nnz, elements)", T3),
                     "reverse(algD(nnztemp, elements, random_state), elements)": ("((3 : Int), nnztemp, elements)", T3),
                     "reverse(algA(nnztemp, elements, random_state), elements)": ("((4 : Int), nnztemp, elements)", T3),
                     "algD(nnz, elements, random_state)": ("((5 : Int), nnz, elements)", T3),
                     "algA(nnz, elements, random_state)": ("((6 : Int), nnz, elements)", T3),
                 },
                 params=[("nnz", INT), ("elements", INT), ("dge1", BOOL)], ret="slice3",
                 note="sampler selection: (code, sample size, population)"),
        ],
    },
}

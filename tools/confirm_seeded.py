#!/usr/bin/env python3
"""Confirm a seeded change myself: in a scratch worktree of /repo (under /tmp) the demonstration passes on the
clean tree and fails with the change, and the repository's own test-suite still passes with the change.
Writes seeded/<id>/confirm.json.  usage: tools/confirm_seeded.py <id> [--no-suite]"""
import json, subprocess, sys, shutil, time
from pathlib import Path
ROOT = Path(__file__).resolve().parent.parent
sid = sys.argv[1]
d = ROOT / "seeded" / sid
wt = Path(f"/tmp/mut/confirm_{sid}")
def sh(c, **k): return subprocess.run(c, shell=True, capture_output=True, text=True, **k)
sh(f"git -C /repo worktree remove --force {wt}")
r = sh(f"git -C /repo worktree add --detach {wt} HEAD")
assert r.returncode == 0, r.stderr
res = {"id": sid, "repo_head": sh("git -C /repo rev-parse --short HEAD").stdout.strip()}
try:
    demo = sorted(d.glob("demo*.py"))[0]
    env = f"cd {wt} && PYTHONPATH={wt} NUMBA_CACHE_DIR=/var/tmp/verif-numba-cache"
    r = sh(f"{env} /venv/bin/python {demo}", timeout=1800); res["demo_clean_exit"] = r.returncode
    r = sh(f"git -C {wt} apply {d/'patch.diff'}"); res["patch_applies"] = r.returncode == 0
    r = sh(f"{env} /venv/bin/python {demo}", timeout=1800); res["demo_changed_exit"] = r.returncode; res["demo_changed_tail"] = (r.stdout + r.stderr)[-400:]
    if "--no-suite" not in sys.argv:
        t0 = time.time()
        r = sh(f"{env} /venv/bin/python -m pytest -q -p no:cacheprovider --timeout=900 -n 4 -x 2>&1 | tail -3", timeout=3600)
        res["suite_tail"] = r.stdout.strip().splitlines()[-1:] ; res["suite_s"] = round(time.time() - t0)
        res["suite_passed"] = (" failed" not in r.stdout) and (" passed" in r.stdout) and ("error" not in r.stdout.lower())
finally:
    sh(f"git -C /repo worktree remove --force {wt}"); shutil.rmtree(wt, ignore_errors=True)
res["confirmed"] = res.get("demo_clean_exit") == 0 and res.get("demo_changed_exit") not in (0, None) and res.get("suite_passed", True)
(d / "confirm.json").write_text(json.dumps(res, indent=1))
print(json.dumps(res, indent=1))

#!/usr/bin/env python3
"""py2lean — tie T1: regenerate Lean definitions from pydata/sparse's *current* source.

Two kinds of output, all under lean/SparseV/Generated/:

* Function fragments (integer-only code: slice normalisation, axis normalisation, the broadcasting
  rule, DOK's slice bounds, `eye`'s length arithmetic, ...).  A fragment descriptor (TARGETS below)
  names the function, selects the branch, and maps Python expressions to Lean parameters.
  Statements are translated by continuation duplication (`if` copies the rest of the block into
  both branches), `x is None` tests become `match`, `raise X` becomes `.error <class of X>`.
  Anything outside the subset makes the translator REFUSE that target (listed in "refused");
  it never guesses and never emits a partial definition.
* Tables read off the source (dispatch wrappers, fill-value guards, npz members, constructor
  promise sites, in-place sites).  See tools/py2lean_tables.py.

Prints one JSON line: {"functions": [...], "refused": [...], "changed": [...]}.
"""
from __future__ import annotations

import argparse
import ast
import json
import sys
from pathlib import Path

sys.path.insert(0, str(Path(__file__).resolve().parent))


class Refuse(Exception):
    pass


ERRCLASS = {
    "ValueError": "value", "IndexError": "index", "TypeError": "type", "RuntimeError": "runtime",
    "NotImplementedError": "notImplemented", "OverflowError": "overflow", "AssertionError": "internal",
}

INT, OPT, BOOL, NONE = "Int", "Option Int", "Bool", "None"


class Tr:
    """translator for one fragment"""

    def __init__(self, desc, src_func):
        self.d = desc
        self.bind = desc.get("bind", {})  # python expression text -> lean param name
        self.consts = desc.get("consts", {})  # python expression text -> lean literal text (with type)
        self.ret_kind = desc["ret"]  # 'int' | 'slice3' | 'unit' | 'self'
        self.raises = any(isinstance(n, ast.Raise) for n in ast.walk(ast.Module(body=src_func, type_ignores=[])))

    # ---------------------------------------------------------------- expressions
    def key(self, node):
        return ast.unparse(node)

    def expr(self, node, env):
        """returns (lean text, type)"""
        k = self.key(node)
        if k in self.consts:
            return self.consts[k]
        if k in self.bind:
            name = self.bind[k]
            if name not in env:
                raise Refuse(f"bound name {name} not in scope")
            return name, env[name]
        if isinstance(node, ast.Constant):
            if node.value is None:
                return "none", NONE
            if isinstance(node.value, bool):
                return ("true" if node.value else "false"), BOOL
            if isinstance(node.value, int):
                return (f"({node.value} : Int)" if node.value >= 0 else f"(-{-node.value} : Int)"), INT
            if isinstance(node.value, str):
                return '""', "Str"
            raise Refuse(f"constant {node.value!r}")
        if isinstance(node, ast.Name):
            if node.id not in env:
                raise Refuse(f"unknown name {node.id}")
            t = env[node.id]
            if t == NONE:
                return "none", NONE
            return self.lname(node.id), t
        if isinstance(node, ast.UnaryOp):
            if isinstance(node.op, ast.USub):
                a, t = self.expr(node.operand, env)
                self.need(t, INT, node)
                return f"(-{a})", INT
            if isinstance(node.op, ast.Not):
                return f"(¬ {self.cond(node.operand, env)})", "Prop"
            raise Refuse(f"unary {ast.dump(node.op)}")
        if isinstance(node, ast.BinOp):
            a, ta = self.expr(node.left, env)
            b, tb = self.expr(node.right, env)
            self.need(ta, INT, node.left)
            self.need(tb, INT, node.right)
            op = {ast.Add: "+", ast.Sub: "-", ast.Mult: "*"}.get(type(node.op))
            if op:
                return f"({a} {op} {b})", INT
            if isinstance(node.op, ast.FloorDiv):
                return f"(Int.fdiv {a} {b})", INT
            if isinstance(node.op, ast.Mod):
                return f"(Int.fmod {a} {b})", INT
            raise Refuse(f"binop {ast.dump(node.op)}")
        if isinstance(node, ast.IfExp):
            # `a if v is not None else b` with flow typing
            return self.ifexp(node, env)
        if isinstance(node, ast.BoolOp) and isinstance(node.op, ast.Or) and len(node.values) == 2:
            # value-`or` on a possibly-None int: Python truthiness (None and 0 are falsy)
            a, ta = self.expr(node.values[0], env)
            if ta in (OPT, INT, NONE):
                b, tb = self.expr(node.values[1], env)
                self.need(tb, INT, node.values[1])
                if ta == NONE:
                    return b, INT
                if ta == INT:
                    return f"(if {a} = 0 then {b} else {a})", INT
                return f"(match {a} with | none => {b} | some v_ => if v_ = 0 then {b} else v_)", INT
        if isinstance(node, ast.Call):
            fn = self.key(node.func)
            if fn in ("builtins.max", "builtins.min"):  # `import builtins` spelling of the same functions
                fn = fn.split(".")[1]
            if fn in ("max", "min") and len(node.args) == 2 and not node.keywords:
                a, ta = self.expr(node.args[0], env)
                b, tb = self.expr(node.args[1], env)
                self.need(ta, INT, node)
                self.need(tb, INT, node)
                return f"({fn} {a} {b})", INT
            if fn == "int" and len(node.args) == 1:
                return self.expr(node.args[0], env)
            if fn == "abs" and len(node.args) == 1:
                a, ta = self.expr(node.args[0], env)
                self.need(ta, INT, node)
                return f"(({a}).natAbs : Int)", INT
            if fn == "slice" and len(node.args) == 3:
                parts = [self.expr(a, env) for a in node.args]
                for (_, t), a in zip(parts, node.args):
                    self.need(t, INT, a)
                return "(" + ", ".join(p for p, _ in parts) + ")", "slice3"
            raise Refuse(f"call {fn}")
        if isinstance(node, ast.Compare | ast.BoolOp):
            return self.cond(node, env), "Prop"
        raise Refuse(f"expression {k}")

    def ifexp(self, node, env):
        t = node.test
        isn = self.is_none_test(t, env)
        if isn:
            var, positive = isn  # positive: `var is None`
            vt = env[var]
            none_e, some_e = (node.body, node.orelse) if positive else (node.orelse, node.body)
            if vt == INT:
                return self.expr(some_e, env)
            if vt == NONE:
                return self.expr(none_e, env)
            e_none = dict(env); e_none[var] = NONE
            e_some = dict(env); e_some[var] = INT
            a, ta = self.expr(none_e, e_none)
            b, tb = self.expr(some_e, e_some)
            if ta != tb:
                raise Refuse("ifexp branches differ in type")
            ln = self.lname(var)
            return f"(match {ln} with | none => {a} | some {ln} => {b})", ta
        c = self.cond(t, env)
        a, ta = self.expr(node.body, env)
        b, tb = self.expr(node.orelse, env)
        if (ta, tb) == (INT, NONE):  # `e if c else None`: an optional integer
            return f"(if {c} then some {a} else none)", OPT
        if (ta, tb) == (NONE, INT):
            return f"(if {c} then none else some {b})", OPT
        if ta != tb:
            raise Refuse("ifexp branches differ in type")
        return f"(if {c} then {a} else {b})", ta

    def need(self, t, want, node):
        if t != want:
            raise Refuse(f"{ast.unparse(node)} has type {t}, need {want}")

    def lname(self, n):
        return {"sorted": "sorted_", "end": "end_", "from": "from_", "at": "at_"}.get(n, n)

    def is_none_test(self, t, env):
        """`v is None` / `v is not None` on a variable (possibly through bind) -> (varname, positive)"""
        if isinstance(t, ast.Compare) and len(t.ops) == 1 and isinstance(t.ops[0], ast.Is | ast.IsNot):
            c = t.comparators[0]
            if isinstance(c, ast.Constant) and c.value is None:
                k = self.key(t.left)
                name = self.bind.get(k) or (t.left.id if isinstance(t.left, ast.Name) else None)
                if name is None or name not in env:
                    raise Refuse(f"None-test on {k}")
                return name, isinstance(t.ops[0], ast.Is)
        return None

    def cond(self, node, env):
        """translate a Python truth-valued expression to a decidable Lean Prop"""
        k = self.key(node)
        if k in self.consts:
            txt, t = self.consts[k]
            return txt
        if isinstance(node, ast.BoolOp):
            parts = [self.cond(v, env) for v in node.values]
            op = " ∧ " if isinstance(node.op, ast.And) else " ∨ "
            return "(" + op.join(parts) + ")"
        if isinstance(node, ast.UnaryOp) and isinstance(node.op, ast.Not):
            return f"(¬ {self.cond(node.operand, env)})"
        if isinstance(node, ast.Compare):
            isn = self.is_none_test(node, env)
            if isn:
                var, positive = isn
                vt = env[var]
                if vt == NONE:
                    return "True" if positive else "False"
                if vt == INT:
                    return "False" if positive else "True"
                return f"({self.lname(var)} = none)" if positive else f"({self.lname(var)} ≠ none)"
            terms = [node.left, *node.comparators]
            if len(terms) == 2:
                # `a OP b / c` with c a positive int literal (true division): translated as `a * c OP b`,
                # exact over the integers (the float quotient is exact below 2**53)
                l, r = terms
                def _q(x):
                    return (isinstance(x, ast.BinOp) and isinstance(x.op, ast.Div) and isinstance(x.right, ast.Constant)
                            and type(x.right.value) is int and x.right.value > 0)
                if _q(r) and not _q(l):
                    c = ast.Constant(value=r.right.value)
                    terms = [ast.BinOp(left=l, op=ast.Mult(), right=c), r.left]
                elif _q(l) and not _q(r):
                    c = ast.Constant(value=l.right.value)
                    terms = [l.left, ast.BinOp(left=r, op=ast.Mult(), right=c)]
            vals = []
            for t in terms:
                a, ta = self.expr(t, env)
                self.need(ta, INT, t)
                vals.append(a)
            ops = {ast.Lt: "<", ast.LtE: "≤", ast.Gt: ">", ast.GtE: "≥", ast.Eq: "=", ast.NotEq: "≠"}
            parts = []
            for i, op in enumerate(node.ops):
                if type(op) not in ops:
                    raise Refuse(f"comparison {ast.dump(op)}")
                parts.append(f"{vals[i]} {ops[type(op)]} {vals[i + 1]}")
            return "(" + " ∧ ".join(parts) + ")"
        if isinstance(node, ast.Name) and env.get(node.id) == BOOL:
            return f"({self.lname(node.id)} = true)"
        if isinstance(node, ast.Constant) and isinstance(node.value, bool):
            return "True" if node.value else "False"
        if isinstance(node, ast.Call | ast.Name | ast.Subscript | ast.Attribute | ast.BinOp):
            # an integer used as a truth value (`if len(x):`): Python truthiness of int is `!= 0`
            a, t = self.expr(node, env)
            if t == INT:
                return f"({a} ≠ (0 : Int))"
        raise Refuse(f"condition {k}")

    # ---------------------------------------------------------------- statements
    def wrap(self, txt):
        return f"(.ok {txt})" if self.raises else txt

    def block(self, stmts, env, ind):
        """translate a statement list to a Lean term of the function's return type"""
        pad = "  " * ind
        if not stmts:
            if self.ret_kind == "unit":
                return pad + self.wrap("()")
            raise Refuse("control reaches the end of the fragment without a return")
        s, rest = stmts[0], stmts[1:]
        if isinstance(s, ast.Expr) and isinstance(s.value, ast.Constant):
            return self.block(rest, env, ind)  # docstring
        if isinstance(s, ast.Pass):
            return self.block(rest, env, ind)
        if isinstance(s, ast.Return):
            if s.value is None:
                if self.ret_kind != "unit":
                    raise Refuse("bare return")
                return pad + self.wrap("()")
            a, t = self.expr(s.value, env)
            want = {"int": INT, "slice3": "slice3", "bool": "Prop"}.get(self.ret_kind)
            if self.ret_kind == "bool" and t == "Prop":
                a = f"(decide {a})"
            elif self.ret_kind == "slice3_from" and isinstance(s.value, ast.Name):
                pass
            elif want is None or t != want:
                raise Refuse(f"return {ast.unparse(s.value)} : {t}, fragment returns {self.ret_kind}")
            return pad + self.wrap(a)
        if isinstance(s, ast.Raise):
            exc = s.exc
            name = None
            if isinstance(exc, ast.Call):
                name = self.key(exc.func)
            elif isinstance(exc, ast.Name):
                name = exc.id
            if name not in ERRCLASS:
                raise Refuse(f"raise {name}")
            return pad + f"(.error Err.{ERRCLASS[name]})"
        if isinstance(s, ast.Assign):
            if len(s.targets) > 1 and all(isinstance(t, ast.Name) for t in s.targets):
                # a = b = e  (plain names): evaluate once, bind each name
                first = ast.Assign(targets=[s.targets[0]], value=s.value)
                more = [ast.Assign(targets=[t], value=ast.Name(id=s.targets[0].id, ctx=ast.Load())) for t in s.targets[1:]]
                return self.block([first, *more, *rest], env, ind)
            if len(s.targets) != 1:
                raise Refuse("multiple assignment targets")
            tgt = s.targets[0]
            if isinstance(tgt, ast.Tuple) and isinstance(s.value, ast.Tuple) and len(tgt.elts) == len(s.value.elts):
                # simultaneous assignment of independent values: a, b = e1, e2
                vals = [self.expr(v, env) for v in s.value.elts]
                env2 = dict(env)
                lines = []
                for i, ((a, t), nm) in enumerate(zip(vals, tgt.elts)):
                    if not isinstance(nm, ast.Name):
                        raise Refuse("tuple target")
                    lines.append(f"{pad}let t{i}_ := {a}")
                for i, ((a, t), nm) in enumerate(zip(vals, tgt.elts)):
                    lines.append(f"{pad}let {self.lname(nm.id)} := t{i}_")
                    env2[nm.id] = t
                return "\n".join(lines) + "\n" + self.block(rest, env2, ind)
            if not isinstance(tgt, ast.Name):
                raise Refuse(f"assignment target {ast.unparse(tgt)}")
            a, t = self.expr(s.value, env)
            env2 = dict(env)
            if t == "Prop":
                a, t = f"(decide {a})", BOOL
            env2[tgt.id] = t
            if t in (NONE, "Str"):
                return self.block(rest, env2, ind)
            lt = "Int × Int × Int" if t == "slice3" else t
            return f"{pad}let {self.lname(tgt.id)} : {lt} := {a}\n" + self.block(rest, env2, ind)
        if isinstance(s, ast.AugAssign):
            if not isinstance(s.target, ast.Name):
                raise Refuse("augassign target")
            node = ast.BinOp(left=ast.Name(id=s.target.id, ctx=ast.Load()), op=s.op, right=s.value)
            return self.block([ast.Assign(targets=[s.target], value=node), *rest], env, ind)
        if isinstance(s, ast.If):
            if (isinstance(s.test, ast.BoolOp) and isinstance(s.test.op, ast.And) and len(s.test.values) >= 2
                    and self.is_none_test(s.test.values[0], env)):
                # `if v is [not] None and B: body else: orelse`  ==  `if v is [not] None: (if B: body else: orelse) else: orelse`
                vals = s.test.values
                inner_test = vals[1] if len(vals) == 2 else ast.BoolOp(op=ast.And(), values=vals[1:])
                inner = ast.If(test=inner_test, body=s.body, orelse=s.orelse)
                s = ast.If(test=vals[0], body=[inner], orelse=s.orelse)
            isn = self.is_none_test(s.test, env)
            if isn:
                var, positive = isn
                vt = env[var]
                none_b, some_b = (s.body, s.orelse) if positive else (s.orelse, s.body)
                if vt == INT:
                    return self.block([*some_b, *rest], env, ind)
                if vt == NONE:
                    return self.block([*none_b, *rest], env, ind)
                e_none = dict(env); e_none[var] = NONE
                e_some = dict(env); e_some[var] = INT
                ln = self.lname(var)
                return (f"{pad}match {ln} with\n{pad}| none =>\n" + self.block([*none_b, *rest], e_none, ind + 2)
                        + f"\n{pad}| some {ln} =>\n" + self.block([*some_b, *rest], e_some, ind + 2))
            c = self.cond(s.test, env)
            return (f"{pad}if {c} then\n" + self.block([*s.body, *rest], env, ind + 1)
                    + f"\n{pad}else\n" + self.block([*s.orelse, *rest], env, ind + 1))
        raise Refuse(f"statement {type(s).__name__}: {ast.unparse(s)[:60]}")


def find_func(tree, qual):
    parts = qual.split(".")
    body = tree.body
    node = None
    for p in parts:
        node = next((n for n in body if isinstance(n, ast.FunctionDef | ast.ClassDef) and n.name == p), None)
        if node is None:
            raise Refuse(f"function {qual} not found")
        body = node.body
    return node


def select(func, sel):
    """pick the statement list of a fragment"""
    body = [s for s in func.body if not (isinstance(s, ast.Expr) and isinstance(s.value, ast.Constant))]
    if sel is None:
        return body
    kind = sel[0]
    if kind == "after_guard":
        # drop a leading `if <guard>: return <x>`
        g = body[0]
        if not (isinstance(g, ast.If) and ast.unparse(g.test) == sel[1] and not g.orelse and len(g.body) == 1 and isinstance(g.body[0], ast.Return)):
            raise Refuse(f"guard `{sel[1]}` not found at the top of {func.name}")
        return body[1:]
    if kind == "if_body":
        # body of the (top-level or elif-chained) `if <test>:` anywhere in the function
        for n in ast.walk(func):
            if isinstance(n, ast.If) and ast.unparse(n.test) == sel[1]:
                return n.body
        raise Refuse(f"branch `{sel[1]}` not found in {func.name}")
    if kind == "if_else":
        # the whole if/else statement whose test is given (kept as one statement) + optional trailing statements
        for n in ast.walk(func):
            if isinstance(n, ast.If) and ast.unparse(n.test) == sel[1]:
                tail = [ast.parse(sel[2]).body[0]] if len(sel) > 2 else []
                return [n, *tail]
        raise Refuse(f"statement `if {sel[1]}` not found in {func.name}")
    if kind == "elif_chain_from":
        # the if/elif chain starting at the `elif <test>` (used for check_index's integer branch)
        for n in ast.walk(func):
            if isinstance(n, ast.If) and ast.unparse(n.test) == sel[1]:
                return [n]
        raise Refuse(f"branch `{sel[1]}` not found in {func.name}")
    if kind == "between":
        # top-level statements from the n-th one whose text starts with sel[1] up to (excluding) the next one
        # whose text starts with sel[2]
        nth = sel[3] if len(sel) > 3 else 0
        starts = [i for i, n in enumerate(body) if ast.unparse(n).startswith(sel[1])]
        if len(starts) <= nth:
            raise Refuse(f"statement `{sel[1]}` (occurrence {nth}) not found in {func.name}")
        i0 = starts[nth]
        for i1 in range(i0 + 1, len(body)):
            if ast.unparse(body[i1]).startswith(sel[2]):
                return body[i0:i1]
        raise Refuse(f"statement `{sel[2]}` not found after `{sel[1]}` in {func.name}")
    raise Refuse(f"selector {sel}")


def gen_elt(desc, tree):
    """comprehension element: check the iteration structure literally, translate the element"""
    func = find_func(tree, desc["func"])
    # optional `within`: the comprehension must be the sole argument of a call to that function (e.g. "all")
    within = desc.get("within")
    sole_args = {id(c.args[0]) for c in ast.walk(func)
                 if isinstance(c, ast.Call) and len(c.args) == 1 and not c.keywords and ast.unparse(c.func) == within}
    for n in ast.walk(func):
        if isinstance(n, ast.GeneratorExp | ast.ListComp) and len(n.generators) == 1:
            if within is not None and id(n) not in sole_args:
                continue
            g = n.generators[0]
            if ast.unparse(g.iter) == desc["iter"] and ast.unparse(g.target) == desc["target"] and not g.ifs:
                # the context the comprehension sits in must be the expected one
                tr = Tr({"bind": {}, "consts": desc.get("consts", {}), "ret": desc["ret"]}, [])
                env = dict(desc["params"])
                a, t = tr.expr(n.elt, env)
                if desc["ret"] == "bool":
                    if t != "Prop":
                        raise Refuse("element is not a condition")
                    a, rt = f"decide {a}", "Bool"
                else:
                    tr.need(t, INT, n.elt)
                    rt = "Int"
                ps = " ".join(f"({tr.lname(k)} : {v})" for k, v in desc["params"])
                return f"def {desc['name']} {ps} : {rt} :=\n  {a}\n"
    raise Refuse(f"comprehension over `{desc['iter']}` not found in {desc['func']}")


def gen_fragment(desc, tree):
    func = find_func(tree, desc["func"])
    stmts = select(func, desc.get("select"))
    if "take" in desc:
        stmts = stmts[: desc["take"]]
    if "tail" in desc:
        stmts = [*stmts, *ast.parse(desc["tail"]).body]
    tr = Tr(desc, stmts)
    env = dict(desc["params"])
    body = tr.block(stmts, env, 1)
    rt = {"int": "Int", "slice3": "Int × Int × Int", "unit": "Unit", "bool": "Bool"}[desc["ret"]]
    if tr.raises:
        rt = f"Except Err ({rt})" if "×" in rt else f"Except Err {rt}"
    ps = " ".join(f"({tr.lname(k)} : {v})" for k, v in desc["params"])
    return f"def {desc['name']} {ps} : {rt} :=\n{body}\n"


def main():
    ap = argparse.ArgumentParser()
    ap.add_argument("--repo", default="/repo")
    ap.add_argument("--out", required=True)
    ap.add_argument("--ref", action="store_true", help="also refresh Generated.ref (done by hand, never by a check)")
    args = ap.parse_args()
    from py2lean_targets import FILES
    import py2lean_tables

    repo, out = Path(args.repo), Path(args.out)
    out.mkdir(parents=True, exist_ok=True)
    functions, refused, changed = [], [], []
    texts = {}
    for modname, spec in FILES.items():
        chunks = [f"/- GENERATED by tools/py2lean.py from {spec['file']} — do not edit. -/\nimport SparseV.Model.Basic\nnamespace SparseV.Gen\n"]
        try:
            tree = ast.parse((repo / spec["file"]).read_text())
        except Exception as e:  # unreadable source
            refused.append(f"{modname}: {e}")
            tree = None
        for desc in spec["targets"]:
            try:
                if tree is None:
                    raise Refuse("source unreadable")
                txt = gen_elt(desc, tree) if desc.get("kind") == "elt" else gen_fragment(desc, tree)
                chunks.append(f"/-- from `{desc['func']}` ({desc.get('note', 'fragment')}) -/\n" + txt)
                functions.append(desc["name"])
            except Refuse as e:
                refused.append(f"{desc['name']}: {e}")
                # emit nothing for this target: dependants will fail to build, which is the point
        chunks.append("end SparseV.Gen\n")
        texts[f"{modname}.lean"] = "\n".join(chunks)
    for fname, (txt, names, ref) in py2lean_tables.generate(repo).items():
        texts[fname] = txt
        functions += names
        refused += ref
    for fname, txt in texts.items():
        p = out / fname
        if not p.exists() or p.read_text() != txt:
            tmp = p.with_suffix(".tmp")
            tmp.write_text(txt)
            tmp.replace(p)
            changed.append(fname)
    print(json.dumps({"functions": functions, "refused": refused, "changed": changed}))
    return 0


if __name__ == "__main__":
    sys.exit(main())

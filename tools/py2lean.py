#!/usr/bin/env python3
"""py2lean — tie T1: regenerate Lean definitions from pydata/sparse's *current* source.

Two kinds of output, all under lean/SparseV/Generated/:

* Function fragments (integer-only code: slice normalisation, axis normalisation, the broadcasting
  rule, DOK's slice bounds, `eye`'s length arithmetic, ...).  A fragment descriptor (tools/py2lean_targets.py,
  tools/targets.d/*.py) names the function, selects the branch, and maps Python expressions to Lean parameters.
  Anything outside the subset makes the translator REFUSE that target (listed in "refused");
  it never guesses and never emits a partial definition.
* Tables read off the source (dispatch wrappers, fill-value guards, npz members, constructor
  promise sites, in-place sites).  See tools/py2lean_tables.py.

How a fragment is translated (three steps, all of them meaning-preserving on the subset):

1. TRANSLATE to a small term language.  Statements by continuation duplication (`if` copies the rest of the
   block into both arms); local assignments are SUBSTITUTED (no `let` survives, so the names of locals, the order of
   independent assignments and the presence of temporaries leave no trace); `x is None` on a possibly-None value splits on
   the parameter it comes from (flow typing); `raise X` becomes `.error <class of X>`; truthiness of ints as Python
   evaluates it (`0` is falsy).
2. NORMALISE.  Conditional expressions are lifted out of arithmetic, tuples and comparisons; every test is decomposed
   into ATOMS in one fixed polarity — `a < b`, `a = b` (operands ordered), `b = true`, `p is None` — with
   `a <= b` read as `not b < a`, `a != b` as `not a = b`, chained comparisons, `not`, `and`, `or` as the propositional
   structure over those atoms; the definition is then rebuilt as ONE decision tree that tests the atoms in a fixed
   order (parameters that may be None first, in parameter order; then the other atoms in the order of the source test
   they first occur in and, inside one test, by length and text — class Norm), dropping a test whose two arms are equal.
   Operands of `+`, `*`, `min`, `max` are ordered.  The result is a canonical form modulo the propositional structure of
   each test: reordering conjuncts/disjuncts, De Morgan, `if/else` exchanged under the negated test, `elif` against
   nested `if`, a conditional expression against an `if` statement, early return against `else`, flipped comparisons,
   commuted operands — all give the same text, character by character.  What is NOT identified: anything that needs
   arithmetic (`-d - 1` against `-(d + 1)`, `min(a, b)` against an `if a > b` clamp) and the order of independent or
   mutually exclusive tests: those reach the theorems as a different term with the same meaning, and the interface
   lemmas (lean/SparseV/Lemmas/Gen: the only lemmas that unfold `Gen.*`) are proved by case analysis + `omega`, not by
   rewriting a shape.
3. PRINT as nested `if … then … else` / `match … with | none | some`.

Where text is compared with the source (the guard that selects a branch, the expressions a descriptor maps to a
parameter), both sides go through `ckey`: comparison operands mirrored into one orientation, `and`/`or` operands
ordered, `not` pushed through `==`/`is`/`in` and `and`/`or`, comprehension variables renamed positionally.  These are
equivalences of Python itself (for any operand types), so an anchor that still matches still means the same.

Prints one JSON line: {"functions": [...], "refused": [...], "changed": [...]}.
"""
from __future__ import annotations

import argparse
import ast
import copy
import json
import sys
from pathlib import Path

sys.path.insert(0, str(Path(__file__).resolve().parent))


class Refuse(Exception):
    pass


ERRCLASS = {
    "ValueError": "value", "IndexError": "index", "TypeError": "type", "RuntimeError": "runtime",
    "NotImplementedError": "notImplemented", "OverflowError": "overflow", "AssertionError": "internal",
}

INT, OPT, BOOL, NONE, STR, T3, PROP = "Int", "Option Int", "Bool", "None", "Str", "slice3", "Prop"

# ==================================================================================================
# canonical keys for source text (anchors, `bind`, `consts`)
# ==================================================================================================

_MIRROR = {ast.Gt: ast.Lt, ast.GtE: ast.LtE}
_NEGATE_ANY = {ast.Eq: ast.NotEq, ast.NotEq: ast.Eq, ast.Is: ast.IsNot, ast.IsNot: ast.Is, ast.In: ast.NotIn, ast.NotIn: ast.In}
_NEGATE_INT = {ast.Lt: ast.GtE, ast.GtE: ast.Lt, ast.Gt: ast.LtE, ast.LtE: ast.Gt}


class _Canon(ast.NodeTransformer):
    """equivalences of Python itself; with ints=True also `not a < b` == `a >= b` (used to LOCATE integer tests only)"""

    def __init__(self, ints=False):
        self.ints = ints
        self.n = 0

    def _comp(self, node):
        ren = {}
        for g in node.generators:
            for t in ast.walk(g.target):
                if isinstance(t, ast.Name) and t.id not in ren:
                    ren[t.id] = f"_c{self.n}"
                    self.n += 1
        if ren:
            class R(ast.NodeTransformer):
                def visit_Name(s, n):
                    return ast.copy_location(ast.Name(id=ren.get(n.id, n.id), ctx=n.ctx), n)
            node = R().visit(node)
        return self.generic_visit(node)

    visit_GeneratorExp = visit_ListComp = visit_SetComp = _comp

    def neg(self, node):
        """canonical form of `not node`"""
        if isinstance(node, ast.UnaryOp) and isinstance(node.op, ast.Not):
            return self.visit(node.operand)
        if isinstance(node, ast.BoolOp):
            op = ast.Or() if isinstance(node.op, ast.And) else ast.And()
            return self.visit(ast.BoolOp(op=op, values=[ast.UnaryOp(op=ast.Not(), operand=v) for v in node.values]))
        if isinstance(node, ast.Compare) and len(node.ops) == 1:
            t = type(node.ops[0])
            flip = _NEGATE_ANY.get(t) or (_NEGATE_INT.get(t) if self.ints else None)
            if flip:
                return self.visit(ast.Compare(left=node.left, ops=[flip()], comparators=node.comparators))
        return ast.UnaryOp(op=ast.Not(), operand=self.visit(node))

    def visit_UnaryOp(self, node):
        if isinstance(node.op, ast.Not):
            return self.neg(node.operand)
        return self.generic_visit(node)

    def visit_BoolOp(self, node):
        vals = []
        for v in node.values:
            v = self.visit(v)
            if isinstance(v, ast.BoolOp) and type(v.op) is type(node.op):
                vals += v.values
            else:
                vals.append(v)
        vals = sorted({ast.unparse(v): v for v in vals}.items())
        if len(vals) == 1:
            return vals[0][1]
        return ast.BoolOp(op=node.op, values=[v for _, v in vals])

    def visit_Compare(self, node):
        node = self.generic_visit(node)
        if len(node.ops) > 1:
            parts, left = [], node.left
            for op, right in zip(node.ops, node.comparators):
                parts.append(ast.Compare(left=left, ops=[op], comparators=[right]))
                left = right
            return self.visit(ast.BoolOp(op=ast.And(), values=parts))
        op, l, r = node.ops[0], node.left, node.comparators[0]
        if type(op) in _MIRROR:
            return ast.Compare(left=r, ops=[_MIRROR[type(op)]()], comparators=[l])
        if isinstance(op, ast.Eq | ast.NotEq) and ast.unparse(r) < ast.unparse(l):
            return ast.Compare(left=r, ops=[op], comparators=[l])
        return node


def ckey(node, ints=False):
    if isinstance(node, str):
        node = ast.parse(node, mode="eval").body
    return ast.unparse(_Canon(ints).visit(copy.deepcopy(node)))


def is_patvar(p):
    """pattern variable of a `consts` key: a name `_X` (underscore + one letter)"""
    return isinstance(p, ast.Name) and len(p.id) == 2 and p.id[0] == "_" and p.id[1].isalpha()


def ast_match(p, n, cap=None):
    """structural equality of two (canonicalised) ASTs; in the pattern `...` matches any subtree and a pattern variable
    `_X` matches any subtree and captures it (a second occurrence must match the same subtree)"""
    if isinstance(p, ast.Constant) and p.value is Ellipsis:
        return True
    if is_patvar(p) and isinstance(n, ast.AST):
        if cap is None:
            return True
        if p.id in cap:
            return ast.dump(cap[p.id]) == ast.dump(n)
        cap[p.id] = n
        return True
    if type(p) is not type(n):
        return False
    if isinstance(p, ast.AST):
        return all(ast_match(getattr(p, f, None), getattr(n, f, None), cap) for f in p._fields if f not in ("ctx", "kind", "type_comment"))
    if isinstance(p, list):
        return len(p) == len(n) and all(ast_match(a, b, cap) for a, b in zip(p, n))
    return p == n


def canon_ast(node, ints=False):
    if isinstance(node, str):
        node = ast.parse(node, mode="eval").body
    return _Canon(ints).visit(copy.deepcopy(node))


def test_matches(test, text):
    """does the `if` test (an AST) mean what the descriptor's text says — `+` same polarity, `-` negated, None no"""
    want = ast.parse(text, mode="eval").body
    k = canon_ast(test, ints=True)
    if ast_match(canon_ast(want, ints=True), k):  # the text may contain pattern variables `_x` (any subexpression)
        return "+"
    if ast_match(canon_ast(ast.UnaryOp(op=ast.Not(), operand=want), ints=True), k):
        return "-"
    return None


# ==================================================================================================
# term language
# ==================================================================================================
# Int terms   ("lit", n) ("var", x) ("add", a, b) ("sub", a, b) ("mul", a, b) ("neg", a) ("fdiv", a, b) ("fmod", a, b)
#             ("min", a, b) ("max", a, b) ("natabs", a) ("ite", C, a, b)
# Option      ("none",) ("some", t) ("ovar", p) ("ite", C, o1, o2)
# conditions  ("T",) ("F",) ("lt", a, b) ("eq", a, b) ("btrue", x) ("isnone", p) ("not", C) ("and", [C]) ("or", [C]) ("ite", C, c1, c2)
# results     ("tup", [a, b, c]) ("unit",) ("bool", C) ("ok", X) ("err", cls) ("ite", C, r1, r2) and Int terms

TRUE, FALSE = ("T",), ("F",)


def mk_not(c):
    if c == TRUE:
        return FALSE
    if c == FALSE:
        return TRUE
    if c[0] == "not":
        return c[1]
    return ("not", c)


def mk_and(cs):
    out = []
    for c in cs:
        if c == FALSE:
            return FALSE
        if c == TRUE:
            continue
        out += c[1] if c[0] == "and" else [c]
    return TRUE if not out else out[0] if len(out) == 1 else ("and", out)


def mk_or(cs):
    out = []
    for c in cs:
        if c == TRUE:
            return TRUE
        if c == FALSE:
            continue
        out += c[1] if c[0] == "or" else [c]
    return FALSE if not out else out[0] if len(out) == 1 else ("or", out)


def mk_ite(c, a, b):
    if c == TRUE:
        return a
    if c == FALSE:
        return b
    if a == b:
        return a
    return ("ite", c, a, b)


class Tr:
    """translator for one fragment"""

    def __init__(self, desc, src_stmts):
        self.d = desc
        self.params = list(desc["params"])
        self.bind = {ckey(k): v for k, v in desc.get("bind", {}).items()}  # canonical python expression text -> lean param name
        self.consts = {ckey(k): v for k, v in desc.get("consts", {}).items()}  # canonical text -> python expression over the params
        # keys with a `...` wildcard or pattern variables `_X` (matched structurally, the captures are substituted in the value)
        self.patterns = [(canon_ast(k), ckey(k)) for k in desc.get("consts", {})
                         if "..." in k or any(is_patvar(x) for x in ast.walk(ast.parse(k, mode="eval")))]
        self.captured = {}
        self.ret_kind = desc["ret"]  # 'int' | 'slice3' | 'unit' | 'bool'
        self.raises = any(isinstance(n, ast.Raise) for n in ast.walk(ast.Module(body=src_stmts, type_ignores=[])))
        self.penv = {}
        for name, ty in self.params:
            self.penv[name] = (ty, {INT: ("var", name), OPT: ("ovar", name), BOOL: ("bvar", name)}[ty])

    # ---------------------------------------------------------------- expressions
    def const(self, k, env, at=None):
        """the replacement of a pinned expression: a Python expression over the parameters, the locals in scope and the
        subexpressions captured by the pattern variables of the key"""
        v = self.consts[k]
        if isinstance(v, tuple):
            raise Refuse(f"descriptor: const for `{k}` must be a Python expression")
        node = ast.parse(v, mode="eval").body
        cap = self.captured.get(id(at), {})
        if cap:
            class S(ast.NodeTransformer):
                def visit_Name(s, x):
                    return copy.deepcopy(cap[x.id]) if x.id in cap else x
            node = S().visit(node)
        return Tr({"params": self.params, "ret": self.ret_kind}, []).expr(node, env)

    def key(self, node):
        k = ckey(node)
        if k not in self.consts and self.patterns and isinstance(node, ast.Call):
            cn = canon_ast(node)
            for pat, pk in self.patterns:
                cap = {}
                if ast_match(pat, cn, cap):
                    self.captured[id(node)] = cap
                    return pk
        return k

    def expr(self, node, env):
        """returns (type, term)"""
        k = self.key(node)
        if k in self.consts:
            return self.const(k, env, node)
        if k in self.bind:
            name = self.bind[k]
            if name not in env:
                raise Refuse(f"bound name {name} not in scope")
            return env[name]
        if isinstance(node, ast.Constant):
            if node.value is None:
                return NONE, ("none",)
            if isinstance(node.value, bool):
                return PROP, (TRUE if node.value else FALSE)
            if isinstance(node.value, int):
                return INT, ("lit", node.value)
            if isinstance(node.value, str):
                return STR, None
            raise Refuse(f"constant {node.value!r}")
        if isinstance(node, ast.JoinedStr):
            return STR, None
        if isinstance(node, ast.Name):
            if node.id not in env:
                raise Refuse(f"unknown name {node.id}")
            return env[node.id]
        if isinstance(node, ast.Tuple) and len(node.elts) == 3:
            parts = [self.int_of(e, env) for e in node.elts]
            return T3, ("tup", parts)
        if isinstance(node, ast.UnaryOp):
            if isinstance(node.op, ast.USub):
                a = self.int_of(node.operand, env)
                return INT, (("lit", -a[1]) if a[0] == "lit" else ("neg", a))
            if isinstance(node.op, ast.UAdd):
                return INT, self.int_of(node.operand, env)
            if isinstance(node.op, ast.Not):
                return PROP, mk_not(self.cond(node.operand, env))
            raise Refuse(f"unary {ast.dump(node.op)}")
        if isinstance(node, ast.BinOp):
            op = {ast.Add: "add", ast.Sub: "sub", ast.Mult: "mul", ast.FloorDiv: "fdiv", ast.Mod: "fmod"}.get(type(node.op))
            if not op:
                raise Refuse(f"binop {ast.dump(node.op)}")
            return INT, (op, self.int_of(node.left, env), self.int_of(node.right, env))
        if isinstance(node, ast.IfExp):
            return self.ifexp(node, env)
        if isinstance(node, ast.BoolOp) and isinstance(node.op, ast.Or) and len(node.values) == 2:
            # value-`or` on a possibly-None int: Python truthiness (None and 0 are falsy)
            ta, a = self.expr(node.values[0], env)
            if ta in (OPT, INT, NONE):
                b = self.int_of(node.values[1], env)
                if ta == INT:
                    return INT, ("ite", ("eq", a, ("lit", 0)), b, a)
                return INT, self.opt_case(a, lambda: b, lambda t: ("ite", ("eq", t, ("lit", 0)), b, t))
        if isinstance(node, ast.Call):
            fn = ast.unparse(node.func)
            if fn in ("builtins.max", "builtins.min"):  # `import builtins` spelling of the same functions
                fn = fn.split(".")[1]
            if fn in ("max", "min") and len(node.args) >= 2 and not node.keywords:
                args = [self.int_of(a, env) for a in node.args]
                t = args[0]
                for a in args[1:]:
                    t = (fn, t, a)
                return INT, t
            if fn == "int" and len(node.args) == 1 and not node.keywords:
                return self.expr(node.args[0], env)
            if fn == "abs" and len(node.args) == 1:
                return INT, ("natabs", self.int_of(node.args[0], env))
            if fn == "slice" and len(node.args) == 3:
                return T3, ("tup", [self.int_of(a, env) for a in node.args])
            raise Refuse(f"call {fn}")
        if isinstance(node, ast.Compare | ast.BoolOp):
            return PROP, self.cond(node, env)
        raise Refuse(f"expression {ast.unparse(node)}")

    def int_of(self, node, env):
        t, a = self.expr(node, env)
        if t != INT:
            raise Refuse(f"{ast.unparse(node)} has type {t}, need {INT}")
        return a

    def opt_case(self, o, on_none, on_some):
        """eliminate an optional value: distribute over the conditionals it is built from"""
        if o[0] == "none":
            return on_none()
        if o[0] == "some":
            return on_some(o[1])
        if o[0] == "ovar":
            return mk_ite(("isnone", o[1]), on_none(), on_some(("var", o[1])))
        if o[0] == "ite":
            return mk_ite(o[1], self.opt_case(o[2], on_none, on_some), self.opt_case(o[3], on_none, on_some))
        raise Refuse(f"optional value {o}")

    @staticmethod
    def as_opt(t, a):
        if t == INT:
            return ("some", a)
        if t in (NONE, OPT):
            return a
        raise Refuse(f"type {t} where an optional integer is needed")

    def refine(self, env, o, value):
        """flow typing: in this arm the optional value `o` is known to be `value` ((NONE, none) or (INT, t))"""
        env = dict(env)
        for n, (t, a) in list(env.items()):
            if t == OPT and a == o:
                env[n] = value
        return env

    def none_split(self, o_t, o, env, on_none, on_some, merge=mk_ite):
        """the two arms of a None test on the value (o_t, o), each evaluated in the refined environment;
        `merge(condition, arm, arm)` joins them (terms: mk_ite, typed values: self.merge)"""
        if o_t == NONE:
            return on_none(env)
        if o_t == INT:
            return on_some(env)
        if o_t != OPT:
            raise Refuse("None-test on a value that is not an optional integer")
        none_v = (NONE, ("none",))

        def go(v):
            if v[0] == "none":
                return on_none(self.refine(env, o, none_v))
            if v[0] == "some":
                return on_some(self.refine(env, o, (INT, v[1])))
            if v[0] == "ovar":
                some_v = (INT, ("var", v[1]))
                return merge(("isnone", v[1]), on_none(self.refine(self.refine(env, o, none_v), v, none_v)),
                             on_some(self.refine(self.refine(env, o, some_v), v, some_v)))
            if v[0] == "ite":
                return merge(v[1], go(v[2]), go(v[3]))
            raise Refuse(f"optional value {v}")
        return go(o)

    def is_none_test(self, t, env):
        """`v is None` / `v is not None` -> ((type, term) of v, positive)"""
        if isinstance(t, ast.Compare) and len(t.ops) == 1 and isinstance(t.ops[0], ast.Is | ast.IsNot):
            c = t.comparators[0]
            if isinstance(c, ast.Constant) and c.value is None:
                ty, a = self.expr(t.left, env)
                if ty not in (OPT, INT, NONE):
                    raise Refuse(f"None-test on {ast.unparse(t.left)}")
                return (ty, a), isinstance(t.ops[0], ast.Is)
        if isinstance(t, ast.UnaryOp) and isinstance(t.op, ast.Not):
            r = self.is_none_test(t.operand, env)
            if r:
                return r[0], not r[1]
        return None

    def ifexp(self, node, env):
        isn = self.is_none_test(node.test, env)
        if isn:
            (ty, o), positive = isn
            none_e, some_e = (node.body, node.orelse) if positive else (node.orelse, node.body)
            return self.none_split(ty, o, env, lambda e: self.expr(none_e, e), lambda e: self.expr(some_e, e), self.merge)
        c = self.cond(node.test, env)
        return self.merge(c, self.expr(node.body, env), self.expr(node.orelse, env))

    def merge(self, c, x, y):
        """a two-armed typed value: the arms are brought to a common type (an int and a None make an optional int)"""
        (ta, a), (tb, b) = x, y
        if ta == tb and ta != OPT:
            if ta in (STR, NONE):
                return x
            return ta, mk_ite(c, a, b)
        if {ta, tb} <= {INT, NONE, OPT}:
            return OPT, mk_ite(c, self.as_opt(ta, a), self.as_opt(tb, b))
        raise Refuse("conditional expression whose arms differ in type")

    def cond(self, node, env):
        """translate a Python truth-valued expression to a condition"""
        k = self.key(node)
        if k in self.consts:
            t, a = self.const(k, env, node)
            return self.truth(t, a, node)
        if isinstance(node, ast.BoolOp):
            # a None-test among the operands refines the others (pure operands: the position does not matter)
            for i, v in enumerate(node.values):
                isn = self.is_none_test(v, env)
                if isn and isn[0][0] == OPT:
                    (ty, o), positive = isn
                    rest = [w for j, w in enumerate(node.values) if j != i]
                    rest_node = rest[0] if len(rest) == 1 else ast.BoolOp(op=node.op, values=rest)
                    is_and = isinstance(node.op, ast.And)
                    # and: (v is None) and R  -> none arm: R, some arm: False;   or: (v is None) or R -> none arm: True, some arm: R
                    short = FALSE if is_and else TRUE
                    if positive == is_and:
                        return self.none_split(ty, o, env, lambda e: self.cond(rest_node, e), lambda e: short)
                    return self.none_split(ty, o, env, lambda e: short, lambda e: self.cond(rest_node, e))
            parts = [self.cond(v, env) for v in node.values]
            return mk_and(parts) if isinstance(node.op, ast.And) else mk_or(parts)
        if isinstance(node, ast.UnaryOp) and isinstance(node.op, ast.Not):
            return mk_not(self.cond(node.operand, env))
        if isinstance(node, ast.Compare):
            isn = self.is_none_test(node, env)
            if isn:
                (ty, o), positive = isn
                return self.none_split(ty, o, env, lambda e: TRUE if positive else FALSE, lambda e: FALSE if positive else TRUE)
            terms = [node.left, *node.comparators]
            if len(terms) == 2:
                # `a OP b / c` with c a positive int literal (true division): translated as `a * c OP b`,
                # exact over the integers (the float quotient is exact below 2**53)
                l, r = terms

                def _q(x):
                    return (isinstance(x, ast.BinOp) and isinstance(x.op, ast.Div) and isinstance(x.right, ast.Constant)
                            and type(x.right.value) is int and x.right.value > 0)
                if _q(r) and not _q(l):
                    terms = [ast.BinOp(left=l, op=ast.Mult(), right=ast.Constant(value=r.right.value)), r.left]
                elif _q(l) and not _q(r):
                    terms = [l.left, ast.BinOp(left=r, op=ast.Mult(), right=ast.Constant(value=l.right.value))]
            vals = [self.int_of(t, env) for t in terms]
            parts = []
            for i, op in enumerate(node.ops):
                a, b = vals[i], vals[i + 1]
                c = {ast.Lt: lambda: ("lt", a, b), ast.Gt: lambda: ("lt", b, a),
                     ast.LtE: lambda: mk_not(("lt", b, a)), ast.GtE: lambda: mk_not(("lt", a, b)),
                     ast.Eq: lambda: ("eq", a, b), ast.NotEq: lambda: mk_not(("eq", a, b))}.get(type(op))
                if c is None:
                    raise Refuse(f"comparison {ast.dump(op)}")
                parts.append(c())
            return mk_and(parts)
        if isinstance(node, ast.Constant) and isinstance(node.value, bool):
            return TRUE if node.value else FALSE
        if isinstance(node, ast.Call | ast.Name | ast.Subscript | ast.Attribute | ast.BinOp | ast.IfExp):
            t, a = self.expr(node, env)
            return self.truth(t, a, node)
        raise Refuse(f"condition {ast.unparse(node)}")

    def truth(self, t, a, node):
        if t == PROP:
            return a
        if t == BOOL:
            return ("btrue", a[1])
        if t == INT:  # an integer used as a truth value (`if len(x):`): Python truthiness of int is `!= 0`
            return mk_not(("eq", a, ("lit", 0)))
        raise Refuse(f"{ast.unparse(node)} : {t} used as a condition")

    # ---------------------------------------------------------------- statements
    def leaf(self, x):
        return ("ok", x) if self.raises else x

    def block(self, stmts, env):
        """translate a statement list to a term of the function's return type"""
        if not stmts:
            if self.ret_kind == "unit":
                return self.leaf(("unit",))
            raise Refuse("control reaches the end of the fragment without a return")
        s, rest = stmts[0], stmts[1:]
        if isinstance(s, ast.Expr) and isinstance(s.value, ast.Constant):
            return self.block(rest, env)  # docstring / string statement
        if isinstance(s, ast.Pass):
            return self.block(rest, env)
        if isinstance(s, ast.Return):
            if s.value is None:
                if self.ret_kind != "unit":
                    raise Refuse("bare return")
                return self.leaf(("unit",))
            t, a = self.expr(s.value, env)
            if self.ret_kind == "bool":
                a, t = ("bool", self.truth(t, a, s.value)), "bool"
            want = {"int": INT, "slice3": T3, "bool": "bool"}.get(self.ret_kind)
            if want is None or t != want:
                raise Refuse(f"return {ast.unparse(s.value)} : {t}, fragment returns {self.ret_kind}")
            return self.leaf(a)
        if isinstance(s, ast.Raise):
            exc = s.exc
            name = ast.unparse(exc.func) if isinstance(exc, ast.Call) else exc.id if isinstance(exc, ast.Name) else None
            if name not in ERRCLASS:
                raise Refuse(f"raise {name}")
            return ("err", ERRCLASS[name])
        if isinstance(s, ast.Assign):
            env2 = dict(env)
            if len(s.targets) == 1 and isinstance(s.targets[0], ast.Tuple):
                tgt = s.targets[0]
                if not (isinstance(s.value, ast.Tuple) and len(tgt.elts) == len(s.value.elts) and all(isinstance(n, ast.Name) for n in tgt.elts)):
                    raise Refuse(f"assignment target {ast.unparse(tgt)}")
                # simultaneous assignment: every value is read in the OLD environment
                for nm, v in zip(tgt.elts, [self.expr(v, env) for v in s.value.elts]):
                    env2[nm.id] = v
            elif all(isinstance(t, ast.Name) for t in s.targets):
                v = self.expr(s.value, env)  # a = b = e: one value, every name
                for t in s.targets:
                    env2[t.id] = v
            else:
                raise Refuse(f"assignment target {ast.unparse(s.targets[0])}")
            return self.block(rest, env2)
        if isinstance(s, ast.AugAssign):
            if not isinstance(s.target, ast.Name):
                raise Refuse("augassign target")
            node = ast.BinOp(left=ast.Name(id=s.target.id, ctx=ast.Load()), op=s.op, right=s.value)
            return self.block([ast.Assign(targets=[s.target], value=node), *rest], env)
        if isinstance(s, ast.If):
            test = s.test
            body, orelse = s.body, s.orelse
            # `if v is [not] None and B:`  ==  `if v is [not] None: (if B: body else: orelse) else: orelse`  (any position: pure operands)
            if isinstance(test, ast.BoolOp) and isinstance(test.op, ast.And):
                for i, v in enumerate(test.values):
                    isn = self.is_none_test(v, env)
                    if isn:
                        others = [w for j, w in enumerate(test.values) if j != i]
                        inner_test = others[0] if len(others) == 1 else ast.BoolOp(op=ast.And(), values=others)
                        body, test = [ast.If(test=inner_test, body=s.body, orelse=s.orelse)], v
                        break
            isn = self.is_none_test(test, env)
            if isn:
                (ty, o), positive = isn
                none_b, some_b = (body, orelse) if positive else (orelse, body)
                return self.none_split(ty, o, env, lambda e: self.block([*none_b, *rest], e), lambda e: self.block([*some_b, *rest], e))
            c = self.cond(test, env)
            if c == TRUE:  # decided by flow typing / a constant: the other arm is dead code and is not looked at
                return self.block([*body, *rest], env)
            if c == FALSE:
                return self.block([*orelse, *rest], env)
            return mk_ite(c, self.block([*body, *rest], env), self.block([*orelse, *rest], env))
        raise Refuse(f"statement {type(s).__name__}: {ast.unparse(s)[:60]}")


# ==================================================================================================
# normal form
# ==================================================================================================

COMM = ("add", "mul", "min", "max")


def term_key(t):
    """order of commuting operands: literals last, then by size and text"""
    txt = pp_term(t)
    return (t[0] == "lit", len(txt), txt)


def canon_term(t):
    """ite-free Int term: operands of +, *, min, max flattened and ordered"""
    k = t[0]
    if k in ("lit", "var"):
        return t
    if k in COMM:
        ops = []

        def flat(x):
            if x[0] == k:
                flat(x[1]); flat(x[2])
            else:
                ops.append(canon_term(x))
        flat(t)
        ops.sort(key=term_key)
        if k in ("min", "max"):  # idempotent: a repeated operand adds nothing
            ops = [o for i, o in enumerate(ops) if o not in ops[:i]]
        r = ops[0]
        for o in ops[1:]:
            r = (k, r, o)
        return r
    if k in ("sub", "fdiv", "fmod"):
        return (k, canon_term(t[1]), canon_term(t[2]))
    if k == "neg":
        a = canon_term(t[1])
        return ("lit", -a[1]) if a[0] == "lit" else ("neg", a)
    if k == "natabs":
        return (k, canon_term(t[1]))
    raise Refuse(f"term {t}")


def lift(t):
    """Int term -> list of (condition, ite-free term) alternatives as a decision term: returns a term whose ites are all on top"""
    k = t[0]
    if k in ("lit", "var"):
        return t
    if k == "ite":
        return ("ite", t[1], lift(t[2]), lift(t[3]))
    if k in ("neg", "natabs"):
        return map_leaves(lift(t[1]), lambda a: (k, a))
    if k in ("add", "sub", "mul", "fdiv", "fmod", "min", "max"):
        a, b = lift(t[1]), lift(t[2])
        return map_leaves(a, lambda x: map_leaves(b, lambda y: (k, x, y)))
    raise Refuse(f"term {t}")


def map_leaves(t, f):
    if t[0] == "ite":
        return ("ite", t[1], map_leaves(t[2], f), map_leaves(t[3], f))
    return f(t)


def lift_result(r):
    k = r[0]
    if k == "ite":
        return ("ite", r[1], lift_result(r[2]), lift_result(r[3]))
    if k == "ok":
        return map_leaves(lift_result(r[1]), lambda x: ("ok", x))
    if k in ("err", "unit"):
        return r
    if k == "bool":
        return ("ite", r[1], ("blit", True), ("blit", False))
    if k == "tup":
        def go(i, acc):
            if i == len(r[1]):
                return ("tup", list(acc))
            return map_leaves(lift(r[1][i]), lambda x: go(i + 1, acc + [x]))
        return go(0, [])
    return lift(r)


def lift_cond(c):
    """conditions whose comparison operands contain conditionals: the conditional moves to the condition level"""
    k = c[0]
    if k in ("T", "F", "btrue", "isnone"):
        return c
    if k in ("lt", "eq"):
        a, b = lift(c[1]), lift(c[2])

        def go(x):
            if x[0] == "ite":
                return ("ite", lift_cond(x[1]), go(x[2]), go(x[3]))
            return x
        return go(map_leaves(a, lambda x: map_leaves(b, lambda y: ("atom", k, x, y))))
    if k == "not":
        return ("not", lift_cond(c[1]))
    if k in ("and", "or"):
        return (k, [lift_cond(x) for x in c[1]])
    if k == "ite":
        return ("ite", lift_cond(c[1]), lift_cond(c[2]), lift_cond(c[3]))
    raise Refuse(f"condition {c}")


def canon_atom(c):
    """("atom", "lt"|"eq", a, b) with ite-free operands -> canonical atom (or a constant for literal comparisons)"""
    _, k, a, b = c
    a, b = canon_term(a), canon_term(b)
    if a[0] == "lit" and b[0] == "lit":
        return TRUE if (a[1] < b[1] if k == "lt" else a[1] == b[1]) else FALSE
    if k == "eq":
        if a == b:
            return TRUE
        if term_key(b) < term_key(a):
            a, b = b, a
    elif a == b:
        return FALSE
    return (k, a, b)


def ev(c, asg):
    """three-valued evaluation of a (lifted) condition under a partial assignment of atoms"""
    k = c[0]
    if k == "T":
        return True
    if k == "F":
        return False
    if k == "atom":
        c = canon_atom(c)
        if c in (TRUE, FALSE):
            return c == TRUE
        k = c[0]
    if k in ("lt", "eq", "btrue", "isnone"):
        return asg.get(c)
    if k == "not":
        v = ev(c[1], asg)
        return None if v is None else not v
    if k in ("and", "or"):
        unit = k == "and"
        res = unit
        for x in c[1]:
            v = ev(x, asg)
            if v is (not unit):
                return not unit
            if v is None:
                res = None
        return res
    if k == "ite":
        v = ev(c[1], asg)
        if v is True:
            return ev(c[2], asg)
        if v is False:
            return ev(c[3], asg)
        a, b = ev(c[2], asg), ev(c[3], asg)
        return a if (a == b and a is not None) else None
    raise Refuse(f"condition {c}")


def atoms_of(c, asg, out):
    """every undecided atom of the condition (independent of evaluation order)"""
    k = c[0]
    if k == "atom":
        c = canon_atom(c)
        k = c[0]
    if k in ("lt", "eq", "btrue", "isnone"):
        if c not in asg:
            out.add(c)
    elif k == "not":
        atoms_of(c[1], asg, out)
    elif k in ("and", "or"):
        for x in c[1]:
            atoms_of(x, asg, out)
    elif k == "ite":
        for x in c[1:]:
            atoms_of(x, asg, out)


class Norm:
    """one decision tree over the atoms, tested in a fixed order:
      1. `p is None` for the parameters that may be None, in parameter order (so every `match` sits on top);
      2. the other atoms in the order of the TEST of the source they first occur in (pre-order: test, then-arm, else-arm),
         and inside one test by (length, text).
    Inside a test the order is canonical (and/or commuted, De Morgan, chained comparisons, negation, exchanged arms all
    disappear); between tests the order of the source is kept — ordering ALL atoms by text would also identify exchanged
    independent statements, but it scatters the guards of a chain of checks over the tree (the tree of `GCXS.__init__`
    grows from 30 to 375 tests, most of them on infeasible paths)."""
    LIMIT = 6000

    def __init__(self, params, root):
        self.order = {n: i for i, (n, _) in enumerate(params)}
        self.nodes = 0
        self.first = {}
        self.index(root)

    def index(self, r):
        n = 0
        stack = [r]
        while stack:
            r = stack.pop()
            if r[0] != "ite":
                continue
            out = set()
            atoms_of(r[1], {}, out)
            for a in out:
                self.first.setdefault(a, n)
            n += 1
            stack.append(r[3])
            stack.append(r[2])

    def akey(self, a):
        if a[0] == "isnone":
            return (0, self.order.get(a[1], 99), 0, a[1])
        txt = pp_atom(a)
        return (1, self.first[a], len(txt), txt)

    def reach(self, r, asg, out):
        """atoms of the tests that are still reachable under the assignment"""
        while r[0] == "ite":
            v = ev(r[1], asg)
            if v is True:
                r = r[2]
            elif v is False:
                r = r[3]
            else:
                atoms_of(r[1], asg, out)
                self.reach(r[2], asg, out)
                r = r[3]
        return r

    def build(self, r, asg):
        self.nodes += 1
        if self.nodes > self.LIMIT:
            raise Refuse("normal form too large")
        atoms = set()
        leaf = self.reach(r, asg, atoms)
        if not atoms:
            return canon_leaf(leaf)
        a = min(atoms, key=self.akey)
        hi = self.build(r, {**asg, a: True})
        lo = self.build(r, {**asg, a: False})
        return hi if hi == lo else ("ite", a, hi, lo)


def canon_leaf(x):
    k = x[0]
    if k == "ok":
        return ("ok", canon_leaf(x[1]))
    if k in ("err", "unit", "blit"):
        return x
    if k == "tup":
        return ("tup", [canon_term(e) for e in x[1]])
    return canon_term(x)


def lift_tests(r):
    if r[0] == "ite":
        return ("ite", lift_cond(r[1]), lift_tests(r[2]), lift_tests(r[3]))
    return r


def normalise(r, params):
    root = lift_tests(lift_result(r))
    return Norm(params, root).build(root, {})


# ==================================================================================================
# printing
# ==================================================================================================

LEAN_KEYWORDS = {"sorted": "sorted_", "end": "end_", "from": "from_", "at": "at_", "in": "in_", "then": "then_", "fun": "fun_", "do": "do_"}


def lname(n):
    return LEAN_KEYWORDS.get(n, n)


def pp_term(t):
    k = t[0]
    if k == "lit":
        return f"({t[1]} : Int)" if t[1] >= 0 else f"(-{-t[1]} : Int)"
    if k == "var":
        return lname(t[1])
    if k in ("add", "sub", "mul"):
        return f"({pp_term(t[1])} {'+-*'['add sub mul'.split().index(k)]} {pp_term(t[2])})"
    if k == "neg":
        return f"(-{pp_term(t[1])})"
    if k in ("fdiv", "fmod"):
        return f"(Int.{k} {pp_term(t[1])} {pp_term(t[2])})"
    if k in ("min", "max"):
        return f"({k} {pp_term(t[1])} {pp_term(t[2])})"
    if k == "natabs":
        return f"(({pp_term(t[1])}).natAbs : Int)"
    raise Refuse(f"term {t}")


def pp_atom(a):
    if a[0] == "lt":
        return f"{pp_term(a[1])} < {pp_term(a[2])}"
    if a[0] == "eq":
        return f"{pp_term(a[1])} = {pp_term(a[2])}"
    if a[0] == "btrue":
        return f"{lname(a[1])} = true"
    raise Refuse(f"atom {a}")


def pp_leaf(x):
    k = x[0]
    if k == "ok":
        return f"(.ok {pp_leaf(x[1])})"
    if k == "err":
        return f"(.error Err.{x[1]})"
    if k == "unit":
        return "()"
    if k == "blit":
        return "true" if x[1] else "false"
    if k == "tup":
        return "(" + ", ".join(pp_term(e) for e in x[1]) + ")"
    return pp_term(x)


def pp_tree(r, ind):
    pad = "  " * ind
    if r[0] != "ite":
        return pad + pp_leaf(r)
    a = r[1]
    if a[0] == "isnone":
        n = lname(a[1])
        return (f"{pad}match {n} with\n{pad}| none =>\n{pp_tree(r[2], ind + 2)}\n{pad}| some {n} =>\n{pp_tree(r[3], ind + 2)}")
    return f"{pad}if {pp_atom(a)} then\n{pp_tree(r[2], ind + 1)}\n{pad}else\n{pp_tree(r[3], ind + 1)}"


# ==================================================================================================
# selecting the fragment
# ==================================================================================================

def find_func(tree, qual):
    parts = qual.split(".")
    body = tree.body
    node = None
    for p in parts:
        node = next((n for n in body if isinstance(n, ast.FunctionDef | ast.ClassDef) and n.name == p), None)
        if node is None:
            raise Refuse(f"function {qual} not found")
        body = node.body
    return node


def stmt_matches(stmt, anchor):
    """anchor: `if <test>` (meaning compared, either polarity is NOT accepted here), or the beginning of the statement's text;
    a tuple of anchors = any of them"""
    if isinstance(anchor, tuple | list):
        return any(stmt_matches(stmt, a) for a in anchor)
    if anchor.startswith("if "):
        return isinstance(stmt, ast.If) and test_matches(stmt.test, anchor[3:]) == "+"
    return ast.unparse(stmt).startswith(anchor)


def is_guard(stmt):
    """`if <test>: raise ...` without else"""
    return isinstance(stmt, ast.If) and not stmt.orelse and len(stmt.body) == 1 and isinstance(stmt.body[0], ast.Raise)


def select(func, sel):
    """pick the statement list of a fragment"""
    body = [s for s in func.body if not (isinstance(s, ast.Expr) and isinstance(s.value, ast.Constant))]
    if sel is None:
        return body
    kind = sel[0]
    if kind == "after_guard":
        # drop a leading `if <guard>: return <x>`
        g = body[0]
        if not (isinstance(g, ast.If) and test_matches(g.test, sel[1]) == "+" and not g.orelse and len(g.body) == 1 and isinstance(g.body[0], ast.Return)):
            raise Refuse(f"guard `{sel[1]}` not found at the top of {func.name}")
        return body[1:]
    if kind in ("if_body", "orelse_of"):
        # the arm taken when <test> holds (if_body) / does not hold (orelse_of), of the `if` anywhere in the function
        # (top-level or elif-chained) whose test means <test> or its negation
        for n in ast.walk(func):
            if isinstance(n, ast.If):
                m = test_matches(n.test, sel[1])
                if m:
                    arm = n.body if (m == "+") == (kind == "if_body") else n.orelse
                    if not arm:
                        raise Refuse(f"the `if` on `{sel[1]}` in {func.name} has no such arm")
                    return arm
        raise Refuse(f"branch `{sel[1]}` not found in {func.name}")
    if kind == "if_else":
        # the whole if/else statement whose test is given (kept as one statement) + optional trailing statements
        for n in ast.walk(func):
            if isinstance(n, ast.If) and test_matches(n.test, sel[1]):
                tail = [ast.parse(sel[2]).body[0]] if len(sel) > 2 else []
                return [n, *tail]
        raise Refuse(f"statement `if {sel[1]}` not found in {func.name}")
    if kind in ("between", "guards_from"):
        # top-level statements from the n-th one matching sel[1] up to (excluding) the next one matching sel[2]
        # (guards_from: up to the first statement that is not an `if …: raise` guard)
        nth = sel[3] if len(sel) > 3 else 0
        starts = [i for i, n in enumerate(body) if stmt_matches(n, sel[1])]
        if len(starts) <= nth:
            raise Refuse(f"statement `{sel[1]}` (occurrence {nth}) not found in {func.name}")
        i0 = starts[nth]
        if kind == "guards_from":
            i1 = i0
            while i1 < len(body) and is_guard(body[i1]):
                i1 += 1
            return body[i0:i1]
        for i1 in range(i0 + 1, len(body)):
            if stmt_matches(body[i1], sel[2]):
                return body[i0:i1]
        raise Refuse(f"statement `{sel[2]}` not found after `{sel[1]}` in {func.name}")
    if kind == "after":
        # the top-level statements that FOLLOW the first one matching sel[1], up to (excluding) the next one matching sel[2]
        for i0, n in enumerate(body):
            if stmt_matches(n, sel[1]):
                for i1 in range(i0 + 1, len(body)):
                    if stmt_matches(body[i1], sel[2]):
                        return body[i0 + 1:i1]
                raise Refuse(f"statement `{sel[2]}` not found after `{sel[1]}` in {func.name}")
        raise Refuse(f"statement `{sel[1]}` not found in {func.name}")
    raise Refuse(f"selector {sel}")


def rename_targets(comp, params, n):
    """the comprehension's bound variables renamed, by position, to the first n parameter names of the descriptor"""
    g = comp.generators[0]
    tg = g.target.elts if isinstance(g.target, ast.Tuple) else [g.target]
    if len(tg) != n or not all(isinstance(t, ast.Name) for t in tg):
        return None
    ren = {t.id: p for t, (p, _) in zip(tg, params)}
    if len(set(ren)) != n:
        return None
    free = {x.id for x in ast.walk(comp.elt) if isinstance(x, ast.Name)} - set(ren)
    if free & set(ren.values()):
        return None  # a free variable of the element carries the name a bound one would get

    class R(ast.NodeTransformer):
        def visit_Name(s, x):
            return ast.copy_location(ast.Name(id=ren.get(x.id, x.id), ctx=x.ctx), x)
    return R().visit(copy.deepcopy(comp.elt))


def emit(desc, params, body_term, ret):
    tree = normalise(body_term, params)
    ps = " ".join(f"({lname(k)} : {v})" for k, v in params)
    return f"def {desc['name']} {ps} : {ret} :=\n{pp_tree(tree, 1)}\n"


def gen_elt(desc, tree):
    """comprehension element: the iteration structure is checked (`iter` text, number of bound variables, the call the
    comprehension is the sole argument of), the bound variables are renamed by position, the element is translated"""
    func = find_func(tree, desc["func"])
    within = desc.get("within")
    sole_args = {id(c.args[0]): False for c in ast.walk(func)
                 if isinstance(c, ast.Call) and len(c.args) == 1 and not c.keywords and ast.unparse(c.func) == within}
    if within == "all":
        # the same guard spelled with the dual quantifier: `if any(Q for …): raise` says `if not all(not Q for …): raise`;
        # accepted only where the call IS the test of an `if …: raise` guard, and the element is then read negated
        for g in ast.walk(func):
            if is_guard(g) and isinstance(g.test, ast.Call) and ast.unparse(g.test.func) == "any" and len(g.test.args) == 1 and not g.test.keywords:
                sole_args[id(g.test.args[0])] = True
    nbound = desc.get("bound", len(ast.parse(desc["target"], mode="eval").body.elts) if desc["target"].startswith("(") else 1)
    for n in ast.walk(func):
        if isinstance(n, ast.GeneratorExp | ast.ListComp) and len(n.generators) == 1:
            if within is not None and id(n) not in sole_args:
                continue
            g = n.generators[0]
            if ast.unparse(g.iter) == desc["iter"] and not g.ifs:
                elt = rename_targets(n, desc["params"], nbound)
                if elt is None:
                    continue
                if within is not None and sole_args[id(n)]:
                    elt = ast.UnaryOp(op=ast.Not(), operand=elt)
                tr = Tr({"bind": {}, "consts": desc.get("consts", {}), "ret": desc["ret"], "params": desc["params"]}, [])
                t, a = tr.expr(elt, dict(tr.penv))
                if desc["ret"] == "bool":
                    return emit(desc, desc["params"], ("bool", tr.truth(t, a, elt)), "Bool")
                if t != INT:
                    raise Refuse(f"element has type {t}, need {INT}")
                return emit(desc, desc["params"], a, "Int")
    raise Refuse(f"comprehension over `{desc['iter']}`" + (f" inside {within}(...)" if within else "") + f" not found in {desc['func']}")


def fragment_stmts(desc, tree):
    """the statements a descriptor selects, synthetic tail included (also used by the harness to EXECUTE the fragment)"""
    func = find_func(tree, desc["func"])
    stmts = select(func, desc.get("select"))
    if "until" in desc:
        for i, s in enumerate(stmts):
            if stmt_matches(s, desc["until"]):
                stmts = stmts[:i]
                break
        else:
            raise Refuse(f"statement `{desc['until']}` not found in the selected part of {desc['func']}")
    if "take" in desc:
        stmts = stmts[: desc["take"]]
    if "tail" in desc:
        tail = desc["tail"]
        if "tail_from" in desc:
            # the synthetic return names the fragment's results through the expression of the source that consumes them
            # (`np.stack([_a, _b])`, `range(_a, _b, _c)`, `_d == 0`), not through the names of locals: the first expression
            # after the selected statements that matches the pattern supplies the pattern variables of `tail`
            last = max((getattr(n, "end_lineno", 0) for st in stmts for n in ast.walk(st)), default=0)
            pat = canon_ast(desc["tail_from"])
            cap = None
            for n in sorted((n for n in ast.walk(func) if isinstance(n, ast.expr) and getattr(n, "lineno", 0) > last),
                            key=lambda n: (n.lineno, n.col_offset)):
                c = {}
                if ast_match(pat, canon_ast(n), c):
                    cap = c
                    break
            if cap is None:
                raise Refuse(f"expression `{desc['tail_from']}` not found after the fragment in {desc['func']}")
            t = ast.parse(tail)

            class S(ast.NodeTransformer):
                def visit_Name(s_, x):
                    return copy.deepcopy(cap[x.id]) if x.id in cap else x
            tail = ast.unparse(S().visit(t))
        stmts = [*stmts, *ast.parse(tail).body]
    return stmts


def gen_fragment(desc, tree):
    stmts = fragment_stmts(desc, tree)
    tr = Tr(desc, stmts)
    body = tr.block(stmts, dict(tr.penv))
    rt = {"int": "Int", "slice3": "Int × Int × Int", "unit": "Unit", "bool": "Bool"}[desc["ret"]]
    if tr.raises:
        rt = f"Except Err ({rt})" if "×" in rt else f"Except Err {rt}"
    return emit(desc, desc["params"], body, rt)


def main():
    ap = argparse.ArgumentParser()
    ap.add_argument("--repo", default="/repo")
    ap.add_argument("--out", required=True)
    ap.add_argument("--ref", action="store_true", help="also refresh Generated.ref (done by hand, never by a check)")
    args = ap.parse_args()
    from py2lean_targets import FILES
    import py2lean_tables

    repo, out = Path(args.repo), Path(args.out)
    out.mkdir(parents=True, exist_ok=True)
    functions, refused, changed = [], [], []
    texts = {}
    for modname, spec in FILES.items():
        chunks = [f"/- GENERATED by tools/py2lean.py from {spec['file']} — do not edit. -/\nimport SparseV.Model.Basic\nnamespace SparseV.Gen\n"]
        try:
            tree = ast.parse((repo / spec["file"]).read_text())
        except Exception as e:  # unreadable source
            refused.append(f"{modname}: {e}")
            tree = None
        for desc in spec["targets"]:
            try:
                if tree is None:
                    raise Refuse("source unreadable")
                txt = gen_elt(desc, tree) if desc.get("kind") == "elt" else gen_fragment(desc, tree)
                chunks.append(f"/-- from `{desc['func']}` ({desc.get('note', 'fragment')}) -/\n" + txt)
                functions.append(desc["name"])
            except Refuse as e:
                refused.append(f"{desc['name']}: {e}")
                # emit nothing for this target: dependants will fail to build, which is the point
            except RecursionError:
                refused.append(f"{desc['name']}: fragment too deeply nested")
        chunks.append("end SparseV.Gen\n")
        texts[f"{modname}.lean"] = "\n".join(chunks)
    for fname, (txt, names, ref) in py2lean_tables.generate(repo).items():
        texts[fname] = txt
        functions += names
        refused += ref
    for fname, txt in texts.items():
        p = out / fname
        if not p.exists() or p.read_text() != txt:
            tmp = p.with_suffix(".tmp")
            tmp.write_text(txt)
            tmp.replace(p)
            changed.append(fname)
    print(json.dumps({"functions": functions, "refused": refused, "changed": changed}))
    return 0


if __name__ == "__main__":
    sys.exit(main())

/-
  SparseV.Spec.Getitem — what basic indexing (integers, slices, `None`) means: which operand
  element a result element reads.  Specification side, core Lean only.
-/
import SparseV.Model.Getitem
namespace SparseV.Spec
open SparseV

/-- A slice triple is *normalised* for an axis of extent `dim` (what `clip_slice` guarantees):
for a positive step `a ≤ b ≤ dim`, and `0 ≤ a` unless the slice is empty (`a = b`); for a negative
step `-1 ≤ b ≤ a`, and `a ≤ dim - 1` unless the slice is empty.  (An empty slice is clipped to
`start = stop`, which may lie outside `[0, dim]`, e.g. `x[0:-100]` with `dim = 5` gives
`(-95, -95, 1)`; it selects nothing.) -/
def NormSlice (a b s dim : Int) : Prop :=
  (s > 0 ∧ a ≤ b ∧ b ≤ dim ∧ (a < b → 0 ≤ a)) ∨ (s < 0 ∧ -1 ≤ b ∧ b ≤ a ∧ (b < a → a ≤ dim - 1))

instance (a b s dim : Int) : Decidable (NormSlice a b s dim) := by unfold NormSlice; infer_instance

/-- The normalised index is valid for the shape: the non-`None` entries match the axes one to one,
every integer is in range, every slice is normalised for its axis; no index arrays. -/
def ValidIdx : List NIx → List Nat → Prop
  | [], [] => True
  | [], _ :: _ => False
  | .newaxis :: rest, shape => ValidIdx rest shape
  | .int n :: rest, d :: ds => (0 ≤ n ∧ n < (d : Int)) ∧ ValidIdx rest ds
  | .slice a b s :: rest, d :: ds => NormSlice a b s (d : Int) ∧ ValidIdx rest ds
  | .int _ :: _, [] => False
  | .slice _ _ _ :: _, [] => False
  | .arr _ :: _, _ => False

instance decValidIdx : (idx : List NIx) → (shape : List Nat) → Decidable (ValidIdx idx shape)
  | [], [] => isTrue trivial
  | [], _ :: _ => isFalse (fun h => h)
  | .newaxis :: rest, shape => decValidIdx rest shape
  | .int n :: rest, d :: ds =>
    match (inferInstance : Decidable (0 ≤ n ∧ n < (d : Int))), decValidIdx rest ds with
    | isTrue h1, isTrue h2 => isTrue ⟨h1, h2⟩
    | isFalse h1, _ => isFalse (fun h => h1 h.1)
    | _, isFalse h2 => isFalse (fun h => h2 h.2)
  | .slice a b s :: rest, d :: ds =>
    match (inferInstance : Decidable (NormSlice a b s (d : Int))), decValidIdx rest ds with
    | isTrue h1, isTrue h2 => isTrue ⟨h1, h2⟩
    | isFalse h1, _ => isFalse (fun h => h1 h.1)
    | _, isFalse h2 => isFalse (fun h => h2 h.2)
  | .int _ :: _, [] => isFalse (fun h => h)
  | .slice _ _ _ :: _, [] => isFalse (fun h => h)
  | .arr _ :: _, _ => isFalse (fun h => h)

/-- the index has at least one slice / `None` entry: the result is an array, not a scalar
(the `hasOut` of `getitemN`) -/
def hasOut (idx : List NIx) : Bool := idx.any fun e => match e with | .int _ => false | _ => true

/-- **The operand index that result index `j` reads.**  An integer `n` contributes the coordinate
`n` and consumes no result axis; a slice `a:b:s` consumes one result coordinate `t` and contributes
`a + t*s`; `None` consumes one result coordinate (which is 0) and contributes nothing. -/
def compose : List NIx → Idx → Idx
  | [], _ => []
  | .int n :: rest, j => n.toNat :: compose rest j
  | .slice a _ s :: rest, t :: j => (a + (t : Int) * s).toNat :: compose rest j
  | .slice a _ _ :: rest, [] => a.toNat :: compose rest []
  | .newaxis :: rest, _ :: j => compose rest j
  | .newaxis :: rest, [] => compose rest []
  | .arr _ :: rest, j => compose rest j

/-- a *basic* entry of a user index: an integer, a slice whose step is not 0 (with a zero step
both the library and NumPy raise `ValueError`; the normalisation model does not cover it), or
`None`; no Ellipsis, no arrays -/
def BasicIxE : IxE → Prop
  | .int _ => True
  | .slice _ _ c => c ≠ some 0
  | .newaxis => True
  | _ => False

instance : DecidablePred BasicIxE := fun e => by
  cases e <;> unfold BasicIxE <;> infer_instance

end SparseV.Spec

/-
  SparseV.Spec.GcxsGetitem — what indexing with integers, slices and 1-d integer arrays means when every index array
  acts on its own axis (NumPy's rule for at most one index array — the only case `getitem` sends to `_getitem`):
  which operand element a result element reads.  Specification side, core Lean only.
-/
import SparseV.Model.GcxsIndex
import SparseV.Spec.Getitem
namespace SparseV.Spec
open SparseV GIx

/-- The normalised key is valid for the shape: one entry per axis; integers in range; slices normalised for their
axis (what `clip_slice` guarantees); every element of an index array in range (what `normalize_index` guarantees
after wrapping negative entries).  No `None` (they are taken out before `_getitem`). -/
def GValid : List NIx → List Nat → Prop
  | [], [] => True
  | .int n :: rest, d :: ds => (0 ≤ n ∧ n < (d : Int)) ∧ GValid rest ds
  | .slice a b s :: rest, d :: ds => NormSlice a b s (d : Int) ∧ GValid rest ds
  | .arr xs :: rest, d :: ds => (∀ x ∈ xs, 0 ≤ x ∧ x < (d : Int)) ∧ GValid rest ds
  | _, _ => False

instance decGValid : (key : List NIx) → (shape : List Nat) → Decidable (GValid key shape)
  | [], [] => isTrue trivial
  | [], _ :: _ => isFalse (fun h => by simp [GValid] at h)
  | .newaxis :: _, _ => isFalse (fun h => by simp [GValid] at h)
  | .int _ :: _, [] => isFalse (fun h => by simp [GValid] at h)
  | .slice _ _ _ :: _, [] => isFalse (fun h => by simp [GValid] at h)
  | .arr _ :: _, [] => isFalse (fun h => by simp [GValid] at h)
  | .int n :: rest, d :: ds =>
    match (inferInstance : Decidable (0 ≤ n ∧ n < (d : Int))), decGValid rest ds with
    | isTrue h1, isTrue h2 => isTrue ⟨h1, h2⟩
    | isFalse h1, _ => isFalse (fun h => h1 h.1)
    | _, isFalse h2 => isFalse (fun h => h2 h.2)
  | .slice a b s :: rest, d :: ds =>
    match (inferInstance : Decidable (NormSlice a b s (d : Int))), decGValid rest ds with
    | isTrue h1, isTrue h2 => isTrue ⟨h1, h2⟩
    | isFalse h1, _ => isFalse (fun h => h1 h.1)
    | _, isFalse h2 => isFalse (fun h => h2 h.2)
  | .arr xs :: rest, d :: ds =>
    match (inferInstance : Decidable (∀ x ∈ xs, 0 ≤ x ∧ x < (d : Int))), decGValid rest ds with
    | isTrue h1, isTrue h2 => isTrue ⟨h1, h2⟩
    | isFalse h1, _ => isFalse (fun h => h1 h.1)
    | _, isFalse h2 => isFalse (fun h => h2 h.2)

/-- result shape: one axis per non-integer entry, in the order of the key -/
def gOutShape (key : List NIx) : List Nat := (key.filter keyOut).map fun k => (keyArr k).length

/-- **The operand index that result index `j` reads.**  An integer contributes itself and consumes no result axis; a
slice `a:b:s` consumes one result coordinate `t` and contributes `a + t*s`; an index array `xs` consumes one result
coordinate `t` and contributes `xs[t]`. -/
def srcOf : List NIx → Idx → Idx
  | [], _ => []
  | k :: rest, j =>
    if keyOut k then (keyArr k).getD (j.headD 0) 0 :: srcOf rest j.tail
    else (keyArr k).getD 0 0 :: srcOf rest j

/-- no index arrays in the key (basic indexing) -/
def NoArr : List NIx → Prop
  | [] => True
  | .arr _ :: _ => False
  | _ :: rest => NoArr rest

instance decNoArr : (key : List NIx) → Decidable (NoArr key)
  | [] => isTrue trivial
  | .arr _ :: _ => isFalse (fun h => h)
  | .int _ :: rest => decNoArr rest
  | .slice _ _ _ :: rest => decNoArr rest
  | .newaxis :: rest => decNoArr rest

end SparseV.Spec

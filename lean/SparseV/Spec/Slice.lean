/-
  SparseV.Spec.Slice — what Python means by a slice: CPython's `PySlice_AdjustIndices`
  (Objects/sliceobject.c), transcribed.  This is the *specification* side; the library's own
  normalisation (`Gen.replaceNone`, `Gen.posifySlice`, `Gen.clipSlice`) is generated from the source.
-/
import SparseV.Model.Basic
namespace SparseV.Spec

/-- `slice(start, stop, step).indices(dim)` for `step ≠ 0` -/
def pyAdjust (start stop : Option Int) (step dim : Int) : Int × Int × Int :=
  let lower := if step < 0 then -1 else 0
  let upper := if step < 0 then dim - 1 else dim
  let start := match start with
    | none => if step < 0 then upper else lower
    | some s => if s < 0 then max (s + dim) lower else min s upper
  let stop := match stop with
    | none => if step < 0 then lower else upper
    | some s => if s < 0 then max (s + dim) lower else min s upper
  (start, stop, step)

/-- a normalised triple selects nothing -/
def isEmpty (t : Int × Int × Int) : Bool :=
  if t.2.2 > 0 then decide (t.1 ≥ t.2.1) else decide (t.1 ≤ t.2.1)

/-- `list(range(start, stop, step))` with fuel (a normalised triple needs at most `|stop - start|` steps) -/
def rangeFuel : Nat → Int → Int → Int → List Int
  | 0, _, _, _ => []
  | fuel + 1, cur, stop, step =>
    if (step > 0 ∧ cur < stop) ∨ (step < 0 ∧ cur > stop) then cur :: rangeFuel fuel (cur + step) stop step
    else []

/-- the indices a normalised triple selects, in order -/
def rangeOf (t : Int × Int × Int) : List Int :=
  if isEmpty t then [] else rangeFuel ((t.2.1 - t.1).natAbs) t.1 t.2.1 t.2.2

end SparseV.Spec

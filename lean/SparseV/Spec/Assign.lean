/-
  SparseV.Spec.Assign — what NumPy means by `a[key] = value` on a dense array (the specification
  side of property C12).  A dense array of a given shape is a function from index tuples to values
  (`Dense α`); only tuples inside the shape matter.  Nothing here looks at the library's code: a
  slice selects `range(*slice.indices(dim))` (`Spec.pyAdjust`, CPython's rule), integers wrap once,
  values broadcast from the right.

  The file also holds the op language's grammar (`WFOp`: what the property quantifies over).
-/
import SparseV.Model.Dok
namespace SparseV.Spec
open SparseV SparseV.Dok
variable {α : Type}

/-- a dense array as a function of the index tuple -/
abbrev Dense (α : Type) := DKey → α

/-- what one entry of a basic key selects on its axis -/
inductive Sel where
  | int (n : Int)            -- one index; the axis disappears from the selection grid
  | range (l : List Int)     -- the indices of a slice, in order; one grid axis
  deriving Repr, DecidableEq

/-- NumPy/Python: an integer must satisfy `-dim ≤ n < dim` (else IndexError) and wraps once;
a slice selects `range(*slice(start, stop, step).indices(dim))`. -/
def pySel (p : KeyPart) (dim : Nat) : Except Err Sel :=
  match p with
  | .int n => if -(dim : Int) ≤ n ∧ n < dim then .ok (.int (if n < 0 then n + dim else n)) else .error .index
  | .slice a b c => .ok (.range (rangeOf (pyAdjust a b (c.getD 1) dim)))

def pySels : List KeyPart → List Nat → Except Err (List Sel)
  | [], [] => .ok []
  | p :: ps, d :: ds =>
    match pySel p d with
    | .error e => .error e
    | .ok x =>
      match pySels ps ds with
      | .error e => .error e
      | .ok xs => .ok (x :: xs)
  | _, _ => .error .internal

/-- position of `i` in a list -/
def findPos : List Int → Int → Option Nat
  | [], _ => none
  | x :: xs, i => if x = i then some 0 else (findPos xs i).map (· + 1)

/-- `posOf sels k`: `k` is selected, at this position of the selection grid (one coordinate per
slice entry) -/
def posOf : List Sel → DKey → Option (List Nat)
  | [], [] => some []
  | .int n :: ss, i :: is => if n = i then posOf ss is else none
  | .range l :: ss, i :: is =>
    match findPos l i with
    | some j => (posOf ss is).map (j :: ·)
    | none => none
  | _, _ => none

/-- extents of the selection grid -/
def gridShape : List Sel → List Nat
  | [] => []
  | .int _ :: ss => gridShape ss
  | .range l :: ss => l.length :: gridShape ss

/-- extents pairwise 1 or equal -/
def alignedOK : List Nat → List Nat → Bool
  | [], [] => true
  | s :: ss, g :: gs => (s == 1 || s == g) && alignedOK ss gs
  | _, _ => false

/-- the value is broadcastable to the grid: its rank is at most the grid's; against the grid's last
`rank` axes every extent is 1 or the grid's; the data has the size the shape says -/
def Broadcastable (v : Val α) (grid : List Nat) : Bool :=
  v.flat.length == prod v.shape && decide (v.shape.length ≤ grid.length)
    && alignedOK v.shape (grid.drop (grid.length - v.shape.length))

/-- element of `np.broadcast_to(value, grid)` at grid position `p` -/
def bcastGet (v : Val α) (p : List Nat) : Option α :=
  let q := p.drop (p.length - v.shape.length)
  v.flat[ravel (List.zipWith (fun s i => if s = 1 then 0 else i) v.shape q) v.shape]?

/-- `a[key] = value` for selected index lists `sels` -/
def dSetSel (a : Dense α) (sels : List Sel) (v : Val α) : Dense α := fun k =>
  match posOf sels k with
  | some p => (bcastGet v p).getD (a k)
  | none => a k

/-- NumPy `a[key] = value`, key of integers and slices (missing trailing entries are full slices) -/
def dSetitem (shape : List Nat) (a : Dense α) (key : List KeyPart) (v : Val α) : Except Err (Dense α) :=
  if key.length > shape.length then .error .index
  else
    match pySels (padKey key shape.length) shape with
    | .error e => .error e
    | .ok sels => if Broadcastable v (gridShape sels) then .ok (dSetSel a sels v) else .error .value

/-- sequential element assignment (a repeated index keeps the last value, as NumPy does) -/
def assignAll (a : Dense α) : List (DKey × α) → Dense α
  | [] => a
  | (k, x) :: ws => assignAll (fun j => if j = k then x else a j) ws

def normIdx (i : Int) (d : Nat) : Option Int :=
  if -(d : Int) ≤ i ∧ i < d then some (if i < 0 then i + d else i) else none

def normKey : DKey → List Nat → Option DKey
  | [], [] => some []
  | i :: is, d :: ds =>
    match normIdx i d, normKey is ds with
    | some j, some js => some (j :: js)
    | _, _ => none
  | _, _ => none

def normKeys (shape : List Nat) : List DKey → Option (List DKey)
  | [] => some []
  | k :: ks =>
    match normKey k shape, normKeys shape ks with
    | some j, some js => some (j :: js)
    | _, _ => none

/-- values for `n` listed elements: a scalar, `n` values, or one value -/
def listVals (v : Val α) (n : Nat) : Except Err (List α) :=
  match v.shape, v.flat with
  | [], x :: _ => .ok (List.replicate n x)
  | [m], x :: xs => if m = n ∧ (x :: xs).length = n then .ok (x :: xs) else if m = 1 then .ok (List.replicate n x) else .error .value
  | [m], [] => if m = n ∧ n = 0 then .ok [] else .error .value
  | _, _ => .error .value

/-- NumPy `a[idx0, idx1, …] = value` with one integer list per axis (equal lengths) -/
def dSetFancy (shape : List Nat) (a : Dense α) (idxs : List (List Int)) (v : Val α) : Except Err (Dense α) :=
  let n := (idxs.headD []).length
  match normKeys shape (zipKeys idxs n) with
  | none => .error .index
  | some keys =>
    match listVals v n with
    | .error e => .error e
    | .ok xs => .ok (assignAll a (keys.zip xs))

/-- the keys a boolean mask selects, in row-major order -/
def maskSel (shape : List Nat) (m : List Bool) : List DKey :=
  ((allKeys shape).zip m).filterMap fun kb => if kb.2 then some kb.1 else none

/-- NumPy `a[mask] = value` -/
def dSetMask (shape : List Nat) (a : Dense α) (m : List Bool) (v : Val α) : Except Err (Dense α) :=
  if m.length ≠ prod shape then .error .index
  else
    match listVals v (maskSel shape m).length with
    | .error e => .error e
    | .ok xs => .ok (assignAll a ((maskSel shape m).zip xs))

def dStep (shape : List Nat) (a : Dense α) : Op α → Except Err (Dense α)
  | .set key v => dSetitem shape a key v
  | .fancy idxs v => dSetFancy shape a idxs v
  | .mask m v => dSetMask shape a m v

/-- a history on the dense side: a rejected assignment changes nothing -/
def dRun (shape : List Nat) (a : Dense α) : List (Op α) → Dense α
  | [] => a
  | op :: ops =>
    match dStep shape a op with
    | .ok a' => dRun shape a' ops
    | .error _ => dRun shape a ops

/-! ### grammar of the property -/

def stepNonzero : KeyPart → Bool
  | .int _ => true
  | .slice _ _ c => c != some 0

/-- "broadcastable array values": the value can be broadcast to what the key selects (nothing is asked
when the key itself is rejected) -/
def valueFits (shape : List Nat) : Op α → Bool
  | .set key v =>
    match pySels (padKey key shape.length) shape with
    | .ok sels => Broadcastable v (gridShape sels)
    | .error _ => true
  | .fancy idxs v => (listVals v (idxs.headD []).length).toBool
  | .mask m v => (listVals v (maskSel shape m).length).toBool

/-- the assignments property C12 quantifies over: slices have a non-zero step; integer lists come
one per axis (at least one axis) with a common length; masks have the array's size (rank at least 1);
the data of a value has the size its shape says; the value is broadcastable to the selection -/
def WFOp (shape : List Nat) (op : Op α) : Bool :=
  valueFits shape op &&
  match op with
  | .set key v => key.all stepNonzero && v.flat.length == prod v.shape
  | .fancy idxs v => !idxs.isEmpty && idxs.length == shape.length
      && idxs.all (fun l => l.length == (idxs.headD []).length) && v.flat.length == prod v.shape
  | .mask m v => !shape.isEmpty && m.length == prod shape && v.flat.length == prod v.shape

end SparseV.Spec

/-
  SparseV.Spec.Search — what NumPy / the Array API mean by sort, argmax/argmin, unique_values,
  unique_counts and nonzero, as the simplest total functions on dense lists.  Core Lean only.
  Element type: `Int` with its order.  A 1-d array ("row") of length `n` is a `List Int`;
  the sparse view of a row is a list of stored `(position, value)` pairs plus a fill value.
-/
import SparseV.Model.Basic
namespace SparseV
namespace Spec

/-- stored entries of a 1-d array, storage order: (position, value) -/
abbrev Row := List (Nat × Int)

/-- dense value at position `i` of a row: the first stored entry at `i`, else the fill value -/
def lookupRow (es : Row) (fill : Int) (i : Nat) : Int :=
  match es.find? (fun e => e.1 == i) with
  | some e => e.2
  | none => fill

/-- densify a row of length `n` -/
def densifyRow (n : Nat) (fill : Int) (es : Row) : List Int :=
  (List.range n).map (lookupRow es fill)

def leAsc (a b : Int) : Bool := decide (a ≤ b)
def leDesc (a b : Int) : Bool := decide (b ≤ a)

/-- `np.sort(row)` (ascending) / Array-API `sort(row, descending=True)` -/
def sortD (descending : Bool) (l : List Int) : List Int :=
  l.mergeSort (if descending then leDesc else leAsc)

/-- `np.argmax`: index of the first element that is ≥ every element -/
def argmaxD (l : List Int) : Nat := l.findIdx fun v => l.all fun w => decide (w ≤ v)
/-- `np.argmin`: index of the first element that is ≤ every element -/
def argminD (l : List Int) : Nat := l.findIdx fun v => l.all fun w => decide (v ≤ w)

/-- remove adjacent duplicates -/
def dedupAdj {α : Type} [DecidableEq α] : List α → List α
  | [] => []
  | [a] => [a]
  | a :: b :: t => if a = b then dedupAdj (b :: t) else a :: dedupAdj (b :: t)

/-- `np.unique(l)`: the distinct elements in ascending order -/
def uniqueValuesD (l : List Int) : List Int := dedupAdj (l.mergeSort leAsc)

/-- `np.unique(l, return_counts=True)`: distinct elements ascending, each with its multiplicity -/
def uniqueCountsD (l : List Int) : List (Int × Nat) := (uniqueValuesD l).map fun v => (v, l.count v)

/-- `np.nonzero` / `np.argwhere`: the positions holding a non-zero value, in row-major order -/
def nonzeroD (x : COO Int) : List Idx := (allIdx x.shape).filter fun i => x.get i != 0

end Spec
end SparseV

/-
  SparseV.Spec.Create — the specification side of C19: what a correct index sample is, and what the
  floating-point code is ASSUMED to guarantee about the oracle that replaces it (these assumptions are
  asserted by the harness on every recorded run of the real `algA` / `algD` / `choice`).  Core Lean only.
-/
import SparseV.Model.Create

namespace SparseV
namespace Spec
open SparseV.Create

/-- a correct sample of `nnz` positions out of `[0, elements)`: exactly `nnz` of them, strictly
increasing (hence distinct, and in the order the COO constructor wants), all in range -/
def IsSample (nnz elements : Int) (ind : List Int) : Prop :=
  ind.length = nnz.toNat ∧ ind.Pairwise (· < ·) ∧ ∀ x ∈ ind, 0 ≤ x ∧ x < elements

/-- What is assumed of the random stream (everything else about it is arbitrary):
* `random_state.choice(elements, 1)` returns a value of `range(elements)` (NumPy's contract);
* every algD candidate `S = intp(N * (1 - Vprime))` is non-negative (`Vprime ≤ 1`: it is either
  `exp(log(U)·c)` with `U < 1`, `c > 0`, or was admitted by the code's `if Vprime <= 1`); the upper bound
  is NOT assumed — the code's integer guard `qu1 > S` is part of the model;
* the last algA sample `S = intp(N * U)` satisfies `0 ≤ S < N` (`0 ≤ U < 1`), `N` being the population left
  when the loop is over (`algAFinalN`) — only required when the selection calls algA (codes 4 and 6).
Nothing is assumed about the algA skip requests or the algD accept bits. -/
def OracleOK (nnz elements : Int) (dge1 : Bool) (o : Oracle) : Prop :=
  (0 < elements → 0 ≤ o.choice ∧ o.choice < elements) ∧
  (∀ c ∈ o.candD, 0 ≤ c.1) ∧
  (((Gen.randomBranch nnz elements dge1).1 = 4 ∨ (Gen.randomBranch nnz elements dge1).1 = 6) →
    0 ≤ o.lastA ∧
    o.lastA < algAFinalN (Gen.randomBranch nnz elements dge1).2.1 (Gen.randomBranch nnz elements dge1).2.2 o.skipsA)

instance (nnz elements : Int) (dge1 : Bool) (o : Oracle) : Decidable (OracleOK nnz elements dge1 o) := by
  unfold OracleOK; infer_instance

/-- value of the identity-like matrix `np.eye(N, M, k)` at `(i, j)` -/
def eyeVal (k : Int) (i j : Nat) : Int := if (j : Int) = i + k then 1 else 0

end Spec
end SparseV

/-
  SparseV.Spec.Matmul — what "the matrix product" means (NumPy's `a @ b` on 2-d operands), as the
  simplest possible total functions.  Core Lean only.  Elements are `Int` with `+` and `*`.
-/
namespace SparseV.Spec

/-- a dense matrix as a list of rows -/
abbrev DenseM := List (List Int)

/-- element `(r, c)` of a dense matrix (0 outside; the theorems only read inside) -/
def dget (b : DenseM) (r c : Nat) : Int := (b.getD r []).getD c 0

/-- **The specification.** `(a @ b)[i, k] = Σ_{j < n} a[i, j] * b[j, k]` for operands given as functions. -/
def matmulSpec (n : Nat) (a b : Nat → Nat → Int) (i k : Nat) : Int :=
  ((List.range n).map fun j => a i j * b j k).sum

/-- the product of an `nRow × n` and an `n × nCol` dense matrix, as a list of rows -/
def matmulD (nRow n nCol : Nat) (a b : DenseM) : DenseM :=
  (List.range nRow).map fun i => (List.range nCol).map fun k => matmulSpec n (dget a) (dget b) i k

/-- transpose of an operand given as a function -/
def tr (a : Nat → Nat → Int) : Nat → Nat → Int := fun i j => a j i

end SparseV.Spec

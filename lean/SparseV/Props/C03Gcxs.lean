/-
  Property C03 — reductions agree with NumPy: the GCXS (compressed) code path.  Property theorems only.
  Model: `SparseV.Model.GcxsReduce` (`change_compressed_axes` / `_transpose`, `_reduce_calc`, the fill correction of
  `SparseArray.reduce` with the count of missing elements per row, `_reduce_return`, `reshape`).
  The statements have the right-hand sides of `Props/C03` (`reduce_add_get`, `reduce_max_get`, `reduce_min_get`) with
  `x := tocoo g`; the reduced axes are enumerated in increasing order (`restAxes`), which is the order the code uses
  whatever order the caller wrote them in.
-/
import SparseV.Lemmas.GcxsReduce
import SparseV.Props.C03
namespace SparseV.C03
open SparseV SparseV.COO SparseV.GIx SparseV.GCXS

/-- **gcxs_from_coo_wf.**  `_from_coo`'s kernel (linearise under the axis order, stable sort, `bincount`/`cumsum`) returns
a well-formed GCXS array for well-formed duplicate-free COO input and admissible compressed axes: `indptr` monotone from
0 to nnz of length rows+1, column numbers in range and strictly increasing within each row. -/
theorem gcxs_from_coo_wf (x : COO Int) (c : List Nat) (hwf : x.WF) (hnd : (keysOf x.entries).Nodup)
    (hc : CaxesOk c x.shape.length) : (GCXS.fromCooCore x c).WF :=
  (fromCooCore_spec x c hwf hnd hc).1

/-- **gcxs_change_caxes_get.**  `change_compressed_axes` (the `_transpose` kernel without transposition) keeps the array:
well-formed result with the requested compressed axes, same shape and fill value, same value at every index. -/
theorem gcxs_change_caxes_get (g : GCXS Int) (c : List Nat) (hc : g.caxes = some c) (hwf : g.WF) (newc : List Nat)
    (hn : CaxesOk newc g.shape.length) :
    (g.changeCaxes newc).WF ∧ (g.changeCaxes newc).caxes = some newc ∧ (g.changeCaxes newc).shape = g.shape ∧
    (g.changeCaxes newc).fill = g.fill ∧ ∀ i, InB i g.shape → (g.changeCaxes newc).tocoo.get i = g.tocoo.get i :=
  changeCaxes_spec g c hc hwf newc hn

/-- **gcxs_reshape_get.**  `reshape` of a well-formed 1-d or n-d GCXS array to a shape of rank ≥ 2 and equal size
(`_1d_reshape` / `_transpose`): well-formed result of the new shape and old fill value; element `j` is the old element at
the same row-major linear location. -/
theorem gcxs_reshape_get (g : GCXS Int) (hwf : g.WF ∨ g.WF1) (shape : List Nat) (hrank : 2 ≤ shape.length)
    (hsize : prod g.shape = prod shape) :
    ((g.reshapeG shape).WF ∨ (g.reshapeG shape).WF1) ∧ (g.reshapeG shape).tocoo.shape = shape ∧
    (g.reshapeG shape).tocoo.fill = g.fill ∧
    ∀ j, InB j shape → (g.reshapeG shape).tocoo.get j = g.tocoo.get (unravel (ravel j shape) g.shape) := by
  obtain ⟨h1, _, _, h4, h5, h6⟩ := reshapeG_spec g hwf shape hrank hsize
  exact ⟨h1, h4, h5, h6⟩

/-- **gcxs_reduce_rows_spec.**  `_reduce_calc` on a well-formed CSR triple: the rows that store something, the
`ufunc.reduceat` values over `indptr` and the counts `indptr[1:] - indptr[:-1]` are the runs of the COO model
(`groupRuns` over the flat (row, value) list): every stored row once, in increasing order, with the left fold of its
values and their number (`groupRuns_spec`). -/
theorem gcxs_reduce_rows_spec (op : Int → Int → Int) (R C : Nat) (indptr indices : List Nat) (data : List Int)
    (h : CsrWF R C indptr indices data.length) :
    reduceRows op indptr data R = groupRuns op (rowList (csrEntries indptr indices data)) :=
  reduceRows_eq_groupRuns op R C indptr indices data h

/-- the reduced axes in the order the GCXS route enumerates them (increasing) are the caller's axes when those are
written in increasing order -/
theorem gcxs_reduced_axes_sorted (n : Nat) (axes : List Nat) (hp : axes.Pairwise (· < ·)) (hr : ∀ a ∈ axes, a < n) :
    restAxes n ((List.range n).filter fun a => !axes.contains a) = axes := by
  apply eq_of_sorted_mem _ _ (List.pairwise_lt_range.sublist List.filter_sublist) hp
  intro x
  have hcf : ∀ (l : List Nat) (y : Nat), (!l.contains y) = true ↔ y ∉ l := by intro l y; simp
  have hkmem : ∀ y, y ∈ (List.range n).filter (fun a => !axes.contains a) ↔ y < n ∧ y ∉ axes := by
    intro y
    rw [List.mem_filter, List.mem_range]
    simp
  show x ∈ (List.range n).filter (fun a => !((List.range n).filter fun a => !axes.contains a).contains a) ↔ x ∈ axes
  rw [List.mem_filter, List.mem_range]
  constructor
  · rintro ⟨hx, h⟩
    have hnk : x ∉ (List.range n).filter (fun a => !axes.contains a) := (hcf _ _).mp h
    rw [hkmem] at hnk
    apply Classical.byContradiction
    intro hnot
    exact hnk ⟨hx, hnot⟩
  · intro hx
    refine ⟨hr x hx, ?_⟩
    have hnk : x ∉ (List.range n).filter (fun a => !axes.contains a) := by
      rw [hkmem]; exact fun h => h.2 hx
    exact (hcf _ _).mpr hnk

/-- **gcxs_reduce_add_get** (`sum` over a non-empty proper subset of the axes, `keepdims=False`, GCXS route).  For a
well-formed `g`: the result `out` is well-formed, has the kept extents as shape, fill `g.fill * (number of reduced
cells)`, and `out[j] = Σ_{r ∈ allIdx (reduced extents)} g[kept coordinates j, reduced coordinates r]` — the right-hand side
of `reduce_add_get` with `x = tocoo g`.  Covers `change_compressed_axes`, `reduceat` over `indptr`, the count of missing
(fill) elements per row, pruning of fill-valued results, and the reshape of `_reduce_return`. -/
theorem gcxs_reduce_add_get (g : GCXS Int) (hwf : g.WF) (axes : List Nat)
    (hne : ∃ a ∈ axes, a < g.shape.length)
    (hk : (List.range g.shape.length).filter (fun a => !axes.contains a) ≠ []) :
    ∃ out : GCXS Int,
      g.reduceMain .add axes false = .ok (.arr out) ∧ (out.WF ∨ out.WF1) ∧
      out.tocoo.shape = gather g.shape ((List.range g.shape.length).filter fun a => !axes.contains a) ∧
      out.tocoo.fill = g.fill *
        (prod (gather g.shape (restAxes g.shape.length ((List.range g.shape.length).filter fun a => !axes.contains a))) : Int) ∧
      ∀ j, InB j (gather g.shape ((List.range g.shape.length).filter fun a => !axes.contains a)) →
        out.tocoo.get j =
          ((allIdx (gather g.shape (restAxes g.shape.length ((List.range g.shape.length).filter fun a => !axes.contains a)))).map
            fun r => g.tocoo.get (gather (j ++ r)
              (invPerm (((List.range g.shape.length).filter fun a => !axes.contains a) ++
                restAxes g.shape.length ((List.range g.shape.length).filter fun a => !axes.contains a))))).sum := by
  obtain ⟨out, a, h1, h2, h3, h4, h5, h6, h7, h8, h9, h10⟩ :=
    reduceMain_lift .add g hwf axes (by simp [RedOp.super?]) (by simp [RedOp.super?]) hne hk
  obtain ⟨_, hRf, hRget⟩ := rowReduce_add_get a _ _ h5 h6 h7
  rw [h8] at hRf hRget
  refine ⟨out, h1, h2, h3, by rw [h4, hRf], fun j hj => ?_⟩
  rw [h9 j hj, hRget, ← allIdx_ravel, List.map_map]
  congr 1
  apply List.map_congr_left
  intro r hr
  exact h10 j r hj (mem_allIdx.mp hr)

theorem prod_pos_of_no_zero (s : List Nat) : ∀ (axes : List Nat), axes.any (fun a => s.getD a 0 == 0) = false →
    0 < prod (gather s axes)
  | [], _ => by simp [gather, prod]
  | a :: axes, h => by
    rw [List.any_cons, Bool.or_eq_false_iff] at h
    have h1 : s.getD a 0 ≠ 0 := by simpa using h.1
    have ih := prod_pos_of_no_zero s axes h.2
    simp only [gather, List.map_cons, prod] at ih ⊢
    exact Nat.mul_pos (Nat.pos_of_ne_zero h1) ih

/-- the selecting reductions (max, min) through the GCXS route: the result bounds every cell of the fibre and is attained -/
theorem gcxs_reduce_sel_get (op : RedOp) (hsup : op.super? = none) (le : Int → Int → Prop)
    (hsel : ∀ a b, op.ap a b = a ∨ op.ap a b = b) (hl : ∀ a b, le a (op.ap a b)) (hr' : ∀ a b, le b (op.ap a b))
    (htrans : ∀ a b c, le a b → le b c → le a c) (hrefl : ∀ a, le a a) (hidem : ∀ a, op.ap a a = a)
    (g : GCXS Int) (hwf : g.WF) (axes : List Nat)
    (hne : ∃ a ∈ axes, a < g.shape.length)
    (hk : (List.range g.shape.length).filter (fun a => !axes.contains a) ≠ [])
    (hpos : axes.any (fun a => g.shape.getD a 0 == 0) = false) :
    ∃ out : GCXS Int,
      g.reduceMain op axes false = .ok (.arr out) ∧ (out.WF ∨ out.WF1) ∧
      out.tocoo.shape = gather g.shape ((List.range g.shape.length).filter fun a => !axes.contains a) ∧
      out.tocoo.fill = g.fill ∧
      ∀ j, InB j (gather g.shape ((List.range g.shape.length).filter fun a => !axes.contains a)) →
        (∀ r ∈ allIdx (gather g.shape (restAxes g.shape.length ((List.range g.shape.length).filter fun a => !axes.contains a))),
          le (g.tocoo.get (gather (j ++ r)
            (invPerm (((List.range g.shape.length).filter fun a => !axes.contains a) ++
              restAxes g.shape.length ((List.range g.shape.length).filter fun a => !axes.contains a))))) (out.tocoo.get j)) ∧
        ∃ r ∈ allIdx (gather g.shape (restAxes g.shape.length ((List.range g.shape.length).filter fun a => !axes.contains a))),
          g.tocoo.get (gather (j ++ r)
            (invPerm (((List.range g.shape.length).filter fun a => !axes.contains a) ++
              restAxes g.shape.length ((List.range g.shape.length).filter fun a => !axes.contains a)))) = out.tocoo.get j := by
  obtain ⟨out, a, h1, h2, h3, h4, h5, h6, h7, h8, h9, h10⟩ :=
    reduceMain_lift op g hwf axes (by simp [hidem]) (fun h => by rw [hpos] at h; exact absurd h.2 (by simp)) hne hk
  -- no reduced extent is 0: the reduced axes (increasing order) are among the caller's axes
  have hC : 0 < prod (gather g.shape (restAxes g.shape.length ((List.range g.shape.length).filter fun a => !axes.contains a))) := by
    apply prod_pos_of_no_zero
    rw [List.any_eq_false] at hpos ⊢
    intro x hx
    apply hpos
    have h1 := (List.mem_filter.mp hx)
    have hxr := List.mem_range.mp h1.1
    apply Classical.byContradiction
    intro hnot
    have : x ∈ (List.range g.shape.length).filter fun a => !axes.contains a :=
      List.mem_filter.mpr ⟨List.mem_range.mpr hxr, by simpa using hnot⟩
    have h2 := h1.2
    have hcf : ∀ (l : List Nat) (y : Nat), (!l.contains y) = true ↔ y ∉ l := by intro l y; simp
    exact (hcf _ _).mp h2 this
  obtain ⟨_, hRf, hRget⟩ := rowReduce_sel_get op hsup le hsel hl hr' htrans hrefl a _ _ h5 h6 h7 hC
  rw [h8] at hRf hRget
  refine ⟨out, h1, h2, h3, by rw [h4, hRf], fun j hj => ?_⟩
  obtain ⟨hb, c, hc, hatt⟩ := hRget (ravel j (gather g.shape ((List.range g.shape.length).filter fun a => !axes.contains a)))
  rw [h9 j hj]
  constructor
  · intro r hr
    have hrin := mem_allIdx.mp hr
    rw [← h10 j r hj hrin]
    exact hb _ (ravel_lt hrin)
  · refine ⟨unravel c _, mem_allIdx.mpr (unravel_InB _ _ hc), ?_⟩
    rw [← h10 j _ hj (unravel_InB _ _ hc), ravel_unravel _ _ hc]
    exact hatt

/-- **gcxs_reduce_max_get** (`max` over a non-empty proper subset of the axes none of which has extent 0, GCXS route):
fill unchanged, element `j` is the maximum over the fibre — the right-hand side of `reduce_max_get` with `x = tocoo g`. -/
theorem gcxs_reduce_max_get (g : GCXS Int) (hwf : g.WF) (axes : List Nat)
    (hne : ∃ a ∈ axes, a < g.shape.length)
    (hk : (List.range g.shape.length).filter (fun a => !axes.contains a) ≠ [])
    (hpos : axes.any (fun a => g.shape.getD a 0 == 0) = false) :
    ∃ out : GCXS Int,
      g.reduceMain .max axes false = .ok (.arr out) ∧ (out.WF ∨ out.WF1) ∧
      out.tocoo.shape = gather g.shape ((List.range g.shape.length).filter fun a => !axes.contains a) ∧
      out.tocoo.fill = g.fill ∧
      ∀ j, InB j (gather g.shape ((List.range g.shape.length).filter fun a => !axes.contains a)) →
        (∀ r ∈ allIdx (gather g.shape (restAxes g.shape.length ((List.range g.shape.length).filter fun a => !axes.contains a))),
          g.tocoo.get (gather (j ++ r)
            (invPerm (((List.range g.shape.length).filter fun a => !axes.contains a) ++
              restAxes g.shape.length ((List.range g.shape.length).filter fun a => !axes.contains a)))) ≤ out.tocoo.get j) ∧
        ∃ r ∈ allIdx (gather g.shape (restAxes g.shape.length ((List.range g.shape.length).filter fun a => !axes.contains a))),
          g.tocoo.get (gather (j ++ r)
            (invPerm (((List.range g.shape.length).filter fun a => !axes.contains a) ++
              restAxes g.shape.length ((List.range g.shape.length).filter fun a => !axes.contains a)))) = out.tocoo.get j :=
  gcxs_reduce_sel_get .max rfl (· ≤ ·)
    (fun a b => by simp only [RedOp.ap]; omega) (fun a b => by simp only [RedOp.ap]; omega)
    (fun a b => by simp only [RedOp.ap]; omega) (fun a b c h1 h2 => Int.le_trans h1 h2) Int.le_refl
    (fun a => by simp only [RedOp.ap]; omega) g hwf axes hne hk hpos

/-- **gcxs_reduce_min_get**: likewise the minimum. -/
theorem gcxs_reduce_min_get (g : GCXS Int) (hwf : g.WF) (axes : List Nat)
    (hne : ∃ a ∈ axes, a < g.shape.length)
    (hk : (List.range g.shape.length).filter (fun a => !axes.contains a) ≠ [])
    (hpos : axes.any (fun a => g.shape.getD a 0 == 0) = false) :
    ∃ out : GCXS Int,
      g.reduceMain .min axes false = .ok (.arr out) ∧ (out.WF ∨ out.WF1) ∧
      out.tocoo.shape = gather g.shape ((List.range g.shape.length).filter fun a => !axes.contains a) ∧
      out.tocoo.fill = g.fill ∧
      ∀ j, InB j (gather g.shape ((List.range g.shape.length).filter fun a => !axes.contains a)) →
        (∀ r ∈ allIdx (gather g.shape (restAxes g.shape.length ((List.range g.shape.length).filter fun a => !axes.contains a))),
          out.tocoo.get j ≤ g.tocoo.get (gather (j ++ r)
            (invPerm (((List.range g.shape.length).filter fun a => !axes.contains a) ++
              restAxes g.shape.length ((List.range g.shape.length).filter fun a => !axes.contains a))))) ∧
        ∃ r ∈ allIdx (gather g.shape (restAxes g.shape.length ((List.range g.shape.length).filter fun a => !axes.contains a))),
          g.tocoo.get (gather (j ++ r)
            (invPerm (((List.range g.shape.length).filter fun a => !axes.contains a) ++
              restAxes g.shape.length ((List.range g.shape.length).filter fun a => !axes.contains a)))) = out.tocoo.get j :=
  gcxs_reduce_sel_get .min rfl (· ≥ ·)
    (fun a b => by simp only [RedOp.ap]; omega) (fun a b => by simp only [RedOp.ap]; omega)
    (fun a b => by simp only [RedOp.ap]; omega) (fun a b c h1 h2 => Int.le_trans h2 h1) Int.le_refl
    (fun a => by simp only [RedOp.ap]; omega) g hwf axes hne hk hpos

/-- **gcxs_reduce_rejects.**  The GCXS route raises `ValueError` exactly where the COO route does: an inadmissible ufunc
(`op fill fill ≠ fill` without super ufunc), or a ufunc without identity over an axis of extent 0. -/
theorem gcxs_reduce_rejects (op : RedOp) (g : GCXS Int) (axes : List Nat) (kd : Bool) (hsup : op.super? = none)
    (h : op.ap g.fill g.fill ≠ g.fill ∨ axes.any (fun a => g.shape.getD a 0 == 0) = true) :
    g.reduceMain op axes kd = .error .value := by
  unfold GCXS.reduceMain
  by_cases h1 : op.ap g.fill g.fill ≠ g.fill ∧ op.super?.isNone
  · rw [if_pos h1]
  · rw [if_neg h1]
    rcases h with h | h
    · exact absurd ⟨h, by simp [hsup]⟩ h1
    · simp only []
      rw [if_pos ⟨by simp [hsup], h⟩]

/-! ### non-vacuity -/

/-- a 2×3×2 array with `compressed_axes = (1,)` and fill value 1: three stored elements -/
def gR : GCXS Int :=
  { shape := [2, 3, 2], caxes := some [1], indptr := [0, 1, 1, 3], indices := [1, 0, 3], data := [5, 7, 2], fill := 1 }

/-- `gR` is well-formed and the hypotheses of `gcxs_reduce_add_get` hold for `axis=(1,)`.  (`sum(axis=(1,))` goes through
`change_compressed_axes((0, 2))`, `reduceat`, the count of missing elements, pruning — the result `3` of row `[1, 0]`
equals the new fill value `3·1` and is not stored — and the 1-d → 2-d reshape; the driver evaluates the model to
`indptr = [0, 2, 3]`, `indices = [0, 1, 1]`, `data = [9, 7, 4]`, `fill = 3`, `compressed_axes = (0,)`, which is what the
real code returns.) -/
example : gR.WF ∧ (∃ a ∈ [1], a < gR.shape.length) ∧
    (List.range gR.shape.length).filter (fun a => !([1] : List Nat).contains a) ≠ [] ∧
    reduceRows (· + ·) [0, 1, 2, 2, 3] [7, 5, 2] 4 = [(0, 7, 1), (1, 5, 1), (3, 2, 1)] := by decide

/-- … and the theorem then gives `out[0, 1] = g[0,0,1] + g[0,1,1] + g[0,2,1]` -/
example : ∃ out, gR.reduceMain .add [1] false = .ok (.arr out) ∧
    out.tocoo.get [0, 1] = gR.tocoo.get [0, 0, 1] + (gR.tocoo.get [0, 1, 1] + (gR.tocoo.get [0, 2, 1] + 0)) := by
  obtain ⟨out, h1, _, _, _, h5⟩ := gcxs_reduce_add_get gR (by decide) [1] (by decide) (by decide)
  refine ⟨out, h1, ?_⟩
  rw [h5 [0, 1] (by decide)]
  rfl

end SparseV.C03

/-
  Property C09 — joining and structural extraction.  Property theorems only.
-/
import SparseV.Lemmas.Join
namespace SparseV.C09
open SparseV SparseV.COO
variable {α : Type}

/-- **triu_get.** `triu(x, k)` keeps exactly the elements with `i + k ≤ j` (last two axes) and is
zero elsewhere, for every rank ≥ 2, every `k`, every pattern. No `Nodup`/order assumption. -/
theorem triu_get (x : COO Int) (k : Int) (j : Idx) :
    (x.triuCore k).get j =
      if (j.getD (x.shape.length - 2) 0 : Int) + k ≤ (j.getD (x.shape.length - 1) 0 : Int)
      then COO.lookup x.entries 0 j else 0 := by
  unfold COO.triuCore COO.get
  have h := lookup_filter
    (fun i => decide ((i.getD (x.shape.length - 2) 0 : Int) + k ≤ (i.getD (x.shape.length - 1) 0 : Int)))
    x.entries 0 j
  simp only [decide_eq_true_eq] at h
  exact h

/-- **tril_get.** -/
theorem tril_get (x : COO Int) (k : Int) (j : Idx) :
    (x.trilCore k).get j =
      if (j.getD (x.shape.length - 2) 0 : Int) + k ≥ (j.getD (x.shape.length - 1) 0 : Int)
      then COO.lookup x.entries 0 j else 0 := by
  unfold COO.trilCore COO.get
  have h := lookup_filter
    (fun i => decide ((i.getD (x.shape.length - 2) 0 : Int) + k ≥ (i.getD (x.shape.length - 1) 0 : Int)))
    x.entries 0 j
  simp only [decide_eq_true_eq] at h
  exact h

/-- `triu`/`tril` promise `sorted=True`: the promise is justified because filtering keeps the
relative order of the stored entries (the result's key list is a sublist of the operand's). -/
theorem triu_keys_sublist (x : COO Int) (k : Int) : (x.triuCore k).keys.Sublist x.keys := by
  unfold COO.triuCore COO.keys
  exact List.Sublist.map _ List.filter_sublist

theorem tril_keys_sublist (x : COO Int) (k : Int) : (x.trilCore k).keys.Sublist x.keys := by
  unfold COO.trilCore COO.keys
  exact List.Sublist.map _ List.filter_sublist

/-- hence canonical (strictly increasing) keys stay canonical -/
theorem triu_sorted (x : COO Int) (k : Int) (h : x.keys.Pairwise (· < ·)) :
    (x.triuCore k).keys.Pairwise (· < ·) := h.sublist (triu_keys_sublist x k)

/-- non-vacuity -/
example : ((⟨[2, 2], [([0, 0], 1), ([0, 1], 2), ([1, 0], 3), ([1, 1], 4)], 0⟩ : COO Int).triuCore 1).entries
    = [([0, 1], 2)] := by decide


/-- **concat_get.** `concatenate(x0 :: rest, axis)` for ANY number of members (members without stored
entries and members of extent 0 along `axis` included), any rank, any `axis < rank`, both code paths
(`axis = 0`: `sorted=True` promised, no sort; `axis ≠ 0`: the constructor sorts).  Members are
well-formed with distinct stored indices, agree with `x0` off `axis` (`shape.set axis 0` equal) and on
the fill value (what `concatenate` validates).  Then: the result shape is `x0.shape` with extent
`Σ extents` along `axis`, the fill is `x0.fill`, and every in-bounds result index `j` reads member
`k` at `j` with `j[axis] - offset_k`, where `(k, j[axis] - offset_k) = locate extents j[axis]` is the
member whose range `[offset_k, offset_k + extent_k)` contains `j[axis]` (`locate_spec`,
`locate_unique`); that source index is in bounds of member `k`. -/
theorem concat_get (x0 : COO α) (rest : List (COO α)) (axis : Nat)
    (hwf : ∀ y ∈ x0 :: rest, y.WF) (hnd : ∀ y ∈ x0 :: rest, (keysOf y.entries).Nodup)
    (hax : axis < x0.shape.length)
    (hshape : ∀ y ∈ rest, y.shape.set axis 0 = x0.shape.set axis 0)
    (hfill : ∀ y ∈ rest, y.fill = x0.fill) :
    (concatCore x0 rest axis).shape = x0.shape.set axis (exts (x0 :: rest) axis).sum ∧
    (concatCore x0 rest axis).fill = x0.fill ∧
    ∀ j, InB j (x0.shape.set axis (exts (x0 :: rest) axis).sum) →
      (locate (exts (x0 :: rest) axis) (j.getD axis 0)).1 < (x0 :: rest).length ∧
      InB (j.set axis (locate (exts (x0 :: rest) axis) (j.getD axis 0)).2)
        ((x0 :: rest).getD (locate (exts (x0 :: rest) axis) (j.getD axis 0)).1 x0).shape ∧
      (concatCore x0 rest axis).get j =
        ((x0 :: rest).getD (locate (exts (x0 :: rest) axis) (j.getD axis 0)).1 x0).get
          (j.set axis (locate (exts (x0 :: rest) axis) (j.getD axis 0)).2) := by
  have hshape' : ∀ y ∈ x0 :: rest, y.shape.set axis 0 = x0.shape.set axis 0 := by
    intro y hy
    rcases List.mem_cons.mp hy with h | h
    · rw [h]
    · exact hshape y h
  have hfill' : ∀ y ∈ x0 :: rest, y.fill = x0.fill := by
    intro y hy
    rcases List.mem_cons.mp hy with h | h
    · rw [h]
    · exact hfill y h
  have hrank : ∀ y ∈ x0 :: rest, axis < y.shape.length := by
    intro y hy
    have := congrArg List.length (hshape' y hy)
    simp only [List.length_set] at this
    omega
  have hsnd : (concatCore.go axis (x0 :: rest) 0).2 = (exts (x0 :: rest) axis).sum := by
    rw [concat_go_snd]; omega
  refine ⟨?_, ?_, ?_⟩
  · simp only [concatCore, hsnd]
  · simp only [concatCore]
  · intro j hj
    have hjl : axis < j.length := by rw [InB_length hj]; simpa using hax
    have hjax : j.getD axis 0 < (exts (x0 :: rest) axis).sum := by
      have := InB_getD_lt hj (a := axis) (by simpa using hax)
      rwa [getD_set_eq _ _ _ hax] at this
    obtain ⟨hk, hp, _⟩ := locate_spec _ _ hjax
    have hklen : (locate (exts (x0 :: rest) axis) (j.getD axis 0)).1 < (x0 :: rest).length := by
      simpa [exts] using hk
    have hp' : (locate (exts (x0 :: rest) axis) (j.getD axis 0)).2 <
        ((x0 :: rest).getD (locate (exts (x0 :: rest) axis) (j.getD axis 0)).1 x0).shape.getD axis 0 := by
      rw [← map_getD (fun y : COO α => y.shape.getD axis 0) (x0 :: rest) _ x0 hklen]
      exact hp
    have hget : (concatCore x0 rest axis).get j =
        lookup ((x0 :: rest).getD (locate (exts (x0 :: rest) axis) (j.getD axis 0)).1 x0).entries x0.fill
          (j.set axis (locate (exts (x0 :: rest) axis) (j.getD axis 0)).2) := by
      have hgo := concat_go_lookup axis x0 (x0 :: rest) 0 x0.fill j hwf hrank (Nat.zero_le _) (by omega)
      simp only [Nat.sub_zero] at hgo
      simp only [concatCore, COO.get]
      by_cases h0 : axis = 0
      · simp only [h0, if_true] at hgo ⊢
        exact hgo
      · simp only [h0, if_false]
        rw [lookup_sortEntries _ _ _ _ (concat_go_nodup axis (x0 :: rest) 0 hwf hrank hnd)]
        exact hgo
    clear hp
    generalize hkk : (locate (exts (x0 :: rest) axis) (j.getD axis 0)).1 = k at *
    generalize hpp : (locate (exts (x0 :: rest) axis) (j.getD axis 0)).2 = p at *
    have hmem : (x0 :: rest).getD k x0 ∈ x0 :: rest := by
      rw [List.getD_eq_getElem?_getD, List.getElem?_eq_getElem hklen]
      exact List.getElem_mem hklen
    generalize (x0 :: rest).getD k x0 = y at *
    refine ⟨hklen, ?_, ?_⟩
    · -- the source index is inside the member
      have hys := hshape' y hmem
      rw [InB_iff_getD_j] at hj ⊢
      have hyl : y.shape.length = x0.shape.length := by
        have := congrArg List.length hys
        simpa using this
      refine ⟨by simp only [List.length_set]; rw [hj.1]; simp [hyl], fun a ha => ?_⟩
      by_cases haa : a = axis
      · subst haa
        rw [getD_set_eq _ _ _ hjl]
        exact hp'
      · have h1 := hj.2 a (by simp only [List.length_set]; omega)
        rw [getD_set_ne _ _ _ _ (Ne.symm haa)] at h1 ⊢
        have := congrArg (fun l => List.getD l a 0) hys
        simp only [getD_set_ne _ _ _ _ (Ne.symm haa)] at this
        omega
    · rw [hget, COO.get, hfill' y hmem]


/-- **concat_axis0_sorted.** For `axis = 0` `concatenate` passes `sorted=True` and the constructor does
not sort.  The promise is justified: if every member's entries are in canonical order (strictly
increasing linear location in the member's own shape), so is the concatenated entry list in the
result shape. -/
theorem concat_axis0_sorted (x0 : COO α) (rest : List (COO α))
    (hwf : ∀ y ∈ x0 :: rest, y.WF) (hax : 0 < x0.shape.length)
    (hshape : ∀ y ∈ rest, y.shape.set 0 0 = x0.shape.set 0 0)
    (hs : ∀ y ∈ x0 :: rest, SortedLin y.shape y.entries) :
    SortedLin (concatCore x0 rest 0).shape (concatCore x0 rest 0).entries := by
  match hx : x0.shape, hax with
  | d0 :: ds, _ =>
    have hsh : ∀ y ∈ x0 :: rest, ∃ dy, y.shape = dy :: ds := by
      intro y hy
      rcases List.mem_cons.mp hy with h | h
      · exact ⟨d0, by rw [h, hx]⟩
      · have := hshape y h
        rw [hx] at this
        match hys : y.shape with
        | [] => rw [hys] at this; simp at this
        | dy :: t =>
          rw [hys] at this
          simp only [List.set_cons_zero, List.cons.injEq, true_and] at this
          exact ⟨dy, by rw [this]⟩
    simp only [concatCore, if_true, hx, List.set_cons_zero]
    exact (concat_go_sorted0 ds _ (x0 :: rest) 0 hwf hsh hs).1

/-- **stack_get.** `stack(x0 :: rest, axis)` for any number `m = rest.length + 1` of members of equal
shape and fill, any `axis ≤ rank` (both code paths: `axis = 0` unsorted promise, otherwise sorted):
shape `insertAt x0.shape axis m`, fill `x0.fill`, and element `insertAt i axis k` (member number `k`
inserted at position `axis` of `i`) of the result is element `i` of member `k`.
`stack_index_form` shows every in-bounds result index has this form. -/
theorem stack_get (x0 : COO α) (rest : List (COO α)) (axis : Nat)
    (hwf : ∀ y ∈ x0 :: rest, y.WF) (hnd : ∀ y ∈ x0 :: rest, (keysOf y.entries).Nodup)
    (hax : axis ≤ x0.shape.length)
    (hshape : ∀ y ∈ rest, y.shape = x0.shape)
    (hfill : ∀ y ∈ rest, y.fill = x0.fill) :
    (stackCore x0 rest axis).shape = insertAt x0.shape axis (rest.length + 1) ∧
    (stackCore x0 rest axis).fill = x0.fill ∧
    ∀ (k : Nat) (i : Idx), k < rest.length + 1 → InB i x0.shape →
      InB (insertAt i axis k) (stackCore x0 rest axis).shape ∧
      (stackCore x0 rest axis).get (insertAt i axis k) = ((x0 :: rest).getD k x0).get i := by
  have hshape' : ∀ y ∈ x0 :: rest, y.shape = x0.shape := by
    intro y hy
    rcases List.mem_cons.mp hy with h | h
    · rw [h]
    · exact hshape y h
  have hfill' : ∀ y ∈ x0 :: rest, y.fill = x0.fill := by
    intro y hy
    rcases List.mem_cons.mp hy with h | h
    · rw [h]
    · exact hfill y h
  have hlen : ∀ y ∈ x0 :: rest, ∀ e ∈ y.entries, axis ≤ e.1.length := by
    intro y hy e he
    rw [InB_length (hwf y hy e he), hshape' y hy]
    exact hax
  have hes : ((List.zip (List.range (x0 :: rest).length) (x0 :: rest)).flatMap fun p =>
      mapIdx (fun i => insertAt i axis p.1) p.2.entries) = stackGo axis 0 (x0 :: rest) := by
    rw [stackGo, List.range_eq_range']
  refine ⟨by simp [stackCore], by simp [stackCore], ?_⟩
  intro k i hk hi
  have hil : axis ≤ i.length := by rw [InB_length hi]; exact hax
  refine ⟨?_, ?_⟩
  · simp only [stackCore, List.length_cons]
    exact (InB_insertAt_j i x0.shape axis k _ hax).mpr ⟨hk, hi⟩
  · have hgo := stackGo_lookup axis x0 (x0 :: rest) 0 x0.fill i k hlen hil (Nat.zero_le _)
      (by simp only [List.length_cons]; omega)
    have hmem : (x0 :: rest).getD k x0 ∈ x0 :: rest := by
      have hk' : k < (x0 :: rest).length := by simpa using hk
      rw [List.getD_eq_getElem?_getD, List.getElem?_eq_getElem hk']
      exact List.getElem_mem hk'
    simp only [Nat.sub_zero] at hgo
    rw [COO.get, COO.get, hfill' _ hmem, ← hgo]
    simp only [stackCore]
    rw [hes]
    by_cases h0 : axis = 0
    · simp only [h0, if_true]
    · simp only [h0, if_false]
      exact lookup_sortEntries _ _ _ _ (stackGo_nodup axis (x0 :: rest) 0 hlen hnd)

/-- every in-bounds index of the stacked array is of the form used in `stack_get` -/
theorem stack_index_form (s : List Nat) (axis m : Nat) (hax : axis ≤ s.length) (j : Idx)
    (hj : InB j (insertAt s axis m)) :
    j = insertAt (j.eraseIdx axis) axis (j.getD axis 0) ∧ j.getD axis 0 < m ∧ InB (j.eraseIdx axis) s := by
  have hl : axis < j.length := by
    rw [InB_length hj]; simp [insertAt]; omega
  have h1 := (insertAt_eraseIdx j axis hl).symm
  refine ⟨h1, ?_⟩
  rw [h1] at hj
  exact (InB_insertAt_j _ s axis _ m hax).mp hj



/-- **diagonal_get.** `diagonal(x, offset, axis1, axis2)` for every rank ≥ 2, every offset (positive,
zero, negative, beyond the extent), both orders of the two axes: the result has the other axes in
order followed by an axis of length `max(d - |offset|, 0)`; the fill is unchanged; the in-bounds
result element `j = others ++ [t]` reads the operand element `diagSrc … j`, whose coordinates are
`axis1 ↦ t + max(-offset, 0)`, `axis2 ↦ t + max(offset, 0)`, kept axis number `m` ↦ `j[m]`
(`diagSrc_spec`), and which is in bounds.  The constructor's sort and duplicate-summing passes are
covered (`lookup_build_distinct`: they do nothing to distinct in-bounds keys). -/
theorem diagonal_get [Add α] [DecidableEq α] (x : COO α) (offset : Int) (a1 a2 d : Nat)
    (hwf : x.WF) (hnd : (keysOf x.entries).Nodup) (hne : a1 ≠ a2)
    (h1 : a1 < x.shape.length) (h2 : a2 < x.shape.length)
    (hd1 : x.shape.getD a1 0 = d) (hd2 : x.shape.getD a2 0 = d) :
    (x.diagonalCore offset a1 a2).shape
      = gather x.shape (diagOthers x.shape.length a1 a2) ++ [((d : Int) - (offset.natAbs : Int)).toNat] ∧
    (x.diagonalCore offset a1 a2).fill = x.fill ∧
    ∀ j, InB j (gather x.shape (diagOthers x.shape.length a1 a2) ++ [((d : Int) - (offset.natAbs : Int)).toNat]) →
      InB (diagSrc x.shape.length a1 a2 offset j) x.shape ∧
      (x.diagonalCore offset a1 a2).get j = x.get (diagSrc x.shape.length a1 a2 offset j) := by
  have hpos : x.shape.getD (if offset ≥ 0 then a1 else a2) 0 = d := by
    by_cases ho : offset ≥ 0 <;> simp only [ho, if_true, if_false, hd1, hd2]
  have hshape : (gather x.shape (diagAxes x.shape.length a1 a2 offset)).set ((gather x.shape (diagAxes x.shape.length a1 a2 offset)).length - 1)
      (((gather x.shape (diagAxes x.shape.length a1 a2 offset)).getD ((gather x.shape (diagAxes x.shape.length a1 a2 offset)).length - 1) 0 : Int)
        - (offset.natAbs : Int)).toNat
      = gather x.shape (diagOthers x.shape.length a1 a2) ++ [((d : Int) - (offset.natAbs : Int)).toNat] := by
    have hl : (gather x.shape (diagAxes x.shape.length a1 a2 offset)).length - 1 = (gather x.shape (diagOthers x.shape.length a1 a2)).length := by
      simp [gather, diagAxes]
    rw [hl]
    rw [diagAxes, gather_append]
    rw [List.set_append_right _ _ (Nat.le_refl _)]
    simp [gather, List.getD_eq_getElem?_getD] at hpos ⊢
    rw [hpos]
  have hcore : x.diagonalCore offset a1 a2 = COO.build
      ((gather x.shape (diagAxes x.shape.length a1 a2 offset)).set ((gather x.shape (diagAxes x.shape.length a1 a2 offset)).length - 1)
      (((gather x.shape (diagAxes x.shape.length a1 a2 offset)).getD ((gather x.shape (diagAxes x.shape.length a1 a2 offset)).length - 1) 0 : Int)
        - (offset.natAbs : Int)).toNat)
      (mapIdx (gather · (diagAxes x.shape.length a1 a2 offset))
        (x.entries.filter fun e => decide ((e.1.getD a1 0 : Int) + offset = (e.1.getD a2 0 : Int)))) x.fill := rfl
  rw [hcore, hshape]
  refine ⟨rfl, rfl, ?_⟩
  intro j hj
  have hjl : j.length = (diagOthers x.shape.length a1 a2).length + 1 := by
    rw [InB_length hj]; simp [gather]
  have hjt : (j.getD (diagOthers x.shape.length a1 a2).length 0 : Int) < (d : Int) - (offset.natAbs : Int) := by
    have := InB_getD_lt hj (a := (gather x.shape (diagOthers x.shape.length a1 a2)).length) (by simp)
    rw [getD_append_last, gather_length_j] at this
    omega
  have hsrc : InB (diagSrc x.shape.length a1 a2 offset j) x.shape := by
    rw [InB_iff_getD_j]
    refine ⟨diagSrc_length _ _ _ _ _, fun a ha => ?_⟩
    by_cases ha1 : a = a1
    · subst ha1; rw [diagSrc_a1 _ _ _ _ _ h1, hd1]; omega
    · by_cases ha2 : a = a2
      · subst ha2; rw [diagSrc_a2 _ _ _ _ _ h2 hne, hd2]; omega
      · have hm : a ∈ diagOthers x.shape.length a1 a2 := mem_diagOthers.mpr ⟨ha, ha1, ha2⟩
        have hlt := List.idxOf_lt_length_of_mem hm
        have := diagSrc_other x.shape.length a1 a2 offset j _ hlt
        rw [List.getElem_idxOf hlt] at this
        rw [this]
        have hb := InB_getD_lt hj (a := (diagOthers x.shape.length a1 a2).idxOf a) (by simp [gather]; omega)
        rw [List.getD_eq_getElem?_getD (l := _ ++ _), List.getElem?_append_left (by simpa [gather] using hlt)] at hb
        rw [← List.getD_eq_getElem?_getD, gather_getD _ _ _ hlt] at hb
        rw [List.getD_eq_getElem?_getD (l := diagOthers _ _ _), List.getElem?_eq_getElem hlt, Option.getD_some,
          List.getElem_idxOf hlt] at hb
        exact hb
  refine ⟨hsrc, ?_⟩
  -- the selected entries and their rewritten keys
  have hselnd : (keysOf (x.entries.filter fun e => decide ((e.1.getD a1 0 : Int) + offset = (e.1.getD a2 0 : Int)))).Nodup :=
    List.Nodup.sublist (List.Sublist.map _ List.filter_sublist) hnd
  have hinv : ∀ e ∈ x.entries.filter (fun e => decide ((e.1.getD a1 0 : Int) + offset = (e.1.getD a2 0 : Int))),
      ∀ j', (fun i => some (gather i (diagAxes x.shape.length a1 a2 offset))) e.1 = some j' →
        diagSrc x.shape.length a1 a2 offset j' = e.1 := by
    intro e he j' hg
    simp only [Option.some.injEq] at hg
    subst hg
    obtain ⟨hex, hP⟩ := List.mem_filter.mp he
    exact diagSrc_gather _ _ _ _ _ (InB_length (hwf e hex)) h1 h2 (by simpa using hP)
  rw [lookup_build_distinct]
  · rw [mapIdx_eq_rewrite, rewrite_lookup _ _ _ (diagSrc x.shape.length a1 a2 offset) j hinv
      (by simp only [gather_diagSrc _ _ _ _ j hjl h1 h2 hne])]
    have := lookup_filter (fun i => decide ((i.getD a1 0 : Int) + offset = (i.getD a2 0 : Int))) x.entries x.fill
      (diagSrc x.shape.length a1 a2 offset j)
    rw [this, if_pos (by simp only [decide_eq_true_eq]; exact diagSrc_sel _ _ _ offset j h1 h2 hne)]
    rfl
  · rw [mapIdx_eq_rewrite]
    exact rewrite_nodup _ _ _ hinv hselnd
  · intro e he
    obtain ⟨e0, he0, rfl⟩ := List.mem_map.mp he
    obtain ⟨hex, hP⟩ := List.mem_filter.mp he0
    have hin := hwf e0 hex
    simp only [decide_eq_true_eq] at hP
    show InB (gather e0.1 (diagAxes x.shape.length a1 a2 offset)) _
    rw [diagAxes, gather_append, InB_append _ _ _ _ (by simp [gather])]
    refine ⟨InB_gather_j _ _ hin _ (fun a ha => (mem_diagOthers.mp ha).1), ?_⟩
    have b1 := InB_getD_lt hin h1
    have b2 := InB_getD_lt hin h2
    simp only [gather, List.map_cons, List.map_nil, InB_cons, InB_nil, and_true]
    by_cases ho : offset ≥ 0
    · simp only [ho, if_true]; omega
    · simp only [ho, if_false]; omega

/-- the coordinates of the operand index read by `diagonal` (see `diagonal_get`) -/
theorem diagSrc_spec (n a1 a2 : Nat) (offset : Int) (o : Idx) (t : Nat)
    (ho : o.length = (diagOthers n a1 a2).length) (h1 : a1 < n) (h2 : a2 < n) (hne : a1 ≠ a2) :
    (diagSrc n a1 a2 offset (o ++ [t])).length = n ∧
    (diagSrc n a1 a2 offset (o ++ [t])).getD a1 0 = t + (-offset).toNat ∧
    (diagSrc n a1 a2 offset (o ++ [t])).getD a2 0 = t + offset.toNat ∧
    ∀ k (hk : k < (diagOthers n a1 a2).length),
      (diagSrc n a1 a2 offset (o ++ [t])).getD ((diagOthers n a1 a2)[k]) 0 = o.getD k 0 := by
  have ht : (o ++ [t]).getD (diagOthers n a1 a2).length 0 = t := by rw [← ho]; exact getD_append_last o t
  refine ⟨diagSrc_length _ _ _ _ _, ?_, ?_, fun k hk => ?_⟩
  · rw [diagSrc_a1 _ _ _ _ _ h1, ht]
  · rw [diagSrc_a2 _ _ _ _ _ h2 hne, ht]
  · rw [diagSrc_other _ _ _ _ _ k hk]
    simp [List.getD_eq_getElem?_getD, List.getElem?_append_left (ho ▸ hk)]

/-! non-vacuity: the hypotheses hold on concrete members and the conclusions give concrete reads -/

def cA : COO Int := { shape := [2, 2], entries := [([0, 1], 5), ([1, 0], 7)], fill := 0 }
def cE : COO Int := { shape := [2, 0], entries := [], fill := 0 }
def cB : COO Int := { shape := [2, 3], entries := [([0, 2], 3), ([1, 1], 4)], fill := 0 }

/-- three members along axis 1, the middle one of extent 0: result index `[1, 3]` reads `cB[1, 1]` -/
example : (concatCore cA [cE, cB] 1).shape = [2, 5] ∧ (concatCore cA [cE, cB] 1).get [1, 3] = cB.get [1, 1] :=
  have h := concat_get cA [cE, cB] 1 (by decide) (by decide) (by decide) (by decide) (by decide)
  ⟨h.1, ((h.2.2 [1, 3] (by decide)).2.2)⟩

def cC : COO Int := { shape := [1, 2], entries := [([0, 0], 9)], fill := 0 }

/-- axis 0 (unsorted path) and its order promise -/
example : (concatCore cA [cC] 0).get [2, 0] = cC.get [0, 0] ∧
    SortedLin (concatCore cA [cC] 0).shape (concatCore cA [cC] 0).entries :=
  ⟨((concat_get cA [cC] 0 (by decide) (by decide) (by decide) (by decide) (by decide)).2.2 [2, 0] (by decide)).2.2,
   concat_axis0_sorted cA [cC] (by decide) (by decide) (by decide)
     (by intro y hy; simp only [List.mem_cons, List.not_mem_nil, or_false] at hy
         rcases hy with rfl | rfl <;> simp [SortedLin, lin, cA, cC, ravel, prod])⟩

def cD : COO Int := { shape := [2, 2], entries := [([1, 1], 8)], fill := 0 }

/-- stack along the last position (sorted path): `[1, 1, 1]` is element `[1, 1]` of member 1 -/
example : (stackCore cA [cD] 2).get (insertAt [1, 1] 2 1) = cD.get [1, 1] :=
  ((stack_get cA [cD] 2 (by decide) (by decide) (by decide) (by decide) (by decide)).2.2 1 [1, 1]
    (by decide) (by decide)).2

def cF : COO Int := { shape := [3, 2, 3], entries := [([0, 1, 1], 2), ([2, 0, 1], 6), ([1, 1, 0], 4)], fill := 0 }

/-- diagonal of a 3×2×3 array over axes (2, 0) with offset -1: element `[1, 0]` reads the stored `cF[0, 1, 1]` -/
example : (cF.diagonalCore (-1) 2 0).shape = [2, 2] ∧
    (cF.diagonalCore (-1) 2 0).get [1, 0] = cF.get (diagSrc 3 2 0 (-1) [1, 0]) ∧
    diagSrc 3 2 0 (-1) [1, 0] = [0, 1, 1] :=
  have h := diagonal_get cF (-1) 2 0 3 (by decide) (by decide) (by decide) (by decide) (by decide) rfl rfl
  ⟨h.1, (h.2.2 [1, 0] (by decide)).2, by decide⟩

end SparseV.C09

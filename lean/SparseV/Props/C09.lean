/-
  Property C09 — joining and structural extraction.  Property theorems only.
-/
import SparseV.Lemmas.Rewrite
import SparseV.Model.Join
namespace SparseV.C09
open SparseV SparseV.COO

/-- **triu_get.** `triu(x, k)` keeps exactly the elements with `i + k ≤ j` (last two axes) and is
zero elsewhere, for every rank ≥ 2, every `k`, every pattern. No `Nodup`/order assumption. -/
theorem triu_get (x : COO Int) (k : Int) (j : Idx) :
    (x.triuCore k).get j =
      if (j.getD (x.shape.length - 2) 0 : Int) + k ≤ (j.getD (x.shape.length - 1) 0 : Int)
      then COO.lookup x.entries 0 j else 0 := by
  unfold COO.triuCore COO.get
  have h := lookup_filter
    (fun i => decide ((i.getD (x.shape.length - 2) 0 : Int) + k ≤ (i.getD (x.shape.length - 1) 0 : Int)))
    x.entries 0 j
  simp only [decide_eq_true_eq] at h
  exact h

/-- **tril_get.** -/
theorem tril_get (x : COO Int) (k : Int) (j : Idx) :
    (x.trilCore k).get j =
      if (j.getD (x.shape.length - 2) 0 : Int) + k ≥ (j.getD (x.shape.length - 1) 0 : Int)
      then COO.lookup x.entries 0 j else 0 := by
  unfold COO.trilCore COO.get
  have h := lookup_filter
    (fun i => decide ((i.getD (x.shape.length - 2) 0 : Int) + k ≥ (i.getD (x.shape.length - 1) 0 : Int)))
    x.entries 0 j
  simp only [decide_eq_true_eq] at h
  exact h

/-- `triu`/`tril` promise `sorted=True`: the promise is justified because filtering keeps the
relative order of the stored entries (the result's key list is a sublist of the operand's). -/
theorem triu_keys_sublist (x : COO Int) (k : Int) : (x.triuCore k).keys.Sublist x.keys := by
  unfold COO.triuCore COO.keys
  exact List.Sublist.map _ List.filter_sublist

theorem tril_keys_sublist (x : COO Int) (k : Int) : (x.trilCore k).keys.Sublist x.keys := by
  unfold COO.trilCore COO.keys
  exact List.Sublist.map _ List.filter_sublist

/-- hence canonical (strictly increasing) keys stay canonical -/
theorem triu_sorted (x : COO Int) (k : Int) (h : x.keys.Pairwise (· < ·)) :
    (x.triuCore k).keys.Pairwise (· < ·) := h.sublist (triu_keys_sublist x k)

/-- non-vacuity -/
example : ((⟨[2, 2], [([0, 0], 1), ([0, 1], 2), ([1, 0], 3), ([1, 1], 4)], 0⟩ : COO Int).triuCore 1).entries
    = [([0, 1], 2)] := by decide

end SparseV.C09

/-
  Property C07 — fill values are never silently wrong; densification is never implicit.
  Property theorems only.  They are stated over the table and the decision fragments GENERATED from the
  source (`Gen.fillFacts`, `Gen.fillPolicy`, `Gen.arrayGuard`, `Gen.denseMix`): editing a guard or a
  `fill_value=` keyword in /repo changes what is proved here.
-/
import SparseV.Model.FillPolicy
namespace SparseV.C07
open SparseV SparseV.Gen SparseV.FillPolicy

/-- **Statement_fill_policy_sound** (full strength): in the table read off the current source, no public
function drops the fill value (builds its result from raw parts without `fill_value=` and without a
guard), every zero-fill-only operation calls `check_zero_fill_value` (itself or through the single
function it wraps), the joins call `check_consistent_fill_value`, the scipy exports call
`check_fill_value`. -/
def Statement_fill_policy_sound : Prop := soundB Gen.fillPolicy = true

/-- **fill_policy_sound.** The full statement holds for the whole table generated from the current source (the
kernel evaluates the classification of every function of the package): deleting a guard, or dropping a
`fill_value=` keyword at a raw construction of a function with a sparse operand, makes this theorem fail.
(History: `diagonal`/`diagonalize` used to build `COO(coords, data, shape)` with neither guard nor fill and were
the excluded region of a partial form of this theorem until they were repaired; their witness
`sparse.diagonal(COO.from_numpy([[5,1],[2,5]], fill_value=5))` stays in the check and must give `[5,5]`.) -/
theorem fill_policy_sound : Statement_fill_policy_sound := by
  unfold Statement_fill_policy_sound
  decide +kernel

/-- **classification_is_solution.** The policies computed for the generated table (three sweeps) satisfy the
classification rule at EVERY row: each function's policy is `localPolicy` applied to the policies of its
resolved callees.  So the order in which the generator emitted the rows cannot hide anything: a function
whose callee drops is itself classified `drops` unless it has its own guard. -/
theorem classification_is_solution : isSolution Gen.fillFacts Gen.fillPolicies = true := by
  decide +kernel

/-- **guard_dominates.** For ANY function facts and ANY callee policies: a function that calls
`check_zero_fill_value` is classified `requiresZero` whatever else it does (so a private helper that
drops, e.g. `_dot`, cannot leak through a guarded public function); an unguarded function with a sparse
operand and a raw construction without `fill_value=` is classified `drops` — propagation or computation
found elsewhere in the same function cannot hide it; and an unguarded function without such a construction
drops as soon as one of its callees does. -/
theorem guard_dominates (f : FillFacts) (cs : List Policy) :
    (f.guardZero = true → localPolicy f cs = Policy.requiresZero) ∧
    (f.guardZero = false → f.guardConsistent = false → f.guardAccept = false →
       f.sparseOperand = true → f.ctorNoFill > 0 → localPolicy f cs = Policy.drops) ∧
    (f.direct = none → Policy.drops ∈ cs → localPolicy f cs = Policy.drops) := by
  refine ⟨?_, ?_, ?_⟩
  · intro h
    simp [localPolicy, FillFacts.direct, h]
  · intro h1 h2 h3 h4 h5
    simp [localPolicy, FillFacts.direct, h1, h2, h3, h4, h5]
  · intro h1 h2
    simp [localPolicy, h1, h2]

/-- **array_guard.** `SparseArray.__array__` (generated from the source) returns the dense array iff
AUTO_DENSIFY is on, and raises RuntimeError otherwise; the switch is off unless SPARSE_AUTO_DENSIFY is set. -/
theorem array_guard (autoDensify : Bool) :
    Gen.arrayGuard autoDensify = (if autoDensify then .ok () else .error Err.runtime) ∧
    Gen.autoDensifyDefault = false := by
  -- exhaustive over the switch: holds for every spelling of the test in the source (negated, arms exchanged, early return)
  cases autoDensify <;> exact ⟨rfl, rfl⟩

/-- **densemix_decision.** The sparse/dense mix rule of `_Elemwise._get_fill_value` (generated from the source):
the result stays sparse iff func(fill values, dense operands) is a single constant; otherwise it is dense
iff the dense operands already have the result's shape; otherwise ValueError. -/
theorem densemix_decision (constFill denseHasResultShape : Bool) :
    Gen.denseMix constFill denseHasResultShape =
      (if constFill then .ok false else if denseHasResultShape then .ok true else .error Err.value) := by
  -- exhaustive over the two facts: holds for every Boolean spelling of the two tests (conjuncts reordered, De Morgan, nesting, elif)
  cases constFill <;> cases denseHasResultShape <;> rfl

/-- multiplication by a count is repeated addition, except `inf * 0` and `nan * 0` -/
theorem mulNat_eq_sumRep (fill : Ext) (n : Nat) (h : ExcludedFullLane fill n = false) :
    Ext.mulNat fill n = sumRep fill n := by
  induction n with
  | zero =>
    cases fill <;> simp_all [ExcludedFullLane, Ext.isFinite, Ext.mulNat, sumRep]
  | succ k ih =>
    cases fill with
    | fin q =>
      have := ih (by simp [ExcludedFullLane, Ext.isFinite])
      simp only [Ext.mulNat] at this ⊢
      simp only [sumRep, ← this, Ext.add]
      congr 1
      rw [Int.natCast_succ, Int.mul_add, Int.mul_one]
    | posInf =>
      cases k with
      | zero => simp [Ext.mulNat, sumRep, Ext.add]
      | succ j =>
        have := ih (by simp [ExcludedFullLane])
        simp only [Ext.mulNat] at this ⊢
        simp [sumRep] at this ⊢
        rw [← this]; rfl
    | negInf =>
      cases k with
      | zero => simp [Ext.mulNat, sumRep, Ext.add]
      | succ j =>
        have := ih (by simp [ExcludedFullLane])
        simp only [Ext.mulNat] at this ⊢
        simp [sumRep] at this ⊢
        rw [← this]; rfl
    | nan =>
      cases k with
      | zero => simp [Ext.mulNat, sumRep, Ext.add]
      | succ j =>
        have := ih (by simp [ExcludedFullLane])
        simp only [Ext.mulNat] at this ⊢
        simp [sumRep] at this ⊢
        rw [← this]; rfl

-- (which of `h0` / `h` the simplifier needs depends on how the source spells the test: both are always supplied)
set_option linter.unusedSimpArgs false in
/-- **fill_contribution.** What an add-reduction adds to a lane for its unstored elements (the expression GENERATED from
`SparseArray.reduce`) is the sum of that many copies of the fill value — for every fill value (finite, ±inf, NaN) and every
count, zero included: a lane without unstored elements gets nothing added, whatever the fill.  (History: the code used to add
`fill * 0`, NaN for a non-finite fill; the statement was then proved only outside `ExcludedFullLane`.  Reverting that
repair changes the generated expression and this theorem fails.) -/
theorem fill_contribution (fill : Ext) (n : Nat) : Gen.fillContribution fill n = sumRep fill n := by
  -- by cases on the count, NOT on the shape of the generated expression: whichever way the source spells "no unstored element"
  -- (`missing = 0`, `¬ missing > 0`, the arms of the conditional in either order) the same two facts decide every test in it
  rcases Nat.eq_zero_or_pos n with h | h
  · subst h
    simp [Gen.fillContribution, sumRep]
  · have hm := mulNat_eq_sumRep fill n (by simp [ExcludedFullLane]; omega)
    have h0 : n ≠ 0 := by omega
    simp [Gen.fillContribution, h0, h, hm]

/-- non-vacuity of the excluded region and of its complement -/
example : ExcludedFullLane Ext.posInf 0 = true ∧ ExcludedFullLane Ext.nan 3 = false ∧ ExcludedFullLane (Ext.fin 2) 0 = false ∧
    sumRep Ext.negInf 2 = Ext.negInf ∧ sumRep (Ext.fin 2) 3 = Ext.fin 6 ∧ Ext.mulNat Ext.posInf 0 = Ext.nan := by decide

/-- non-vacuity: the table is not empty, it contains the zero-fill-only products with their guard, a
propagating and a computing function, and the excluded region is inhabited exactly as the dichotomy says -/
example : Gen.fillPolicy.length > 100 ∧ policyOf Gen.fillPolicy "sparse.tensordot" = some Policy.requiresZero ∧
    policyOf Gen.fillPolicy "sparse.stack" = some Policy.requiresConsistent := by decide +kernel
/-- non-vacuity of `guard_dominates`: a guarded public function that calls a dropping helper -/
example :
    let pub : FillFacts :=
      { name := "pub", isPublic := true, guardZero := true, guardConsistent := false, guardAccept := false, sparseOperand := true,
        ctorNoFill := 0, ctorOperandFill := 0, ctorOtherFill := 0, unusedFillParam := false, computes := false, calls := ["_h"], callIdx := [0] }
    let h : FillFacts :=
      { name := "_h", isPublic := false, guardZero := false, guardConsistent := false, guardAccept := false, sparseOperand := true,
        ctorNoFill := 1, ctorOperandFill := 0, ctorOtherFill := 0, unusedFillParam := false, computes := false, calls := [], callIdx := [] }
    pass [h, pub] [Policy.other, Policy.other] = [Policy.drops, Policy.requiresZero] ∧
    pass [h, { pub with guardZero := false }] [Policy.other, Policy.other] = [Policy.drops, Policy.drops] := by decide

end SparseV.C07

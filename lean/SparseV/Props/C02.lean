/-
  Property C02 — indexing agrees with NumPy.  Property theorems only.
  The slice theorems are stated over the definitions GENERATED from `_slicing.py`: editing that
  file changes what is proved here.
-/
import SparseV.Model.Slice
import SparseV.Spec.Slice
namespace SparseV.C02
open SparseV SparseV.Spec

/-- **normalize_slice_spec.** For every axis extent `dim ≥ 0` and every slice `start:stop:step`
(each part possibly `None`, any integers, `step ≠ 0`), the library's normalisation selects
something exactly when Python's slice does, and when it does the normalised triple is *equal*
to CPython's `slice.indices(dim)`. -/
theorem normalize_slice_spec (start stop step : Option Int) (dim : Int) (hd : 0 ≤ dim)
    (hs : step ≠ some 0) :
    isEmpty (normalizeSlice start stop step dim) = isEmpty (pyAdjust start stop (step.getD 1) dim) ∧
    (isEmpty (pyAdjust start stop (step.getD 1) dim) = false →
       normalizeSlice start stop step dim = pyAdjust start stop (step.getD 1) dim) := by
  cases step with
  | none =>
    cases start <;> cases stop <;>
      simp only [normalizeSlice, Gen.replaceNone, Gen.posifySlice, Gen.clipSlice, pyAdjust, isEmpty,
        Option.getD] <;> grind
  | some st =>
    have hst : st ≠ 0 := by intro h; exact hs (by rw [h])
    have hstep : st > 0 ∨ st < 0 := by omega
    rcases hstep with h | h
    · have h1 : ¬ st < 0 := by omega
      cases start <;> cases stop <;>
        simp only [normalizeSlice, Gen.replaceNone, Gen.posifySlice, Gen.clipSlice, pyAdjust, isEmpty,
          Option.getD, h, h1, if_true, if_false] <;> grind
    · have h1 : ¬ st > 0 := by omega
      cases start <;> cases stop <;>
        simp only [normalizeSlice, Gen.replaceNone, Gen.posifySlice, Gen.clipSlice, pyAdjust, isEmpty,
          Option.getD, h, h1, if_true, if_false] <;> grind

/-- the selected index list is Python's -/
theorem normalize_slice_range (start stop step : Option Int) (dim : Int) (hd : 0 ≤ dim)
    (hs : step ≠ some 0) :
    rangeOf (normalizeSlice start stop step dim) = rangeOf (pyAdjust start stop (step.getD 1) dim) := by
  have h := normalize_slice_spec start stop step dim hd hs
  unfold rangeOf
  rw [h.1]
  cases he : isEmpty (pyAdjust start stop (step.getD 1) dim) with
  | true => simp
  | false => simp [h.2 he]

/-- non-vacuity: a negative step with an explicit negative stop (the region that used to be wrong) -/
example : normalizeSlice none (some (-1)) (some (-1)) 7 = pyAdjust none (some (-1)) (-1) 7 := by decide

/-- **normalize_int_spec.** An integer index is accepted iff `-dim ≤ i < dim` (NumPy's rule) and is
then mapped to `i mod dim`; otherwise `IndexError`. -/
theorem normalize_int_spec (i dim : Int) :
    normalizeInt i dim = (if -dim ≤ i ∧ i < dim then .ok (if i < 0 then i + dim else i) else .error Err.index) := by
  simp only [normalizeInt, Gen.checkIndexInt, Gen.posifyInt]
  grind

end SparseV.C02

/-
  Property C02 — indexing agrees with NumPy.  Property theorems only.
  The slice theorems are stated over the definitions GENERATED from `_slicing.py`: editing that
  file changes what is proved here.
-/
import SparseV.Model.Slice
import SparseV.Spec.Slice
import SparseV.Lemmas.Range
namespace SparseV.C02
open SparseV SparseV.Spec SparseV.COO

/-- **normalize_slice_spec.** For every axis extent `dim ≥ 0` and every slice `start:stop:step`
(each part possibly `None`, any integers, `step ≠ 0`), the library's normalisation selects
something exactly when Python's slice does, and when it does the normalised triple is *equal*
to CPython's `slice.indices(dim)`. -/
theorem normalize_slice_spec (start stop step : Option Int) (dim : Int) (hd : 0 ≤ dim)
    (hs : step ≠ some 0) :
    isEmpty (normalizeSlice start stop step dim) = isEmpty (pyAdjust start stop (step.getD 1) dim) ∧
    (isEmpty (pyAdjust start stop (step.getD 1) dim) = false →
       normalizeSlice start stop step dim = pyAdjust start stop (step.getD 1) dim) := by
  cases step with
  | none =>
    cases start <;> cases stop <;>
      simp only [normalizeSlice_eq, Ref.normalizeSlice, Ref.replaceNone, Ref.posifySlice, Ref.clipSlice, pyAdjust, isEmpty,
        Option.getD] <;> grind
  | some st =>
    have hst : st ≠ 0 := by intro h; exact hs (by rw [h])
    have hstep : st > 0 ∨ st < 0 := by omega
    rcases hstep with h | h
    · have h1 : ¬ st < 0 := by omega
      cases start <;> cases stop <;>
        simp only [normalizeSlice_eq, Ref.normalizeSlice, Ref.replaceNone, Ref.posifySlice, Ref.clipSlice, pyAdjust, isEmpty,
          Option.getD, h, h1, if_true, if_false] <;> grind
    · have h1 : ¬ st > 0 := by omega
      cases start <;> cases stop <;>
        simp only [normalizeSlice_eq, Ref.normalizeSlice, Ref.replaceNone, Ref.posifySlice, Ref.clipSlice, pyAdjust, isEmpty,
          Option.getD, h, h1, if_true, if_false] <;> grind

/-- the selected index list is Python's -/
theorem normalize_slice_range (start stop step : Option Int) (dim : Int) (hd : 0 ≤ dim)
    (hs : step ≠ some 0) :
    rangeOf (normalizeSlice start stop step dim) = rangeOf (pyAdjust start stop (step.getD 1) dim) := by
  have h := normalize_slice_spec start stop step dim hd hs
  unfold rangeOf
  rw [h.1]
  cases he : isEmpty (pyAdjust start stop (step.getD 1) dim) with
  | true => simp
  | false => simp [h.2 he]

/-- non-vacuity: a negative step with an explicit negative stop (the region that used to be wrong) -/
example : normalizeSlice none (some (-1)) (some (-1)) 7 = pyAdjust none (some (-1)) (-1) 7 := by decide

/-- **normalize_int_spec.** An integer index is accepted iff `-dim ≤ i < dim` (NumPy's rule) and is
then mapped to `i mod dim`; otherwise `IndexError`. -/
theorem normalize_int_spec (i dim : Int) :
    normalizeInt i dim = (if -dim ≤ i ∧ i < dim then .ok (if i < 0 then i + dim else i) else .error Err.index) := by
  exact normalizeInt_eq i dim

/-! ## Basic indexing (integers, slices of any step, `None`) -/

variable {α : Type}

/-- **normalize_slice_normalised.** Whatever slice the user writes (`step ≠ 0`), the triple that
`normalize_index` hands to `getitem` is normalised for the axis (`Spec.NormSlice`): the hypothesis
of the theorems below is what the generated `clip_slice` establishes. -/
theorem normalize_slice_normalised (start stop step : Option Int) (dim : Int) (hs : step ≠ some 0) :
    NormSlice (normalizeSlice start stop step dim).1 (normalizeSlice start stop step dim).2.1
      (normalizeSlice start stop step dim).2.2 dim :=
  normalizeSlice_normalised start stop step dim hs

/-- **slice_selection_bijection.** For a normalised slice, `t ↦ a + t*s` maps `[0, len)` into the
axis and onto the selected coordinates, and `getitem`'s `(c - a) / s` is its inverse. -/
theorem slice_selection_bijection (a b s dim : Int) (h : NormSlice a b s dim) :
    (∀ t : Nat, t < sliceLen a b s →
      0 ≤ a + (t : Int) * s ∧ a + (t : Int) * s < dim ∧ inSlice a b s (a + (t : Int) * s) = true ∧
      (a + (t : Int) * s - a) / s = (t : Int)) ∧
    (∀ c : Int, inSlice a b s c = true →
      ((c - a) / s).toNat < sliceLen a b s ∧ a + (((c - a) / s).toNat : Int) * s = c) :=
  ⟨fun t ht => slice_fwd a b s dim h t ht, fun c hc => slice_bwd a b s c hc⟩

/-- **getitemN_get.** Basic indexing of a COO array (`x.WF`, distinct stored indices) with a valid
normalised index that has at least one slice / `None`: the result is an array of shape
`outShape idx`, with `x`'s fill value, and result element `j` is operand element `compose idx j`
(which is inside `x.shape`).  Covers both the full-slice shortcut (`x[:, :]` returns `x`) and the
general path, positive and negative steps (where the constructor re-sorts). -/
theorem getitemN_get (x : COO α) (idx : List NIx) (lastEllipsis : Bool) (hwf : x.WF)
    (hnd : (keysOf x.entries).Nodup) (hv : ValidIdx idx x.shape) (ho : hasOut idx = true) :
    ∃ r : COO α, x.getitemN idx lastEllipsis = .arr r ∧ r.shape = outShape idx false ∧ r.fill = x.fill ∧
      ∀ j, InB j r.shape → InB (compose idx j) x.shape ∧ r.get j = x.get (compose idx j) := by
  rw [getitemN_eq x idx lastEllipsis (validIdx_firstArrLen idx x.shape hv)]
  by_cases hfull : isFullIndex idx x.shape = true
  · obtain ⟨hsh, hc⟩ := isFullIndex_spec false idx x.shape hfull
    refine ⟨x, by simp [hfull], hsh.symm, rfl, fun j hj => ?_⟩
    rw [hc j (InB_length hj)]
    exact ⟨hj, rfl⟩
  · simp only [hfull, ho, if_true]
    refine ⟨_, rfl, rfl, rfl, fun j hj => ?_⟩
    simp only at hj
    obtain ⟨hout, hin⟩ := compose_outOf 0 false idx x.shape j hv hj
    refine ⟨hin, ?_⟩
    have hinv : ∀ e ∈ x.entries, ∀ j', outOf 0 idx e.1 false = some j' → compose idx j' = e.1 :=
      fun e he j' hj' => (outOf_compose 0 false idx x.shape e.1 j' hv (hwf e he) hj').1
    simp only [COO.get]
    cases hasNegStep idx with
    | true => exact rewrite_sort_lookup _ x.entries x.fill _ (compose idx) j hnd hinv hout
    | false => exact rewrite_lookup x.entries x.fill (fun c => outOf 0 idx c false) (compose idx) j hinv hout

/-- **getitemN_scalar.** An all-integer valid index (no trailing `...`) returns the scalar
`x[compose idx []]`, i.e. the element at the given integers. -/
theorem getitemN_scalar (x : COO α) (idx : List NIx) (hwf : x.WF) (hv : ValidIdx idx x.shape)
    (ho : hasOut idx = false) :
    x.getitemN idx false = .scalar (x.get (compose idx [])) ∧ InB (compose idx []) x.shape := by
  obtain ⟨hin, hlk, hkeys⟩ := scalar_sel x idx hwf hv ho
  refine ⟨?_, hin⟩
  rw [getitemN_eq x idx false (validIdx_firstArrLen idx x.shape hv)]
  simp only [isFullIndex_of_not_hasOut idx x.shape ho, ho, Bool.false_eq_true, if_false]
  rw [← hlk]
  cases hsel : rewrite (fun c => outOf 0 idx c false) x.entries with
  | nil => simp
  | cons e es =>
    have : e.1 = [] := hkeys e (by rw [hsel]; exact List.mem_cons_self)
    simp [lookup_cons, this]

/-- **getitemN_scalar0d.** An all-integer valid index written with an Ellipsis (`x[1, 2, ...]`)
returns a 0-d array holding that element, with `x`'s fill value. -/
theorem getitemN_scalar0d (x : COO α) (idx : List NIx) (hwf : x.WF) (hv : ValidIdx idx x.shape)
    (ho : hasOut idx = false) :
    ∃ r : COO α, x.getitemN idx true = .arr r ∧ r.shape = [] ∧ r.fill = x.fill ∧
      r.get [] = x.get (compose idx []) ∧ InB (compose idx []) x.shape := by
  obtain ⟨hin, hlk, _⟩ := scalar_sel x idx hwf hv ho
  rw [getitemN_eq x idx true (validIdx_firstArrLen idx x.shape hv)]
  simp only [isFullIndex_of_not_hasOut idx x.shape ho, ho, Bool.false_eq_true, if_false, if_true]
  exact ⟨_, rfl, rfl, rfl, hlk, hin⟩

/-- **getitem_sorted_promise.** `COO.getitem` passes `sorted=True` to the constructor when no step
is negative.  The promise is justified: whenever `getitemN` returns an array for a valid basic
index with no negative step, its entries, in storage order, are strictly increasing in the
row-major order of the result shape, provided `x`'s entries are. -/
theorem getitem_sorted_promise (x : COO α) (idx : List NIx) (lastEllipsis : Bool) (hwf : x.WF)
    (hv : ValidIdx idx x.shape) (hneg : hasNegStep idx = false) (hs : SortedLin x.shape x.entries)
    (r : COO α) (hr : x.getitemN idx lastEllipsis = .arr r) : SortedLin r.shape r.entries := by
  rw [getitemN_eq x idx lastEllipsis (validIdx_firstArrLen idx x.shape hv)] at hr
  have hsel := rewrite_outOf_sortedLin x idx 0 false hwf hv hneg hs
  by_cases hfull : isFullIndex idx x.shape = true
  · simp only [hfull, if_true, GetResult.arr.injEq] at hr
    subst hr; exact hs
  · simp only [hfull, Bool.false_eq_true, if_false, hneg] at hr
    cases ho : hasOut idx with
    | true =>
      simp only [ho, if_true, GetResult.arr.injEq] at hr
      subst hr; exact hsel
    | false =>
      rw [outShape_of_not_hasOut false idx ho] at hsel
      simp only [ho, Bool.false_eq_true, if_false] at hr
      cases lastEllipsis with
      | true =>
        simp only [if_true, GetResult.arr.injEq] at hr
        subst hr; exact hsel
      | false =>
        simp only [Bool.false_eq_true, if_false] at hr
        split at hr <;> cases hr

/-- **normalize_index_valid.** For a user index made of integers, slices (step ≠ 0) and `None`,
whatever `normalize_index` returns is valid for the shape (`Spec.ValidIdx`): the validity
hypothesis of the theorems above is established by the library's own normalisation. -/
theorem normalize_index_valid (idx : List IxE) (shape : List Nat) (n : List NIx)
    (hb : ∀ e ∈ idx, BasicIxE e) (h : normalizeIndex idx shape = .ok n) : ValidIdx n shape :=
  normalizeIndex_validIdx idx shape n hb h

/-- **getitem_basic.** End to end: if `x[idx]` succeeds for a basic user index, then with `n` the
normalised index, the result is an array reading `x` through `compose n` (some slice / `None`
present) or the scalar `x[compose n []]` (all integers). -/
theorem getitem_basic (x : COO α) (idx : List IxE) (res : GetResult α) (hwf : x.WF)
    (hnd : (keysOf x.entries).Nodup) (hb : ∀ e ∈ idx, BasicIxE e) (h : x.getitem idx = .ok res) :
    ∃ n, normalizeIndex idx x.shape = .ok n ∧ ValidIdx n x.shape ∧
      (hasOut n = true → ∃ r : COO α, res = .arr r ∧ r.shape = outShape n false ∧ r.fill = x.fill ∧
        ∀ j, InB j r.shape → InB (compose n j) x.shape ∧ r.get j = x.get (compose n j)) ∧
      (hasOut n = false → res = .scalar (x.get (compose n [])) ∧ InB (compose n []) x.shape) := by
  have hle : idx.any IxE.isEllipsis = false := by
    rw [List.any_eq_false]
    intro e he
    have := hb e he
    cases e <;> simp_all [BasicIxE, IxE.isEllipsis]
  unfold getitem at h
  cases hn : normalizeIndex idx x.shape with
  | error er => simp [hn, bind, Except.bind] at h
  | ok n =>
    simp only [hn, hle, bind, Except.bind, pure, Except.pure, Except.ok.injEq] at h
    subst h
    have hv := normalizeIndex_validIdx idx x.shape n hb hn
    refine ⟨n, rfl, hv, fun ho => ?_, fun ho => ?_⟩
    · exact getitemN_get x n false hwf hnd hv ho
    · exact getitemN_scalar x n hwf hv ho

/-! ### non-vacuity -/

/-- a 2×4 array with three stored entries -/
def exB : COO Int := { shape := [2, 4], entries := [([0, 1], 5), ([1, 1], 7), ([1, 3], 9)], fill := 0 }

/-- `x[1, ::-2]`: the normalised index is `[1, 3:-1:-2]`; the hypotheses of `getitemN_get` hold -/
example :
    (match normalizeIndex [.int 1, .slice none none (some (-2))] exB.shape with
      | .ok r => decide (r = [.int 1, .slice 3 (-1) (-2)]) | _ => false) = true ∧
    exB.WF ∧ (keysOf exB.entries).Nodup ∧ ValidIdx [.int 1, .slice 3 (-1) (-2)] exB.shape ∧
    hasOut [.int 1, .slice 3 (-1) (-2)] = true ∧ hasNegStep [.int 1, .slice 3 (-1) (-2)] = true ∧
    isFullIndex [.int 1, .slice 3 (-1) (-2)] exB.shape = false ∧
    outShape [.int 1, .slice 3 (-1) (-2)] false = [2] ∧
    compose [.int 1, .slice 3 (-1) (-2)] [0] = [1, 3] ∧ compose [.int 1, .slice 3 (-1) (-2)] [1] = [1, 1] ∧
    exB.get [1, 3] = 9 ∧ exB.get [1, 1] = 7 := by decide

/-- … and the theorem then yields the values of `x[1, ::-2] = [9, 7]` (through the re-sort) -/
example : ∃ r : COO Int, exB.getitemN [.int 1, .slice 3 (-1) (-2)] false = .arr r ∧ r.shape = [2] ∧
    r.get [0] = 9 ∧ r.get [1] = 7 := by
  obtain ⟨r, hr, hsh, _, hget⟩ :=
    getitemN_get exB [.int 1, .slice 3 (-1) (-2)] false (by decide) (by decide) (by decide) (by decide)
  have hsh' : r.shape = [2] := by rw [hsh]; decide
  refine ⟨r, hr, hsh', ?_, ?_⟩
  · rw [(hget [0] (by rw [hsh']; decide)).2]; decide
  · rw [(hget [1] (by rw [hsh']; decide)).2]; decide

/-- the user-level statement on `x[1, ::-2]`: the index is basic and `getitem` succeeds -/
example : (∀ e ∈ [IxE.int 1, IxE.slice none none (some (-2))], BasicIxE e) ∧
    (match exB.getitem [.int 1, .slice none none (some (-2))] with | .ok _ => true | _ => false) = true := by
  refine ⟨by decide, ?_⟩
  have hn : normalizeIndex [.int 1, .slice none none (some (-2))] exB.shape = .ok [.int 1, .slice 3 (-1) (-2)] := by
    cases h : normalizeIndex [.int 1, .slice none none (some (-2))] exB.shape with
    | ok r =>
      have : (match normalizeIndex [.int 1, .slice none none (some (-2))] exB.shape with
        | .ok r => decide (r = [.int 1, .slice 3 (-1) (-2)]) | _ => false) = true := by decide
      rw [h] at this
      simpa using this
    | error er =>
      have : (match normalizeIndex [.int 1, .slice none none (some (-2))] exB.shape with
        | .ok r => decide (r = [.int 1, .slice 3 (-1) (-2)]) | _ => false) = true := by decide
      rw [h] at this
      cases this
  simp [getitem, hn, bind, Except.bind, pure, Except.pure]

/-- `x[None, 0:2, 1::2]` (positive steps, a `None`): valid, sorted promise applies, and evaluates -/
example :
    ValidIdx [.newaxis, .slice 0 2 1, .slice 1 4 2] exB.shape ∧
    hasNegStep [.newaxis, .slice 0 2 1, .slice 1 4 2] = false ∧
    (lin exB.shape exB.entries).Pairwise (· < ·) ∧  -- `SortedLin exB.shape exB.entries`
    (match exB.getitemN [.newaxis, .slice 0 2 1, .slice 1 4 2] false with
      | .arr r => decide (r.shape = [1, 2, 2] ∧ r.entries = [([0, 0, 0], 5), ([0, 1, 0], 7), ([0, 1, 1], 9)])
      | _ => false) = true := by decide

/-- `x[1, 3]` (all integers): a scalar -/
example : ValidIdx [.int 1, .int 3] exB.shape ∧ hasOut [.int 1, .int 3] = false ∧
    compose [.int 1, .int 3] [] = [1, 3] ∧
    (match exB.getitemN [.int 1, .int 3] false with | .scalar v => decide (v = 9) | _ => false) = true := by
  decide

end SparseV.C02

/-
  Property C10 — searching, sorting and set functions agree with NumPy / the Array API.
  Property theorems only (proof work is in SparseV.Lemmas.Search).  All theorems quantify over
  every row length, every set of stored positions, every stored value and every fill value
  (below, between, above, tied with stored values); nothing is bounded.

  A *row* is what `_sort_coo` sees of one group / `_compute_minmax_args` sees of one column /
  `unique_*` see of the flattened array: its length `n`, its fill value and its stored
  `(position, value)` pairs with strictly increasing positions (`RowWF`, i.e. the array is canonical).
  `densifyRow n fill es` is the dense row.  The dense side (`sortD`, `argmaxD`, `argminD`,
  `uniqueValuesD`, `uniqueCountsD`, `nonzeroD`) is SparseV.Spec.Search.

  Where the code of the unchanged tree violates the property, the full statement is kept as
  `Statement_…`, refuted on the model by `…_counterexample`, proved outside a decidable
  `Excluded…` region by `…_partial`, and proved in full for the corrected algorithm (`…_fixed`).
-/
import SparseV.Lemmas.Search
namespace SparseV.C10
open SparseV SparseV.Spec SparseV.Search
set_option linter.unusedSimpArgs false

/-! ## sort -/

/-- **sort_row_spec.** For every row of a canonical array, either direction, and every position of the
fill value among the stored values (below, between, above, tied): the dense form of the row that
`_sort_coo` produces (sorted stored data, tail shifted by the number of unstored cells from the first
position where the fill value precedes) is the sorted dense row, and the produced row is again a
well-formed row (positions strictly increasing and in range — the `sorted=True,
has_duplicates=False` promise made to the constructor is justified). -/
theorem sort_row_spec (descending : Bool) (n : Nat) (fill : Int) (es : Row) (h : RowWF n es) :
    densifyRow n fill (sortRow descending n fill es) = sortD descending (densifyRow n fill es)
    ∧ RowWF n (sortRow descending n fill es) := by
  have := sortRow_dense descending n fill es h
  unfold sortD
  rw [← leOf_eq_ite]
  exact ⟨this.2, this.1⟩

/-- non-vacuity: fill value 0 lies between the stored values, one stored value ties with it -/
example : RowWF 6 [(0, 2), (2, -1), (3, 0), (5, 2)] ∧
    densifyRow 6 0 (sortRow false 6 0 [(0, 2), (2, -1), (3, 0), (5, 2)]) = [-1, 0, 0, 0, 2, 2] ∧
    densifyRow 6 0 (sortRow true 6 0 [(0, 2), (2, -1), (3, 0), (5, 2)]) = [2, 2, 0, 0, 0, -1] := by
  refine ⟨by decide, ?_, ?_⟩ <;>
    simp [sortRow, List.mergeSort, leAsc, densifyRow, lookupRow, List.range, List.range.loop, List.findIdx_cons]

/-- **sort_coo_rows.** The whole kernel: for a 2-d coordinate list sorted by group (what `sort` hands to
`_sort_coo` after `moveaxis`/`reshape`), every group `g` — stored or not — of the result densifies to the
sorted dense row of group `g` of the input; the group detection loop loses and duplicates nothing. -/
theorem sort_coo_rows (descending : Bool) (n : Nat) (fill : Int) (es : List (Nat × Nat × Int))
    (hs : (es.map (·.1)).Pairwise (· ≤ ·)) (hrow : ∀ g, RowWF n (es.filterMap (rowOf g))) (g : Nat) :
    densifyRow n fill ((sortCoo descending n fill es).filterMap (rowOf g))
      = sortD descending (densifyRow n fill (es.filterMap (rowOf g)))
    ∧ RowWF n ((sortCoo descending n fill es).filterMap (rowOf g)) := by
  rw [sortCoo_row descending n fill es hs g]
  exact sort_row_spec descending n fill _ (hrow g)

/-- non-vacuity: three groups, the middle one without stored entries -/
example : (([(0, 1, 5), (0, 3, -1), (2, 0, 7)] : List (Nat × Nat × Int)).map (·.1)).Pairwise (· ≤ ·) ∧
    ∀ g, g < 3 → RowWF 4 (([(0, 1, 5), (0, 3, -1), (2, 0, 7)] : List (Nat × Nat × Int)).filterMap (rowOf g)) := by
  decide

/-! ## argmax / argmin -/

/-- the full statement: the column result is the index of the first maximal element of the dense column -/
def Statement_argmax_first_occurrence : Prop :=
  ∀ (n : Nat) (fill : Int) (es : Row), RowWF n es → argMinMaxCol true n fill es = argmaxD (densifyRow n fill es)

def Statement_argmin_first_occurrence : Prop :=
  ∀ (n : Nat) (fill : Int) (es : Row), RowWF n es → argMinMaxCol false n fill es = argminD (densifyRow n fill es)

/-- **argmax_first_occurrence_counterexample.** Dense column `[0, 0]`, fill 0, position 0 explicitly
stored: the kernel answers 1 (the first unstored position), NumPy answers 0. -/
theorem argmax_first_occurrence_counterexample : ¬ Statement_argmax_first_occurrence := by
  intro h
  have := h 2 0 [(0, 0)] (by decide)
  revert this
  simp [argMinMaxCol, argmaxD, argminD, gapSearch, densifyRow, lookupRow, List.mergeSort, List.range, List.range.loop,
    List.findIdx_cons]

theorem argmin_first_occurrence_counterexample : ¬ Statement_argmin_first_occurrence := by
  intro h
  have := h 2 0 [(0, 0)] (by decide)
  revert this
  simp [argMinMaxCol, argmaxD, argminD, gapSearch, densifyRow, lookupRow, List.mergeSort, List.range, List.range.loop,
    List.findIdx_cons]

/-- **argmax_first_occurrence_partial.** Outside the region `ExcludedArgStoredFill` (fill value is
the maximum, column not full, an explicitly stored fill-valued element before the first unstored
position) the column result of `_compute_minmax_args` is the index of the first maximal element of
the dense column — ties between stored values, and between stored values and the fill value, included. -/
theorem argmax_first_occurrence_partial (n : Nat) (fill : Int) (es : Row) (h : RowWF n es)
    (hex : ExcludedArgStoredFill true n fill es = false) :
    argMinMaxCol true n fill es = argmaxD (densifyRow n fill es) :=
  argMaxCol_dense n fill es h hex

theorem argmin_first_occurrence_partial (n : Nat) (fill : Int) (es : Row) (h : RowWF n es)
    (hex : ExcludedArgStoredFill false n fill es = false) :
    argMinMaxCol false n fill es = argminD (densifyRow n fill es) :=
  argMinCol_dense n fill es h hex

theorem excludedArg_of_nofill (maxMode : Bool) (n : Nat) (fill : Int) (es : Row) (hnf : ∀ e ∈ es, e.2 ≠ fill) :
    ExcludedArgStoredFill maxMode n fill es = false := by
  unfold ExcludedArgStoredFill
  simp only [Bool.and_eq_false_iff]
  right
  rw [List.any_eq_false]
  intro e he
  have := hnf e he
  simp [this]

/-- **argmax_first_occurrence.** For every column that stores no fill-valued element (what every
constructor with `prune=True` and every sparse operation returns): first-occurrence argmax, for any
fill value, any stored subset, empty / partly filled / full columns. -/
theorem argmax_first_occurrence (n : Nat) (fill : Int) (es : Row) (h : RowWF n es) (hnf : ∀ e ∈ es, e.2 ≠ fill) :
    argMinMaxCol true n fill es = argmaxD (densifyRow n fill es) :=
  argmax_first_occurrence_partial n fill es h (excludedArg_of_nofill true n fill es hnf)

/-- **argmin_first_occurrence.** -/
theorem argmin_first_occurrence (n : Nat) (fill : Int) (es : Row) (h : RowWF n es) (hnf : ∀ e ∈ es, e.2 ≠ fill) :
    argMinMaxCol false n fill es = argminD (densifyRow n fill es) :=
  argmin_first_occurrence_partial n fill es h (excludedArg_of_nofill false n fill es hnf)

/-- **argminmax_first_occurrence_fixed.** With the prune step of `C10-stored-fill.diff` in front of the
kernel the full statement holds for every canonical column, explicitly stored fill values included. -/
theorem argminmax_first_occurrence_fixed (n : Nat) (fill : Int) (es : Row) (h : RowWF n es) :
    argMinMaxColWith true true n fill es = argmaxD (densifyRow n fill es) ∧
    argMinMaxColWith true false n fill es = argminD (densifyRow n fill es) := by
  unfold argMinMaxColWith
  simp only [if_true]
  have hnf : ∀ e ∈ pruneRow fill es, e.2 ≠ fill := fun e he hv =>
    pruneRow_nofill fill es (List.mem_map.mpr ⟨e, he, hv⟩)
  rw [← densifyRow_prune fill h]
  exact ⟨argmax_first_occurrence n fill _ (pruneRow_wf fill h) hnf, argmin_first_occurrence n fill _ (pruneRow_wf fill h) hnf⟩

/-- **minmax_args_columns.** The whole kernel `_compute_minmax_args` on arrays that store no fill value:
it lists exactly the columns that have a stored entry, each with the first-occurrence argmax / argmin of
its dense column (the unlisted columns are all-fill: their answer 0 is the result array's fill value). -/
theorem minmax_args_columns (maxMode : Bool) (n : Nat) (fill : Int) (es : List (Nat × Nat × Int))
    (hcol : ∀ j, RowWF n (es.filterMap (colOf j))) (hnf : ∀ e ∈ es, e.2.2 ≠ fill) :
    (∀ p ∈ computeMinmaxArgs maxMode n fill es,
      p.2 = (if maxMode then argmaxD else argminD) (densifyRow n fill (es.filterMap (colOf p.1)))) ∧
    (∀ e ∈ es, ∃ p ∈ computeMinmaxArgs maxMode n fill es, p.1 = e.2.1) ∧
    (∀ j, (∀ p ∈ computeMinmaxArgs maxMode n fill es, p.1 ≠ j) → es.filterMap (colOf j) = []) := by
  refine ⟨?_, computeMinmaxArgs_covers maxMode n fill es, ?_⟩
  · intro p hp
    have hnf' : ∀ e ∈ es.filterMap (colOf p.1), e.2 ≠ fill := by
      intro e he
      obtain ⟨e', he', hk⟩ := List.mem_filterMap.mp he
      unfold colOf at hk
      by_cases hj : e'.2.1 = p.1
      · simp only [hj, if_true, Option.some.injEq] at hk
        rw [← hk]; exact hnf e' he'
      · simp [hj] at hk
    rw [(computeMinmaxArgs_mem maxMode n fill es p hp).1]
    cases maxMode
    · exact argmin_first_occurrence n fill _ (hcol p.1) hnf'
    · exact argmax_first_occurrence n fill _ (hcol p.1) hnf'
  · intro j hj
    rw [List.filterMap_eq_nil_iff]
    intro e he
    obtain ⟨p, hp, hk⟩ := computeMinmaxArgs_covers maxMode n fill es e he
    have : e.2.1 ≠ j := fun hh => hj p hp (hk.trans hh)
    simp [colOf, this]

/-- the answer for a column without stored entries (result fill value 0) is right as well -/
theorem argminmax_empty_column (n : Nat) (fill : Int) :
    argmaxD (densifyRow n fill []) = 0 ∧ argminD (densifyRow n fill []) = 0 := by
  have hwf : RowWF n [] := ⟨List.Pairwise.nil, fun e he => by cases he⟩
  have h1 := argmax_first_occurrence n fill [] hwf (by simp)
  have h2 := argmin_first_occurrence n fill [] hwf (by simp)
  have e1 : argMinMaxCol true n fill [] = 0 := by
    by_cases hn : n = 0 <;> simp [argMinMaxCol, argmaxD, gapSearch, hn, List.mergeSort]
  have e2 : argMinMaxCol false n fill [] = 0 := by
    by_cases hn : n = 0 <;> simp [argMinMaxCol, argminD, gapSearch, hn, List.mergeSort]
  exact ⟨by rw [← h1, e1], by rw [← h2, e2]⟩

/-- non-vacuity: fill 0 ties with the maximum of a column whose stored values are all below it; the
first unstored position (1) wins over the later ones; and a stored maximum tie picks the first -/
example : RowWF 4 [(0, -2), (2, -1)] ∧ (∀ e ∈ [((0 : Nat), (-2 : Int)), (2, -1)], e.2 ≠ 0) ∧
    argMinMaxCol true 4 0 [(0, -2), (2, -1)] = 1 ∧ argMinMaxCol true 4 0 [(1, 3), (3, 3)] = 1 ∧
    argMinMaxCol false 4 0 [(0, -2), (2, -2)] = 0 := by
  refine ⟨by decide, by decide, ?_, ?_, ?_⟩ <;>
  simp [argMinMaxCol, argmaxD, argminD, gapSearch, densifyRow, lookupRow, List.mergeSort, List.range, List.range.loop,
    List.findIdx_cons]

/-! ## unique_values -/

def Statement_unique_values_spec : Prop :=
  ∀ (n : Nat) (fill : Int) (es : Row), RowWF n es → uniqueValues n fill es = uniqueValuesD (densifyRow n fill es)

/-- **unique_values_counterexample.** Dense `[0, 0]`, fill 0, position 0 explicitly stored: the model
(as the code) lists the value 0 twice. -/
theorem unique_values_counterexample : ¬ Statement_unique_values_spec := by
  intro h
  have := h 2 0 [(0, 0)] (by decide)
  revert this
  simp [uniqueValues, uniqueValuesWith, uniqueValuesD, dedupAdj, List.mergeSort, leAsc, densifyRow, lookupRow,
    List.range, List.range.loop]

/-- **unique_values_partial.** Outside `ExcludedStoredFill` (an unstored cell exists and a stored
element equals the fill value) `unique_values` returns the distinct elements of the dense array in
ascending order. -/
theorem unique_values_partial (n : Nat) (fill : Int) (es : Row) (h : RowWF n es)
    (hex : ExcludedStoredFill n fill es = false) :
    uniqueValues n fill es = uniqueValuesD (densifyRow n fill es) :=
  uniqueValuesWith_dense false fill h (Or.inr hex)

/-- **unique_values_spec** (corrected algorithm, `C10-stored-fill.diff`): the full statement. -/
theorem unique_values_spec_fixed (n : Nat) (fill : Int) (es : Row) (h : RowWF n es) :
    uniqueValuesFixed n fill es = uniqueValuesD (densifyRow n fill es) :=
  uniqueValuesWith_dense true fill h (Or.inl rfl)

/-! ## unique_counts -/

/-- the full statement: values ascending, counts are the dense multiplicities -/
def Statement_unique_counts_spec : Prop :=
  ∀ (n : Nat) (fill : Int) (es : Row), RowWF n es →
    uniqueCounts n fill es = ((uniqueCountsD (densifyRow n fill es)).map (·.1), (uniqueCountsD (densifyRow n fill es)).map (·.2))

/-- the model on the witness: dense `[-3, -2, 0, 1, 0]`, fill 0 — the code's answer -/
theorem unique_counts_witness :
    uniqueCounts 5 0 [(0, -3), (1, -2), (3, 1)] = ([-2, 0, -3, 1], [1, 2, 1, 1]) ∧
    uniqueCountsD (densifyRow 5 0 [(0, -3), (1, -2), (3, 1)]) = [(-3, 1), (-2, 1), (0, 2), (1, 1)] ∧
    ExcludedTwoBelow 5 0 [(0, -3), (1, -2), (3, 1)] = true := by
  refine ⟨?_, ?_, ?_⟩
  · simp [uniqueCounts, uniqueCountsWith, uniqueCountsD, uniqueValuesD, dedupAdj, argsort, scatter, scatterAux,
      List.mergeSort, leAsc, List.range, List.range.loop]
  · simp [uniqueCountsD, uniqueValuesD, dedupAdj, List.mergeSort, leAsc, List.range, List.range.loop, densifyRow,
      lookupRow]
  · simp [ExcludedTwoBelow, uniqueValuesD, dedupAdj, List.mergeSort, leAsc]

/-- **unique_counts_counterexample.** `values[sorted_indices] = values.copy()` applies the inverse
permutation: on dense `[-3, -2, 0, 1, 0]` (fill 0) the model, as the code, answers values
`[-2, 0, -3, 1]`, NumPy `[-3, -2, 0, 1]`. -/
theorem unique_counts_counterexample : ¬ Statement_unique_counts_spec := by
  intro h
  have := h 5 0 [(0, -3), (1, -2), (3, 1)] (by decide)
  rw [unique_counts_witness.1, unique_counts_witness.2.1] at this
  revert this
  decide

/-- **unique_counts_partial.** Outside the two excluded regions — `ExcludedTwoBelow` (an unstored cell
exists and at least two distinct stored values lie below the fill value) and `ExcludedStoredFill` —
`unique_counts` returns the distinct dense values ascending with their dense multiplicities. -/
theorem unique_counts_partial (n : Nat) (fill : Int) (es : Row) (h : RowWF n es)
    (hex1 : ExcludedTwoBelow n fill es = false) (hex2 : ExcludedStoredFill n fill es = false) :
    uniqueCounts n fill es
      = ((uniqueCountsD (densifyRow n fill es)).map (·.1), (uniqueCountsD (densifyRow n fill es)).map (·.2)) :=
  uniqueCountsWith_dense .scatter false fill h (Or.inr hex2) (Or.inr hex1)

/-- **unique_counts_spec** for the corrected algorithm (`values = values[sorted_indices]` and stored fill
values dropped first): the full statement, every row, every fill value. -/
theorem unique_counts_spec_fixed (n : Nat) (fill : Int) (es : Row) (h : RowWF n es) :
    uniqueCountsFixed n fill es
      = ((uniqueCountsD (densifyRow n fill es)).map (·.1), (uniqueCountsD (densifyRow n fill es)).map (·.2)) :=
  uniqueCountsWith_dense .gather true fill h (Or.inl rfl) (Or.inl rfl)

/-- **unique_counts_any_variant.** The same for every combination of the two proposed fixes: each fix
removes exactly its own excluded region (so the order in which they are applied upstream is irrelevant). -/
theorem unique_counts_any_variant (step : PermStep) (prune : Bool) (n : Nat) (fill : Int) (es : Row) (h : RowWF n es)
    (h1 : prune = true ∨ ExcludedStoredFill n fill es = false)
    (h2 : step = .gather ∨ ExcludedTwoBelow n fill (if prune then pruneRow fill es else es) = false) :
    uniqueCountsWith step prune n fill es
      = ((uniqueCountsD (densifyRow n fill es)).map (·.1), (uniqueCountsD (densifyRow n fill es)).map (·.2)) :=
  uniqueCountsWith_dense step prune fill h h1 h2

/-- non-vacuity of the partial theorem: one stored value below the fill, two above, an unstored cell -/
example : RowWF 5 [(0, -1), (2, 4), (3, 7)] ∧ ExcludedTwoBelow 5 2 [(0, -1), (2, 4), (3, 7)] = false ∧
    ExcludedStoredFill 5 2 [(0, -1), (2, 4), (3, 7)] = false := by
  refine ⟨by decide, ?_, by decide⟩
  simp [ExcludedTwoBelow, uniqueValuesD, dedupAdj, List.mergeSort, leAsc]

/-! ## nonzero / argwhere / where(cond) -/

def Statement_nonzero_rowmajor : Prop :=
  ∀ (x : COO Int), x.Canonical → x.fill = 0 → x.shape ≠ [] → nonzero x = .ok (nonzeroD x)

/-- **nonzero_rowmajor_counterexample.** A canonical `[0, 5]` with the zero at position 0 explicitly
stored: the model (as the code) reports position 0 as well. -/
theorem nonzero_rowmajor_counterexample : ¬ Statement_nonzero_rowmajor := by
  intro h
  have := h { shape := [2], entries := [([0], 0), ([1], 5)], fill := 0 }
    ⟨by decide, by decide⟩ rfl (by decide)
  revert this
  simp [nonzero, nonzeroWith, nonzeroD, allIdx, COO.get, COO.lookup, List.range, List.range.loop, List.filter]

/-- **nonzero_rowmajor** (partial: arrays that store no zero). For a canonical array with fill value 0
and rank ≥ 1 that stores no zero, `COO.nonzero` (= `argwhere` rows = `where(cond)`) is the row-major
list of the positions of the non-zero elements of the dense array. -/
theorem nonzero_rowmajor (x : COO Int) (hc : x.Canonical) (hfill : x.fill = 0) (hsh : x.shape ≠ [])
    (hnf : ∀ e ∈ x.entries, e.2 ≠ 0) : nonzero x = .ok (nonzeroD x) :=
  nonzeroWith_dense false x hc hfill hsh (Or.inr hnf)

/-- **nonzero_rowmajor_fixed** (`C10-stored-fill.diff`: stored zeros filtered): the full statement. -/
theorem nonzero_rowmajor_fixed (x : COO Int) (hc : x.Canonical) (hfill : x.fill = 0) (hsh : x.shape ≠ []) :
    nonzeroFixed x = .ok (nonzeroD x) :=
  nonzeroWith_dense true x hc hfill hsh (Or.inl rfl)

/-- the error branches are modelled, not totalised: non-zero fill value and 0-d input are rejected -/
theorem nonzero_rejects (prune : Bool) (x : COO Int) (h : x.fill ≠ 0 ∨ x.shape = []) :
    nonzeroWith prune x = .error .value := by
  unfold nonzeroWith
  rcases h with h | h
  · simp [h]
  · by_cases hf : x.fill = 0 <;> simp [hf, h]

/-- non-vacuity: a canonical 2×3 array -/
example : (⟨[2, 3], [([0, 1], 5), ([1, 0], -2), ([1, 2], 7)], 0⟩ : COO Int).Canonical ∧
    nonzero (⟨[2, 3], [([0, 1], 5), ([1, 0], -2), ([1, 2], 7)], 0⟩ : COO Int) = .ok [[0, 1], [1, 0], [1, 2]] := by
  refine ⟨⟨by decide, by decide⟩, ?_⟩
  simp [nonzero, nonzeroWith]

end SparseV.C10

/-
  Property C11 — operations never modify their operands; caching is unobservable.
  Property theorems only; the invariant `cache_inv` (every cached pair (k, v) has
  v = compute k, the `_csr/_csc` memos likewise) and the step lemmas are in Lemmas/Cache.lean.

  Part 1 (cache).  The state machine of `Model/Cache.lean` follows COO.transpose / reshape / tocsr /
  tocsc with caching enabled.  `cached_run_eq_uncached` says: whatever the sequence of calls —
  any length, repeated keys, more distinct keys than the deques hold — every call returns exactly
  what the same call returns with caching disabled (including raising when that raises).
  Part 2 (storage).  `frame`: a protocol all of whose in-place writes target buffers it allocated
  itself leaves every pre-existing buffer (the operands' in particular) unchanged, whatever is
  written; `all_protocols_write_fresh` checks that premise for the whole transcribed table.
-/

import SparseV.Lemmas.Cache

namespace SparseV.C11

open SparseV SparseV.Cache

variable {Val : Type}

/-! ### Part 1 — the cache -/

/-- **cache_inv is preserved by every call.** -/
theorem cache_inv_step (o : Ops Val) (s : State Val) (c : Call) (h : cache_inv o s) :
    cache_inv o (step o s c).1 := (step_spec o s c h).1

/-- a freshly enabled cache (`enable_caching`) satisfies the invariant -/
theorem cache_inv_init (o : Ops Val) : cache_inv o ({} : State Val) := by
  refine ⟨?_, ?_, ?_, ?_⟩ <;> intro _ h <;> cases h

/-- **cached_run_eq_uncached.** For EVERY sequence of transpose/reshape/tocsr/tocsc calls on a
cache-enabled array — any length, keys repeated in any order, more distinct keys than the deques
hold, computations that raise — the list of outcomes equals the list of outcomes of the same calls
with caching disabled. -/
theorem cached_run_eq_uncached (o : Ops Val) (calls : List Call) :
    outputs o calls = calls.map (uncached o) :=
  (run_spec o calls {} (cache_inv_init o)).2

/-- the same from any reachable state (e.g. the array handed to a second piece of code mid-history) -/
theorem cached_run_eq_uncached_from (o : Ops Val) (pre calls : List Call) :
    (run o (run o {} pre).1 calls).2 = calls.map (uncached o) :=
  (run_spec o calls _ (run_spec o pre {} (cache_inv_init o)).1).2

/-- **capacity invariant.** After every call sequence both deques hold at most 3 entries. -/
theorem capacity_inv (o : Ops Val) (calls : List Call) :
    ∀ s : State Val, s.tr.length ≤ capacity → s.rs.length ≤ capacity →
      (run o s calls).1.tr.length ≤ capacity ∧ (run o s calls).1.rs.length ≤ capacity := by
  induction calls with
  | nil => intro s h1 h2; exact ⟨h1, h2⟩
  | cons c cs ih =>
    intro s h1 h2
    simp only [run]
    apply ih
    · cases c <;> simp only [step] <;> (try split) <;> (try split) <;> (try split) <;>
        first | exact h1 | exact viaDeque_length o _ _ h1
    · cases c <;> simp only [step] <;> (try split) <;> (try split) <;> (try split) <;>
        first | exact h2 | exact viaDeque_length o _ _ h2

/-- non-vacuity: five distinct transposes (beyond capacity), one repeated after eviction, tocsc
before tocsr, a reshape hit; values are the keys themselves.  The cached run returns the uncached
values, the first key has been evicted and the deque holds exactly the last three. -/
def exOps : Ops Key :=
  { shape := [2, 3, 4], self := .reshape [2, 3, 4], compute := fun k => .ok k,
    csrToCsc := fun _ => .csc, cscToCsr := fun _ => .csr }

def exCalls : List Call :=
  [.transpose [1, 0, 2], .transpose [2, 1, 0], .transpose [0, 2, 1], .transpose [1, 2, 0],
   .transpose [1, 0, 2], .csc, .csr, .reshape [6, 4] true, .reshape [6, 4] false, .transpose [0, 1, 2],
   .reshape [2, 3, 4] true, .reshape [2, 3, 4] false]

example : outputs exOps exCalls = exCalls.map (uncached exOps)
    ∧ (run exOps {} exCalls).1.tr.map (·.1) = [.transpose [0, 2, 1], .transpose [1, 2, 0], .transpose [1, 0, 2]]
    ∧ ((observe exOps {} exCalls).map (·.hit)) = [false, false, false, false, false, false, true, false, true, false, false, false]
    ∧ ((observe exOps {} exCalls).map (·.self)) = [false, false, false, false, false, false, false, false, false, true, true, false] := by
  decide

/-! ### Part 2 — storage -/

open SparseV.Buffer

/-- **frame.** If every in-place write of a protocol targets a buffer allocated earlier in the same
protocol (`writesFresh`), then executing it — from any heap, with the operands bound to any
pre-existing buffers, whatever the writes store — leaves every pre-existing buffer unchanged. -/
theorem frame (w : Nat → Content → Content) (p : List Step) :
    ∀ (k : Nat) (h : Heap), writesFresh (h.env.map Loc.isNew) p = true → (exec w k h p).old = h.old := by
  induction p with
  | nil => intro k h _; rfl
  | cons s ss ih =>
    intro k h hw
    simp only [writesFresh, Bool.and_eq_true] at hw
    have h1 := exec1_old w k h s _ rfl hw.1
    simp only [exec]
    rw [ih (k + 1) (exec1 w k h s) (by rw [h1.2]; exact hw.2), h1.1]

/-- **names_fresh_iff_tagged.** The static classification is sound for storage, not only for
writes: after executing a `writesFresh` protocol, a name refers to storage allocated by the protocol
exactly when its static tag says so — so a result field the table calls fresh cannot be a view of
an operand, and one it calls a view is one. -/
theorem names_fresh_iff_tagged (w : Nat → Content → Content) (p : List Step) :
    ∀ (k : Nat) (h : Heap), writesFresh (h.env.map Loc.isNew) p = true →
      (exec w k h p).env.map Loc.isNew = p.foldl tag1 (h.env.map Loc.isNew) := by
  induction p with
  | nil => intro k h _; rfl
  | cons s ss ih =>
    intro k h hw
    simp only [writesFresh, Bool.and_eq_true] at hw
    have h1 := exec1_old w k h s _ rfl hw.1
    simp only [exec, List.foldl_cons]
    rw [ih (k + 1) (exec1 w k h s) (by rw [h1.2]; exact hw.2), h1.2]

/-- **alias_map_consistent.** For every protocol of the table the alias map used by the tie
(`origins`: which operand buffer a name may share storage with) calls a name fresh exactly when
the tag analysis of `frame` does (whole table, by evaluation). -/
theorem alias_map_consistent : ∀ p ∈ protocols,
    (origins p.operands.length p.steps).map Option.isNone = p.steps.foldl tag1 p.tags0 := by
  decide

/-- **all_protocols_write_fresh.** Every protocol of the transcribed table is well scoped and
writes only into buffers it allocated itself (the whole table, by evaluation). -/
theorem all_protocols_write_fresh : ∀ p ∈ protocols, p.writesFresh = true ∧ p.wellScoped = true := by
  decide

/-- **operands_unchanged.** For every transcribed operation, whatever buffers its operands occupy
and whatever else is on the heap, after the operation every pre-existing buffer has the content it
had before. -/
theorem operands_unchanged (p : Protocol) (hp : p ∈ protocols) (w : Nat → Content → Content)
    (old : List Content) (bufs : List Nat) (hb : bufs.length = p.operands.length) :
    (exec w 0 { old := old, new := [], env := bufs.map Loc.old } p.steps).old = old := by
  apply frame
  have := (all_protocols_write_fresh p hp).1
  unfold Protocol.writesFresh Protocol.tags0 at this
  rw [← hb] at this
  have hm : (List.map Loc.old bufs).map Loc.isNew = List.replicate bufs.length false := by
    clear this hb
    induction bufs with
    | nil => rfl
    | cons b bs ih => simp only [List.map_cons, List.length_cons, List.replicate_succ, ih, Loc.isNew]
  simp only [hm]
  exact this

/-- the premise of `frame` is not vacuous and not trivially true: `roll` without its `np.copy`
(writing through the operand's `coords`) is rejected by the same static test, and on a concrete
heap it does change the operand. -/
example : writesFresh [false, false] [.writeInPlace 0, .writeInPlace 0] = false
    ∧ (exec (fun _ c => c.map (· + 1)) 0 { old := [[0, 1], [5, 7]], new := [], env := [.old 0, .old 1] }
        [.writeInPlace 0]).old = [[1, 2], [5, 7]]
    ∧ (exec (fun _ c => c.map (· + 1)) 0 { old := [[0, 1], [5, 7]], new := [], env := [.old 0, .old 1] }
        [.copyOf 0, .writeInPlace 2]).old = [[0, 1], [5, 7]]
    ∧ (exec (fun _ c => c.map (· + 1)) 0 { old := [[0, 1], [5, 7]], new := [], env := [.old 0, .old 1] }
        [.copyOf 0, .writeInPlace 2]).new = [[1, 2]] := by decide

end SparseV.C11

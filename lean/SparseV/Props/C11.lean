/-
  Property C11 — operations never modify their operands; caching is unobservable.
  Property theorems only (plus the small lemmas they are assembled from).

  Part 1 (cache).  The state machine of `Model/Cache.lean` follows COO.transpose / reshape / tocsr /
  tocsc with caching enabled.  `cached_run_eq_uncached` says: whatever the sequence of calls —
  any length, repeated keys, more distinct keys than the deques hold — every call returns exactly
  what the same call returns with caching disabled (including raising when that raises).
  Part 2 (storage).  `frame`: a protocol all of whose in-place writes target buffers it allocated
  itself leaves every pre-existing buffer (the operands' in particular) unchanged, whatever is
  written; `all_protocols_write_fresh` checks that premise for the whole transcribed table.
-/
import SparseV.Model.Cache
import SparseV.Model.Buffer
namespace SparseV.C11
open SparseV SparseV.Cache

variable {Val : Type}

/-! ### Part 1 — the cache -/

theorem mem_of_lookup {c : Cache Val} {k : Key} {v : Val} (h : lookup c k = some v) : (k, v) ∈ c := by
  unfold lookup at h
  cases hf : c.find? (fun e => e.1 == k) with
  | none => simp [hf] at h
  | some e =>
    simp only [hf, Option.map_some, Option.some.injEq] at h
    have hm := List.mem_of_find?_eq_some hf
    have hk : e.1 = k := by simpa using List.find?_some hf
    rw [← h, ← hk]
    exact hm

theorem mem_append {c : Cache Val} {k : Key} {v : Val} {e : Key × Val} (h : e ∈ append c k v) :
    e ∈ c ∨ e = (k, v) := by
  unfold append at h
  split at h
  · rcases List.mem_append.mp h with h | h
    · exact Or.inl (List.mem_of_mem_drop h)
    · exact Or.inr (by simpa using h)
  · rcases List.mem_append.mp h with h | h
    · exact Or.inl h
    · exact Or.inr (by simpa using h)

/-- **capacity.** A deque never holds more than `capacity = 3` entries after an append, whatever it
held before (`deque(maxlen=3)`). -/
theorem append_length_le (c : Cache Val) (k : Key) (v : Val) : (append c k v).length ≤ capacity := by
  unfold append capacity
  split
  · simp only [List.length_append, List.length_drop, List.length_cons, List.length_nil]; omega
  · simp only [List.length_append, List.length_cons, List.length_nil]; omega

/-- every pair held by a deque is a correct result for its key -/
def DequeInv (o : Ops Val) (c : Cache Val) : Prop := ∀ e ∈ c, o.compute e.1 = .ok e.2

/-- **cache_inv.** Everything the cache holds is what the uncached computation returns for that key:
each deque entry `(k, v)` has `compute k = v`; the `_csr` memo is `_tocsr()`; the `_csc` memo is
the conversion of the `_csr` memo, which then exists. -/
def cache_inv (o : Ops Val) (s : State Val) : Prop :=
  DequeInv o s.tr ∧ DequeInv o s.rs ∧
  (∀ v, s.csr = some v → o.compute .csr = .ok v) ∧
  (∀ v, s.csc = some v → ∃ r, s.csr = some r ∧ v = o.csrToCsc r)

theorem viaDeque_spec (o : Ops Val) (c : Cache Val) (k : Key) (h : DequeInv o c) :
    DequeInv o (viaDeque o c k).1 ∧ (viaDeque o c k).2 = o.compute k := by
  unfold viaDeque
  cases hl : lookup c k with
  | some v =>
    have := h _ (mem_of_lookup hl)
    exact ⟨h, this.symm⟩
  | none =>
    cases hc : o.compute k with
    | error e => exact ⟨h, rfl⟩
    | ok v =>
      refine ⟨?_, rfl⟩
      intro e he
      rcases mem_append he with he | he
      · exact h e he
      · rw [he]; exact hc

/-- one call: the invariant is kept and the outcome is the uncached one -/
theorem step_spec (o : Ops Val) (s : State Val) (c : Call) (h : cache_inv o s) :
    cache_inv o (step o s c).1 ∧ (step o s c).2 = uncached o c := by
  obtain ⟨htr, hrs, hcsr, hcsc⟩ := h
  cases c with
  | transpose axes =>
    by_cases hid : axes = List.range o.shape.length
    · have hst : step o s (.transpose axes) = (s, .ok o.self) := by simp only [step, if_pos hid]
      have hun : uncached o (.transpose axes) = .ok o.self := by simp only [uncached, if_pos hid]
      rw [hst, hun]; exact ⟨⟨htr, hrs, hcsr, hcsc⟩, rfl⟩
    · have hst : step o s (.transpose axes) =
          ({ s with tr := (viaDeque o s.tr (.transpose axes)).1 }, (viaDeque o s.tr (.transpose axes)).2) := by
        simp only [step, if_neg hid]
      have hun : uncached o (.transpose axes) = o.compute (.transpose axes) := by simp only [uncached, if_neg hid]
      have := viaDeque_spec o s.tr (.transpose axes) htr
      rw [hst, hun]; exact ⟨⟨this.1, hrs, hcsr, hcsc⟩, this.2⟩
  | reshape sh lit =>
    by_cases hid : lit = true ∧ sh = o.shape
    · have hst : step o s (.reshape sh lit) = (s, .ok o.self) := by simp only [step, if_pos hid]
      have hun : uncached o (.reshape sh lit) = .ok o.self := by simp only [uncached, if_pos hid]
      rw [hst, hun]; exact ⟨⟨htr, hrs, hcsr, hcsc⟩, rfl⟩
    · have hst : step o s (.reshape sh lit) =
          ({ s with rs := (viaDeque o s.rs (.reshape sh)).1 }, (viaDeque o s.rs (.reshape sh)).2) := by
        simp only [step, if_neg hid]
      have hun : uncached o (.reshape sh lit) = o.compute (.reshape sh) := by simp only [uncached, if_neg hid]
      have := viaDeque_spec o s.rs (.reshape sh) hrs
      rw [hst, hun]; exact ⟨⟨htr, this.1, hcsr, hcsc⟩, this.2⟩
  | csr =>
    have hun : uncached o .csr = o.compute .csr := rfl
    rw [hun]
    cases h1 : s.csr with
    | some v =>
      have hst : step o s .csr = (s, .ok v) := by simp only [step, h1]
      rw [hst]; exact ⟨⟨htr, hrs, hcsr, hcsc⟩, (hcsr v h1).symm⟩
    | none =>
      cases h2 : s.csc with
      | some c =>
        obtain ⟨r, hr, _⟩ := hcsc c h2
        rw [h1] at hr; cases hr
      | none =>
        cases h3 : o.compute .csr with
        | error e =>
          have hst : step o s .csr = (s, .error e) := by simp only [step, h1, h2, h3]
          rw [hst]; exact ⟨⟨htr, hrs, hcsr, hcsc⟩, rfl⟩
        | ok v =>
          have hst : step o s .csr = ({ s with csr := some v }, .ok v) := by simp only [step, h1, h2, h3]
          rw [hst]
          refine ⟨⟨htr, hrs, ?_, ?_⟩, rfl⟩
          · intro v' hv'
            have : v = v' := by simpa using hv'
            rw [← this]; exact h3
          · intro v' hv'
            have : s.csc = some v' := hv'
            rw [h2] at this; cases this
  | csc =>
    have hun : uncached o .csc = (o.compute .csr).map o.csrToCsc := rfl
    rw [hun]
    cases h1 : s.csc with
    | some v =>
      obtain ⟨r, hr, hv⟩ := hcsc v h1
      have hst : step o s .csc = (s, .ok v) := by simp only [step, h1]
      rw [hst]
      refine ⟨⟨htr, hrs, hcsr, hcsc⟩, ?_⟩
      rw [hcsr r hr, hv]; rfl
    | none =>
      cases h2 : s.csr with
      | some r =>
        have hst : step o s .csc = ({ s with csc := some (o.csrToCsc r) }, .ok (o.csrToCsc r)) := by
          simp only [step, h1, h2]
        rw [hst]
        refine ⟨⟨htr, hrs, ?_, ?_⟩, ?_⟩
        · intro v hv; exact hcsr v hv
        · intro v hv
          have : o.csrToCsc r = v := by simpa using hv
          exact ⟨r, h2, this.symm⟩
        · rw [hcsr r h2]; rfl
      | none =>
        cases h3 : o.compute .csr with
        | error e =>
          have hst : step o s .csc = (s, .error e) := by simp only [step, h1, h2, h3]
          rw [hst]; exact ⟨⟨htr, hrs, hcsr, hcsc⟩, rfl⟩
        | ok r =>
          have hst : step o s .csc = ({ s with csr := some r, csc := some (o.csrToCsc r) }, .ok (o.csrToCsc r)) := by
            simp only [step, h1, h2, h3]
          rw [hst]
          refine ⟨⟨htr, hrs, ?_, ?_⟩, rfl⟩
          · intro v hv
            have : r = v := by simpa using hv
            rw [← this]; exact h3
          · intro v hv
            have : o.csrToCsc r = v := by simpa using hv
            exact ⟨r, rfl, this.symm⟩

/-- **cache_inv is preserved by every call.** -/
theorem cache_inv_step (o : Ops Val) (s : State Val) (c : Call) (h : cache_inv o s) :
    cache_inv o (step o s c).1 := (step_spec o s c h).1

/-- a freshly enabled cache (`enable_caching`) satisfies the invariant -/
theorem cache_inv_init (o : Ops Val) : cache_inv o ({} : State Val) := by
  refine ⟨?_, ?_, ?_, ?_⟩ <;> intro _ h <;> cases h

theorem run_spec (o : Ops Val) (calls : List Call) :
    ∀ s, cache_inv o s → cache_inv o (run o s calls).1 ∧ (run o s calls).2 = calls.map (uncached o) := by
  induction calls with
  | nil => intro s h; exact ⟨h, rfl⟩
  | cons c cs ih =>
    intro s h
    have h1 := step_spec o s c h
    have h2 := ih _ h1.1
    simp only [run, List.map_cons]
    exact ⟨h2.1, by rw [h1.2, h2.2]⟩

/-- **cached_run_eq_uncached.** For EVERY sequence of transpose/reshape/tocsr/tocsc calls on a
cache-enabled array — any length, keys repeated in any order, more distinct keys than the deques
hold, computations that raise — the list of outcomes equals the list of outcomes of the same calls
with caching disabled. -/
theorem cached_run_eq_uncached (o : Ops Val) (calls : List Call) :
    outputs o calls = calls.map (uncached o) :=
  (run_spec o calls {} (cache_inv_init o)).2

/-- the same from any reachable state (e.g. the array handed to a second piece of code mid-history) -/
theorem cached_run_eq_uncached_from (o : Ops Val) (pre calls : List Call) :
    (run o (run o {} pre).1 calls).2 = calls.map (uncached o) :=
  (run_spec o calls _ (run_spec o pre {} (cache_inv_init o)).1).2

theorem viaDeque_length (o : Ops Val) (c : Cache Val) (k : Key) (h : c.length ≤ capacity) :
    (viaDeque o c k).1.length ≤ capacity := by
  unfold viaDeque
  cases lookup c k with
  | some v => exact h
  | none =>
    cases o.compute k with
    | error e => exact h
    | ok v => exact append_length_le c k v

/-- **capacity invariant.** After every call sequence both deques hold at most 3 entries. -/
theorem capacity_inv (o : Ops Val) (calls : List Call) :
    ∀ s : State Val, s.tr.length ≤ capacity → s.rs.length ≤ capacity →
      (run o s calls).1.tr.length ≤ capacity ∧ (run o s calls).1.rs.length ≤ capacity := by
  induction calls with
  | nil => intro s h1 h2; exact ⟨h1, h2⟩
  | cons c cs ih =>
    intro s h1 h2
    simp only [run]
    apply ih
    · cases c <;> simp only [step] <;> (try split) <;> (try split) <;> (try split) <;>
        first | exact h1 | exact viaDeque_length o _ _ h1
    · cases c <;> simp only [step] <;> (try split) <;> (try split) <;> (try split) <;>
        first | exact h2 | exact viaDeque_length o _ _ h2

/-- non-vacuity: five distinct transposes (beyond capacity), one repeated after eviction, tocsc
before tocsr, a reshape hit; values are the keys themselves.  The cached run returns the uncached
values, the first key has been evicted and the deque holds exactly the last three. -/
def exOps : Ops Key :=
  { shape := [2, 3, 4], self := .reshape [2, 3, 4], compute := fun k => .ok k,
    csrToCsc := fun _ => .csc, cscToCsr := fun _ => .csr }
def exCalls : List Call :=
  [.transpose [1, 0, 2], .transpose [2, 1, 0], .transpose [0, 2, 1], .transpose [1, 2, 0],
   .transpose [1, 0, 2], .csc, .csr, .reshape [6, 4] true, .reshape [6, 4] false, .transpose [0, 1, 2],
   .reshape [2, 3, 4] true, .reshape [2, 3, 4] false]
example : outputs exOps exCalls = exCalls.map (uncached exOps)
    ∧ (run exOps {} exCalls).1.tr.map (·.1) = [.transpose [0, 2, 1], .transpose [1, 2, 0], .transpose [1, 0, 2]]
    ∧ ((observe exOps {} exCalls).map (·.hit)) = [false, false, false, false, false, false, true, false, true, false, false, false]
    ∧ ((observe exOps {} exCalls).map (·.self)) = [false, false, false, false, false, false, false, false, false, true, true, false] := by
  decide

/-! ### Part 2 — storage -/

open SparseV.Buffer

theorem exec1_old (w : Nat → Content → Content) (k : Nat) (h : Heap) (s : Step) (tags : List Bool)
    (ht : h.env.map Loc.isNew = tags)
    (hs : (match s with | .writeInPlace d => tags[d]? == some true | _ => true) = true) :
    (exec1 w k h s).old = h.old ∧ (exec1 w k h s).env.map Loc.isNew = tag1 tags s := by
  cases s with
  | alloc => simp [exec1, tag1, ht, Loc.isNew]
  | copyOf x =>
    simp only [exec1, tag1]
    have hl : tags.length = h.env.length := by rw [← ht]; simp
    cases hx : h.env[x]? with
    | some l =>
      have : x < tags.length := by rw [hl]; exact (List.getElem?_eq_some_iff.mp hx).1
      simp [this, ht, Loc.isNew]
    | none =>
      have : ¬ x < tags.length := by rw [hl]; simpa using hx
      simp [this, ht]
  | viewOf x =>
    simp only [exec1, tag1]
    have hm : tags[x]? = (h.env[x]?).map Loc.isNew := by rw [← ht]; simp
    cases hx : h.env[x]? with
    | some l => simp [hm, hx, ht]
    | none => simp [hm, hx, ht]
  | writeInPlace d =>
    simp only [exec1, tag1]
    have hm : tags[d]? = (h.env[d]?).map Loc.isNew := by rw [← ht]; simp
    cases hx : h.env[d]? with
    | none => exact ⟨rfl, ht⟩
    | some l =>
      cases l with
      | new j => exact ⟨rfl, ht⟩
      | old b =>
        exfalso
        simp only [hm, hx] at hs
        simp [Loc.isNew] at hs

/-- **frame.** If every in-place write of a protocol targets a buffer allocated earlier in the same
protocol (`writesFresh`), then executing it — from any heap, with the operands bound to any
pre-existing buffers, whatever the writes store — leaves every pre-existing buffer unchanged. -/
theorem frame (w : Nat → Content → Content) (p : List Step) :
    ∀ (k : Nat) (h : Heap), writesFresh (h.env.map Loc.isNew) p = true → (exec w k h p).old = h.old := by
  induction p with
  | nil => intro k h _; rfl
  | cons s ss ih =>
    intro k h hw
    simp only [writesFresh, Bool.and_eq_true] at hw
    have h1 := exec1_old w k h s _ rfl hw.1
    simp only [exec]
    rw [ih (k + 1) (exec1 w k h s) (by rw [h1.2]; exact hw.2), h1.1]

/-- **names_fresh_iff_tagged.** The static classification is sound for storage, not only for
writes: after executing a `writesFresh` protocol, a name refers to storage allocated by the protocol
exactly when its static tag says so — so a result field the table calls fresh cannot be a view of
an operand, and one it calls a view is one. -/
theorem names_fresh_iff_tagged (w : Nat → Content → Content) (p : List Step) :
    ∀ (k : Nat) (h : Heap), writesFresh (h.env.map Loc.isNew) p = true →
      (exec w k h p).env.map Loc.isNew = p.foldl tag1 (h.env.map Loc.isNew) := by
  induction p with
  | nil => intro k h _; rfl
  | cons s ss ih =>
    intro k h hw
    simp only [writesFresh, Bool.and_eq_true] at hw
    have h1 := exec1_old w k h s _ rfl hw.1
    simp only [exec, List.foldl_cons]
    rw [ih (k + 1) (exec1 w k h s) (by rw [h1.2]; exact hw.2), h1.2]

/-- **alias_map_consistent.** For every protocol of the table the alias map used by the tie
(`origins`: which operand buffer a name may share storage with) calls a name fresh exactly when
the tag analysis of `frame` does (whole table, by evaluation). -/
theorem alias_map_consistent : ∀ p ∈ protocols,
    (origins p.operands.length p.steps).map Option.isNone = p.steps.foldl tag1 p.tags0 := by
  decide

/-- **all_protocols_write_fresh.** Every protocol of the transcribed table is well scoped and
writes only into buffers it allocated itself (the whole table, by evaluation). -/
theorem all_protocols_write_fresh : ∀ p ∈ protocols, p.writesFresh = true ∧ p.wellScoped = true := by
  decide

/-- **operands_unchanged.** For every transcribed operation, whatever buffers its operands occupy
and whatever else is on the heap, after the operation every pre-existing buffer has the content it
had before. -/
theorem operands_unchanged (p : Protocol) (hp : p ∈ protocols) (w : Nat → Content → Content)
    (old : List Content) (bufs : List Nat) (hb : bufs.length = p.operands.length) :
    (exec w 0 { old := old, new := [], env := bufs.map Loc.old } p.steps).old = old := by
  apply frame
  have := (all_protocols_write_fresh p hp).1
  unfold Protocol.writesFresh Protocol.tags0 at this
  rw [← hb] at this
  have hm : (List.map Loc.old bufs).map Loc.isNew = List.replicate bufs.length false := by
    clear this hb
    induction bufs with
    | nil => rfl
    | cons b bs ih => simp only [List.map_cons, List.length_cons, List.replicate_succ, ih, Loc.isNew]
  simp only [hm]
  exact this

/-- the premise of `frame` is not vacuous and not trivially true: `roll` without its `np.copy`
(writing through the operand's `coords`) is rejected by the same static test, and on a concrete
heap it does change the operand. -/
example : writesFresh [false, false] [.writeInPlace 0, .writeInPlace 0] = false
    ∧ (exec (fun _ c => c.map (· + 1)) 0 { old := [[0, 1], [5, 7]], new := [], env := [.old 0, .old 1] }
        [.writeInPlace 0]).old = [[1, 2], [5, 7]]
    ∧ (exec (fun _ c => c.map (· + 1)) 0 { old := [[0, 1], [5, 7]], new := [], env := [.old 0, .old 1] }
        [.copyOf 0, .writeInPlace 2]).old = [[0, 1], [5, 7]]
    ∧ (exec (fun _ c => c.map (· + 1)) 0 { old := [[0, 1], [5, 7]], new := [], env := [.old 0, .old 1] }
        [.copyOf 0, .writeInPlace 2]).new = [[1, 2]] := by decide

end SparseV.C11

/-
  The program theorems — property C06 ("every array any operation returns is canonical, whatever
  sequence of operations produced its inputs") and the "equals NumPy on the densified operands"
  part of C01/C02/C03/C05/C08/C09, for EVERY program over the modelled operations, by induction over
  the program.  Property theorems only; the per-operation step lemmas are in Lemmas/Prog*.lean.

  `evalModel e` runs program `e` through the models of the library (`Model/Expr.lean`), `evalSpec e`
  is its dense NumPy meaning.  Literal inputs are raw coordinate lists (any order, repeats, explicit
  fill-valued entries) that go through the constructor.
-/
import SparseV.Lemmas.ProgBase
import SparseV.Lemmas.ProgShape
import SparseV.Lemmas.ProgElem
import SparseV.Lemmas.ProgIndex
import SparseV.Lemmas.ProgReduce
import SparseV.Lemmas.ProgJoin
import SparseV.Lemmas.ProgMisc
namespace SparseV.Program
open SparseV SparseV.COO

/-- simulation for the member list of a join -/
def SimL (nf : Prop) (m : Except Err (COO Int × List (COO Int))) (s : Except Err (Dense × List Dense)) : Prop :=
  match m with
  | .ok p => (∀ y ∈ p.1 :: p.2, Good y) ∧ (nf → ∀ y ∈ p.1 :: p.2, y.NoFill) ∧
      ∃ q, s = .ok q ∧ Refines p.1 q.1 ∧ RefinesL p.2 q.2
  | .error e => s = .error e

mutual
/-- the induction: every program's model run is simulated by its spec run -/
theorem sim_expr : ∀ e : Expr, Sim e.LeavesNoFill (evalModel e) (evalSpec e)
  | .lit shape es fill prune => by
    rw [evalModel, evalSpec, Expr.LeavesNoFill]
    exact lit_step shape es fill prune
  | .ew1 f a => by
    rw [evalModel, evalSpec, Expr.LeavesNoFill]
    exact (sim_expr a).bind (fun x d hg hr => ew1_step f x d hg hr)
  | .ew2 f a b => by
    rw [evalModel, evalSpec, Expr.LeavesNoFill]
    have ha := sim_expr a
    have hb := sim_expr b
    cases hma : evalModel a with
    | error e =>
      rw [hma] at ha
      have hs : evalSpec a = .error e := ha
      rw [hs]; exact Sim.err e
    | ok x =>
      rw [hma] at ha
      obtain ⟨hgx, hnx, dx, hsx, hrx⟩ := ha
      rw [hsx]
      cases hmb : evalModel b with
      | error e =>
        rw [hmb] at hb
        have hs : evalSpec b = .error e := hb
        rw [hs]; exact Sim.err e
      | ok y =>
        rw [hmb] at hb
        obtain ⟨hgy, hny, dy, hsy, hry⟩ := hb
        rw [hsy]
        exact (ew2_step f x y dx dy hgx hrx hgy hry).mono (fun h => ⟨hnx h.1, hny h.2⟩)
  | .broadcastTo a s => by
    rw [evalModel, evalSpec, Expr.LeavesNoFill]
    exact (sim_expr a).bind (fun x d hg hr => broadcastTo_step x d s hg hr)
  | .transpose a axes => by
    rw [evalModel, evalSpec, Expr.LeavesNoFill]
    exact (sim_expr a).bind (fun x d hg hr => transpose_step x d axes hg hr)
  | .reshape a s => by
    rw [evalModel, evalSpec, Expr.LeavesNoFill]
    exact (sim_expr a).bind (fun x d hg hr => reshape_step x d s hg hr)
  | .flip a axes => by
    rw [evalModel, evalSpec, Expr.LeavesNoFill]
    exact (sim_expr a).bind (fun x d hg hr => flip_step x d axes hg hr)
  | .roll a sh axes => by
    rw [evalModel, evalSpec, Expr.LeavesNoFill]
    exact (sim_expr a).bind (fun x d hg hr => roll_step x d sh axes hg hr)
  | .squeeze a axes => by
    rw [evalModel, evalSpec, Expr.LeavesNoFill]
    exact (sim_expr a).bind (fun x d hg hr => squeeze_step x d axes hg hr)
  | .expandDims a axis => by
    rw [evalModel, evalSpec, Expr.LeavesNoFill]
    exact (sim_expr a).bind (fun x d hg hr => expandDims_step x d axis hg hr)
  | .getitem a idx => by
    rw [evalModel, evalSpec, Expr.LeavesNoFill]
    exact (sim_expr a).bind (fun x d hg hr => getitem_step x d idx hg hr)
  | .reduce op a axes => by
    rw [evalModel, evalSpec, Expr.LeavesNoFill]
    exact (sim_expr a).bind (fun x d hg hr => reduce_step op x d axes hg hr)
  | .concat xs axis => by
    rw [evalModel, evalSpec, Expr.LeavesNoFill]
    have hx := sim_exprs xs
    cases hm : evalModels xs with
    | error e =>
      rw [hm] at hx
      have hs : evalSpecs xs = .error e := hx
      rw [hs]; exact Sim.err e
    | ok p =>
      rw [hm] at hx
      obtain ⟨hg, hn, q, hs, hr0, hrr⟩ := hx
      rw [hs]
      exact (concat_step p.1 p.2 q.1 q.2 axis hg hr0 hrr).mono hn
  | .stack xs axis => by
    rw [evalModel, evalSpec, Expr.LeavesNoFill]
    have hx := sim_exprs xs
    cases hm : evalModels xs with
    | error e =>
      rw [hm] at hx
      have hs : evalSpecs xs = .error e := hx
      rw [hs]; exact Sim.err e
    | ok p =>
      rw [hm] at hx
      obtain ⟨hg, hn, q, hs, hr0, hrr⟩ := hx
      rw [hs]
      exact (stack_step p.1 p.2 q.1 q.2 axis hg hr0 hrr).mono hn
  | .triu a k => by
    rw [evalModel, evalSpec, Expr.LeavesNoFill]
    exact (sim_expr a).bind (fun x d hg hr => tri_step true x d k hg hr)
  | .tril a k => by
    rw [evalModel, evalSpec, Expr.LeavesNoFill]
    exact (sim_expr a).bind (fun x d hg hr => tri_step false x d k hg hr)
  | .diagonal a off a1 a2 => by
    rw [evalModel, evalSpec, Expr.LeavesNoFill]
    exact (sim_expr a).bind (fun x d hg hr => diagonal_step x d off a1 a2 hg hr)
  | .viaGcxs a c => by
    rw [evalModel, evalSpec, Expr.LeavesNoFill]
    exact (sim_expr a).bind (fun x d hg hr => viaGcxs_step x d c hg hr)
  | .viaDok a => by
    rw [evalModel, evalSpec, Expr.LeavesNoFill]
    exact (sim_expr a).bind (fun x d hg hr => viaDok_step x d hg hr)
theorem sim_exprs : ∀ es : Exprs, SimL es.LeavesNoFill (evalModels es) (evalSpecs es)
  | .one e => by
    rw [evalModels, evalSpecs, Exprs.LeavesNoFill]
    have he := sim_expr e
    cases hm : evalModel e with
    | error er =>
      rw [hm] at he
      have hs : evalSpec e = .error er := he
      rw [hs]; rfl
    | ok x =>
      rw [hm] at he
      obtain ⟨hg, hn, d, hs, hr⟩ := he
      rw [hs]
      refine ⟨?_, ?_, (d, []), rfl, hr, RefinesL.nil⟩
      · intro y hy
        simp only [List.mem_singleton] at hy
        subst hy; exact hg
      · intro h y hy
        simp only [List.mem_singleton] at hy
        subst hy; exact hn h
  | .cons e rest => by
    rw [evalModels, evalSpecs, Exprs.LeavesNoFill]
    have he := sim_expr e
    have hrest := sim_exprs rest
    cases hm : evalModel e with
    | error er =>
      rw [hm] at he
      have hs : evalSpec e = .error er := he
      rw [hs]; rfl
    | ok x =>
      rw [hm] at he
      obtain ⟨hg, hn, d, hs, hr⟩ := he
      rw [hs]
      cases hmr : evalModels rest with
      | error er =>
        rw [hmr] at hrest
        have hs2 : evalSpecs rest = .error er := hrest
        rw [hs2]; rfl
      | ok p =>
        rw [hmr] at hrest
        obtain ⟨hgp, hnp, q, hsq, hr0, hrr⟩ := hrest
        rw [hsq]
        refine ⟨?_, ?_, (d, q.1 :: q.2), rfl, hr, RefinesL.cons hr0 hrr⟩
        · intro y hy
          rcases List.mem_cons.mp hy with rfl | hy
          · exact hg
          · exact hgp y hy
        · intro h y hy
          rcases List.mem_cons.mp hy with rfl | hy
          · exact hn h.1
          · exact hnp h.2 y hy
end

/-- **program_canonical** (property C06 for arbitrary operation sequences).  Whatever program `e`
over the modelled operations is run — any nesting depth, any operation kinds, literal inputs with
coordinates in any order, with repeats and with explicit fill-valued entries — the array the model
of the library returns is in canonical form: every stored index inside the shape, stored indices
strictly increasing in row-major order (so: sorted and without repeats), and, if no literal input
stores a fill-valued entry after construction, no stored element equals the fill value. -/
theorem program_canonical (e : Expr) (x : COO Int) (h : evalModel e = .ok x) :
    x.WF ∧ SortedLin x.shape x.entries ∧ (e.LeavesNoFill → x.NoFill) := by
  have hs := sim_expr e
  rw [h] at hs
  exact ⟨hs.1.wf, hs.1.sorted, hs.2.1⟩

/-- **program_refines** ("equals NumPy on the densified operands", for arbitrary operation
sequences).  If the model run of program `e` returns `x`, the dense reference semantics returns a
dense array of the same shape that `x` denotes: the same value at every in-bounds index, and the
fill value the properties prescribe. -/
theorem program_refines (e : Expr) (x : COO Int) (h : evalModel e = .ok x) :
    ∃ d, evalSpec e = .ok d ∧ x.shape = d.shape ∧ x.fill = d.fill ∧ ∀ i, InB i x.shape → x.get i = d.val i := by
  have hs := sim_expr e
  rw [h] at hs
  obtain ⟨_, _, d, hd, hr⟩ := hs
  exact ⟨d, hd, hr.shape, hr.fill, hr.val⟩

/-- **program_errors.** The model run of a program fails with error class `err` exactly when the
reference semantics does: the library raises where (and what) NumPy / the documented contract
raises, at the first failing step in evaluation order, and nowhere else. -/
theorem program_errors (e : Expr) (err : Err) : evalModel e = .error err ↔ evalSpec e = .error err := by
  have hs := sim_expr e
  constructor
  · intro h
    rw [h] at hs
    exact hs
  · intro h
    cases hm : evalModel e with
    | error e' =>
      rw [hm] at hs
      have : evalSpec e = .error e' := hs
      rw [this] at h
      rw [Except.error.inj h]
    | ok x =>
      rw [hm] at hs
      obtain ⟨_, _, d, hd, _⟩ := hs
      rw [hd] at h
      cases h

/-- a literal built with `prune=True` stores no fill-valued entry -/
theorem litNoFill_of_prune (shape : List Nat) (es : List (Idx × Int)) (fill : Int) :
    litNoFill shape es fill true := by
  intro e he
  unfold COO.build at he
  simp only [Bool.false_eq_true, if_false, if_true] at he ⊢
  exact C06.nofill_prune _ _ e he

mutual
/-- every literal input is built with `prune=True` -/
def AllPruned : Expr → Prop
  | .lit _ _ _ prune => prune = true
  | .ew1 _ a => AllPruned a
  | .ew2 _ a b => AllPruned a ∧ AllPruned b
  | .broadcastTo a _ => AllPruned a
  | .transpose a _ => AllPruned a
  | .reshape a _ => AllPruned a
  | .flip a _ => AllPruned a
  | .roll a _ _ => AllPruned a
  | .squeeze a _ => AllPruned a
  | .expandDims a _ => AllPruned a
  | .getitem a _ => AllPruned a
  | .reduce _ a _ => AllPruned a
  | .concat xs _ => AllPrunedL xs
  | .stack xs _ => AllPrunedL xs
  | .triu a _ => AllPruned a
  | .tril a _ => AllPruned a
  | .diagonal a _ _ _ => AllPruned a
  | .viaGcxs a _ => AllPruned a
  | .viaDok a => AllPruned a
def AllPrunedL : Exprs → Prop
  | .one e => AllPruned e
  | .cons e rest => AllPruned e ∧ AllPrunedL rest
end

mutual
theorem leavesNoFill_of_allPruned : ∀ e : Expr, AllPruned e → e.LeavesNoFill
  | .lit shape es fill prune, h => by
    rw [AllPruned] at h; rw [Expr.LeavesNoFill, h]; exact litNoFill_of_prune shape es fill
  | .ew1 _ a, h => by rw [AllPruned] at h; rw [Expr.LeavesNoFill]; exact leavesNoFill_of_allPruned a h
  | .ew2 _ a b, h => by
    rw [AllPruned] at h; rw [Expr.LeavesNoFill]
    exact ⟨leavesNoFill_of_allPruned a h.1, leavesNoFill_of_allPruned b h.2⟩
  | .broadcastTo a _, h => by rw [AllPruned] at h; rw [Expr.LeavesNoFill]; exact leavesNoFill_of_allPruned a h
  | .transpose a _, h => by rw [AllPruned] at h; rw [Expr.LeavesNoFill]; exact leavesNoFill_of_allPruned a h
  | .reshape a _, h => by rw [AllPruned] at h; rw [Expr.LeavesNoFill]; exact leavesNoFill_of_allPruned a h
  | .flip a _, h => by rw [AllPruned] at h; rw [Expr.LeavesNoFill]; exact leavesNoFill_of_allPruned a h
  | .roll a _ _, h => by rw [AllPruned] at h; rw [Expr.LeavesNoFill]; exact leavesNoFill_of_allPruned a h
  | .squeeze a _, h => by rw [AllPruned] at h; rw [Expr.LeavesNoFill]; exact leavesNoFill_of_allPruned a h
  | .expandDims a _, h => by rw [AllPruned] at h; rw [Expr.LeavesNoFill]; exact leavesNoFill_of_allPruned a h
  | .getitem a _, h => by rw [AllPruned] at h; rw [Expr.LeavesNoFill]; exact leavesNoFill_of_allPruned a h
  | .reduce _ a _, h => by rw [AllPruned] at h; rw [Expr.LeavesNoFill]; exact leavesNoFill_of_allPruned a h
  | .concat xs _, h => by rw [AllPruned] at h; rw [Expr.LeavesNoFill]; exact leavesNoFillL_of_allPruned xs h
  | .stack xs _, h => by rw [AllPruned] at h; rw [Expr.LeavesNoFill]; exact leavesNoFillL_of_allPruned xs h
  | .triu a _, h => by rw [AllPruned] at h; rw [Expr.LeavesNoFill]; exact leavesNoFill_of_allPruned a h
  | .tril a _, h => by rw [AllPruned] at h; rw [Expr.LeavesNoFill]; exact leavesNoFill_of_allPruned a h
  | .diagonal a _ _ _, h => by rw [AllPruned] at h; rw [Expr.LeavesNoFill]; exact leavesNoFill_of_allPruned a h
  | .viaGcxs a _, h => by rw [AllPruned] at h; rw [Expr.LeavesNoFill]; exact leavesNoFill_of_allPruned a h
  | .viaDok a, h => by rw [AllPruned] at h; rw [Expr.LeavesNoFill]; exact leavesNoFill_of_allPruned a h
theorem leavesNoFillL_of_allPruned : ∀ es : Exprs, AllPrunedL es → es.LeavesNoFill
  | .one e, h => by rw [AllPrunedL] at h; rw [Exprs.LeavesNoFill]; exact leavesNoFill_of_allPruned e h
  | .cons e rest, h => by
    rw [AllPrunedL] at h; rw [Exprs.LeavesNoFill]
    exact ⟨leavesNoFill_of_allPruned e h.1, leavesNoFillL_of_allPruned rest h.2⟩
end

/-- **program_canonical_pruned.** With every literal input built with `prune=True` (so that the
inputs store no fill-valued entry), the full canonical form — in range, sorted without repeats, and
NO stored element equal to the fill value — holds for the result of every program, unconditionally. -/
theorem program_canonical_pruned (e : Expr) (x : COO Int) (hp : AllPruned e) (h : evalModel e = .ok x) :
    x.WF ∧ SortedLin x.shape x.entries ∧ x.NoFill := by
  obtain ⟨h1, h2, h3⟩ := program_canonical e x h
  exact ⟨h1, h2, h3 (leavesNoFill_of_allPruned e hp)⟩

/-! ### non-vacuity: concrete programs -/

/-- a literal input with coordinates out of order, a repeated coordinate (`[1,2]`: 7 + -3) and an
explicit entry equal to the fill value (`[0,0] ↦ 1`, fill 1) -/
def exLit : Expr := .lit [2, 3] [([1, 2], 7), ([0, 1], 5), ([1, 2], -3), ([0, 0], 1)] 1 false

/-- depth 4, six operation kinds:
`(x[::-1, None].transpose((2,0,1)) + expand_dims(x.asformat("gcxs", compressed_axes=[1]).asformat("coo"), 0)).sum(axis=0)` -/
def exProg : Expr :=
  .reduce .add (.ew2 (· + ·) (.transpose (.getitem exLit [.slice none none (some (-1)), .newaxis]) [2, 0, 1])
     (.expandDims (.viaGcxs exLit (some [1])) 0)) (some [0])

example : exProg.depth = 4 := by decide

/-- the model evaluates it to an array of shape `(2, 3)` with fill value `(1 + 1) * 3` (kernel
computation through the validation, broadcasting and shape logic of every step; the stored entries
go through `mergeSort`, which the kernel does not unfold — the theorems below speak about them) -/
theorem exProg_ok : ∃ x, evalModel exProg = .ok x ∧ x.shape = [2, 3] ∧ x.fill = 6 := by
  have h : (match evalModel exProg with
      | .ok x => decide (x.shape = [2, 3] ∧ x.fill = 6)
      | .error _ => false) = true := by decide +kernel
  cases hm : evalModel exProg with
  | error e => rw [hm] at h; cases h
  | ok x => rw [hm] at h; exact ⟨x, rfl, of_decide_eq_true h⟩

/-- the reference semantics computes NumPy's values: `[[9, 21, 9], [10, 10, 19]]` -/
theorem exProg_spec : ∃ d, evalSpec exProg = .ok d ∧
    (allIdx [2, 3]).map d.val = [9, 21, 9, 10, 10, 19] := by
  have h : (match evalSpec exProg with
      | .ok d => decide ((allIdx [2, 3]).map d.val = [9, 21, 9, 10, 10, 19])
      | .error _ => false) = true := by decide +kernel
  cases hm : evalSpec exProg with
  | error e => rw [hm] at h; cases h
  | ok d => rw [hm] at h; exact ⟨d, rfl, of_decide_eq_true h⟩

/-- … so the theorems apply with their hypothesis satisfied: the returned array is canonical and
holds NumPy's values (its dense listing is the reference's) -/
example : ∃ x, evalModel exProg = .ok x ∧ x.WF ∧ SortedLin x.shape x.entries ∧
    x.todense = [9, 21, 9, 10, 10, 19] := by
  obtain ⟨x, hx, hshape, _⟩ := exProg_ok
  obtain ⟨d', hd', hvals⟩ := exProg_spec
  obtain ⟨hwf, hs, _⟩ := program_canonical exProg x hx
  obtain ⟨d, hd, _, _, h3⟩ := program_refines exProg x hx
  have : d' = d := Except.ok.inj (hd'.symm.trans hd)
  subst this
  refine ⟨x, hx, hwf, hs, ?_⟩
  unfold COO.todense
  rw [← hvals, hshape]
  apply List.map_congr_left
  intro i hi
  exact h3 i (by rw [hshape]; exact mem_allIdx.mp hi)

/-- a join of the input with its flip along both axes, then a pruned literal: `LeavesNoFill` is
satisfiable (all literals built with `prune=True`) and gives the `NoFill` conclusion -/
def exPruned : Expr :=
  .concat (.cons (.lit [2, 2] [([1, 1], 0), ([0, 1], 5), ([0, 1], -5), ([1, 0], 2)] 0 true)
    (.one (.flip (.lit [2, 2] [([1, 1], 3), ([0, 0], 0)] 0 true) [0, -1]))) 1

example : exPruned.LeavesNoFill := by
  unfold exPruned
  rw [Expr.LeavesNoFill, Exprs.LeavesNoFill, Exprs.LeavesNoFill, Expr.LeavesNoFill, Expr.LeavesNoFill,
    Expr.LeavesNoFill]
  exact ⟨litNoFill_of_prune _ _ _, litNoFill_of_prune _ _ _⟩

example : ∃ x, evalModel exPruned = .ok x ∧ x.shape = [2, 4] ∧ x.NoFill := by
  have h : (match evalModel exPruned with | .ok x => decide (x.shape = [2, 4]) | .error _ => false) = true := by
    decide +kernel
  cases hm : evalModel exPruned with
  | error e => rw [hm] at h; cases h
  | ok x =>
    rw [hm] at h
    refine ⟨x, rfl, of_decide_eq_true h, (program_canonical exPruned x hm).2.2 ?_⟩
    unfold exPruned
    rw [Expr.LeavesNoFill, Exprs.LeavesNoFill, Exprs.LeavesNoFill, Expr.LeavesNoFill, Expr.LeavesNoFill,
      Expr.LeavesNoFill]
    exact ⟨litNoFill_of_prune _ _ _, litNoFill_of_prune _ _ _⟩

/-- an error program: the reshape in the middle fails (`ValueError`), and so does the reference -/
def exErr : Expr := .ew1 (fun v => v + 1) (.reshape (.tril exLit 0) [4, 2])

example : evalModel exErr = .error .value ∧ evalSpec exErr = .error .value := by
  have h : (match evalModel exErr with | .error e => decide (e = Err.value) | .ok _ => false) = true := by
    decide +kernel
  have hm : evalModel exErr = .error .value := by
    cases hm : evalModel exErr with
    | ok x => rw [hm] at h; cases h
    | error e => rw [hm] at h; rw [of_decide_eq_true h]
  exact ⟨hm, (program_errors exErr .value).mp hm⟩

end SparseV.Program

/-
  Property C17 — all call paths to an operation give the same answer.  Property theorems only.
  The table theorems are stated over `Gen.dispatchTable` (and the other tables of Generated/Dispatch.lean),
  regenerated from the source on every run: a wrapper that forgets or renames a keyword, a shadowed method,
  a changed signature changes what is proved here.
-/
import SparseV.Model.Dispatch
namespace SparseV.C17
open SparseV SparseV.Gen SparseV.Dispatch

/-- **array_function_lookup.** For every environment (namespace, type, instance attributes) and every NumPy
function (`path`, `name`) called with `nargs` positional and `nkw` keyword arguments, `__array_function__` returns
`NotImplemented` — so that NumPy raises TypeError instead of anything densifying — exactly when the walk through
the namespace finds nothing, the type has no attribute of that name, and the one-argument attribute fallback
does not apply.  In every other case a function of the library, a method, or an attribute value answers. -/
theorem array_function_lookup (env : Env) (fallback nsBinds tyBinds : Bool) (path : List Name) (name : Name) (nargs nkw : Nat) :
    nep18 env fallback nsBinds tyBinds path name nargs nkw = Nep18.notImplemented ↔
      env.nsGet path name = none ∧ env.tyGet name = none ∧ ¬ (nargs = 1 ∧ nkw = 0 ∧ env.instHas name = true) := by
  unfold nep18
  cases hns : env.nsGet path name with
  | some c =>
    by_cases h : (fallback && !nsBinds && env.tyGet name == some true && tyBinds) = true <;> simp [h]
  | none =>
    cases hty : env.tyGet name with
    | none =>
      by_cases h1 : nargs = 1 <;> by_cases h2 : nkw = 0 <;> cases h3 : env.instHas name <;> simp [h1, h2, h3]
    | some c =>
      cases c <;> by_cases h1 : nargs = 1 <;> by_cases h2 : nkw = 0 <;> cases h3 : env.instHas name <;> simp [h1, h2, h3]

/-- the lookup never answers with the namespace when the namespace has nothing, and never calls a type attribute
that does not exist: the three answers are justified by what exists; and the `_binds` step only ever moves a call
from a namespace function that cannot take it to a callable attribute of the type that can -/
theorem array_function_lookup_sound (env : Env) (fallback nsBinds tyBinds : Bool) (path : List Name) (name : Name) (nargs nkw : Nat) :
    (nep18 env fallback nsBinds tyBinds path name nargs nkw = Nep18.callNamespace → (env.nsGet path name).isSome) ∧
    (nep18 env fallback nsBinds tyBinds path name nargs nkw = Nep18.callTypeAttr → (env.tyGet name).isSome) ∧
    (nep18 env fallback nsBinds tyBinds path name nargs nkw = Nep18.attrValue → env.instHas name = true) ∧
    (nep18 env fallback nsBinds tyBinds path name nargs nkw = Nep18.callTypeAttr → (env.nsGet path name).isSome →
        fallback = true ∧ nsBinds = false ∧ tyBinds = true ∧ env.tyGet name = some true) := by
  unfold nep18
  cases hns : env.nsGet path name with
  | some c =>
    cases hty : env.tyGet name with
    | none => cases fallback <;> cases nsBinds <;> cases tyBinds <;> simp
    | some b => cases b <;> cases fallback <;> cases nsBinds <;> cases tyBinds <;> simp
  | none =>
    cases hty : env.tyGet name with
    | none =>
      by_cases h1 : nargs = 1 <;> by_cases h2 : nkw = 0 <;> cases h3 : env.instHas name <;> simp [h1, h2, h3]
    | some c =>
      cases c <;> by_cases h1 : nargs = 1 <;> by_cases h2 : nkw = 0 <;> cases h3 : env.instHas name <;> simp [h1, h2, h3]

/-- **index_faithful.** The row indexes emitted by the generator (namespace name ↦ row, package function ↦ row,
class ↦ attribute ↦ row along the MRO, first definition wins) are exactly what the table and the MRO determine; the
model may therefore look names up through them. -/
theorem index_faithful : indexesFaithful Gen.dispatchTable = true := by
  decide +kernel

/-- **Statement_spellings_agree** (full strength): for each array class, in the tables read off the current source:
every name that is both a namespace function and an attribute of the class ends at the same core with the same
keyword map after renaming (equal defaults; a spelling that does not offer a keyword passes the sibling's
default); no spelling accepts a parameter that it silently drops while a sibling forwards it; every parameter the
library knows, passed to `np.<f>` in any way NumPy's own signature offers, is taken by the function that
`__array_function__` reaches by name, under the same name; accepted keywords reach the same core keyword; and the
ufunc spellings (namespace re-export, `np.<ufunc>`, operator, reflected operator, `np.<ufunc>.reduce` against the
reduction methods) end at the same core. -/
def Statement_spellings_agree : Prop :=
  ∀ cls ∈ classes, (report Gen.dispatchTable cls).fullOk = true

/-- **spellings_agree_partial.** Outside the excluded region `ExcludedNep18` (a NumPy-style argument that the function
reached by name rejects or binds to another parameter: region of finding F-nep18-signature; its extent on this tree is
`Report.nep18Violations`, validated call by call against the real code by the check) the statement holds for the whole
generated table and all three array classes: same cores, same keyword maps after renaming, NO parameter silently dropped
(the former exception, `out` of `sparse.clip`, was repaired in 7d0ce74), accepted keywords mean the same, all
ufunc/operator spellings agree. -/
theorem spellings_agree_partial :
    ∀ cls ∈ classes, (report Gen.dispatchTable cls).partialOk = true := by
  decide +kernel

/-- **spellings_agree_counterexample.** For ANY table: if the probe `np.var(x, ddof=…)` is among the probes and the
function reached by name does not take it (today: `sparse.var(x, /, *, axis, correction, keepdims)` is reached while the
method takes `ddof`), the full statement is false.  The check evaluates `witnessActive Gen.dispatchTable` with the
compiled model and replays `np.var(x, ddof=1)` on the real code (TypeError) — both must agree. -/
theorem spellings_agree_counterexample (t : List Entry) (h : witnessActive t = true) :
    ¬ (∀ cls ∈ classes, (report t cls).fullOk = true) := by
  intro hall
  have hc : (report t nm_COO).fullOk = true := hall nm_COO (by simp [classes])
  unfold witnessActive at h
  rw [List.any_eq_true] at h
  obtain ⟨e, he, hbad⟩ := h
  simp only [Report.fullOk, Bool.and_eq_true] at hc
  have hp : (report t nm_COO).probes.all (fun e => e.2.ok) = true := hc.1.1.2
  have : (report t nm_COO).probes = probes t nm_COO := rfl
  rw [this, List.all_eq_true] at hp
  have := hp e he
  simp only [Bool.and_eq_true, Bool.not_eq_true'] at hbad
  rw [hbad.2] at this
  exact Bool.noConfusion this

/-- **ufunc_route.** `__array_ufunc__`, in the order of the tests in the source: an `out` operand of a foreign type →
NotImplemented; a generalised ufunc → `__array_function__`; a ufunc with several results (`nout ≠ 1`; the branch is read off the
source: `Gen.ufuncMultiOutGuard`) → the tuple of component calls the source names for it, only for `__call__` without `out=`,
NotImplemented otherwise; then `__call__` → element-wise; `reduce` → reduction; `outer` → element-wise on reshaped inputs; every
other ufunc method (`accumulate`, `reduceat`, `at`) → NotImplemented (NumPy raises TypeError, nothing densifies). -/
theorem ufunc_route (outGiven outOk sig multi : Bool) (sp : Option (List Name)) (m : String) :
    arrayUfunc outGiven outOk sig multi sp m =
      (if outGiven = true ∧ outOk = false then UfuncRoute.notImplemented else if sig then .arrayFunction
       else if multi then
         (match sp with
          | some parts => if m = "__call__" ∧ outGiven = false then .split parts else .notImplemented
          | none => .notImplemented)
       else if m = "outer" then .outerAsCall else if m = "__call__" then .elemwise
       else if m = "reduce" then .reduce else .notImplemented) := by
  have hg : Gen.ufuncMultiOutGuard = true := rfl
  unfold arrayUfunc
  rw [hg]
  cases outGiven <;> cases outOk <;> cases sig <;> cases multi <;> cases sp <;> simp

/-- the generated facts the multi-output theorems rest on (decided over the whole generated lists): no ufunc with several
results has a core signature, and the `nout ≠ 1` branch of the source computes exactly one of them — `divmod`, as
`(floor_divide, remainder)` in this order -/
theorem multi_out_tables :
    (∀ u ∈ Gen.multiOutUfuncs, Gen.gufuncs.contains u = false) ∧
    (∀ u ∈ Gen.multiOutUfuncs,
        Gen.ufuncMultiOutSplit.lookup u = if u = nm_divmod then some [nm_floor_divide, nm_remainder] else none) ∧
    Gen.multiOutUfuncs.contains nm_divmod = true ∧
    Gen.multiOutUfuncs.contains nm_floor_divide = false ∧ Gen.multiOutUfuncs.contains nm_remainder = false ∧
    Gen.gufuncs.contains nm_floor_divide = false ∧ Gen.gufuncs.contains nm_remainder = false := by
  decide

/-- **multi_output_route.** For EVERY NumPy ufunc with several results (`divmod`, `modf`, `frexp`), every ufunc method, with or
without `out=`: the call is `divmod` through `__call__` without `out=` — then it is computed as the pair
`(floor_divide, remainder)` — or `__array_ufunc__` returns NotImplemented (NumPy raises TypeError: a clean rejection; the
element-wise machinery, which handles one result only, is never entered). -/
theorem multi_output_route (u : Name) (hu : u ∈ Gen.multiOutUfuncs) (outGiven outOk : Bool) (m : String) :
    arrayUfuncOf u outGiven outOk m =
      (if u = nm_divmod ∧ m = "__call__" ∧ outGiven = false then UfuncRoute.split [nm_floor_divide, nm_remainder]
       else .notImplemented) := by
  have hsig := multi_out_tables.1 u hu
  have hsp := multi_out_tables.2.1 u hu
  have hmem : Gen.multiOutUfuncs.contains u = true := by simpa using hu
  unfold arrayUfuncOf
  rw [ufunc_route, hsig, hsp, hmem]
  by_cases hd : u = nm_divmod <;> cases outGiven <;> cases outOk <;> simp [hd]

/-- **divmod_route.** `np.divmod(*ops)` (method `__call__`, no `out=`), for ANY operand list: the result is the pair of the
results of `np.floor_divide(*ops)` and `np.remainder(*ops)` — the SAME operands in the SAME order, quotient first — and each of
the two is an ordinary element-wise call. -/
theorem divmod_route {α : Type} (ops : List α) (fuel : Nat) (outOk : Bool) :
    ufuncResult (fuel + 2) nm_divmod "__call__" false outOk ops =
      UResult.tuple [ufuncResult (fuel + 1) nm_floor_divide "__call__" false true ops,
                     ufuncResult (fuel + 1) nm_remainder "__call__" false true ops] ∧
    ufuncResult (fuel + 1) nm_floor_divide "__call__" false true ops = UResult.one nm_floor_divide .elemwise ops ∧
    ufuncResult (fuel + 1) nm_remainder "__call__" false true ops = UResult.one nm_remainder .elemwise ops := by
  have hd : arrayUfuncOf nm_divmod false outOk "__call__" = .split [nm_floor_divide, nm_remainder] := by
    rw [multi_output_route nm_divmod (by simpa using multi_out_tables.2.2.1)]; simp
  have hf : arrayUfuncOf nm_floor_divide false true "__call__" = .elemwise := by
    unfold arrayUfuncOf; rw [ufunc_route, multi_out_tables.2.2.2.1, multi_out_tables.2.2.2.2.2.1]; simp
  have hr : arrayUfuncOf nm_remainder false true "__call__" = .elemwise := by
    unfold arrayUfuncOf; rw [ufunc_route, multi_out_tables.2.2.2.2.1, multi_out_tables.2.2.2.2.2.2]; simp
  refine ⟨?_, ?_, ?_⟩
  · rw [ufuncResult, hd]; simp
  · rw [ufuncResult, hf]
  · rw [ufuncResult, hr]

/-- **divmod_spellings_agree.** The Python spellings: `divmod(x, y)` calls `__divmod__`, `x // y` calls `__floordiv__`, `x % y`
calls `__mod__` (and the reflected three when the sparse array is the right operand).  In NumPy's operator mixin (table read
from the installed NumPy) the three special methods of either role call three ufuncs with the same role — the same operand
order — and the routing of the first is the pair of the routings of the other two: `divmod(x, y) == (x // y, x % y)` holds
spelling by spelling, as a statement about `__array_ufunc__`. -/
theorem divmod_spellings_agree {α : Type} (ops : List α) (fuel : Nat) :
    ∀ tr ∈ [(nm___divmod__, nm___floordiv__, nm___mod__), (nm___rdivmod__, nm___rfloordiv__, nm___rmod__)],
      ∃ ud uf um role, opUfunc tr.1 = some (ud, role) ∧ opUfunc tr.2.1 = some (uf, role) ∧ opUfunc tr.2.2 = some (um, role) ∧
        ufuncResult (fuel + 2) ud "__call__" false true ops =
          UResult.tuple [ufuncResult (fuel + 1) uf "__call__" false true ops, ufuncResult (fuel + 1) um "__call__" false true ops] := by
  intro tr htr
  simp only [List.mem_cons, List.mem_nil_iff, or_false] at htr
  rcases htr with rfl | rfl
  · exact ⟨nm_divmod, nm_floor_divide, nm_remainder, nm_forward, by decide, by decide, by decide, (divmod_route ops fuel true).1⟩
  · exact ⟨nm_divmod, nm_floor_divide, nm_remainder, nm_reflected, by decide, by decide, by decide, (divmod_route ops fuel true).1⟩

/-- **multi_output_rejected.** Every other way of calling a ufunc with several results — `np.modf(x)`, `np.frexp(x)`, any of the
three through `reduce` / `outer` / `accumulate` / `at`, `np.divmod(x, y, out=…)` — is answered with NotImplemented by every
sparse operand, for any operands. -/
theorem multi_output_rejected {α : Type} (u : Name) (hu : u ∈ Gen.multiOutUfuncs) (outGiven outOk : Bool) (m : String) (ops : List α)
    (fuel : Nat) (h : ¬ (u = nm_divmod ∧ m = "__call__" ∧ outGiven = false)) :
    ufuncResult (fuel + 1) u m outGiven outOk ops = UResult.one u .notImplemented ops := by
  rw [ufuncResult, multi_output_route u hu, if_neg h]

/-- non-vacuity: `modf` and `frexp` are in the generated list of multi-result ufuncs and are rejected; `divmod` with `out=` too -/
example : nm_modf ∈ Gen.multiOutUfuncs ∧ nm_frexp ∈ Gen.multiOutUfuncs ∧
    arrayUfuncOf nm_modf false true "__call__" = .notImplemented ∧ arrayUfuncOf nm_frexp false true "__call__" = .notImplemented ∧
    arrayUfuncOf nm_divmod true true "__call__" = .notImplemented ∧ arrayUfuncOf nm_divmod false true "reduce" = .notImplemented ∧
    arrayUfuncOf nm_add false true "__call__" = .elemwise := by
  refine ⟨by decide, by decide, ?_, ?_, ?_, ?_, ?_⟩
  · rw [multi_output_route _ (by decide)]; simp; decide
  · rw [multi_output_route _ (by decide)]; simp; decide
  · rw [multi_output_route _ (by decide)]; simp
  · rw [multi_output_route _ (by decide)]; simp
  · unfold arrayUfuncOf; rw [ufunc_route]; simp; decide

/-! ### `out=` -/

/-- **out_trial_deterministic.** Whether the out= path refuses a call in its trial step does not depend on the contents of
uninitialised memory: for every ufunc behaviour and any two memory contents the outcome is the same (the trial operands are
built with `np.ones`, read off the source) — `x **= y` and `np.power(x, y, out=x)` cannot fail on one run and work on the next. -/
theorem out_trial_deterministic (raisesOn : Int → Bool) (mem mem' : Int) :
    outTrialRaises raisesOn mem = outTrialRaises raisesOn mem' := by
  have h : Gen.ufuncOutTrialOnes = true := rfl
  simp [outTrialRaises, h]

/-- the three class names are three names -/
theorem cls_distinct : nm_COO ≠ nm_GCXS ∧ nm_COO ≠ nm_DOK ∧ nm_GCXS ≠ nm_DOK ∧ nm_GCXS ≠ nm_COO ∧ nm_DOK ≠ nm_COO ∧ nm_DOK ≠ nm_GCXS := by
  decide

/-- **out_keeps_format.** `ufunc(…, out=(out,))` and `out op= y`, for EVERY format of `out` (COO, GCXS with any compressed
axes, DOK) and EVERY thing the computation can produce (a dense array, or a sparse array of any format), with the out= block
read off the source (`Gen.ufuncOutSteps`): the call raises ValueError — exactly when the shapes differ or the result is dense —
or `out` ends up holding the attributes of an array of ITS OWN class: those of the result itself when the result already has
that class, else those of the result converted to exactly the format of `out` (a GCXS keeps its compressed axes).  Never an
object of one class carrying another format's attributes, never a dense array in a sparse object, no internal error. -/
theorem out_keeps_format (o : Fmt) (r : Computed) (shapeOk : Bool) (dflt : List Nat) :
    match outStore Gen.ufuncOutSteps o r shapeOk dflt with
    | .error e => e = Err.value ∧ (shapeOk = false ∨ r = .dense)
    | .ok s => shapeOk = true ∧ s.cls = o.cls ∧ s.wellFormed = true ∧
        ∃ f, r = .sparse f ∧ s.holds = .sparse (if f.cls = o.cls then f else o) := by
  -- the generated step list is unfolded and RUN by `simp` in every case of (shapes equal?, what was computed, format of `out`): no
  -- literal list is written here, so any list of steps for which the statement holds is handled by the same script
  obtain ⟨h1, h2, h3, h4, h5, h6⟩ := cls_distinct
  cases shapeOk <;> rcases r with _ | f <;> cases o <;> (try cases f) <;>
    simp [Gen.ufuncOutSteps, outStore, outRun, outStep, Fmt.cls, Stored.wellFormed, h1, h2, h3, h4, h5, h6]

/-- **inplace_every_pair.** `a op= b` / `np.<ufunc>(a, b, out=(a,))` for every ORDERED PAIR of formats (each of COO, GCXS with any
compressed axes, DOK): the element-wise machinery returns the format `elemwiseFormat [a, b]`; whatever that is, the target
keeps its class and ends up holding an array of that class — `a` itself stays a working array of its original format. -/
theorem inplace_every_pair (fa fb : Fmt) (dflt : List Nat) :
    ∃ f, outStore Gen.ufuncOutSteps fa (.sparse (elemwiseFormat dflt [fa, fb])) true dflt = .ok { cls := fa.cls, holds := .sparse f } ∧
      f.cls = fa.cls ∧ (fb.cls ≠ fa.cls → f = fa) := by
  have h := out_keeps_format fa (.sparse (elemwiseFormat dflt [fa, fb])) true dflt
  cases hst : outStore Gen.ufuncOutSteps fa (.sparse (elemwiseFormat dflt [fa, fb])) true dflt with
  | error e => rw [hst] at h; simp at h
  | ok s =>
    rw [hst] at h
    obtain ⟨_, hcls, _, f, hf, hholds⟩ := h
    simp only [Computed.sparse.injEq] at hf
    refine ⟨if f.cls = fa.cls then f else fa, ?_, ?_, ?_⟩
    · cases s; simp_all
    · by_cases hc : f.cls = fa.cls <;> simp [hc]
    · intro hne
      subst hf
      obtain ⟨h1, h2, h3, h4, h5, h6⟩ := cls_distinct
      cases fa <;> cases fb <;> simp_all [elemwiseFormat, Fmt.cls]

/-- non-vacuity of `out_keeps_format`: `gcxs(axes 1) += coo` stores a GCXS with axes 1; a dense result is a ValueError; and the
out= block WITHOUT the two repaired statements would have left a GCXS object holding COO attributes -/
example :
    outStore Gen.ufuncOutSteps (.gcxs [1]) (.sparse .coo) true [0] = .ok { cls := nm_GCXS, holds := .sparse (.gcxs [1]) } ∧
    outStore Gen.ufuncOutSteps .dok .dense true [0] = .error Err.value ∧
    outStore [.unpack, .shapeCheck, .shallowCopy, .returnOut] (.gcxs [1]) (.sparse .coo) true [0] = .ok { cls := nm_GCXS, holds := .sparse .coo } ∧
    (Stored.mk nm_GCXS (.sparse .coo)).wellFormed = false := by
  decide

theorem outerWalk_fst (l : List (Nat × Nat)) (c : Nat) : (outerWalk l c).map (·.1) = l.map (·.1) := by
  induction l generalizing c with
  | nil => rfl
  | cons h t ih => obtain ⟨i, nd⟩ := h; simp [outerWalk, ih]

/-- **outer_operand_order.** `np.<ufunc>.outer(a, b, …)`: for any number of operands of any ranks, the `outer` branch of
`__array_ufunc__` (whose last statement is read off the source: `Gen.outerFinalReverse`) hands the operands to the
element-wise machinery in the CALLER's order — so a non-commutative ufunc computes `a[i] ∘ b[j]`, not `b[j] ∘ a[i]`. -/
theorem outer_operand_order (ndims : List Nat) :
    (outerPrepare ndims).map (·.1) = List.range ndims.length := by
  have hflag : Gen.outerFinalReverse = true := rfl
  unfold outerPrepare
  simp only [hflag, if_true, List.map_reverse, outerWalk_fst, List.reverse_reverse]
  exact List.map_fst_zip (by simp)

/-- non-vacuity of `outer_operand_order`: a 2-d and a 1-d operand — the first gets one trailing axis, the second none -/
example : outerPrepare [2, 1] = [(0, 1), (1, 0)] := by decide

/-- non-vacuity: the tables are populated; `sparse.var`, `x.var` and `np.var(x)` end at the same core with
`correction` renamed to `ddof`; the spellings of matmul meet at `_common.matmul`; an unimplemented NumPy function
is a TypeError -/
example :
    (sharedOps Gen.dispatchTable nm_COO).length ≥ 20 ∧
    coreOf (resolve Gen.dispatchTable nm_COO (.namespaceFn nm_var)) = some (Core.impl nm_SparseArray_var) ∧
    coreOf (resolve Gen.dispatchTable nm_COO (.method nm_var)) = some (Core.impl nm_SparseArray_var) ∧
    coreOf (resolve Gen.dispatchTable nm_COO (.nep18 nm_numpy_var)) = some (Core.impl nm_SparseArray_var) ∧
    (resolve Gen.dispatchTable nm_COO (.namespaceFn nm_var)).toOption.bind (fun tg => tg.kw.lookup nm_ddof) = some (Origin.param nm_correction) ∧
    coreOf (resolve Gen.dispatchTable nm_COO (.operator nm___matmul__)) = some (Core.impl nm__common_matmul) ∧
    coreOf (resolve Gen.dispatchTable nm_COO (.operator nm___rmatmul__)) = some (Core.impl nm__common_matmul) ∧
    coreOf (resolve Gen.dispatchTable nm_DOK (.operator nm___matmul__)) = some (Core.impl nm__common_matmul) ∧
    coreOf (resolve Gen.dispatchTable nm_GCXS (.ufuncCall nm_matmul)) = some (Core.impl nm__common_matmul) ∧
    coreOf (resolve Gen.dispatchTable nm_COO (.arrayNamespace nm_matmul)) = some (Core.impl nm__common_matmul) ∧
    coreOf (resolve Gen.dispatchTable nm_COO (.operator nm___radd__)) = some (Core.ufunc nm_add) ∧
    coreOf (resolve Gen.dispatchTable nm_COO (.method nm_sum)) = some (Core.ufuncReduce nm_add) ∧
    coreOf (resolve Gen.dispatchTable nm_COO (.nep18 nm_numpy_median)) = none := by
  decide +kernel

end SparseV.C17

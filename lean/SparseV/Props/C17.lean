/-
  Property C17 — all call paths to an operation give the same answer.  Property theorems only.
  The table theorems are stated over `Gen.dispatchTable` (and the other tables of Generated/Dispatch.lean),
  regenerated from the source on every run: a wrapper that forgets or renames a keyword, a shadowed method,
  a changed signature changes what is proved here.
-/
import SparseV.Model.Dispatch
namespace SparseV.C17
open SparseV SparseV.Gen SparseV.Dispatch

/-- **array_function_lookup.** For every environment (namespace, type, instance attributes) and every NumPy
function (`path`, `name`) called with `nargs` positional and `nkw` keyword arguments, `__array_function__` returns
`NotImplemented` — so that NumPy raises TypeError instead of anything densifying — exactly when the walk through
the namespace finds nothing, the type has no attribute of that name, and the one-argument attribute fallback
does not apply.  In every other case a function of the library, a method, or an attribute value answers. -/
theorem array_function_lookup (env : Env) (fallback nsBinds tyBinds : Bool) (path : List Name) (name : Name) (nargs nkw : Nat) :
    nep18 env fallback nsBinds tyBinds path name nargs nkw = Nep18.notImplemented ↔
      env.nsGet path name = none ∧ env.tyGet name = none ∧ ¬ (nargs = 1 ∧ nkw = 0 ∧ env.instHas name = true) := by
  unfold nep18
  cases hns : env.nsGet path name with
  | some c =>
    by_cases h : (fallback && !nsBinds && env.tyGet name == some true && tyBinds) = true <;> simp [h]
  | none =>
    cases hty : env.tyGet name with
    | none =>
      by_cases h1 : nargs = 1 <;> by_cases h2 : nkw = 0 <;> cases h3 : env.instHas name <;> simp [h1, h2, h3]
    | some c =>
      cases c <;> by_cases h1 : nargs = 1 <;> by_cases h2 : nkw = 0 <;> cases h3 : env.instHas name <;> simp [h1, h2, h3]

/-- the lookup never answers with the namespace when the namespace has nothing, and never calls a type attribute
that does not exist: the three answers are justified by what exists; and the `_binds` step only ever moves a call
from a namespace function that cannot take it to a callable attribute of the type that can -/
theorem array_function_lookup_sound (env : Env) (fallback nsBinds tyBinds : Bool) (path : List Name) (name : Name) (nargs nkw : Nat) :
    (nep18 env fallback nsBinds tyBinds path name nargs nkw = Nep18.callNamespace → (env.nsGet path name).isSome) ∧
    (nep18 env fallback nsBinds tyBinds path name nargs nkw = Nep18.callTypeAttr → (env.tyGet name).isSome) ∧
    (nep18 env fallback nsBinds tyBinds path name nargs nkw = Nep18.attrValue → env.instHas name = true) ∧
    (nep18 env fallback nsBinds tyBinds path name nargs nkw = Nep18.callTypeAttr → (env.nsGet path name).isSome →
        fallback = true ∧ nsBinds = false ∧ tyBinds = true ∧ env.tyGet name = some true) := by
  unfold nep18
  cases hns : env.nsGet path name with
  | some c =>
    cases hty : env.tyGet name with
    | none => cases fallback <;> cases nsBinds <;> cases tyBinds <;> simp
    | some b => cases b <;> cases fallback <;> cases nsBinds <;> cases tyBinds <;> simp
  | none =>
    cases hty : env.tyGet name with
    | none =>
      by_cases h1 : nargs = 1 <;> by_cases h2 : nkw = 0 <;> cases h3 : env.instHas name <;> simp [h1, h2, h3]
    | some c =>
      cases c <;> by_cases h1 : nargs = 1 <;> by_cases h2 : nkw = 0 <;> cases h3 : env.instHas name <;> simp [h1, h2, h3]

/-- **index_faithful.** The row indexes emitted by the generator (namespace name ↦ row, package function ↦ row,
class ↦ attribute ↦ row along the MRO, first definition wins) are exactly what the table and the MRO determine; the
model may therefore look names up through them. -/
theorem index_faithful : indexesFaithful Gen.dispatchTable = true := by
  decide +kernel

/-- **Statement_spellings_agree** (full strength): for each array class, in the tables read off the current source:
every name that is both a namespace function and an attribute of the class ends at the same core with the same
keyword map after renaming (equal defaults; a spelling that does not offer a keyword passes the sibling's
default); no spelling accepts a parameter that it silently drops while a sibling forwards it; every parameter the
library knows, passed to `np.<f>` in any way NumPy's own signature offers, is taken by the function that
`__array_function__` reaches by name, under the same name; accepted keywords reach the same core keyword; and the
ufunc spellings (namespace re-export, `np.<ufunc>`, operator, reflected operator, `np.<ufunc>.reduce` against the
reduction methods) end at the same core. -/
def Statement_spellings_agree : Prop :=
  ∀ cls ∈ classes, (report Gen.dispatchTable cls).fullOk = true

/-- **spellings_agree_partial.** Outside the excluded region `ExcludedNep18` (a NumPy-style argument that the function
reached by name rejects or binds to another parameter: region of finding F-nep18-signature; its extent on this tree is
`Report.nep18Violations`, validated call by call against the real code by the check) the statement holds for the whole
generated table and all three array classes: same cores, same keyword maps after renaming, NO parameter silently dropped
(the former exception, `out` of `sparse.clip`, was repaired in 7d0ce74), accepted keywords mean the same, all
ufunc/operator spellings agree. -/
theorem spellings_agree_partial :
    ∀ cls ∈ classes, (report Gen.dispatchTable cls).partialOk = true := by
  decide +kernel

/-- **spellings_agree_counterexample.** For ANY table: if the probe `np.var(x, ddof=…)` is among the probes and the
function reached by name does not take it (today: `sparse.var(x, /, *, axis, correction, keepdims)` is reached while the
method takes `ddof`), the full statement is false.  The check evaluates `witnessActive Gen.dispatchTable` with the
compiled model and replays `np.var(x, ddof=1)` on the real code (TypeError) — both must agree. -/
theorem spellings_agree_counterexample (t : List Entry) (h : witnessActive t = true) :
    ¬ (∀ cls ∈ classes, (report t cls).fullOk = true) := by
  intro hall
  have hc : (report t nm_COO).fullOk = true := hall nm_COO (by simp [classes])
  unfold witnessActive at h
  rw [List.any_eq_true] at h
  obtain ⟨e, he, hbad⟩ := h
  simp only [Report.fullOk, Bool.and_eq_true] at hc
  have hp : (report t nm_COO).probes.all (fun e => e.2.ok) = true := hc.1.1.2
  have : (report t nm_COO).probes = probes t nm_COO := rfl
  rw [this, List.all_eq_true] at hp
  have := hp e he
  simp only [Bool.and_eq_true, Bool.not_eq_true'] at hbad
  rw [hbad.2] at this
  exact Bool.noConfusion this

/-- **ufunc_route.** `__array_ufunc__`: an `out` operand of a foreign type → NotImplemented; a generalised ufunc →
`__array_function__`; `__call__` → element-wise; `reduce` → reduction; `outer` → element-wise on reshaped inputs;
every other ufunc method (`accumulate`, `reduceat`, `at`) → NotImplemented (NumPy raises TypeError, nothing densifies). -/
theorem ufunc_route (outOk sig : Bool) (m : String) :
    arrayUfunc outOk sig m =
      (if !outOk then UfuncRoute.notImplemented else if sig then .arrayFunction
       else if m = "outer" then .outerAsCall else if m = "__call__" then .elemwise
       else if m = "reduce" then .reduce else .notImplemented) := by
  unfold arrayUfunc
  cases outOk <;> cases sig <;> simp

theorem outerWalk_fst (l : List (Nat × Nat)) (c : Nat) : (outerWalk l c).map (·.1) = l.map (·.1) := by
  induction l generalizing c with
  | nil => rfl
  | cons h t ih => obtain ⟨i, nd⟩ := h; simp [outerWalk, ih]

/-- **outer_operand_order.** `np.<ufunc>.outer(a, b, …)`: for any number of operands of any ranks, the `outer` branch of
`__array_ufunc__` (whose last statement is read off the source: `Gen.outerFinalReverse`) hands the operands to the
element-wise machinery in the CALLER's order — so a non-commutative ufunc computes `a[i] ∘ b[j]`, not `b[j] ∘ a[i]`. -/
theorem outer_operand_order (ndims : List Nat) :
    (outerPrepare ndims).map (·.1) = List.range ndims.length := by
  have hflag : Gen.outerFinalReverse = true := rfl
  unfold outerPrepare
  simp only [hflag, if_true, List.map_reverse, outerWalk_fst, List.reverse_reverse]
  exact List.map_fst_zip (by simp)

/-- non-vacuity of `outer_operand_order`: a 2-d and a 1-d operand — the first gets one trailing axis, the second none -/
example : outerPrepare [2, 1] = [(0, 1), (1, 0)] := by decide

/-- non-vacuity: the tables are populated; `sparse.var`, `x.var` and `np.var(x)` end at the same core with
`correction` renamed to `ddof`; the spellings of matmul meet at `_common.matmul`; an unimplemented NumPy function
is a TypeError -/
example :
    (sharedOps Gen.dispatchTable nm_COO).length ≥ 20 ∧
    coreOf (resolve Gen.dispatchTable nm_COO (.namespaceFn nm_var)) = some (Core.impl nm_SparseArray_var) ∧
    coreOf (resolve Gen.dispatchTable nm_COO (.method nm_var)) = some (Core.impl nm_SparseArray_var) ∧
    coreOf (resolve Gen.dispatchTable nm_COO (.nep18 nm_numpy_var)) = some (Core.impl nm_SparseArray_var) ∧
    (resolve Gen.dispatchTable nm_COO (.namespaceFn nm_var)).toOption.bind (fun tg => tg.kw.lookup nm_ddof) = some (Origin.param nm_correction) ∧
    coreOf (resolve Gen.dispatchTable nm_COO (.operator nm___matmul__)) = some (Core.impl nm__common_matmul) ∧
    coreOf (resolve Gen.dispatchTable nm_COO (.operator nm___rmatmul__)) = some (Core.impl nm__common_matmul) ∧
    coreOf (resolve Gen.dispatchTable nm_DOK (.operator nm___matmul__)) = some (Core.impl nm__common_matmul) ∧
    coreOf (resolve Gen.dispatchTable nm_GCXS (.ufuncCall nm_matmul)) = some (Core.impl nm__common_matmul) ∧
    coreOf (resolve Gen.dispatchTable nm_COO (.arrayNamespace nm_matmul)) = some (Core.impl nm__common_matmul) ∧
    coreOf (resolve Gen.dispatchTable nm_COO (.operator nm___radd__)) = some (Core.ufunc nm_add) ∧
    coreOf (resolve Gen.dispatchTable nm_COO (.method nm_sum)) = some (Core.ufuncReduce nm_add) ∧
    coreOf (resolve Gen.dispatchTable nm_COO (.nep18 nm_numpy_median)) = none := by
  decide +kernel

end SparseV.C17

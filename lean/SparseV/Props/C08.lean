/-
  Property C08 — shape manipulation agrees with NumPy.  Property theorems only.
  `x.get i` is the dense value at `i`; every theorem says which operand element a result element
  reads, for ALL shapes, ranks, sparsity patterns, fill values and element types.
-/
import SparseV.Lemmas.Rewrite
import SparseV.Lemmas.Shape
namespace SparseV.C08
open SparseV SparseV.COO
variable {α : Type}

/-- **reshape_get.** `reshape` (any source and target shapes of equal size, any rank) reads
result element `j` from the operand element with the same row-major linear location; shape and
fill value are as requested / unchanged. -/
theorem reshape_get (x : COO α) (s : List Nat) (hwf : x.WF) (hsize : prod x.shape = prod s)
    (j : Idx) (hj : InB j s) :
    (x.reshapeCore s).get j = x.get (unravel (ravel j s) x.shape)
    ∧ (x.reshapeCore s).shape = s ∧ (x.reshapeCore s).fill = x.fill := by
  unfold reshapeCore
  by_cases hs : x.shape = s
  · simp only [hs, if_true, and_true]
    rw [unravel_ravel hj]
  · simp only [hs, if_false, and_true, COO.get]
    rw [mapIdx_eq_rewrite]
    refine rewrite_lookup _ _ _ (fun j => unravel (ravel j s) x.shape) j ?_ ?_
    · intro e he j' hg
      have hin : InB e.1 x.shape := hwf e he
      have hlt : ravel e.1 x.shape < prod s := hsize ▸ ravel_lt hin
      simp only [Option.some.injEq] at hg
      rw [← hg, ravel_unravel s _ hlt, unravel_ravel hin]
    · have hlt : ravel j s < prod x.shape := hsize ▸ ravel_lt hj
      simp only [ravel_unravel x.shape _ hlt, unravel_ravel hj]

/-- `reshape` promises `sorted=True` to the constructor: the promise is justified because the
linear location of every stored entry is unchanged. -/
theorem reshape_preserves_linear (x : COO α) (s : List Nat) (hwf : x.WF) (hsize : prod x.shape = prod s) :
    ((x.reshapeCore s).entries.map fun e => ravel e.1 s) = x.entries.map fun e => ravel e.1 x.shape := by
  unfold reshapeCore
  by_cases hs : x.shape = s
  · simp [hs]
  · simp only [hs, if_false, mapIdx, List.map_map]
    apply List.map_congr_left
    intro e he
    have hin : InB e.1 x.shape := hwf e he
    have hlt : ravel e.1 x.shape < prod s := hsize ▸ ravel_lt hin
    simp [ravel_unravel s _ hlt]

/-- **transpose_get.** `transpose` by any permutation `axes` of the axis numbers reads result
element `j` from the operand element `i` with `i[a] = j[position of a in axes]`
(`i = j[argsort axes]`); the result shape is `shape[axes]`, the fill value is unchanged.
Holds for every rank, including the identity permutation (where the operand itself is returned). -/
theorem transpose_get (x : COO α) (axes : List Nat) (hp : axes.Perm (List.range x.shape.length))
    (hwf : x.WF) (hnd : (keysOf x.entries).Nodup) (j : Idx) (hj : InB j (gather x.shape axes)) :
    (x.transposeCore axes).get j = x.get (gather j (invPerm axes))
    ∧ (x.transposeCore axes).shape = gather x.shape axes ∧ (x.transposeCore axes).fill = x.fill := by
  have hjl : j.length = x.shape.length := by
    rw [InB_length hj, length_gather]; exact (perm_range_facts hp).1
  unfold transposeCore
  by_cases hid : axes = List.range x.shape.length
  · subst hid
    have h1 := gather_invPerm_gather hp hjl
    rw [gather_range _ _ (by simp)] at h1
    simp only [if_true, and_true, h1, gather_range_self]
  · simp only [hid, if_false, and_true, COO.get]
    rw [mapIdx_eq_rewrite]
    refine rewrite_sort_lookup _ _ _ _ (fun j => gather j (invPerm axes)) j hnd ?_ ?_
    · intro e he j' hg
      simp only [Option.some.injEq] at hg
      rw [← hg]
      exact gather_gather_invPerm hp (InB_length (hwf e he))
    · simp only [gather_invPerm_gather hp hjl]

/-- the operand index read by `transpose_get` is inside the operand shape -/
theorem transpose_src_inb (x : COO α) (axes : List Nat) (hp : axes.Perm (List.range x.shape.length))
    (j : Idx) (hj : InB j (gather x.shape axes)) : InB (gather j (invPerm axes)) x.shape :=
  InB_gather_invPerm hp hj

/-- the permutation hypothesis of `transpose_get` is exactly what `transpose` validates:
`n` distinct axis numbers, all below `n` -/
theorem transpose_axes_valid_iff (axes : List Nat) (n : Nat) :
    axes.Perm (List.range n) ↔ axes.Nodup ∧ (∀ a ∈ axes, a < n) ∧ axes.length = n := perm_range_iff

/-- **transpose_canonical.** `transpose` hands the permuted coordinates to the constructor with
`has_duplicates=False`; after the constructor's sort the stored entries are in canonical order
(strictly increasing row-major linear location in the NEW shape).  When `axes` is the identity the
operand itself is returned, so there the operand has to be canonical already (`hid`). -/
theorem transpose_canonical (x : COO α) (axes : List Nat) (hp : axes.Perm (List.range x.shape.length))
    (hwf : x.WF) (hnd : (keysOf x.entries).Nodup)
    (hid : axes = List.range x.shape.length → SortedLin x.shape x.entries) :
    SortedLin (x.transposeCore axes).shape (x.transposeCore axes).entries := by
  unfold transposeCore
  by_cases h : axes = List.range x.shape.length
  · simp only [h, if_true]; exact hid h
  · simp only [h, if_false]
    rw [mapIdx_eq_rewrite]
    refine sortEntries_rewrite_sortedLin _ _ _ (fun j => gather j (invPerm axes)) ?_ hnd ?_
    · intro e he j' hg
      simp only [Option.some.injEq] at hg
      rw [← hg]
      exact gather_gather_invPerm hp (InB_length (hwf e he))
    · intro e he j' hg
      simp only [Option.some.injEq] at hg
      rw [← hg]
      exact InB_gather (hwf e he) (fun a ha => ((perm_range_facts hp).2.2 a).mp ha)

/-- **flip_get.** `flip` along any set of axes reads result element `j` from the operand element
with coordinate `d - 1 - j[a]` on every flipped axis `a` (extent `d`) and `j[a]` elsewhere; shape and
fill value are unchanged.  (Axis numbers ≥ rank are inert in the model, so no bound on `axes` is
needed.) -/
theorem flip_get (x : COO α) (axes : List Nat) (hwf : x.WF) (hnd : (keysOf x.entries).Nodup)
    (j : Idx) (hj : InB j x.shape) :
    (x.flipCore axes).get j = x.get (flipIdx x.shape axes j)
    ∧ (x.flipCore axes).shape = x.shape ∧ (x.flipCore axes).fill = x.fill := by
  unfold flipCore
  simp only [and_true, COO.get]
  rw [mapIdx_eq_rewrite]
  refine rewrite_sort_lookup _ _ _ _ (flipIdx x.shape axes) j hnd ?_ ?_
  · intro e he j' hg
    simp only [Option.some.injEq] at hg
    rw [← hg]
    exact flipIdx_flipIdx axes (hwf e he)
  · simp only [flipIdx_flipIdx axes hj]

/-- the operand index read by `flip_get` is inside the shape -/
theorem flip_src_inb (x : COO α) (axes : List Nat) (j : Idx) (hj : InB j x.shape) :
    InB (flipIdx x.shape axes j) x.shape := InB_flipIdx axes hj

/-- **roll_get.** `roll` with any list of (axis, shift) pairs — negative shifts, shifts larger than
the extent, repeated axes — applies `c ↦ (c + s) % d` pair by pair; result element `j` is read from
the operand element obtained by undoing the pairs in reverse order with the opposite shifts.
Shape and fill value are unchanged.  (An in-bounds `j` forces every rolled axis below the rank to
have positive extent, and axis numbers ≥ rank are inert in the model, so neither needs assuming.) -/
theorem roll_get (x : COO α) (axes : List Nat) (shifts : List Int) (hl : axes.length = shifts.length)
    (hwf : x.WF) (hnd : (keysOf x.entries).Nodup) (j : Idx) (hj : InB j x.shape) :
    (x.rollCore axes shifts).get j
      = x.get (rollIdx x.shape axes.reverse (shifts.reverse.map fun s => -s) j)
    ∧ (x.rollCore axes shifts).shape = x.shape ∧ (x.rollCore axes shifts).fill = x.fill := by
  unfold rollCore
  simp only [and_true, COO.get]
  rw [mapIdx_eq_rewrite]
  refine rewrite_sort_lookup _ _ _ _
    (rollIdx x.shape axes.reverse (shifts.reverse.map fun s => -s)) j hnd ?_ ?_
  · intro e he j' hg
    simp only [Option.some.injEq] at hg
    rw [← hg]
    exact rollIdx_inv_left hl (hwf e he)
  · simp only [rollIdx_inv_right hl hj]

/-- the operand index read by `roll_get` is inside the shape -/
theorem roll_src_inb (x : COO α) (axes : List Nat) (shifts : List Int) (j : Idx) (hj : InB j x.shape) :
    InB (rollIdx x.shape axes.reverse (shifts.reverse.map fun s => -s) j) x.shape :=
  InB_rollIdx _ _ hj

/-- single-axis reading of `roll_get`: one roll by `s` along axis `a < rank` reads result element
`j` from the operand element whose coordinate on axis `a` is `(j[a] - s) mod d`. -/
theorem roll_get_single (x : COO α) (a : Nat) (s : Int) (hwf : x.WF) (hnd : (keysOf x.entries).Nodup)
    (j : Idx) (hj : InB j x.shape) :
    (x.rollCore [a] [s]).get j
      = x.get (j.set a (((j.getD a 0 : Int) + -s) % ((x.shape.getD a 0 : Nat) : Int)).toNat) :=
  (roll_get x [a] [s] rfl hwf hnd j hj).1

/-- **squeeze_get.** `squeeze` over axes of extent 1 reads result element `j` from the operand
element `i = unsqueezeIdx shape axes j`, which is the unique in-bounds operand index whose
remaining coordinates are `j` (its coordinates on the squeezed axes are 0 because the extents are
1); the result shape is the operand shape without the squeezed axes, the fill value is unchanged. -/
theorem squeeze_get (x : COO α) (axes : List Nat) (hone : ∀ a ∈ axes, x.shape.getD a 0 = 1)
    (hwf : x.WF) (j : Idx) (hj : InB j (dropAxes x.shape axes)) :
    (x.squeezeCore axes).get j = x.get (unsqueezeIdx x.shape axes j)
    ∧ InB (unsqueezeIdx x.shape axes j) x.shape
    ∧ dropAxes (unsqueezeIdx x.shape axes j) axes = j
    ∧ (x.squeezeCore axes).shape = dropAxes x.shape axes ∧ (x.squeezeCore axes).fill = x.fill := by
  refine ⟨?_, InB_unsqueeze hj hone, dropAxes_unsqueeze hj, rfl, rfl⟩
  unfold squeezeCore
  simp only [COO.get]
  rw [mapIdx_eq_rewrite]
  refine rewrite_lookup _ _ _ (unsqueezeIdx x.shape axes) j ?_ ?_
  · intro e he j' hg
    simp only [Option.some.injEq] at hg
    rw [← hg]
    exact unsqueeze_dropAxes (hwf e he) hone
  · simp only [dropAxes_unsqueeze hj]

/-- uniqueness used in `squeeze_get`: an in-bounds operand index is determined by its coordinates
on the axes that remain -/
theorem squeeze_src_unique (x : COO α) (axes : List Nat) (hone : ∀ a ∈ axes, x.shape.getD a 0 = 1)
    (i : Idx) (hi : InB i x.shape) : unsqueezeIdx x.shape axes (dropAxes i axes) = i :=
  unsqueeze_dropAxes hi hone

/-- **expand_dims_get.** `expand_dims` at position `pos ≤ rank` reads the result element at
`j` with a 0 inserted at `pos` from operand element `j`; the result shape is the operand shape with
a 1 inserted at `pos`, the fill value is unchanged. -/
theorem expand_dims_get (x : COO α) (pos : Nat) (hpos : pos ≤ x.shape.length) (hwf : x.WF)
    (j : Idx) (hj : InB j x.shape) :
    (x.expandDimsCore pos).get (insertAt j pos 0) = x.get j
    ∧ InB (insertAt j pos 0) (x.expandDimsCore pos).shape
    ∧ (x.expandDimsCore pos).shape = insertAt x.shape pos 1 ∧ (x.expandDimsCore pos).fill = x.fill := by
  have hjl : pos ≤ j.length := by rw [InB_length hj]; exact hpos
  refine ⟨?_, InB_insertAt pos hj hpos, rfl, rfl⟩
  unfold expandDimsCore
  simp only [COO.get]
  rw [mapIdx_eq_rewrite]
  have h := rewrite_lookup x.entries x.fill (fun i => some (insertAt i pos 0)) (fun k => k.eraseIdx pos)
    (insertAt j pos 0) ?_ ?_
  · rw [h, eraseIdx_insertAt pos j 0 hjl]
  · intro e he j' hg
    simp only [Option.some.injEq] at hg
    rw [← hg]
    exact eraseIdx_insertAt pos e.1 0 (by rw [InB_length (hwf e he)]; exact hpos)
  · simp only [eraseIdx_insertAt pos j 0 hjl]

/-- **expand_dims_onto.** every in-bounds index of the `expand_dims` result is an operand index with
a 0 inserted at `pos`, so `expand_dims_get` describes every result element. -/
theorem expand_dims_onto (x : COO α) (pos : Nat) (hpos : pos ≤ x.shape.length) (k : Idx)
    (hk : InB k (x.expandDimsCore pos).shape) : ∃ j, InB j x.shape ∧ k = insertAt j pos 0 :=
  InB_insertAt_surj pos x.shape k hpos hk

/-- non-vacuity: a concrete 2×3 → 3×2 reshape -/
def exA : COO Int := { shape := [2, 3], entries := [([0, 1], 5), ([1, 2], 7)], fill := 0 }
example : (exA.reshapeCore [3, 2]).get [2, 1] = 7 ∧ exA.WF ∧ prod exA.shape = prod [3, 2] := by decide

/-- non-vacuity of the transpose / flip / roll theorems: a 2×3 array with stored entries out of
row-major order after the coordinate change; every hypothesis is checked on it. -/
def exB : COO Int := { shape := [2, 3], entries := [([0, 1], 5), ([0, 2], 6), ([1, 0], 7)], fill := 0 }
example : (exB.transposeCore [1, 0]).get [2, 0] = exB.get [0, 2] ∧ exB.get [0, 2] = 6 :=
  ⟨(transpose_get exB [1, 0] (by decide) (by decide) (by decide) [2, 0] (by decide)).1, by decide⟩
example : SortedLin (exB.transposeCore [1, 0]).shape (exB.transposeCore [1, 0]).entries :=
  transpose_canonical exB [1, 0] (by decide) (by decide) (by decide) (fun h => absurd h (by decide))
example : (exB.flipCore [1]).get [0, 0] = exB.get [0, 2] ∧ exB.get [0, 2] = 6 :=
  ⟨(flip_get exB [1] (by decide) (by decide) [0, 0] (by decide)).1, by decide⟩
/-- negative shift, shift larger than the extent, repeated axis -/
example : (exB.rollCore [1, 0, 1] [-4, 3, 2]).get [0, 1] = exB.get [1, 0] ∧ exB.get [1, 0] = 7 :=
  ⟨(roll_get exB [1, 0, 1] [-4, 3, 2] rfl (by decide) (by decide) [0, 1] (by decide)).1, by decide⟩
/-- non-vacuity of squeeze / expand_dims: a 1×2×1×2 array squeezed over axes 0 and 2 -/
def exC : COO Int := { shape := [1, 2, 1, 2], entries := [([0, 0, 0, 1], 3), ([0, 1, 0, 0], 4)], fill := 0 }
example : (exC.squeezeCore [0, 2]).get [1, 0] = 4 ∧ (exC.squeezeCore [0, 2]).shape = [2, 2]
    ∧ unsqueezeIdx exC.shape [0, 2] [1, 0] = [0, 1, 0, 0]
    ∧ (∀ a ∈ [0, 2], exC.shape.getD a 0 = 1) ∧ exC.WF ∧ InB [1, 0] (dropAxes exC.shape [0, 2]) := by decide
example : (exA.expandDimsCore 1).get [1, 0, 2] = 7 ∧ (exA.expandDimsCore 1).shape = [2, 1, 3]
    ∧ insertAt [1, 2] 1 0 = [1, 0, 2] ∧ 1 ≤ exA.shape.length ∧ InB [1, 2] exA.shape := by decide

end SparseV.C08

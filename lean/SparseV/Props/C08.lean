/-
  Property C08 — shape manipulation agrees with NumPy.  Property theorems only.
  `x.get i` is the dense value at `i`; every theorem says which operand element a result element
  reads, for ALL shapes, ranks, sparsity patterns, fill values and element types.
-/
import SparseV.Lemmas.Rewrite
namespace SparseV.C08
open SparseV SparseV.COO
variable {α : Type}

/-- **reshape_get.** `reshape` (any source and target shapes of equal size, any rank) reads
result element `j` from the operand element with the same row-major linear location; shape and
fill value are as requested / unchanged. -/
theorem reshape_get (x : COO α) (s : List Nat) (hwf : x.WF) (hsize : prod x.shape = prod s)
    (j : Idx) (hj : InB j s) :
    (x.reshapeCore s).get j = x.get (unravel (ravel j s) x.shape)
    ∧ (x.reshapeCore s).shape = s ∧ (x.reshapeCore s).fill = x.fill := by
  unfold reshapeCore
  by_cases hs : x.shape = s
  · simp only [hs, if_true, and_true]
    rw [unravel_ravel hj]
  · simp only [hs, if_false, and_true, COO.get]
    rw [mapIdx_eq_rewrite]
    refine rewrite_lookup _ _ _ (fun j => unravel (ravel j s) x.shape) j ?_ ?_
    · intro e he j' hg
      have hin : InB e.1 x.shape := hwf e he
      have hlt : ravel e.1 x.shape < prod s := hsize ▸ ravel_lt hin
      simp only [Option.some.injEq] at hg
      rw [← hg, ravel_unravel s _ hlt, unravel_ravel hin]
    · have hlt : ravel j s < prod x.shape := hsize ▸ ravel_lt hj
      simp only [ravel_unravel x.shape _ hlt, unravel_ravel hj]

/-- `reshape` promises `sorted=True` to the constructor: the promise is justified because the
linear location of every stored entry is unchanged. -/
theorem reshape_preserves_linear (x : COO α) (s : List Nat) (hwf : x.WF) (hsize : prod x.shape = prod s) :
    ((x.reshapeCore s).entries.map fun e => ravel e.1 s) = x.entries.map fun e => ravel e.1 x.shape := by
  unfold reshapeCore
  by_cases hs : x.shape = s
  · simp [hs]
  · simp only [hs, if_false, mapIdx, List.map_map]
    apply List.map_congr_left
    intro e he
    have hin : InB e.1 x.shape := hwf e he
    have hlt : ravel e.1 x.shape < prod s := hsize ▸ ravel_lt hin
    simp [ravel_unravel s _ hlt]

/-- non-vacuity: a concrete 2×3 → 3×2 reshape -/
def exA : COO Int := { shape := [2, 3], entries := [([0, 1], 5), ([1, 2], 7)], fill := 0 }
example : (exA.reshapeCore [3, 2]).get [2, 1] = 7 ∧ exA.WF ∧ prod exA.shape = prod [3, 2] := by decide

end SparseV.C08

/-
  Property C03 — reductions.  Property theorems only.
  `Gen.normalizeAxisInt` is GENERATED from `_utils.normalize_axis`.
-/
import SparseV.Model.Reduce
namespace SparseV.C03
open SparseV

/-- **normalize_axis_spec.** An axis number is accepted iff `-ndim ≤ axis < ndim` (NumPy's rule) and
is then mapped to `axis mod ndim`; otherwise `ValueError` (NumPy's AxisError is a ValueError). -/
theorem normalize_axis_spec (axis ndim : Int) :
    Gen.normalizeAxisInt axis ndim =
      (if -ndim ≤ axis ∧ axis < ndim then .ok (if axis < 0 then axis + ndim else axis) else .error Err.value) := by
  simp only [Gen.normalizeAxisInt]
  grind

/-- accepted axes land in range -/
theorem normalize_axis_range (axis ndim r : Int) (h : Gen.normalizeAxisInt axis ndim = .ok r) :
    0 ≤ r ∧ r < ndim := by
  rw [normalize_axis_spec] at h
  split at h
  · cases h; grind
  · cases h

/-- **reduce_admissible_iff** (decision logic stated outright): `reduce` raises `ValueError` up
front exactly when `op fill fill ≠ fill` and the op has no "super ufunc" (it is neither add nor multiply). -/
theorem reduce_rejects_when_inadmissible (op : RedOp) (x : COO Int) (axes : Option (List Nat)) (kd : Bool)
    (h : op.ap x.fill x.fill ≠ x.fill) (hs : op.super? = none) :
    COO.reduceCore op x axes kd = .error Err.value := by
  unfold COO.reduceCore
  simp [h, hs]
  rfl

/-- max, min are always admissible (idempotent); add and multiply are always admissible (super ufunc) -/
theorem reduce_always_admissible (op : RedOp) (f : Int) : op.ap f f = f ∨ op.super?.isSome := by
  cases op <;> simp [RedOp.ap, RedOp.super?]

end SparseV.C03

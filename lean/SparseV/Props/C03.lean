/-
  Property C03 — reductions.  Property theorems only.
  `Gen.normalizeAxisInt` is GENERATED from `_utils.normalize_axis`.
-/
import SparseV.Lemmas.Reduce
import SparseV.Lemmas.Gen.Axis
namespace SparseV.C03
open SparseV SparseV.COO

/-- **normalize_axis_spec.** An axis number is accepted iff `-ndim ≤ axis < ndim` (NumPy's rule) and
is then mapped to `axis mod ndim`; otherwise `ValueError` (NumPy's AxisError is a ValueError). -/
theorem normalize_axis_spec (axis ndim : Int) :
    Gen.normalizeAxisInt axis ndim =
      (if -ndim ≤ axis ∧ axis < ndim then .ok (if axis < 0 then axis + ndim else axis) else .error Err.value) := by
  exact Gen.normalizeAxisInt_eq axis ndim

/-- accepted axes land in range -/
theorem normalize_axis_range (axis ndim r : Int) (h : Gen.normalizeAxisInt axis ndim = .ok r) :
    0 ≤ r ∧ r < ndim := by
  rw [normalize_axis_spec] at h
  split at h
  · cases h; grind
  · cases h

/-- **reduce_admissible_iff** (decision logic stated outright): `reduce` raises `ValueError` up
front exactly when `op fill fill ≠ fill` and the op has no "super ufunc" (it is neither add nor multiply). -/
theorem reduce_rejects_when_inadmissible (op : RedOp) (x : COO Int) (axes : Option (List Nat)) (kd : Bool)
    (h : op.ap x.fill x.fill ≠ x.fill) (hs : op.super? = none) :
    COO.reduceCore op x axes kd = .error Err.value := by
  unfold COO.reduceCore
  simp [h, hs]
  rfl

/-- max, min are always admissible (idempotent); add and multiply are always admissible (super ufunc) -/
theorem reduce_always_admissible (op : RedOp) (f : Int) : op.ap f f = f ∨ op.super?.isSome := by
  cases op <;> simp [RedOp.ap, RedOp.super?]

/-- **groupRuns_spec.** On a list of (row, value) pairs whose rows are non-decreasing, `groupRuns op`
(`_grouped_reduce` = `ufunc.reduceat` over the run starts, with `_calc_counts_invidx`) lists every
distinct row exactly once, in increasing order, each with the LEFT fold of `op` over the row's values
in storage order (`foldl1 op (rowVals l r)`) and the number of those values. -/
theorem groupRuns_spec (op : Int → Int → Int) (l : List (Nat × Int)) (hs : (l.map (·.1)).Pairwise (· ≤ ·)) :
    ((groupRuns op l).map (·.1)).Pairwise (· < ·) ∧
    (∀ r, r ∈ (groupRuns op l).map (·.1) ↔ r ∈ l.map (·.1)) ∧
    ∀ g ∈ groupRuns op l, g.2.1 = foldl1 op (rowVals l g.1) ∧ g.2.2 = (rowVals l g.1).length :=
  groupRuns_spec_aux op l hs

/-- **reduceCore_rowReduce.** `reduceCore` is literally: admissibility test; empty-reduced-axis test
(no super ufunc and a reduced extent of 0: `ValueError`); transpose the kept axes
first and reshape to 2-D; the row reduction `rowReduce`; reshape back (and again for `keepdims`);
0-d results become scalars.  (`rowReduce` is the model's own text, factored out by `rfl`.) -/
theorem reduceCore_rowReduce (op : RedOp) (x : COO Int) (axes : Option (List Nat)) (keepdims : Bool) :
    COO.reduceCore op x axes keepdims =
      if op.ap x.fill x.fill ≠ x.fill ∧ op.super?.isNone then .error .value else
      let nd := x.shape.length
      let axes := match axes with | none => List.range nd | some a => a
      if op.super?.isNone ∧ axes.any (fun a => x.shape.getD a 0 == 0) then .error .value else
      let kept := (List.range nd).filter fun a => !axes.contains a
      let a := (x.transposeCore (kept ++ axes)).reshapeCore
        [prod (kept.map fun d => x.shape.getD d 0), prod (axes.map fun d => x.shape.getD d 0)]
      let out := (rowReduce op a x.fill).reshapeCore (kept.map fun d => x.shape.getD d 0)
      let out := if keepdims then
          out.reshapeCore ((List.range nd).map fun d => if axes.contains d then 1 else x.shape.getD d 0)
        else out
      if out.shape.length = 0 then
        .ok (.scalar (match out.entries with | e :: _ => e.2 | [] => out.fill))
      else .ok (.arr out) := reduceCore_eq op x axes keepdims

/-- **rowReduce_add_get** (the 2-D core of `sum`).  For a canonical `R × C` array (well-formed,
strictly increasing linear locations) the row reduction with `add` — runs of equal row folded left to
right, plus `fill * (C - count)` for the unstored cells, new fill `fill * C`, prune — yields a 1-D
array of shape `[R]` whose element `i` is the sum over ALL `C` cells of row `i` (a row with no stored
entry reads the new fill value `fill * C`, which is that sum).  Any `R`, `C` (0 included), any fill. -/
theorem rowReduce_add_get (a : COO Int) (R C : Nat) (hshape : a.shape = [R, C]) (hwf : a.WF)
    (hs : SortedLin a.shape a.entries) :
    (rowReduce .add a a.fill).shape = [R] ∧ (rowReduce .add a a.fill).fill = a.fill * (C : Int) ∧
    ∀ i, (rowReduce .add a a.fill).get [i] = ((List.range C).map fun c => a.get [i, c]).sum := by
  have hwf' : ∀ e ∈ a.entries, InB e.1 [R, C] := fun e he => hshape ▸ hwf e he
  have hs' : SortedLin [R, C] a.entries := hshape ▸ hs
  rw [rowReduce_add_eq]
  simp only [hshape, List.getD_cons_zero, List.getD_cons_succ, true_and]
  intro i
  simp only [COO.get]
  rw [lookup_rowRuns _ _ (rowList_sorted a.entries R C hwf' hs'),
    row_sum R C a.fill i a.entries hwf' (keys_nodup_of_sortedLin _ _ hs')]
  have hle := rowCount_le a.entries R C hwf' hs' i
  by_cases hi : i ∈ (rowList a.entries).map (·.1)
  · rw [if_pos hi]
    simp only [foldl1_add_eq_sum, Int.ofNat_sub hle, Int.mul_sub]
    omega
  · rw [if_neg hi, rowVals_eq_nil hi]
    simp

/-- **rowReduce_max_get** (the 2-D core of `max`, the idempotent path: `if count ≠ C then max v fill
else v`, fill unchanged).  For `C ≥ 1`, element `i` of the result is the maximum of the `C` cells of
row `i`: it bounds every cell and is attained by one. -/
theorem rowReduce_max_get (a : COO Int) (R C : Nat) (hshape : a.shape = [R, C]) (hwf : a.WF)
    (hs : SortedLin a.shape a.entries) (hC : 0 < C) :
    (rowReduce .max a a.fill).shape = [R] ∧ (rowReduce .max a a.fill).fill = a.fill ∧
    ∀ i, (∀ c, c < C → a.get [i, c] ≤ (rowReduce .max a a.fill).get [i]) ∧
         ∃ c, c < C ∧ a.get [i, c] = (rowReduce .max a a.fill).get [i] :=
  rowReduce_sel_get .max rfl (· ≤ ·)
    (fun a b => by simp only [RedOp.ap]; omega) (fun a b => by simp only [RedOp.ap]; omega)
    (fun a b => by simp only [RedOp.ap]; omega) (fun a b c h1 h2 => Int.le_trans h1 h2) Int.le_refl
    a R C hshape hwf hs hC

/-- **rowReduce_min_get**: likewise the minimum. -/
theorem rowReduce_min_get (a : COO Int) (R C : Nat) (hshape : a.shape = [R, C]) (hwf : a.WF)
    (hs : SortedLin a.shape a.entries) (hC : 0 < C) :
    (rowReduce .min a a.fill).shape = [R] ∧ (rowReduce .min a a.fill).fill = a.fill ∧
    ∀ i, (∀ c, c < C → (rowReduce .min a a.fill).get [i] ≤ a.get [i, c]) ∧
         ∃ c, c < C ∧ a.get [i, c] = (rowReduce .min a a.fill).get [i] :=
  rowReduce_sel_get .min rfl (· ≥ ·)
    (fun a b => by simp only [RedOp.ap]; omega) (fun a b => by simp only [RedOp.ap]; omega)
    (fun a b => by simp only [RedOp.ap]; omega) (fun a b c h1 h2 => Int.le_trans h2 h1) Int.le_refl
    a R C hshape hwf hs hC

/-! non-vacuity -/

example : groupRuns (· + ·) [(0, 5), (0, 2), (2, 7)] = [(0, 7, 2), (2, 7, 1)] ∧
    ([(0, 5), (0, 2), (2, 7)].map (·.1) : List Nat).Pairwise (· ≤ ·) := by decide

def rA : COO Int := { shape := [3, 2], entries := [([0, 0], 5), ([0, 1], 2), ([2, 1], 7)], fill := 1 }

/-- the hypotheses hold for `rA`, and the conclusion gives row sums 7, 2 (unstored row: 2·fill), 8 -/
example : rA.WF ∧ SortedLin rA.shape rA.entries ∧
    (rowReduce .add rA rA.fill).get [1] = 2 ∧ (rowReduce .add rA rA.fill).get [2] = 8 := by
  have hs : SortedLin rA.shape rA.entries := by simp [SortedLin, lin, rA, ravel, prod]
  have h := (rowReduce_add_get rA 3 2 rfl (by decide) hs).2.2
  refine ⟨by decide, hs, ?_, ?_⟩
  · rw [h 1]; decide
  · rw [h 2]; decide

example : ∃ c, c < 2 ∧ rA.get [2, c] = (rowReduce .max rA rA.fill).get [2] :=
  ((rowReduce_max_get rA 3 2 rfl (by decide) (by simp [SortedLin, lin, rA, ravel, prod]) (by decide)).2.2 2).2

/-- `axis=None` is "all axes" -/
theorem reduceCore_none (op : RedOp) (x : COO Int) (kd : Bool) :
    COO.reduceCore op x none kd = COO.reduceCore op x (some (List.range x.shape.length)) kd := rfl

/-- `transpose_get` (property C08) in the form the reduction theorems take it -/
theorem transposeGetInt : ∀ (y : COO Int) (p : List Nat), p.Perm (List.range y.shape.length) → y.WF →
    (keysOf y.entries).Nodup → ∀ j, InB j (gather y.shape p) →
    (y.transposeCore p).get j = y.get (gather j (invPerm p)) :=
  fun y p hp hwf hnd j hj => (SparseV.C08.transpose_get y p hp hwf hnd j hj).1


/-- **reduce_add_get** (`sum` over arbitrary axes, `keepdims=False`).  For a canonical `x` (well-formed,
strictly increasing linear locations — what every COO constructor path establishes) and distinct
in-range `axes` (what `reduce` has checked), `reduceCore .add x (some axes) false` succeeds; its
result is the array `out` (the scalar `out.get []` when every axis is reduced) with the kept extents as
shape, fill `x.fill * (number of reduced cells)`, and for every in-bounds kept-index `j`
`out.get j = Σ_{r ∈ allIdx (reduced extents)} x.get (the index with kept coordinates j, reduced
coordinates r)` (`reduce_src_spec` spells that index out).  Covers transpose, both reshapes, the row
reduction, the fill correction, pruning and the scalar extraction, for any rank, any set of axes
(none, some, all), empty extents included.
`transpose_get` is property C08's theorem (`transposeGetInt`). -/
theorem reduce_add_get (x : COO Int) (axes : List Nat)
    (hwf : x.WF) (hs : SortedLin x.shape x.entries) (hnd : axes.Nodup)
    (hr : ∀ a ∈ axes, a < x.shape.length) :
    ∃ out : COO Int,
      COO.reduceCore .add x (some axes) false =
        .ok (if (List.range x.shape.length).filter (fun a => !axes.contains a) = [] then .scalar (out.get [])
             else .arr out) ∧
      out.shape = gather x.shape ((List.range x.shape.length).filter fun a => !axes.contains a) ∧
      out.fill = x.fill * (prod (gather x.shape axes) : Int) ∧
      ∀ j, InB j (gather x.shape ((List.range x.shape.length).filter fun a => !axes.contains a)) →
        out.get j = ((allIdx (gather x.shape axes)).map fun r =>
          x.get (gather (j ++ r)
            (invPerm (((List.range x.shape.length).filter fun a => !axes.contains a) ++ axes)))).sum := by
  obtain ⟨A, out, hAs, hAwf, hAsort, hAf, hAget, hred, hOs, hOf, hOget⟩ :=
    reduceCore_lift .add x axes transposeGetInt (by simp [RedOp.super?]) (by simp [RedOp.super?]) hwf hs hnd hr _ rfl
  obtain ⟨_, hRf, hRget⟩ := rowReduce_add_get A _ _ hAs hAwf hAsort
  refine ⟨out, hred, hOs, by rw [hOf, hRf, hAf], fun j hj => ?_⟩
  rw [hOget j hj, hRget, allIdx_eq_map_unravel, List.map_map]
  congr 1
  apply List.map_congr_left
  intro c hc
  simp only [Function.comp]
  exact hAget j c hj (List.mem_range.mp hc)

/-- **reduce_max_get** (`max` over arbitrary axes, `keepdims=False`; idempotent path).  Same hypotheses
as `reduce_add_get`, and no reduced extent is 0 (`0 < prod reduced extents`; otherwise NumPy and the code raise `ValueError`, see
`reduce_empty_axis_rejected`).  The result has the
kept extents as shape, the fill value unchanged, and element `j` is the maximum over all
reduced-index combinations `r`: it bounds every `x.get (kept j, reduced r)` and is attained. -/
theorem reduce_max_get (x : COO Int) (axes : List Nat)
    (hwf : x.WF) (hs : SortedLin x.shape x.entries) (hnd : axes.Nodup)
    (hr : ∀ a ∈ axes, a < x.shape.length) (hpos : 0 < prod (gather x.shape axes)) :
    ∃ out : COO Int,
      COO.reduceCore .max x (some axes) false =
        .ok (if (List.range x.shape.length).filter (fun a => !axes.contains a) = [] then .scalar (out.get [])
             else .arr out) ∧
      out.shape = gather x.shape ((List.range x.shape.length).filter fun a => !axes.contains a) ∧
      out.fill = x.fill ∧
      ∀ j, InB j (gather x.shape ((List.range x.shape.length).filter fun a => !axes.contains a)) →
        (∀ r ∈ allIdx (gather x.shape axes), x.get (gather (j ++ r)
            (invPerm (((List.range x.shape.length).filter fun a => !axes.contains a) ++ axes))) ≤ out.get j) ∧
        ∃ r ∈ allIdx (gather x.shape axes), x.get (gather (j ++ r)
            (invPerm (((List.range x.shape.length).filter fun a => !axes.contains a) ++ axes))) = out.get j :=
  reduceCore_sel_get .max rfl (· ≤ ·)
    (fun a b => by simp only [RedOp.ap]; omega) (fun a b => by simp only [RedOp.ap]; omega)
    (fun a b => by simp only [RedOp.ap]; omega) (fun a b c h1 h2 => Int.le_trans h1 h2) Int.le_refl
    (fun a => by simp only [RedOp.ap]; omega) x axes transposeGetInt hwf hs hnd hr hpos

/-- **reduce_min_get**: likewise the minimum. -/
theorem reduce_min_get (x : COO Int) (axes : List Nat)
    (hwf : x.WF) (hs : SortedLin x.shape x.entries) (hnd : axes.Nodup)
    (hr : ∀ a ∈ axes, a < x.shape.length) (hpos : 0 < prod (gather x.shape axes)) :
    ∃ out : COO Int,
      COO.reduceCore .min x (some axes) false =
        .ok (if (List.range x.shape.length).filter (fun a => !axes.contains a) = [] then .scalar (out.get [])
             else .arr out) ∧
      out.shape = gather x.shape ((List.range x.shape.length).filter fun a => !axes.contains a) ∧
      out.fill = x.fill ∧
      ∀ j, InB j (gather x.shape ((List.range x.shape.length).filter fun a => !axes.contains a)) →
        (∀ r ∈ allIdx (gather x.shape axes), out.get j ≤ x.get (gather (j ++ r)
            (invPerm (((List.range x.shape.length).filter fun a => !axes.contains a) ++ axes)))) ∧
        ∃ r ∈ allIdx (gather x.shape axes), x.get (gather (j ++ r)
            (invPerm (((List.range x.shape.length).filter fun a => !axes.contains a) ++ axes))) = out.get j :=
  reduceCore_sel_get .min rfl (· ≥ ·)
    (fun a b => by simp only [RedOp.ap]; omega) (fun a b => by simp only [RedOp.ap]; omega)
    (fun a b => by simp only [RedOp.ap]; omega) (fun a b c h1 h2 => Int.le_trans h2 h1) Int.le_refl
    (fun a => by simp only [RedOp.ap]; omega) x axes transposeGetInt hwf hs hnd hr hpos

/-- **reduce_empty_axis_rejected.** A ufunc without "super ufunc" (`maximum`, `minimum`: no identity)
reduced over axes one of which has extent 0 raises `ValueError`, whatever the fill value, the other
axes and `keepdims` (NumPy: "zero-size array to reduction operation … which has no identity"). -/
theorem reduce_empty_axis_rejected (op : RedOp) (x : COO Int) (axes : List Nat) (kd : Bool)
    (hsup : op.super? = none) (hz : ∃ a ∈ axes, x.shape.getD a 0 = 0) :
    COO.reduceCore op x (some axes) kd = .error .value := by
  rw [reduceCore_eq]
  by_cases hadm : op.ap x.fill x.fill ≠ x.fill ∧ op.super?.isNone
  · rw [if_pos hadm]
  · rw [if_neg hadm]
    dsimp only
    obtain ⟨a, ha, h0⟩ := hz
    rw [if_pos ⟨by simp [hsup], List.any_eq_true.mpr ⟨a, ha, by rw [h0]; rfl⟩⟩]

/-- the same for `axis=None` (every axis is reduced) -/
theorem reduce_empty_axis_rejected_none (op : RedOp) (x : COO Int) (kd : Bool)
    (hsup : op.super? = none) (hz : ∃ a, a < x.shape.length ∧ x.shape.getD a 0 = 0) :
    COO.reduceCore op x none kd = .error .value := by
  obtain ⟨a, ha, h0⟩ := hz
  rw [reduceCore_none]
  exact reduce_empty_axis_rejected op x _ kd hsup ⟨a, List.mem_range.mpr ha, h0⟩

/-- non-vacuity: `max` over the length-0 axis of a 2×0 array -/
example : COO.reduceCore .max (⟨[2, 0], [], 3⟩ : COO Int) (some [1]) false = .error .value :=
  reduce_empty_axis_rejected .max _ [1] false rfl ⟨1, by decide, by decide⟩

/-- the operand index read by `reduce_add_get`: for a permutation `p = kept ++ axes` of the axes,
`gather (j ++ r) (invPerm p)` has component `(j ++ r)[m]` at axis `p[m]` — kept coordinates from
`j`, reduced coordinates from `r` -/
theorem reduce_src_spec (p : List Nat) (hnd : p.Nodup) (hlt : ∀ a ∈ p, a < p.length) (v : List Nat)
    (m : Nat) (hm : m < p.length) : (gather v (invPerm p)).getD (p[m]) 0 = v.getD m 0 :=
  gather_invPerm_getD p hnd hlt v m hm

/-- non-vacuity of the hypotheses of `reduce_add_get` (other than the imported `transpose_get`), and
the model's answer on the same array: row sums 7, 2 (= new fill 2·1, pruned), 8 -/
example : rA.WF ∧ SortedLin rA.shape rA.entries ∧ [1].Nodup ∧ (∀ a ∈ [1], a < rA.shape.length) ∧
    COO.reduceCore .add rA (some [1]) false = .ok (.arr ⟨[3], [([0], 7), ([2], 8)], 2⟩) :=
  ⟨by decide, by simp [SortedLin, lin, rA, ravel, prod], by decide, by decide, by rfl⟩

end SparseV.C03

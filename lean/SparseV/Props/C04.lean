/-
  Property C04 — products and contractions agree with NumPy for all operand kinds; and they always
  return.  Property theorems only.  Kernel models: SparseV.Model.Dot (loop-faithful); specification:
  SparseV.Spec.Matmul (`matmulSpec n a b i k = Σ_{j<n} a i j * b j k`).  All theorems are for every
  size, every sparsity pattern and every `Int` values (so: including cancelling sums, empty rows,
  zero-width operands, duplicate and unsorted minor indices).
-/
import SparseV.Lemmas.Dot
namespace SparseV.C04
open SparseV.Dot SparseV.Spec

/-- **csr_dense_kernel_spec.** For every CSR triple whose column indices are below the inner
dimension `n` and every dense right operand, element `(i, k)` of the output of `_dot_csr_ndarray`
is `Σ_{j<n} a[i,j] · b[j,k]`, where `a[i,j]` is the dense value the triple stands for. -/
theorem csr_dense_kernel_spec (nRow n nCol : Nat) (A : CSR) (b : DenseM) (hA : A.ColsIn n)
    (i k : Nat) (hi : i < nRow) (hk : k < nCol) :
    dget (dotCsrNd nRow nCol A b) i k = matmulSpec n A.get (dget b) i k := by
  unfold dotCsrNd dget matmulSpec CSR.get
  rw [getD_map_range nRow i _ [] hi, dotCsrNdRow_getD nCol _ b k hk]
  exact rowsum_eq_spec n (A.row i) (fun j => (b.getD j []).getD k 0) (row_fst_lt hA i)

/-- non-vacuity: a 2×3 CSR matrix with an empty row times a 3×2 dense matrix with a cancelling sum -/
def exA : CSR := { indptr := [0, 2, 2], indices := [0, 2], data := [1, -1] }
def exB : DenseM := [[2, 5], [9, 9], [2, 1]]
example : exA.ColsIn 3 ∧ dotCsrNd 2 2 exA exB = [[0, 4], [0, 0]] ∧ matmulSpec 3 exA.get (dget exB) 0 1 = 4 := by decide

/-- **csr_csr_kernel_spec** (value level).  For all CSR operands with in-range minor indices
(any order, duplicates allowed, any values), the `(column, value)` entries the main loop of
`_dot_csr_csr` writes for output row `i` — positions `indptr[i] .. indptr[i+1]` — looked up at column
`k` give `Σ_{j<n} a[i,j] · b[j,k]`; a column that was not written has product value 0. -/
theorem csr_csr_kernel_spec (nRow n nCol : Nat) (A B : CSR) (hA : A.ColsIn n) (hB : B.ColsIn nCol)
    (i k : Nat) (hi : i < nRow) :
    lookupK (writtenRow (dotCsrCsrLoop nRow nCol A B) i) k = matmulSpec n A.get B.get i k := by
  rw [writtenRow_loop nRow nCol A B hB i hi, lookupK_rowEmit, contrib_touches]
  exact rowsum_eq_spec n (A.row i) (fun j => B.get j k) (row_fst_lt hA i)

/-- **csr_csr_emission_order.** The columns written for output row `i` appear in *reverse
first-touch order* (the linked list is walked from its head), each exactly once — not in increasing
order.  (This is why `GCXS @ GCXS` results have unsorted `indices`; see `rows_sorted_counterexample`.) -/
theorem csr_csr_emission_order (nRow nCol : Nat) (A B : CSR) (hA : A.WF) (hBw : B.WF) (hB : B.ColsIn nCol)
    (i : Nat) (hi : i < nRow) :
    (writtenRow (dotCsrCsrLoop nRow nCol A B) i).map (·.1) = chainOf (touchKeys A B i) := by
  rw [writtenRow_loop nRow nCol A B hB i hi]
  unfold rowEmit
  rw [List.map_map, keys_touches hA hBw]
  exact List.map_id _

/-- **csr_csr_precount_eq_written** (the memory-safety obligation).  The number of slots
`_csr_csr_count_nnz` makes `_dot_csr_csr` allocate equals the number of entries its main loop writes:
no write falls outside `indices`/`data` and no slot stays uninitialised. -/
theorem csr_csr_precount_eq_written (nRow nCol : Nat) (A B : CSR) (hA : A.WF) (hBw : B.WF) (hB : B.ColsIn nCol) :
    csrCsrCountNnz nRow nCol A B = (dotCsrCsrLoop nRow nCol A B).out.length := by
  rw [csrCsrCountNnz_closed nRow nCol A B hB, (dotCsrCsrLoop_closed nRow nCol A B hB).2.1, List.length_flatMap]
  congr 1
  apply List.map_congr_left
  intro i _
  exact (length_rowEmit hA hBw i).symm

/-- **csr_csr_kernel_full.** The complete `_dot_csr_csr` — pre-count, row loop and the final
"if the result is completely dense, reverse every block of `n_col` entries" tail: whenever it
returns `(data, indices, indptr)`, (1) the arrays are exactly as long as the pre-count allocated
(no out-of-bounds write, no uninitialised slot), and (2) row `i` of the result (positions
`indptr[i] .. indptr[i+1]`), looked up at column `k`, is `Σ_{j<n} a[i,j] · b[j,k]`.  The tail is
harmless because a completely dense result forces every row to have exactly `n_col` entries
(distinct columns below `n_col`: pigeonhole), so the blocks it reverses are the rows. -/
theorem csr_csr_kernel_full (nRow n nCol : Nat) (A B : CSR) (hA : A.ColsIn n) (hAw : A.WF) (hBw : B.WF)
    (hB : B.ColsIn nCol) (o : SparseOut) (ho : dotCsrCsr nRow nCol A B = .ok o) :
    o.alloc = o.data.length ∧ o.indices.length = o.data.length ∧
    ∀ i k, i < nRow →
      lookupK (slice (o.indices.zip o.data) (o.indptr.getD i 0) (o.indptr.getD (i + 1) 0)) k
        = matmulSpec n A.get B.get i k := by
  obtain ⟨h1, h2, h3⟩ := dotCsrCsr_rows nRow nCol A B hAw hBw hB o ho
  refine ⟨h1, h2, ?_⟩
  intro i k hi
  have key : lookupK (rowEmit (A.row i) B) k = matmulSpec n A.get B.get i k := by
    rw [lookupK_rowEmit, contrib_touches]
    exact rowsum_eq_spec n (A.row i) (fun j => B.get j k) (row_fst_lt hA i)
  rcases h3 i hi with h | h
  · rw [h]; exact key
  · rw [h, lookupK_rowEmit_reverse]; exact key

/-- non-vacuity for the tail: a completely dense 2×2 result; the rows are reversed back to `[0, 1]` -/
example : dotCsrCsr 2 2 { indptr := [0, 2, 4], indices := [0, 1, 0, 1], data := [1, 1, 1, 1] }
    { indptr := [0, 2, 4], indices := [0, 1, 0, 1], data := [1, 2, 3, 4] }
    = .ok { data := [4, 6, 4, 6], indices := [0, 1, 0, 1], indptr := [0, 2, 4], alloc := 4 } := by rfl

/-- non-vacuity and the order finding: a 1×2 times 2×4 product (canonical operands) whose row comes
out as columns `[1, 2, 0]` (reverse first touch), although the values are right -/
def exC : CSR := { indptr := [0, 2], indices := [0, 1], data := [1, 1] }
def exD : CSR := { indptr := [0, 2, 4], indices := [0, 2, 1, 2], data := [3, 4, 5, -4] }
example : exC.WF ∧ exD.WF ∧ exC.ColsIn 2 ∧ exD.ColsIn 4
    ∧ writtenRow (dotCsrCsrLoop 1 4 exC exD) 0 = [(1, 5), (2, 0), (0, 3)]
    ∧ csrCsrCountNnz 1 4 exC exD = 3 := by decide

/-- The statement "every row of a `_dot_csr_csr` result has strictly increasing column indices"
(canonical GCXS form, property C06) … -/
def Statement_csr_csr_rows_sorted : Prop :=
  ∀ (nRow nCol : Nat) (A B : CSR) (o : SparseOut), A.WF → B.WF → B.ColsIn nCol → dotCsrCsr nRow nCol A B = .ok o →
    ∀ i, i < nRow → (slice o.indices (o.indptr.getD i 0) (o.indptr.getD (i + 1) 0)).Pairwise (· < ·)

/-- … is false: the witness above (`GCXS([[1,1]]) @ GCXS([[3,0,4,0],[0,5,-4,0]])`) yields columns `[1, 2, 0]`. -/
theorem rows_sorted_counterexample : ¬ Statement_csr_csr_rows_sorted := by
  intro h
  have e : dotCsrCsr 1 4 exC exD = .ok { data := [5, 0, 3], indices := [1, 2, 0], indptr := [0, 3], alloc := 3 } := by rfl
  have := h 1 4 exC exD _ (by decide) (by decide) (by decide) e 0 (by decide)
  revert this
  decide

/-! ### `_dot_csr_ndarray_sparse` -/

/-- **csr_nd_sparse_kernel_spec.** `_dot_csr_ndarray_sparse`: the pre-count `_csr_ndarray_count_nnz`
allocates exactly the entries written, `indptr` delimits the rows, and row `i` looked up at column
`k < n_col` is `Σ_{j<n} a[i,j] · b[j,k]` (a column is skipped only when every factor `b[j,k]` met by the
row is 0, and then the sum is 0). -/
theorem csr_nd_sparse_kernel_spec (nRow n nCol : Nat) (A : CSR) (b : DenseM) (hA : A.ColsIn n) (hAw : A.WF) :
    (dotCsrNdSparse nRow nCol A b).alloc = (dotCsrNdSparse nRow nCol A b).data.length ∧
    ∀ i k, i < nRow → k < nCol →
      lookupK (slice ((dotCsrNdSparse nRow nCol A b).indices.zip (dotCsrNdSparse nRow nCol A b).data)
          ((dotCsrNdSparse nRow nCol A b).indptr.getD i 0) ((dotCsrNdSparse nRow nCol A b).indptr.getD (i + 1) 0)) k
        = matmulSpec n A.get (dget b) i k := by
  obtain ⟨h1, h2, h3⟩ := dotCsrNdSparse_closed nRow nCol A b hAw
  refine ⟨h3, ?_⟩
  intro i k hi hk
  rw [rows_slice (fun i => dotCsrNdSparseRow nCol (A.row i) b) nRow _ _ h1 h2 i hi, dotCsrNdSparseRow_eq,
    lookupK_filter_map]
  have hspec := rowsum_eq_spec n (A.row i) (fun j => dget b j k) (row_fst_lt hA i)
  unfold matmulSpec CSR.get
  rw [← hspec]
  by_cases hhit : ((A.row i).any fun e => dget b e.1 k != 0) = true
  · simp [hk, hhit]
  · simp only [hk, hhit, and_false, if_false]
    symm
    apply sum_map_eq_zero
    intro e he
    have : dget b e.1 k = 0 := by
      simp only [List.any_eq_true, not_exists, not_and, bne_iff_ne, ne_eq, Decidable.not_not] at hhit
      exact hhit e he
    rw [this, Int.mul_zero]

/-- non-vacuity: the cancelling sum of column 0 is written as an explicit 0 (`_dot` prunes it afterwards) -/
example : (dotCsrNdSparse 2 2 exA exB).data = [0, 4] ∧ (dotCsrNdSparse 2 2 exA exB).indices = [0, 1]
    ∧ (dotCsrNdSparse 2 2 exA exB).indptr = [0, 2, 2] ∧ (dotCsrNdSparse 2 2 exA exB).alloc = 2 := by decide

/-! ### `_dot_coo_coo` -/

/-- **coo_coo_kernel_spec.** The `(row, col, value)` triples `_dot_coo_coo` writes, restricted to
output row `i` and looked up at column `k`, give `Σ_{j<n} a[i,j] · b[j,k]` — for all operands with
in-range column coordinates. -/
theorem coo_coo_kernel_spec (nRow n nCol : Nat) (A B : CSR) (hA : A.ColsIn n) (hB : B.ColsIn nCol)
    (i k : Nat) (hi : i < nRow) :
    lookupK (rowOfTriples (dotCooCooLoop nRow nCol A B).2 i) k = matmulSpec n A.get B.get i k := by
  rw [(dotCooCooLoop_closed nRow nCol A B hB).2, rowOfTriples_flatMap _ nRow i hi, lookupK_rowEmit, contrib_touches]
  exact rowsum_eq_spec n (A.row i) (fun j => B.get j k) (row_fst_lt hA i)

/-- the pre-count of `_dot_coo_coo` equals the number of triples written -/
theorem coo_coo_precount_eq_written (nRow nCol : Nat) (A B : CSR) (hA : A.WF) (hBw : B.WF) (hB : B.ColsIn nCol) :
    (dotCooCoo nRow nCol A B).alloc = (dotCooCoo nRow nCol A B).data.length := by
  unfold dotCooCoo
  simp only [List.length_map]
  rw [csrCsrCountNnz_closed nRow nCol A B hB, (dotCooCooLoop_closed nRow nCol A B hB).2, List.length_flatMap]
  congr 1
  apply List.map_congr_left
  intro i _
  rw [List.length_map]
  exact (length_rowEmit hA hBw i).symm

example : exC.ColsIn 2 ∧ exD.ColsIn 4 ∧ (dotCooCooLoop 1 4 exC exD).2 = [(0, 1, 5), (0, 2, 0), (0, 0, 3)]
    ∧ (dotCooCoo 1 4 exC exD).alloc = 3 := by decide

/-! ### `_dot_csc_ndarray_sparse`: pre-count and emission -/

/-- "the slots `_csc_ndarray_count_nnz` allocates are exactly the entries `_dot_csc_ndarray_sparse`
writes" (what `csr_csr_precount_eq_written` proves for `_dot_csr_csr`) … -/
def Statement_csc_nd_sparse_precount_eq_written : Prop :=
  ∀ (aRows bRows bCols : Nat) (A : CSR) (b : DenseM), A.WF → A.ColsIn aRows →
    (dotCscNdSparse aRows bRows bCols A b).alloc = (dotCscNdSparse aRows bRows bCols A b).data.length

/-- the CSC triple of `[[1, -1, 2]]` and the dense `[[1,0],[1,0],[0,1]]`: column 0 of the product cancels -/
def exE : CSR := { indptr := [0, 1, 2, 3], indices := [0, 0, 0], data := [1, -1, 2] }
def exF : DenseM := [[1, 0], [1, 0], [0, 1]]

/-- … is false: the pre-count looks at the pattern only, the fill loop skips sums that are 0.  Two
slots are allocated and `indptr = [0, 1, 2]`, but one entry is written: the entry of column 1 lands in
column 0's slot and the last slot stays uninitialised
(`tensordot(GCXS([[1,-1,2]], compressed_axes=(1,)), [[1,0],[1,0],[0,1]], return_type=GCXS)`). -/
theorem csc_nd_sparse_precount_counterexample : ¬ Statement_csc_nd_sparse_precount_eq_written := by
  intro h
  have := h 1 3 2 exE exF (by decide) (by decide)
  revert this
  decide

example : (dotCscNdSparse 1 3 2 exE exF).alloc = 2 ∧ (dotCscNdSparse 1 3 2 exE exF).data = [2]
    ∧ (dotCscNdSparse 1 3 2 exE exF).indptr = [0, 1, 2] := by decide

/-- "the row indices of every column written by `_dot_csc_ndarray_sparse` increase" … -/
def Statement_csc_nd_sparse_cols_sorted : Prop :=
  ∀ (aRows bRows bCols : Nat) (A : CSR) (b : DenseM), A.WF → A.ColsIn aRows → ∀ i, i < bCols →
    (slice (dotCscNdSparse aRows bRows bCols A b).indices ((dotCscNdSparse aRows bRows bCols A b).indptr.getD i 0)
      ((dotCscNdSparse aRows bRows bCols A b).indptr.getD (i + 1) 0)).Pairwise (· < ·)

/-- … is false (same linked-list walk): `[[1,0],[2,0],[0,3]]` (CSC) times `[[1,1],[0,1]]` gives column 0 as rows `[1, 0]`. -/
theorem csc_cols_sorted_counterexample : ¬ Statement_csc_nd_sparse_cols_sorted := by
  intro h
  have := h 3 2 2 { indptr := [0, 2, 3], indices := [0, 1, 2], data := [1, 2, 3] } [[1, 1], [0, 1]] (by decide) (by decide) 0 (by decide)
  revert this
  decide

/-- the region in which `_dot_csc_ndarray_sparse` leaves allocated slots unwritten: some position
touched while computing an output column ends with sum 0 -/
def ExcludedCscCancel (bRows bCols : Nat) (A : CSR) (b : DenseM) : Bool :=
  (List.range bCols).any fun i =>
    (chainOf ((cscTouches bRows A b i).map (·.1))).any fun k => CSR.contrib (cscTouches bRows A b i) k == 0

example : ExcludedCscCancel 3 2 exE exF = true
    ∧ ExcludedCscCancel 2 2 { indptr := [0, 2, 3], indices := [0, 1, 2], data := [1, 2, 3] } [[1, 1], [0, 1]] = false := by decide

/-! ### stated, not proved (validated differentially on every run: model output vs product) -/

/-- dense value of a COO operand given as its element list -/
def cooGet (es : List Ent) (i j : Nat) : Int := ((es.filter fun e => e.1 == i && e.2.1 == j).map (·.2.2)).sum

/-- outside `ExcludedCscCancel`, `_dot_csc_ndarray_sparse` writes what it allocated and column `i` of its
output looked up at row `k` is the product (`A` holds the columns of `a`: `a[k,j] = A.get j k`) -/
def Statement_csc_nd_sparse_kernel_spec_partial : Prop :=
  ∀ (aRows bRows bCols : Nat) (A : CSR) (b : DenseM), A.WF → A.ColsIn aRows → ExcludedCscCancel bRows bCols A b = false →
    (dotCscNdSparse aRows bRows bCols A b).alloc = (dotCscNdSparse aRows bRows bCols A b).data.length ∧
    ∀ i k, i < bCols → k < aRows →
      lookupK (slice ((dotCscNdSparse aRows bRows bCols A b).indices.zip (dotCscNdSparse aRows bRows bCols A b).data)
          ((dotCscNdSparse aRows bRows bCols A b).indptr.getD i 0) ((dotCscNdSparse aRows bRows bCols A b).indptr.getD (i + 1) 0)) k
        = matmulSpec bRows (fun r j => A.get j r) (dget b) k i

/-- `_dot_csc_ndarray` (dense output) computes the product -/
def Statement_csc_nd_kernel_spec : Prop :=
  ∀ (aRows bRows bCols : Nat) (A : CSR) (b : DenseM), A.ColsIn aRows → ∀ r c, r < aRows → c < bCols →
    dget (dotCscNd aRows bRows bCols A b) r c = matmulSpec bRows (fun r j => A.get j r) (dget b) r c

/-- whenever `_dot_coo_ndarray` / `_dot_coo_ndarray_sparse` return, they return `s1 @ x2ᵀ` (rows of `s1` sorted, coordinates in range) -/
def Statement_coo_nd_kernel_spec : Prop :=
  ∀ (nRows n nCols : Nat) (es : List Ent) (x2 : DenseM) (fuel : Nat),
    (es.map (·.1)).Pairwise (· ≤ ·) → (∀ e ∈ es, e.1 < nRows ∧ e.2.1 < n) →
    (∀ out, dotCooNd nRows nCols es x2 fuel = some out → ∀ i k, i < nRows → k < nCols →
      dget out i k = matmulSpec n (cooGet es) (fun j c => dget x2 c j) i k) ∧
    (∀ ts, dotCooNdSparse nCols es x2 fuel = some ts → ∀ i k, i < nRows → k < nCols →
      lookupK (rowOfTriples ts i) k = matmulSpec n (cooGet es) (fun j c => dget x2 c j) i k)

/-- `_dot_ndarray_coo` computes `x1 @ s2`; `_dot_ndarray_coo_sparse` (handed the elements of `s2ᵀ`, sorted) as well -/
def Statement_nd_coo_kernel_spec : Prop :=
  ∀ (nRows n nCols : Nat) (x1 : DenseM) (es : List Ent), (∀ e ∈ es, e.1 < n ∧ e.2.1 < nCols) →
    (∀ i k, i < nRows → k < nCols → dget (dotNdCoo nRows nCols x1 es) i k = matmulSpec n (dget x1) (cooGet es) i k) ∧
    ((es.map (·.2.1)).Pairwise (· ≤ ·) → ∀ i k, i < nRows → k < nCols →
      lookupK (rowOfTriples (dotNdCooSparse nRows x1 (es.map fun e => (e.2.1, e.1, e.2.2))) i) k
        = matmulSpec n (dget x1) (cooGet es) i k)

/-! ### termination ("… and they always return") -/

/-- the region in which `_dot_coo_ndarray` / `_dot_coo_ndarray_sparse` do not return: the dense
operand has no column and the COO operand stores at least one element -/
def ExcludedCooNdZeroCols (nCols : Nat) (es : List Ent) : Bool := nCols == 0 && !es.isEmpty

/-- **coo_nd_terminates.** Under the guard `0 < n_cols ∨ nnz = 0` the outer `while` of
`_dot_coo_ndarray` makes progress in every iteration: `nnz + 1` units of fuel always suffice. -/
theorem coo_nd_terminates (nRows nCols : Nat) (es : List Ent) (x2 : DenseM) (h : 0 < nCols ∨ es = []) :
    ∃ r, dotCooNd nRows nCols es x2 (es.length + 1) = some r := by
  rcases h with h | h
  · exact cooNdRun_terminates nCols es x2 h _ 0 _ (by omega)
  · subst h; exact ⟨_, rfl⟩

/-- the same for `_dot_coo_ndarray_sparse` -/
theorem coo_nd_sparse_terminates (nCols : Nat) (es : List Ent) (x2 : DenseM) (h : 0 < nCols ∨ es = []) :
    ∃ r, dotCooNdSparse nCols es x2 (es.length + 1) = some r := by
  rcases h with h | h
  · exact cooNdSparseRun_terminates nCols es x2 h _ 0 _ (by omega)
  · subst h; exact ⟨_, rfl⟩

/-- "`_dot_coo_ndarray` and `_dot_coo_ndarray_sparse` return for every input" … -/
def Statement_coo_nd_always_returns : Prop :=
  ∀ (nRows nCols : Nat) (es : List Ent) (x2 : DenseM),
    (∃ fuel, dotCooNd nRows nCols es x2 fuel ≠ none) ∧ (∃ fuel, dotCooNdSparse nCols es x2 fuel ≠ none)

/-- … fails on the whole excluded region: no amount of fuel is enough (the outer index never advances). -/
theorem coo_nd_diverges (nRows : Nat) (es : List Ent) (x2 : DenseM) (h : ExcludedCooNdZeroCols 0 es = true) :
    (∀ fuel, dotCooNd nRows 0 es x2 fuel = none) ∧ (∀ fuel, dotCooNdSparse 0 es x2 fuel = none) := by
  have hl : 0 < es.length := by
    cases es with
    | nil => simp [ExcludedCooNdZeroCols] at h
    | cons _ _ => simp
  exact ⟨fun fuel => cooNdRun_zero_cols es x2 fuel 0 _ hl, fun fuel => cooNdSparseRun_zero_cols es x2 fuel 0 _ hl⟩

/-- the witness `sparse.dot(COO(eye(3)), zeros((3, 0)))`: the kernel is handed `x2 = zeros((0, 3))` -/
def eye3 : List Ent := [(0, 0, 1), (1, 1, 1), (2, 2, 1)]
theorem coo_nd_always_returns_counterexample : ¬ Statement_coo_nd_always_returns := by
  intro h
  obtain ⟨⟨fuel, hf⟩, _⟩ := h 3 0 eye3 []
  exact hf ((coo_nd_diverges 3 eye3 [] (by decide)).1 fuel)

/-- outside the excluded region both kernels return -/
theorem coo_nd_always_returns_partial (nRows nCols : Nat) (es : List Ent) (x2 : DenseM)
    (h : ExcludedCooNdZeroCols nCols es = false) :
    (∃ fuel, dotCooNd nRows nCols es x2 fuel ≠ none) ∧ (∃ fuel, dotCooNdSparse nCols es x2 fuel ≠ none) := by
  have hg : 0 < nCols ∨ es = [] := by
    cases es with
    | nil => exact Or.inr rfl
    | cons _ _ =>
      left
      simp [ExcludedCooNdZeroCols] at h
      omega
  obtain ⟨r1, h1⟩ := coo_nd_terminates nRows nCols es x2 hg
  obtain ⟨r2, h2⟩ := coo_nd_sparse_terminates nCols es x2 hg
  exact ⟨⟨_, by rw [h1]; simp⟩, ⟨_, by rw [h2]; simp⟩⟩

/-- non-vacuity: a 2-column case returns with the product `eye(3) @ [[1,2],[3,4],[5,6]]` (`x2` is its transpose) -/
example : dotCooNd 3 2 eye3 [[1, 3, 5], [2, 4, 6]] 4 = some [[1, 2], [3, 4], [5, 6]]
    ∧ ExcludedCooNdZeroCols 2 eye3 = false ∧ ExcludedCooNdZeroCols 0 eye3 = true := by decide

/-- "`_dot_csr_csr` never raises" … -/
def Statement_csr_csr_no_error : Prop := ∀ (nRow nCol : Nat) (A B : CSR), ∃ o, dotCsrCsr nRow nCol A B = .ok o

/-- … fails for a right operand without columns: the tail `len(indices) // n_col` divides by zero
(`GCXS(eye(3)) @ GCXS(zeros((3, 0)))` raises ZeroDivisionError). -/
theorem csr_csr_no_error_counterexample : ¬ Statement_csr_csr_no_error := by
  intro h
  obtain ⟨o, ho⟩ := h 3 0 { indptr := [0, 1, 2, 3], indices := [0, 1, 2], data := [1, 1, 1] }
    { indptr := [0, 0, 0, 0], indices := [], data := [] }
  have e : dotCsrCsr 3 0 { indptr := [0, 1, 2, 3], indices := [0, 1, 2], data := [1, 1, 1] }
    { indptr := [0, 0, 0, 0], indices := [], data := [] } = .error .zeroDiv := by rfl
  rw [e] at ho
  cases ho

/-- with at least one output column `_dot_csr_csr` returns -/
theorem csr_csr_no_error_partial (nRow nCol : Nat) (A B : CSR) (h : 0 < nCol) : ∃ o, dotCsrCsr nRow nCol A B = .ok o := by
  unfold dotCsrCsr
  have : ¬ nCol = 0 := by omega
  simp only [this, if_false]
  split <;> exact ⟨_, rfl⟩

/-! ### the `_dot` dispatch -/

/-- **dot_dispatch_total.** Every combination of operand kinds (COO, GCXS with either compressed
axis, ndarray) on either side, default compressed axis, size comparison and requested return type
reaches a kernel branch; the final `raise TypeError` is unreachable for these kinds. -/
theorem dot_dispatch_total (ka kb : Kind) (cd : CA) (big : Bool) (rt : RT) :
    (dotDispatch ka kb cd big rt).isSome = true := by
  rcases ka with _ | ⟨_ | _⟩ | _ <;> rcases kb with _ | ⟨_ | _⟩ | _ <;> cases cd <;> cases big <;> cases rt <;> rfl

/-- the `a.nbytes > b.nbytes` test of the GCXS·GCXS branch cannot influence the plan: `b` was already
converted to `a`'s compressed axes -/
theorem dot_dispatch_nbytes_irrelevant (ka kb : Kind) (cd : CA) (rt : RT) :
    dotDispatch ka kb cd true rt = dotDispatch ka kb cd false rt := by
  rcases ka with _ | ⟨_ | _⟩ | _ <;> rcases kb with _ | ⟨_ | _⟩ | _ <;> cases cd <;> cases rt <;> rfl

/-- **dot_dispatch_return_type.** Whenever a return type is requested and at least one operand is
sparse, the plan ends in an array of that type. -/
theorem dot_dispatch_return_type (ka kb : Kind) (cd : CA) (big : Bool) (rt : RT) (p : Plan)
    (hs : ka.isSparse || kb.isSparse = true) (hrt : rt ≠ .none) (hp : dotDispatch ka kb cd big rt = some p) :
    p.outKind = rt := by
  rcases ka with _ | ⟨_ | _⟩ | _ <;> rcases kb with _ | ⟨_ | _⟩ | _ <;> cases cd <;> cases big <;> cases rt <;>
    first
    | (exact absurd rfl hrt)
    | (exact absurd hs (by decide))
    | (cases hp; rfl)

/-- every plan whose kernel writes sums without testing them asks the constructor to prune -/
theorem dot_dispatch_prunes (ka kb : Kind) (cd : CA) (big : Bool) (rt : RT) (p : Plan)
    (hp : dotDispatch ka kb cd big rt = some p) (hz : p.kernel.writesZeros = true) : p.prune = true := by
  rcases ka with _ | ⟨_ | _⟩ | _ <;> rcases kb with _ | ⟨_ | _⟩ | _ <;> cases cd <;> cases big <;> cases rt <;>
    cases hp <;> first | rfl | (exact absurd hz (by decide))

/-- **transpose_trick.** The orientation `swapT` is sound: `(a @ b)[i,k] = (bᵀ @ aᵀ)[k,i]`. -/
theorem transpose_trick (n : Nat) (a b : Nat → Nat → Int) (i k : Nat) :
    matmulSpec n a b i k = matmulSpec n (tr b) (tr a) k i := by
  unfold matmulSpec tr
  congr 1
  apply List.map_congr_left
  intro j _
  exact Int.mul_comm _ _

/-! ### `tensordot` axis bookkeeping -/

/-- **tensordot_newaxes_perm.** For distinct, in-range contraction axes, `newaxes_a = notin + axes_a`
and `newaxes_b = axes_b + notin` are permutations of `range(ndim)`: the transposes before the
reshape-to-2-D move every axis exactly once. -/
theorem tensordot_newaxes_perm (nd : Nat) (axes : List Nat) (hnd : axes.Nodup) (hr : ∀ a ∈ axes, a < nd) :
    (newaxesA nd axes).Perm (List.range nd) ∧ (newaxesB nd axes).Perm (List.range nd) :=
  ⟨notin_append_perm nd axes hnd hr, List.perm_append_comm.trans (notin_append_perm nd axes hnd hr)⟩

/-- **tensordot_result_rank.** The result shape `olda + oldb` has rank `nda + ndb - 2·(number of
contracted axes)`. -/
theorem tensordot_result_rank (sa sb xa xb : List Nat) (ha : xa.Nodup) (hb : xb.Nodup)
    (hra : ∀ a ∈ xa, a < sa.length) (hrb : ∀ a ∈ xb, a < sb.length) :
    (tdShape sa sb xa xb).length + xa.length + xb.length = sa.length + sb.length := by
  have h1 := (notin_append_perm sa.length xa ha hra).length_eq
  have h2 := (notin_append_perm sb.length xb hb hrb).length_eq
  simp only [List.length_append, List.length_range] at h1 h2
  simp only [tdShape, List.length_append, List.length_map]
  omega

/-- **tensordot_n2_agree.** When the `equal` test passes, the inner dimension `N2` computed from `a`
equals the one computed from `b`: the two reshapes `(-1, N2)` and `(N2, -1)` fit together. -/
theorem tensordot_n2_agree (sa sb xa xb : List Nat) (h : tdAxesOk sa sb xa xb = true) : n2 sa xa = n2 sb xb := by
  unfold tdAxesOk at h
  simp only [Bool.and_eq_true, beq_iff_eq] at h
  exact n2_eq sa sb xa xb 1 h.1 h.2

example : newaxesA 4 [3, 1] = [0, 2, 3, 1] ∧ newaxesB 3 [0, 2] = [0, 2, 1]
    ∧ tdShape [2, 5, 3, 4] [4, 7, 5] [3, 1] [0, 2] = [2, 3, 7] ∧ tdAxesOk [2, 5, 3, 4] [4, 7, 5] [3, 1] [0, 2] = true := by decide

example : dotDispatch .nd (.gcxs .c0) .c0 false .coo
    = some { kernel := .cscNdSparse, orient := .swapT, resultCA := some .c0, prune := true, post := .tocoo } := by decide

end SparseV.C04

/-
  Property C04 — products and contractions agree with NumPy for all operand kinds; and they always
  return.  Property theorems only.  Kernel models: SparseV.Model.Dot (loop-faithful); specification:
  SparseV.Spec.Matmul (`matmulSpec n a b i k = Σ_{j<n} a i j * b j k`).  All theorems are for every
  size, every sparsity pattern and every `Int` values (so: including cancelling sums, empty rows,
  zero-width operands, duplicate and unsorted minor indices).
-/
import SparseV.Lemmas.Dot
namespace SparseV.C04
open SparseV.Dot SparseV.Spec

/-- **csr_dense_kernel_spec.** For every CSR triple whose column indices are below the inner
dimension `n` and every dense right operand, element `(i, k)` of the output of `_dot_csr_ndarray`
is `Σ_{j<n} a[i,j] · b[j,k]`, where `a[i,j]` is the dense value the triple stands for. -/
theorem csr_dense_kernel_spec (nRow n nCol : Nat) (A : CSR) (b : Dense) (hA : A.ColsIn n)
    (i k : Nat) (hi : i < nRow) (hk : k < nCol) :
    dget (dotCsrNd nRow nCol A b) i k = matmulSpec n A.get (dget b) i k := by
  unfold dotCsrNd dget matmulSpec CSR.get
  rw [getD_map_range nRow i _ [] hi, dotCsrNdRow_getD nCol _ b k hk]
  exact rowsum_eq_spec n (A.row i) (fun j => (b.getD j []).getD k 0) (row_fst_lt hA i)

/-- non-vacuity: a 2×3 CSR matrix with an empty row times a 3×2 dense matrix with a cancelling sum -/
def exA : CSR := { indptr := [0, 2, 2], indices := [0, 2], data := [1, -1] }
def exB : Dense := [[2, 5], [9, 9], [2, 1]]
example : exA.ColsIn 3 ∧ dotCsrNd 2 2 exA exB = [[0, 4], [0, 0]] ∧ matmulSpec 3 exA.get (dget exB) 0 1 = 4 := by decide

/-- **csr_csr_kernel_spec** (value level).  For all CSR operands with in-range minor indices
(any order, duplicates allowed, any values), the `(column, value)` entries the main loop of
`_dot_csr_csr` writes for output row `i` — positions `indptr[i] .. indptr[i+1]` — looked up at column
`k` give `Σ_{j<n} a[i,j] · b[j,k]`; a column that was not written has product value 0. -/
theorem csr_csr_kernel_spec (nRow n nCol : Nat) (A B : CSR) (hA : A.ColsIn n) (hB : B.ColsIn nCol)
    (i k : Nat) (hi : i < nRow) :
    lookupK (writtenRow (dotCsrCsrLoop nRow nCol A B) i) k = matmulSpec n A.get B.get i k := by
  rw [writtenRow_loop nRow nCol A B hB i hi, lookupK_rowEmit, contrib_touches]
  exact rowsum_eq_spec n (A.row i) (fun j => B.get j k) (row_fst_lt hA i)

/-- **csr_csr_emission_order.** The columns written for output row `i` appear in *reverse
first-touch order* (the linked list is walked from its head), each exactly once — not in increasing
order.  (This is why `GCXS @ GCXS` results have unsorted `indices`; see `rows_sorted_counterexample`.) -/
theorem csr_csr_emission_order (nRow nCol : Nat) (A B : CSR) (hA : A.WF) (hBw : B.WF) (hB : B.ColsIn nCol)
    (i : Nat) (hi : i < nRow) :
    (writtenRow (dotCsrCsrLoop nRow nCol A B) i).map (·.1) = chainOf (touchKeys A B i) := by
  rw [writtenRow_loop nRow nCol A B hB i hi]
  unfold rowEmit
  rw [List.map_map, keys_touches hA hBw]
  exact List.map_id _

/-- **csr_csr_precount_eq_written** (the memory-safety obligation).  The number of slots
`_csr_csr_count_nnz` makes `_dot_csr_csr` allocate equals the number of entries its main loop writes:
no write falls outside `indices`/`data` and no slot stays uninitialised. -/
theorem csr_csr_precount_eq_written (nRow nCol : Nat) (A B : CSR) (hA : A.WF) (hBw : B.WF) (hB : B.ColsIn nCol) :
    csrCsrCountNnz nRow nCol A B = (dotCsrCsrLoop nRow nCol A B).out.length := by
  rw [csrCsrCountNnz_closed nRow nCol A B hB, (dotCsrCsrLoop_closed nRow nCol A B hB).2.1, List.length_flatMap]
  congr 1
  apply List.map_congr_left
  intro i _
  exact (length_rowEmit hA hBw i).symm

/-- non-vacuity and the order finding: a 1×2 times 2×3 product whose row comes out as columns
`[1, 2, 0]` (reverse first touch), although the values are right -/
def exC : CSR := { indptr := [0, 2], indices := [0, 1], data := [1, 1] }
def exD : CSR := { indptr := [0, 2, 4], indices := [0, 2, 1, 2], data := [3, 4, 5, -4] }
example : exC.WF ∧ exD.WF ∧ exC.ColsIn 2 ∧ exD.ColsIn 3
    ∧ writtenRow (dotCsrCsrLoop 1 3 exC exD) 0 = [(1, 5), (2, 0), (0, 3)]
    ∧ csrCsrCountNnz 1 3 exC exD = 3 := by decide

/-- The statement "every row of a `_dot_csr_csr` result has strictly increasing column indices"
(canonical GCXS form, property C06) … -/
def Statement_csr_csr_rows_sorted : Prop :=
  ∀ (nRow nCol : Nat) (A B : CSR), A.WF → B.WF → B.ColsIn nCol → ∀ i, i < nRow →
    ((writtenRow (dotCsrCsrLoop nRow nCol A B) i).map (·.1)).Pairwise (· < ·)

/-- … is false: the witness above (canonical operands) yields columns `[1, 2, 0]`. -/
theorem rows_sorted_counterexample : ¬ Statement_csr_csr_rows_sorted := by
  intro h
  have := h 1 3 exC exD (by decide) (by decide) (by decide) 0 (by decide)
  revert this
  decide

end SparseV.C04

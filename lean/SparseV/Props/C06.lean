/-
  Property C06 — every returned array is in canonical, self-consistent form.
  Property theorems only.  `SortedLin shape es` = strictly increasing row-major linear location
  (so: row-major order, no repeats); `WF` = every stored index inside the shape.
-/
import SparseV.Lemmas.Canonical
import SparseV.Lemmas.Rewrite
import SparseV.Lemmas.Elemwise2
import SparseV.Model.Join
import SparseV.Model.PromiseCover
import SparseV.Generated.PromiseSites
namespace SparseV.C06
open SparseV SparseV.COO
variable {α : Type}

theorem sumDup_keys_subset [Add α] (shape : List Nat) (es : List (Idx × α)) :
    ∀ e ∈ sumDup shape es, ∃ e' ∈ es, e.1 = e'.1 := by
  fun_induction sumDup shape es with
  | case1 => intro e he; cases he
  | case2 e0 => intro e he; exact ⟨e, he, rfl⟩
  | case3 e1 e2 rest heq ih =>
    intro e he
    obtain ⟨e', he', h⟩ := ih e he
    rcases List.mem_cons.mp he' with h1 | h1
    · exact ⟨e1, List.mem_cons_self, by rw [h, h1]⟩
    · exact ⟨e', List.mem_cons_of_mem _ (List.mem_cons_of_mem _ h1), h⟩
  | case4 e1 e2 rest hne ih =>
    intro e he
    rcases List.mem_cons.mp he with h1 | h1
    · exact ⟨e1, List.mem_cons_self, by rw [h1]⟩
    · obtain ⟨e', he', h⟩ := ih e h1
      exact ⟨e', List.mem_cons_of_mem _ he', h⟩

/-- **build_canonical.** The COO constructor with its default flags (coordinates in ANY order, WITH
repeats) always produces the canonical form: stored indices inside the shape and strictly
increasing in row-major order — for every shape, every coordinate list, with or without pruning. -/
theorem build_canonical [Add α] [DecidableEq α] (shape : List Nat) (es : List (Idx × α)) (fill : α)
    (prune : Bool) (hwf : ∀ e ∈ es, InB e.1 shape) :
    SortedLin shape (COO.build shape es fill false true prune).entries ∧
    (COO.build shape es fill false true prune).WF := by
  unfold COO.build
  simp only [Bool.false_eq_true, if_false, if_true]
  have h1 := sortEntries_sortedLe shape es
  have h2 := (sumDup_sortedLin shape _ h1).1
  have hwf2 : ∀ e ∈ sumDup shape (sortEntries shape es), InB e.1 shape := by
    intro e he
    obtain ⟨e', he', h⟩ := sumDup_keys_subset shape _ e he
    rw [h]
    exact hwf e' (mem_sortEntries.mp he')
  cases prune with
  | false => exact ⟨h2, hwf2⟩
  | true =>
    refine ⟨prune_sortedLin shape fill _ h2, ?_⟩
    intro e he
    exact hwf2 e (List.mem_filter.mp he).1

/-- **promise_justified_transpose.** `transpose` hands the permuted coordinates to the constructor
with `has_duplicates=False`: justified (a permutation of the axes keeps indices distinct), and the
constructor's sort then yields the canonical order. Stated for the generic rewrite: any coordinate
map that is injective on the stored indices and lands inside the new shape. -/
theorem sorted_rewrite_canonical (shape' : List Nat) (es : List (Idx × α)) (g : Idx → Option Idx) (h : Idx → Idx)
    (hinv : ∀ e ∈ es, ∀ j', g e.1 = some j' → h j' = e.1) (hnd : (keysOf es).Nodup)
    (hin : ∀ e ∈ es, ∀ j', g e.1 = some j' → InB j' shape') :
    SortedLin shape' (sortEntries shape' (rewrite g es)) := by
  apply sortedLin_of_le_nodup shape' _ (sortEntries_sortedLe shape' _)
  · exact nodup_sortEntries shape' _ (rewrite_nodup es g h hinv hnd)
  · intro e he
    have he' := mem_sortEntries.mp he
    unfold rewrite at he'
    obtain ⟨e0, he0, hmap⟩ := List.mem_filterMap.mp he'
    cases hg : g e0.1 with
    | none => simp [hg] at hmap
    | some k =>
      simp only [hg, Option.map_some, Option.some.injEq] at hmap
      rw [← hmap]
      exact hin e0 he0 k hg

/-- **promise_justified_reshape.** `reshape` promises `sorted=True, has_duplicates=False`: justified,
because the linear location of every stored entry is unchanged. -/
theorem reshape_canonical (x : COO α) (s : List Nat) (hwf : x.WF) (hsize : prod x.shape = prod s)
    (hc : SortedLin x.shape x.entries) : SortedLin s (x.reshapeCore s).entries := by
  unfold SortedLin lin at hc ⊢
  unfold reshapeCore
  by_cases hs : x.shape = s
  · simp only [hs, if_true]; rw [← hs]; exact hc
  · simp only [hs, if_false, mapIdx, List.map_map]
    have : (List.map ((fun e => ravel e.1 s) ∘ fun e => (unravel (ravel e.1 x.shape) s, e.2)) x.entries)
        = List.map (fun e => ravel e.1 x.shape) x.entries := by
      apply List.map_congr_left
      intro e he
      have hin : InB e.1 x.shape := hwf e he
      have hlt : ravel e.1 x.shape < prod s := hsize ▸ ravel_lt hin
      simp [ravel_unravel s _ hlt]
    rw [this]
    exact hc

/-- **promise_justified_triu / tril.** filtering keeps the canonical order. -/
theorem filter_canonical (shape : List Nat) (p : Idx × α → Bool) (es : List (Idx × α)) (hc : SortedLin shape es) :
    SortedLin shape (es.filter p) := by
  unfold SortedLin lin at *
  exact hc.sublist (List.Sublist.map _ List.filter_sublist)

/-- **nofill_elemwise.** An element-wise result stores no entry equal to its fill value (whatever
the operands stored). -/
theorem nofill_elemwise {β γ : Type} [DecidableEq γ] (f : α → β → γ) (A : List (Idx × α)) (fa : α)
    (B : List (Idx × β)) (fb : β) : ∀ e ∈ COO.elemwise2 f A fa B fb, e.2 ≠ f fa fb := by
  intro e he
  unfold COO.elemwise2 at he
  rw [List.mem_filter] at he
  simpa using he.2

/-- **nofill_prune.** `prune=True` results store no fill-valued entry. -/
theorem nofill_prune [DecidableEq α] (fill : α) (es : List (Idx × α)) :
    ∀ e ∈ pruneEntries fill es, e.2 ≠ fill := by
  intro e he
  unfold pruneEntries at he
  rw [List.mem_filter] at he
  simpa using he.2

/-- canonical order implies distinct stored indices (so `nnz` counts distinct positions) -/
theorem sortedLin_nodup (shape : List Nat) (es : List (Idx × α)) (hc : SortedLin shape es) :
    (keysOf es).Nodup := by
  unfold SortedLin lin at hc
  unfold keysOf List.Nodup
  rw [List.pairwise_map] at hc ⊢
  exact hc.imp (fun {a b} h heq => by rw [heq] at h; exact Nat.lt_irrefl _ h)

/-- **promise_sites_covered.** Every constructor call site in the CURRENT source that promises
`sorted=…`, `has_duplicates=False` or passes a ready-made GCXS triple (table regenerated from the
source on every run) is one whose promise has a recorded justification — a theorem above, or a
representation-level correspondence leg. A new or altered promise site makes this fail. -/
theorem promise_sites_covered :
    ∀ s ∈ Gen.promiseSites, (s.1, s.2.1, s.2.2.1, s.2.2.2.1, s.2.2.2.2.1) ∈ promiseCover.map (·.1) := by
  decide +kernel

/-- non-vacuity: the hypothesis of `build_canonical` holds for unsorted coordinates with a repeat -/
example : ∀ e ∈ [([1, 1], (5 : Int)), ([0, 1], 2), ([1, 1], -5)], InB e.1 [2, 2] := by decide

end SparseV.C06

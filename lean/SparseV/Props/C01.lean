/-
  Property C01 — element-wise operations and broadcasting.  Property theorems only.
  `Gen.bcastOk`/`Gen.bcastDim` are GENERATED from `_umath._get_broadcast_shape`.
-/
import SparseV.Model.Elemwise
import SparseV.Lemmas.Elemwise2
namespace SparseV.C01
open SparseV

/-- NumPy's broadcasting rule for one pair of extents (right-aligned): equal, or one of them is 1 -/
def specPair (l1 l2 : Int) : Option Int :=
  if l1 = l2 then some l1 else if l1 = 1 then some l2 else if l2 = 1 then some l1 else none

/-- **bcast_pair_spec.** The generated per-pair rule accepts a pair of extents exactly when NumPy's
rule has a result, and then yields that result. -/
theorem bcast_pair_spec (l1 l2 : Int) :
    (Gen.bcastOk l1 l2 false = true ↔ (specPair l1 l2).isSome) ∧
    (Gen.bcastOk l1 l2 false = true → specPair l1 l2 = some (Gen.bcastDim l1 l2)) := by
  simp only [Gen.bcastOk, Gen.bcastDim, specPair, decide_eq_true_eq]
  by_cases h1 : l1 = l2 <;> by_cases h2 : l1 = 1 <;> by_cases h3 : l2 = 1 <;> simp_all

/-- **bcast_result_rule.** With `is_result=True` (used by `broadcast_to`) the target extent may
not be stretched: accepted iff the operand extent equals the target's or is 1. -/
theorem bcast_result_rule (l1 l2 : Int) :
    Gen.bcastOk l1 l2 true = true ↔ (l1 = l2 ∨ l1 = 1) := by
  simp [Gen.bcastOk]

/-- **elemwise2_get.** The matched / unmatched mask algorithm computes the function element-wise:
for ANY scalar function `f`, any fill values, any storage order, two operands with distinct stored
indices — at every index `i` the result (with fill `f fa fb`) holds `f` of the operands' values at `i`.
Entries whose value equals the result fill are dropped (so a `NoFill` result), which never changes a lookup. -/
theorem elemwise2_get {α β γ : Type} [DecidableEq γ] (f : α → β → γ) (A : List (Idx × α)) (fa : α)
    (B : List (Idx × β)) (fb : β) (hA : (COO.keysOf A).Nodup) (hB : (COO.keysOf B).Nodup) (i : Idx) :
    COO.lookup (COO.elemwise2 f A fa B fb) (f fa fb) i = f (COO.lookup A fa i) (COO.lookup B fb i) :=
  COO.elemwise2_lookup f A fa B fb hA hB i

/-- the result never stores its own fill value -/
theorem elemwise2_nofill {α β γ : Type} [DecidableEq γ] (f : α → β → γ) (A : List (Idx × α)) (fa : α)
    (B : List (Idx × β)) (fb : β) : ∀ e ∈ COO.elemwise2 f A fa B fb, e.2 ≠ f fa fb := by
  intro e he
  unfold COO.elemwise2 at he
  rw [List.mem_filter] at he
  simpa using he.2

/-- non-vacuity: overlapping and disjoint stored positions, nonzero fills, a cancelling sum -/
example : COO.elemwise2 (fun a b : Int => a + b) [([0], 5), ([2], 1)] 1 [([2], 0), ([3], 4)] 0
    = [([0], 5), ([3], 5)] := by decide

end SparseV.C01

/-
  Property C01 — element-wise operations and broadcasting.  Property theorems only.
  `Gen.bcastOk`/`Gen.bcastDim` are GENERATED from `_umath._get_broadcast_shape`.
-/
import SparseV.Model.Elemwise
namespace SparseV.C01
open SparseV

/-- NumPy's broadcasting rule for one pair of extents (right-aligned): equal, or one of them is 1 -/
def specPair (l1 l2 : Int) : Option Int :=
  if l1 = l2 then some l1 else if l1 = 1 then some l2 else if l2 = 1 then some l1 else none

/-- **bcast_pair_spec.** The generated per-pair rule accepts a pair of extents exactly when NumPy's
rule has a result, and then yields that result. -/
theorem bcast_pair_spec (l1 l2 : Int) :
    (Gen.bcastOk l1 l2 false = true ↔ (specPair l1 l2).isSome) ∧
    (Gen.bcastOk l1 l2 false = true → specPair l1 l2 = some (Gen.bcastDim l1 l2)) := by
  simp only [Gen.bcastOk, Gen.bcastDim, specPair, decide_eq_true_eq]
  by_cases h1 : l1 = l2 <;> by_cases h2 : l1 = 1 <;> by_cases h3 : l2 = 1 <;> simp_all

/-- **bcast_result_rule.** With `is_result=True` (used by `broadcast_to`) the target extent may
not be stretched: accepted iff the operand extent equals the target's or is 1. -/
theorem bcast_result_rule (l1 l2 : Int) :
    Gen.bcastOk l1 l2 true = true ↔ (l1 = l2 ∨ l1 = 1) := by
  simp [Gen.bcastOk]

end SparseV.C01

/-
  Property C01 — element-wise operations and broadcasting.  Property theorems only.
  `Gen.bcastOk`/`Gen.bcastDim` are GENERATED from `_umath._get_broadcast_shape`.
-/
import SparseV.Model.Elemwise
import SparseV.Lemmas.Elemwise2
import SparseV.Lemmas.ElemwiseN
import SparseV.Lemmas.BroadcastSorted
import SparseV.Lemmas.Gen.Bcast
namespace SparseV.C01
open SparseV

/-- NumPy's broadcasting rule for one pair of extents (right-aligned): equal, or one of them is 1 -/
def specPair (l1 l2 : Int) : Option Int :=
  if l1 = l2 then some l1 else if l1 = 1 then some l2 else if l2 = 1 then some l1 else none

/-- **bcast_pair_spec.** The generated per-pair rule accepts a pair of extents exactly when NumPy's
rule has a result, and then yields that result. -/
theorem bcast_pair_spec (l1 l2 : Int) :
    (Gen.bcastOk l1 l2 false = true ↔ (specPair l1 l2).isSome) ∧
    (Gen.bcastOk l1 l2 false = true → specPair l1 l2 = some (Gen.bcastDim l1 l2)) := by
  simp only [Gen.bcastOk_iff, Gen.bcastDim_eq, Ref.bcastDim, specPair]
  by_cases h1 : l1 = l2 <;> by_cases h2 : l1 = 1 <;> by_cases h3 : l2 = 1 <;> simp_all

/-- **bcast_result_rule.** With `is_result=True` (used by `broadcast_to`) the target extent may
not be stretched: accepted iff the operand extent equals the target's or is 1. -/
theorem bcast_result_rule (l1 l2 : Int) :
    Gen.bcastOk l1 l2 true = true ↔ (l1 = l2 ∨ l1 = 1) := by
  simp [Gen.bcastOk_iff]

/-- **elemwise2_get.** The matched / unmatched mask algorithm computes the function element-wise:
for ANY scalar function `f`, any fill values, any storage order, two operands with distinct stored
indices — at every index `i` the result (with fill `f fa fb`) holds `f` of the operands' values at `i`.
Entries whose value equals the result fill are dropped (so a `NoFill` result), which never changes a lookup. -/
theorem elemwise2_get {α β γ : Type} [DecidableEq γ] (f : α → β → γ) (A : List (Idx × α)) (fa : α)
    (B : List (Idx × β)) (fb : β) (hA : (COO.keysOf A).Nodup) (hB : (COO.keysOf B).Nodup) (i : Idx) :
    COO.lookup (COO.elemwise2 f A fa B fb) (f fa fb) i = f (COO.lookup A fa i) (COO.lookup B fb i) :=
  COO.elemwise2_lookup f A fa B fb hA hB i

/-- the result never stores its own fill value -/
theorem elemwise2_nofill {α β γ : Type} [DecidableEq γ] (f : α → β → γ) (A : List (Idx × α)) (fa : α)
    (B : List (Idx × β)) (fb : β) : ∀ e ∈ COO.elemwise2 f A fa B fb, e.2 ≠ f fa fb := by
  intro e he
  unfold COO.elemwise2 at he
  rw [List.mem_filter] at he
  simpa using he.2

/-- non-vacuity: overlapping and disjoint stored positions, nonzero fills, a cancelling sum -/
example : COO.elemwise2 (fun a b : Int => a + b) [([0], 5), ([2], 1)] 1 [([2], 0), ([3], 4)] 0
    = [([0], 5), ([3], 5)] := by decide

/-! ## Broadcasting of shapes, for all ranks -/

/-- NumPy's `broadcast_shapes(s1, s2)` stated directly: right-align the shapes, pad the shorter one
on the left with 1s, combine the aligned extents with `specPair`; `none` if some pair is incompatible. -/
def specBshape (s1 s2 : List Nat) : Option (List Nat) := specBshapeWith specPair s1 s2

/-- **bshape2_spec.** `_get_broadcast_shape(s1, s2)` (the generated per-pair rule `Gen.bcastOk` /
`Gen.bcastDim` under the `zip` / `zip_longest` of the code) is NumPy's rule for ALL shapes of any rank:
it returns NumPy's broadcast shape when there is one and raises `ValueError` otherwise.  The per-pair
step is `bcast_pair_spec`. -/
theorem bshape2_spec (s1 s2 : List Nat) :
    bshape2 s1 s2 false = (match specBshape s1 s2 with | some r => .ok r | none => .error .value) :=
  bshape2_eq_spec specPair bcast_pair_spec s1 s2

example : specBshape [2, 1, 3] [4, 1] = some [2, 4, 3] := by decide
example : specBshape [5, 0] [1] = some [5, 0] := by decide
example : specBshape [2, 3] [4] = none := by decide

/-- NumPy's `broadcast_to(x, t).shape` for an operand of shape `s`: the operand may not have more
axes than the target, and every aligned operand extent equals the target's or is 1. -/
def specBroadcastTo (s t : List Nat) : Option (List Nat) :=
  if s.length ≤ t.length ∧ ((List.zip (padL t.length s) t).all fun p => decide (p.1 = p.2 ∨ p.1 = 1)) = true
  then some t else none

/-- **bshape2_result_exact.** What the code does with `is_result=True`, for all shapes: an operand
with more axes than the result shape is rejected by the rank guard; otherwise every aligned pair
(the `zip` then covers the whole operand) must have the operand extent equal to the target's or 1,
and the result is the target shape itself. -/
theorem bshape2_result_exact (s t : List Nat) :
    bshape2 s t true =
      if s.length ≤ t.length ∧ ((List.zip s.reverse t.reverse).all fun p => decide (p.1 = p.2 ∨ p.1 = 1)) = true
      then .ok t else .error .value := by
  by_cases hl : s.length ≤ t.length
  · by_cases h : ZipOk s t true
    · rw [if_pos ⟨hl, (zipOk_result_iff s t).mpr h⟩, bshape2_true_of_ok hl h, bdims_result h]
      have : s.length - t.length = 0 := by omega
      simp [this]
    · rw [if_neg (fun hh => h ((zipOk_result_iff s t).mp hh.2)), bshape2_of_not_ok h]
  · rw [if_neg (fun hh => hl hh.1), bshape2_of_more_axes (by omega)]

/-- **bshape2_result_spec.** With `is_result=True` (the call made by `broadcast_to`) the code is
NumPy's `broadcast_to` rule for ALL shapes: the target shape when the operand has no more axes than
the target and every aligned operand extent equals the target's or is 1, `ValueError` otherwise. -/
theorem bshape2_result_spec (s t : List Nat) :
    bshape2 s t true = (match specBroadcastTo s t with | some r => .ok r | none => .error .value) := by
  unfold specBroadcastTo
  by_cases hl : s.length ≤ t.length
  · by_cases hz : ZipOk s t true
    · rw [if_pos ⟨hl, (padL_zip_all_iff hl).mpr hz⟩, bshape2_true_of_ok hl hz, bdims_result hz]
      have : s.length - t.length = 0 := by omega
      simp [this]
    · rw [if_neg (fun hh => hz ((padL_zip_all_iff hl).mp hh.2)), bshape2_of_not_ok hz]
  · rw [if_neg (fun hh => hl hh.1), bshape2_of_more_axes (by omega)]

/-- NumPy's admissibility gives the code's: the hypothesis used by the array-level theorems below -/
theorem bshape2_of_specBroadcastTo {s t : List Nat} (h : specBroadcastTo s t = some t) :
    bshape2 s t true = .ok t := by
  rw [bshape2_result_spec, h]

/-- the former failing input (operand `(2,3)`, target `(3,)`; fixed upstream in 13786a7): now rejected,
as NumPy does; and a stretched target extent is rejected as before -/
example : bshape2 [2, 3] [3] true = .error .value ∧ specBroadcastTo [2, 3] [3] = none ∧
    bshape2 [3, 1] [4] true = .error .value ∧ bshape2 [3] [1] true = .error .value := ⟨by rfl, by decide, by rfl, by rfl⟩
example : bshape2 [1, 3] [2, 2, 3] true = .ok [2, 2, 3] ∧ specBroadcastTo [1, 3] [2, 2, 3] = some [2, 2, 3] :=
  ⟨by rfl, by decide⟩

/-! ## n-ary broadcasting -/

/-- **bshapeN_spec.** `_get_nary_broadcast_shape` — the left fold of the pairwise rule over any
number of shapes — is NumPy's n-ary rule `specBshapeN`: pad every shape on the left with 1s to the
largest rank; it succeeds iff at every axis the extents are pairwise equal-or-1 (`ColOk`), and the
result extent is then the one that is not 1.  Otherwise `ValueError`. -/
theorem bshapeN_spec (shapes : List (List Nat)) :
    bshapeN shapes = (match specBshapeN shapes with | some r => .ok r | none => .error .value) :=
  bshapeN_eq_spec shapes

/-- **bshapeN_order_irrelevant.** The n-ary result (shape or error) does not depend on the order of
the operands: the pairwise rule is associative and commutative wherever it is defined. -/
theorem bshapeN_order_irrelevant {l l' : List (List Nat)} (h : l.Perm l') : bshapeN l = bshapeN l' :=
  bshapeN_perm h

/-- **bshape2_comm.** The pairwise rule is commutative: same shape, or `ValueError` both ways. -/
theorem bshape2_comm (s1 s2 : List Nat) : bshape2 s1 s2 false = bshape2 s2 s1 false := bshape2_comm' s1 s2

/-- **bshape2_assoc.** The pairwise rule is associative, errors included: broadcasting `a` with `b`
and then with `c` is broadcasting `a` with the broadcast of `b` and `c`. -/
theorem bshape2_assoc (a b c : List Nat) :
    (bshape2 a b false >>= fun ab => bshape2 ab c false) =
      (bshape2 b c false >>= fun bc => bshape2 a bc false) := bshape2_assoc' a b c

/-- a single shape broadcasts to itself -/
theorem bshapeN_single (s : List Nat) : bshapeN [s] = .ok s := by
  rw [bshapeN_of_ok, nDims_single]
  intro k a ha b hb
  simp only [colAt, List.map_cons, List.map_nil, List.mem_singleton] at ha hb
  left; rw [ha, hb]

/-- **bshapeN_error_iff.** The fold fails — always with `ValueError` — exactly when at some axis
(counted from the right, shapes padded with 1s) two operands have different extents neither of which is 1. -/
theorem bshapeN_error_iff (shapes : List (List Nat)) (e : Err) :
    bshapeN shapes = .error e ↔
      e = .value ∧ ∃ k, ∃ s ∈ shapes, ∃ t ∈ shapes, ext s k ≠ ext t k ∧ ext s k ≠ 1 ∧ ext t k ≠ 1 := by
  have hiff : (¬ ∀ k, ColOk (colAt shapes k)) ↔
      ∃ k, ∃ s ∈ shapes, ∃ t ∈ shapes, ext s k ≠ ext t k ∧ ext s k ≠ 1 ∧ ext t k ≠ 1 := by
    constructor
    · intro h
      apply Classical.byContradiction
      intro hne
      apply h
      intro k a ha b hb
      obtain ⟨s, hs, rfl⟩ := List.mem_map.mp ha
      obtain ⟨t, ht, rfl⟩ := List.mem_map.mp hb
      apply Classical.byContradiction
      intro hc
      apply hne
      refine ⟨k, s, hs, t, ht, ?_⟩
      omega
    · rintro ⟨k, s, hs, t, ht, h1, h2, h3⟩ h
      have := h k _ (List.mem_map.mpr ⟨s, hs, rfl⟩) _ (List.mem_map.mpr ⟨t, ht, rfl⟩)
      omega
  by_cases h : ∀ k, ColOk (colAt shapes k)
  · rw [bshapeN_of_ok h]
    constructor
    · intro hh; cases hh
    · intro hh; exact absurd h (hiff.mpr hh.2)
  · rw [bshapeN_of_not_ok h]
    constructor
    · intro hh; exact ⟨(Except.error.inj hh).symm, hiff.mp h⟩
    · intro hh; rw [hh.1]

example : bshapeN [[3, 1], [2, 1, 4], [], [1]] = .ok [2, 3, 4] := by rfl
example : specBshapeN [[3, 1], [2, 1, 4], [], [1]] = some [2, 3, 4] := by decide
example : bshapeN [[3, 1], [2, 4], [2, 1, 4]] = .error .value := by rfl

/-! ## `_get_expanded_coords_data` and `broadcast_to` -/

/-- **expand_mem.** The entries of the expansion, characterised: for an operand (shape `src`, stored
indices in range) that broadcasts to `dst`, `(j, v)` is emitted iff `j` is an in-range index of `dst`
and the operand stores `v` at the index `j` reads under broadcasting.  Every stored entry is
replicated exactly over the broadcast axes, nothing else is emitted. -/
theorem expand_mem {α : Type} (es : List (Idx × α)) (src dst : List Nat)
    (hb : specBroadcastTo src dst = some dst) (hwf : ∀ e ∈ es, InB e.1 src) (j : Idx) (v : α) :
    (j, v) ∈ COO.expand es src dst ↔ InB j dst ∧ (projIdx src dst j, v) ∈ es :=
  COO.mem_expand (bcTo_of_bshape2 (bshape2_of_specBroadcastTo hb)) hwf j v

/-- **expand_nodup.** … and each result index is emitted once (no duplicates: the
`has_duplicates=False` that `broadcast_to` passes to the constructor is justified). -/
theorem expand_nodup {α : Type} (es : List (Idx × α)) (src dst : List Nat)
    (hb : specBroadcastTo src dst = some dst) (hwf : ∀ e ∈ es, InB e.1 src) (hnd : (COO.keysOf es).Nodup) :
    (COO.keysOf (COO.expand es src dst)).Nodup :=
  COO.nodup_expand (bcTo_of_bshape2 (bshape2_of_specBroadcastTo hb)) hwf hnd

/-- **broadcastTo_get.** `broadcast_to(x, s)` for every target `s` NumPy admits: the result
has shape `s`, the operand's fill value, in-range distinct stored indices, and at every index `j` of
`s` holds the operand's value at the projected index (extent-1 axes read coordinate 0, extra leading
axes are dropped) — NumPy's `broadcast_to`. -/
theorem broadcastTo_get {α : Type} (x : COO α) (s : List Nat) (hwf : x.WF) (hnd : x.keys.Nodup)
    (h : specBroadcastTo x.shape s = some s) :
    ∃ r, x.broadcastTo s = .ok r ∧ r.shape = s ∧ r.fill = x.fill ∧ r.WF ∧ r.keys.Nodup ∧
      ∀ j, InB j s → r.get j = x.get (projIdx x.shape s j) :=
  COO.broadcastTo_spec x s hwf hnd (bshape2_of_specBroadcastTo h)

/-- **broadcastTo_error.** … and for every target NumPy rejects (a stretched target extent, an
incompatible pair, or an operand with more axes than the target) `broadcast_to` raises `ValueError`. -/
theorem broadcastTo_error {α : Type} (x : COO α) (s : List Nat) (h : specBroadcastTo x.shape s = none) :
    x.broadcastTo s = .error .value := by
  have hb : bshape2 x.shape s true = .error .value := by rw [bshape2_result_spec, h]
  have hne : s ≠ x.shape := by
    intro hs
    subst hs
    have hz : ZipOk x.shape x.shape true := fun k _ _ => Or.inl rfl
    rw [bshape2_true_of_ok (Nat.le_refl _) hz] at hb
    cases hb
  unfold COO.broadcastTo
  rw [if_neg hne, hb]

/-- the former array-level witness: a `(2,3)` array broadcast to `(3,)` is now rejected -/
example : COO.broadcastTo (⟨[2, 3], [([0, 1], (5 : Int))], 0⟩ : COO Int) [3] = .error .value :=
  broadcastTo_error _ _ (by decide)

/-- **broadcastTo_sorted_promise.** The `sorted=` claim: when `broadcast_to` computes
`sorted = True` (the non-broadcast axes are adjacent, `expandSorted`) and the operand's entries are in
canonical order, the expansion is ALREADY in canonical order of the target shape — the constructor,
which then skips `_sort_indices`, receives what it was promised. -/
theorem broadcastTo_sorted_promise {α : Type} (x : COO α) (s : List Nat) (hwf : x.WF)
    (hs : COO.SortedLin x.shape x.entries) (h : specBroadcastTo x.shape s = some s)
    (hadj : COO.expandSorted x.shape s = true) :
    COO.SortedLin s (COO.expand x.entries x.shape s) ∧
    ∃ r, x.broadcastTo s = .ok r ∧ COO.SortedLin s r.entries ∧
      (s ≠ x.shape → r.entries = COO.expand x.entries x.shape s) := by
  have h := bshape2_of_specBroadcastTo h
  have hsorted := COO.expand_sortedLin (bcTo_of_bshape2 h) hwf hs hadj
  refine ⟨hsorted, ?_⟩
  unfold COO.broadcastTo
  by_cases hsx : s = x.shape
  · rw [if_pos hsx]
    exact ⟨x, rfl, hsx ▸ hs, fun hne => absurd hsx hne⟩
  · rw [if_neg hsx, h]
    simp only [hadj, if_true]
    exact ⟨_, rfl, hsorted, fun _ => rfl⟩

/-- the claim without the adjacency condition -/
def Statement_expand_sorted_unconditionally : Prop :=
  ∀ (es : List (Idx × Int)) (src dst : List Nat), specBroadcastTo src dst = some dst →
    (∀ e ∈ es, InB e.1 src) → COO.SortedLin src es → COO.SortedLin dst (COO.expand es src dst)

/-- **expand_sorted_needs_adjacency.** The condition is needed: with parameters
`[True, False, True]` (shape `(2,1,2)` to `(2,3,2)`) two entries in canonical order are expanded to
linear locations `0,2,4,1,3,5` — and `expandSorted` is `false` there, so the code sorts. -/
theorem expand_sorted_needs_adjacency : ¬ Statement_expand_sorted_unconditionally ∧
    COO.expandSorted [2, 1, 2] [2, 3, 2] = false ∧
    COO.lin [2, 3, 2] (COO.expand [([0, 0, 0], (5 : Int)), ([0, 0, 1], 7)] [2, 1, 2] [2, 3, 2]) = [0, 2, 4, 1, 3, 5] := by
  refine ⟨?_, by decide, by decide⟩
  intro h
  have := h [([0, 0, 0], 5), ([0, 0, 1], 7)] [2, 1, 2] [2, 3, 2] (by decide) (by decide) (by decide)
  revert this
  decide

/-- non-vacuity: a leading new axis and a stretched interior axis; stored positions 0 and 2 of the last axis -/
example : COO.expand [([0, 0], (5 : Int)), ([0, 2], 7)] [1, 3] [2, 2, 3] =
    [([0, 0, 0], 5), ([0, 0, 2], 7), ([0, 1, 0], 5), ([0, 1, 2], 7),
     ([1, 0, 0], 5), ([1, 0, 2], 7), ([1, 1, 0], 5), ([1, 1, 2], 7)] := by decide
example : specBroadcastTo [1, 3] [2, 2, 3] = some [2, 2, 3] ∧ COO.expandSorted [1, 3] [2, 2, 3] = true ∧
    COO.SortedLin [1, 3] [([0, 0], (5 : Int)), ([0, 2], 7)] := by decide

/-! ## `_Elemwise` for any arity -/

/-- **elemwiseN_get.** The sparse result of `_Elemwise` for ANY arity and ANY function `f` of the
operands' values: operands are COO arrays (stored indices in range and distinct), dense arrays and
scalars.  If the model returns a sparse array `r` then
* `r.shape` is the n-ary broadcast shape of the operands' shapes;
* `r.fill` is `f` applied to the sparse operands' fill values, the scalars and the dense operands'
  values — at ANY position of the dense operands' common shape (the decision found them all equal);
* at every index `j` of the result, `r.get j` is `f` applied to the operands' values at `j` under broadcasting;
* no stored value equals the fill value, stored indices are in range, distinct and in canonical order. -/
theorem elemwiseN_get {α : Type} [Inhabited α] [DecidableEq α] (f : List α → α) (ops : List (Operand α))
    (hwf : ∀ o ∈ ops, o.WF) (r : COO α) (h : elemwiseN f ops = .ok (.sparse r)) :
    bshapeN (ops.map Operand.shape) = .ok r.shape ∧
    (∃ ndShape, bshapeN ((ops.filter Operand.isDense).map Operand.shape) = .ok ndShape ∧
      ∀ i, InB i ndShape → r.fill = f (ops.map fun o => o.fillAt ndShape i)) ∧
    (∀ j, InB j r.shape → r.get j = f (ops.map fun o => o.valueAt r.shape j)) ∧
    r.NoFill ∧ r.WF ∧ r.keys.Nodup ∧ COO.SortedLin r.shape r.entries := by
  cases hc : ops.any Operand.isCoo with
  | false => rw [elemwiseN_no_coo f ops hc] at h; cases h
  | true =>
    cases hs : bshapeN (ops.map Operand.shape) with
    | error e => rw [elemwiseN_shape_err f ops e hc hs] at h; cases h
    | ok shape =>
      have hsub : ∀ s ∈ (ops.filter Operand.isDense).map Operand.shape, s ∈ ops.map Operand.shape := by
        intro s hs'
        obtain ⟨o, ho, rfl⟩ := List.mem_map.mp hs'
        exact List.mem_map.mpr ⟨o, (List.mem_filter.mp ho).1, rfl⟩
      have hn := bshapeN_sub_ok hs hsub
      rw [elemwiseN_eq f ops shape _ hc hs hn] at h
      split at h
      · next hall =>
        have hconst := (fillArr_all_iff f ops _).mp hall
        split at h
        · next hz =>
          -- a zero extent: nothing is stored and there is no index to read
          have hr := ElemResult.sparse.inj (Except.ok.inj h)
          subst hr
          refine ⟨rfl, ⟨_, hn, fun i hi => fillOf_eq f ops _ hconst hi⟩, ?_, ?_, ?_, ?_, ?_⟩
          · intro j hj
            exfalso
            simp only [List.any_eq_true, decide_eq_true_eq] at hz
            obtain ⟨d, hd, rfl⟩ := hz
            have hp : 0 < prod shape := prod_pos_of_InB hj
            have : prod shape = 0 := by
              clear hj hp hs hn h hall hconst
              induction shape with
              | nil => cases hd
              | cons a rest ih =>
                simp only [prod]
                rcases List.mem_cons.mp hd with hd | hd
                · rw [← hd]; simp
                · rw [ih hd]; simp
            omega
          · intro e he; cases he
          · intro e he; cases he
          · exact List.nodup_nil
          · exact List.Pairwise.nil
        · have hr := ElemResult.sparse.inj (Except.ok.inj h)
          subst hr
          have hnd := nodup_entriesOf f ops shape
            (fillOf f ops (nDims ((ops.filter Operand.isDense).map Operand.shape)))
          have hwfE := wf_entriesOf f ops shape
            (fillOf f ops (nDims ((ops.filter Operand.isDense).map Operand.shape))) hwf hs
          refine ⟨rfl, ⟨_, hn, fun i hi => fillOf_eq f ops _ hconst hi⟩, ?_, ?_, ?_, ?_, ?_⟩
          · intro j hj
            show COO.lookup _ _ j = _
            rw [COO.lookup_sortEntries _ _ _ _ hnd]
            exact lookup_entriesOf f ops shape _ hwf hs hn hconst hj
          · intro e he
            exact (mem_entriesOf.mp (COO.mem_sortEntries.mp he)).2.2
          · intro e he
            exact hwfE e (COO.mem_sortEntries.mp he)
          · exact COO.nodup_sortEntries _ _ hnd
          · exact COO.sortedLin_of_le_nodup _ _ (COO.sortEntries_sortedLe _ _) (COO.nodup_sortEntries _ _ hnd)
              (fun e he => hwfE e (COO.mem_sortEntries.mp he))
      · split at h <;> cases h

/-- without dense operands the fill value is `f` of the fill values (and scalars) -/
theorem elemwiseN_fill_nodense {α : Type} [Inhabited α] [DecidableEq α] (f : List α → α) (ops : List (Operand α))
    (hwf : ∀ o ∈ ops, o.WF) (hnd : ops.filter Operand.isDense = []) (r : COO α)
    (h : elemwiseN f ops = .ok (.sparse r)) :
    r.fill = f (ops.map fun o => o.fillAt [] []) := by
  obtain ⟨_, ⟨nd, h1, h2⟩, _⟩ := elemwiseN_get f ops hwf r h
  rw [hnd] at h1
  have : nd = [] := by
    have := bshapeN_single []
    simp only [List.map_nil] at h1
    have h0 : bshapeN ([] : List (List Nat)) = .ok [] := rfl
    rw [h0] at h1
    exact (Except.ok.inj h1).symm
  subst this
  exact h2 [] trivial

/-- **elemwise_decision.** The three-way result kind, for operands with at least one sparse one and
broadcastable shapes (`shape` the broadcast shape of all operands, `ndShape` that of the dense ones):
* if `f` of the fill values and the dense operands' values is the same at every position
  (`FillConst`: a sparse result exists) the result is sparse, of shape `shape`;
* otherwise, if the dense operands already have the full result shape, the result is the dense array
  holding `f` of the operands' values at every index;
* otherwise `ValueError`. -/
theorem elemwise_decision {α : Type} [Inhabited α] [DecidableEq α] (f : List α → α) (ops : List (Operand α))
    (shape ndShape : List Nat) (hc : ops.any Operand.isCoo = true)
    (hs : bshapeN (ops.map Operand.shape) = .ok shape)
    (hn : bshapeN ((ops.filter Operand.isDense).map Operand.shape) = .ok ndShape) :
    (FillConst f ops ndShape → ∃ r, elemwiseN f ops = .ok (.sparse r) ∧ r.shape = shape) ∧
    (¬ FillConst f ops ndShape → shape = ndShape →
      elemwiseN f ops = .ok (.dense shape ((allIdx shape).map fun i => f (ops.map fun o => o.valueAt shape i)))) ∧
    (¬ FillConst f ops ndShape → shape ≠ ndShape → elemwiseN f ops = .error .value) := by
  rw [elemwiseN_eq f ops shape ndShape hc hs hn]
  refine ⟨fun hf => ?_, fun hf he => ?_, fun hf he => ?_⟩
  · rw [if_pos ((fillArr_all_iff f ops ndShape).mpr hf)]
    split
    · exact ⟨_, rfl, rfl⟩
    · exact ⟨_, rfl, rfl⟩
  · rw [if_neg (fun hh => hf ((fillArr_all_iff f ops ndShape).mp hh)), if_pos he]
  · rw [if_neg (fun hh => hf ((fillArr_all_iff f ops ndShape).mp hh)), if_neg he]

/-- **elemwise_errors.** No sparse operand, or shapes that do not broadcast: `ValueError`; and the dense
operands of broadcastable operands always broadcast among themselves (that error branch is dead). -/
theorem elemwise_errors {α : Type} [Inhabited α] [DecidableEq α] (f : List α → α) (ops : List (Operand α)) :
    (ops.any Operand.isCoo = false → elemwiseN f ops = .error .value) ∧
    (∀ e, bshapeN (ops.map Operand.shape) = .error e → elemwiseN f ops = .error .value) ∧
    (∀ shape, bshapeN (ops.map Operand.shape) = .ok shape →
      ∃ nd, bshapeN ((ops.filter Operand.isDense).map Operand.shape) = .ok nd) := by
  refine ⟨elemwiseN_no_coo f ops, fun e he => ?_, fun shape hs => ⟨_, bshapeN_sub_ok hs ?_⟩⟩
  · cases hc : ops.any Operand.isCoo with
    | false => exact elemwiseN_no_coo f ops hc
    | true => exact elemwiseN_shape_err f ops e hc he
  · intro s hs'
    obtain ⟨o, ho, rfl⟩ := List.mem_map.mp hs'
    exact List.mem_map.mpr ⟨o, (List.mem_filter.mp ho).1, rfl⟩

/-! ## Non-vacuity -/

/-- `broadcast_to` of a `(1,3)` array with fill 1 to `(2,2,3)`: the hypotheses hold and the reads are the operand's -/
example : ∃ r, (COO.broadcastTo ⟨[1, 3], [([0, 0], (5 : Int)), ([0, 2], 7)], 1⟩ [2, 2, 3]) = .ok r ∧
    r.shape = [2, 2, 3] ∧ r.get [1, 1, 2] = 7 ∧ r.get [1, 0, 1] = 1 ∧ COO.SortedLin [2, 2, 3] r.entries := by
  obtain ⟨r, hr, hshape, _, _, _, hget⟩ :=
    broadcastTo_get (⟨[1, 3], [([0, 0], (5 : Int)), ([0, 2], 7)], 1⟩ : COO Int) [2, 2, 3]
      (by decide) (by decide) (by decide)
  obtain ⟨_, r', hr', hs', _⟩ :=
    broadcastTo_sorted_promise (⟨[1, 3], [([0, 0], (5 : Int)), ([0, 2], 7)], 1⟩ : COO Int) [2, 2, 3]
      (by decide) (by decide) (by decide) (by decide)
  have : r' = r := Except.ok.inj (hr'.symm.trans hr)
  subst this
  refine ⟨r', hr, hshape, ?_, ?_, hs'⟩
  · rw [hget [1, 1, 2] (by decide)]; decide
  · rw [hget [1, 0, 1] (by decide)]; decide

/-- three operands of different kinds and ranks: a `(2,1)` sparse array (fill 0), a dense `(3,)`
array and a scalar, multiplied -/
def exOps : List (Operand Int) :=
  [.coo ⟨[2, 1], [([1, 0], 4), ([0, 0], 3)], 0⟩, .dense [3] [1, 2, 3], .scalar 2]
def exMul (l : List Int) : Int := l.foldl (· * ·) 1
def exSum (l : List Int) : Int := l.foldl (· + ·) 0

theorem exOps_wf : ∀ o ∈ exOps, o.WF := by
  intro o ho
  simp only [exOps, List.mem_cons, List.not_mem_nil, or_false] at ho
  rcases ho with rfl | rfl | rfl
  · exact ⟨by decide, by decide⟩
  · trivial
  · trivial

/-- sparse branch: `0 * d * 2` is the same for every dense value `d`, so a sparse result exists;
its reads are the products, its fill is 0 -/
example : ∃ r, elemwiseN exMul exOps = .ok (.sparse r) ∧ r.shape = [2, 3] ∧ r.fill = 0 ∧
    r.get [1, 2] = 24 ∧ r.get [0, 1] = 12 ∧ r.NoFill := by
  have hs : bshapeN (exOps.map Operand.shape) = .ok [2, 3] := by rfl
  have hn : bshapeN ((exOps.filter Operand.isDense).map Operand.shape) = .ok [3] := by rfl
  have hconst : FillConst exMul exOps [3] := (fillArr_all_iff exMul exOps [3]).mp (by decide)
  obtain ⟨r, hr, hshape⟩ := (elemwise_decision exMul exOps [2, 3] [3] (by rfl) hs hn).1 hconst
  obtain ⟨_, ⟨nd, hnd, hfill⟩, hget, hnf, _⟩ := elemwiseN_get exMul exOps exOps_wf r hr
  have hnd' : nd = [3] := Except.ok.inj (hnd.symm.trans hn)
  subst hnd'
  rw [hshape] at hget
  refine ⟨r, hr, hshape, ?_, ?_, ?_, hnf⟩
  · rw [hfill [0] (by decide)]; decide
  · rw [hget [1, 2] (by decide)]; decide
  · rw [hget [0, 1] (by decide)]; decide

/-- no sparse result (the sum depends on the dense value) and the dense operand does not have the
full result shape: `ValueError` -/
example : elemwiseN exSum exOps = .error .value := by
  have hs : bshapeN (exOps.map Operand.shape) = .ok [2, 3] := by rfl
  have hn : bshapeN ((exOps.filter Operand.isDense).map Operand.shape) = .ok [3] := by rfl
  refine (elemwise_decision exSum exOps [2, 3] [3] (by rfl) hs hn).2.2 ?_ (by decide)
  intro h
  have := h [0] (by decide) [1] (by decide)
  revert this
  decide

/-- … but with a dense operand of the full shape the result is the dense array of sums -/
example : elemwiseN exSum [.coo ⟨[2, 1], [([1, 0], 4)], 0⟩, .dense [2, 2] [1, 2, 3, 4]] =
    .ok (.dense [2, 2] [1, 2, 7, 8]) := by
  have hs : bshapeN (([.coo ⟨[2, 1], [([1, 0], 4)], 0⟩, .dense [2, 2] [1, 2, 3, 4]] : List (Operand Int)).map
      Operand.shape) = .ok [2, 2] := by rfl
  have hn : bshapeN ((([.coo ⟨[2, 1], [([1, 0], 4)], 0⟩, .dense [2, 2] [1, 2, 3, 4]] : List (Operand Int)).filter
      Operand.isDense).map Operand.shape) = .ok [2, 2] := by rfl
  rw [(elemwise_decision exSum _ [2, 2] [2, 2] (by rfl) hs hn).2.1 ?_ rfl]
  · rfl
  · intro h
    have := h [0, 0] (by decide) [0, 1] (by decide)
    revert this
    decide

end SparseV.C01

/-
  Property C05 — construction and conversion are lossless.  Property theorems only.
-/
import SparseV.Lemmas.Rewrite
import SparseV.Model.Convert
namespace SparseV.C05
open SparseV SparseV.COO
variable {α : Type}

/-- **sort_preserves_get.** The constructor's `_sort_indices` pass never changes the value at any
index when the stored indices are distinct: storage order is unobservable. -/
theorem sort_preserves_get (shape : List Nat) (es : List (Idx × α)) (fill : α) (i : Idx)
    (hnd : (keysOf es).Nodup) :
    lookup (sortEntries shape es) fill i = lookup es fill i :=
  lookup_sortEntries shape es fill i hnd

end SparseV.C05

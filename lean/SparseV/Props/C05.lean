/-
  Property C05 — construction and conversion are lossless.  Property theorems only
  (helpers: Lemmas/Build.lean, Lemmas/Compress.lean).
-/
import SparseV.Lemmas.Rewrite
import SparseV.Lemmas.Build
import SparseV.Lemmas.Compress
import SparseV.Model.Convert
namespace SparseV.C05
open SparseV SparseV.COO
variable {α : Type}

/-- **sort_preserves_get.** The constructor's `_sort_indices` pass never changes the value at any
index when the stored indices are distinct: storage order is unobservable. -/
theorem sort_preserves_get (shape : List Nat) (es : List (Idx × α)) (fill : α) (i : Idx)
    (hnd : (keysOf es).Nodup) :
    lookup (sortEntries shape es) fill i = lookup es fill i :=
  lookup_sortEntries shape es fill i hnd

/-! ### 1. the constructor sums repeated coordinates -/

/-- **build_get.** The COO constructor with its default flags, given in-bounds coordinates in ANY
order WITH repeats, yields an array whose value at `i` is the sum of all data given for `i` (the
fill value when `i` was not given) — with or without `prune`, for every index `i` (in or out of
bounds). -/
theorem build_get (shape : List Nat) (es : List (Idx × Int)) (fill : Int) (prune : Bool)
    (hwf : ∀ e ∈ es, InB e.1 shape) (i : Idx) :
    (COO.build shape es fill false true prune).get i =
      if i ∈ keysOf es then ((es.filter (fun e => e.1 = i)).map (·.2)).sum else fill :=
  build_lookup shape es fill prune hwf i

/-- **build_get_nodup.** Without repeats the constructor stores exactly the given values. -/
theorem build_get_nodup (shape : List Nat) (es : List (Idx × Int)) (fill : Int) (prune : Bool)
    (hwf : ∀ e ∈ es, InB e.1 shape) (hnd : (keysOf es).Nodup) (i : Idx) :
    (COO.build shape es fill false true prune).get i = lookup es fill i :=
  build_lookup_nodup shape es fill prune hwf hnd i

/-- non-vacuity: unsorted coordinates with a repeat, in bounds; the repeated index sums -/
example : ∀ e ∈ [([1, 1], (5 : Int)), ([0, 1], 2), ([1, 1], -3)], InB e.1 [2, 2] := by decide
example : (([([1, 1], (5 : Int)), ([0, 1], 2), ([1, 1], -3)].filter (fun e => e.1 = [1, 1])).map (·.2)).sum = 2 := by
  decide
example : (COO.build [2, 2] [([1, 1], (5 : Int)), ([0, 1], 2), ([1, 1], -3)] 0 false true true).get [1, 1] = 2 := by
  rw [build_get _ _ _ _ (by decide)]; decide

/-! ### 2. dense ↔ COO -/

/-- **allIdx facts**: `allIdx s` is the row-major enumeration: `prod s` indices, exactly the in-bounds
ones, without repeats, the `k`-th being the index of linear location `k`. -/
theorem allIdx_facts (s : List Nat) :
    (allIdx s).length = prod s ∧ (∀ i, i ∈ allIdx s ↔ InB i s) ∧ (allIdx s).Nodup ∧
    ∀ k (hk : k < (allIdx s).length), ravel ((allIdx s)[k]) s = k :=
  ⟨allIdx_length s, fun _ => mem_allIdx, allIdx_nodup s, ravel_allIdx_getElem s⟩

/-- **fromDense_todense.** `COO.from_numpy(a).todense() == a` for every shape, data and fill value. -/
theorem fromDense_todense [DecidableEq α] (shape : List Nat) (flat : List α) (fill : α)
    (h : flat.length = prod shape) : (COO.fromDense shape flat fill).todense = flat :=
  fromDense_todense' shape flat fill h

/-- **todense_fromDense.** For a canonical `x` (in bounds, strictly increasing linear locations)
with no stored fill values, `COO.from_numpy(x.todense(), fill_value=x.fill_value)` is `x` itself:
same shape, same fill AND the same stored entries in the same order (equality of representations). -/
theorem todense_fromDense [DecidableEq α] (x : COO α) (hwf : x.WF) (hs : SortedLin x.shape x.entries)
    (hnf : x.NoFill) : COO.fromDense x.shape x.todense x.fill = x := by
  have h := todense_fromDense_entries x hwf hs hnf
  cases x with
  | mk shape entries fill =>
    simp only [COO.fromDense] at h ⊢
    rw [h]

/-- **todense_fromDense_get.** For ANY `x` (no canonicity needed) the round trip through dense keeps
every in-bounds value, and the result is canonical. -/
theorem todense_fromDense_get [DecidableEq α] (x : COO α) (i : Idx) (hi : InB i x.shape) :
    (COO.fromDense x.shape x.todense x.fill).get i = x.get i :=
  fromDense_get x.shape x.get x.fill i hi

def exD : COO Int := { shape := [2, 3], entries := [([0, 1], 5), ([1, 2], 7)], fill := 0 }
example : exD.WF ∧ SortedLin exD.shape exD.entries ∧ exD.NoFill := by
  refine ⟨by decide, by unfold SortedLin lin; decide, by unfold COO.NoFill; decide⟩
example : ([0, 5, 0, 0, 0, 7] : List Int).length = prod [2, 3] := by decide
example : exD.todense = [0, 5, 0, 0, 0, 7] ∧ (COO.fromDense [2, 3] [0, 5, 0, 0, 0, 7] (0 : Int)).entries = exD.entries := by
  decide

/-! ### 3. indptr -/

/-- **uncompress_indptrOf.** `uncompress_dimension(cumsum(bincount(rows, minlength=R)))` gives back
`rows` for every non-decreasing list of row numbers below `R` — the CSR row pointer loses nothing. -/
theorem uncompress_indptrOf (rows : List Nat) (R : Nat) (hs : rows.Pairwise (· ≤ ·))
    (hlt : ∀ r ∈ rows, r < R) : uncompress (indptrOf rows R) = rows :=
  uncompress_indptrOf' rows R hs hlt

example : ([0, 0, 2, 3, 3] : List Nat).Pairwise (· ≤ ·) ∧ ∀ r ∈ ([0, 0, 2, 3, 3] : List Nat), r < 5 := by decide
example : indptrOf [0, 0, 2, 3, 3] 5 = [0, 2, 2, 3, 5, 5] ∧ uncompress [0, 2, 2, 3, 5, 5] = [0, 0, 2, 3, 3] := by decide

/-! ### 4. COO → GCXS → COO -/

/-- **tocoo_fromCoo_get.** For a well-formed COO array of rank ≥ 2 with distinct stored indices and
any valid `compressed_axes` (strictly increasing, in range, fewer than the rank), compressing and
converting back reads the same value at every index and keeps shape and fill value; the result is
again well-formed with distinct stored indices. -/
theorem tocoo_fromCoo_get (x : COO Int) (caxes : List Nat) (_hn : 2 ≤ x.shape.length) (hwf : x.WF)
    (hnd : (keysOf x.entries).Nodup) (hinc : caxes.Pairwise (· < ·))
    (hlt : ∀ a ∈ caxes, a < x.shape.length) (_hlen : caxes.length < x.shape.length) :
    (∀ i, InB i x.shape → (GCXS.fromCooCore x caxes).tocoo.get i = x.get i) ∧
    (GCXS.fromCooCore x caxes).tocoo.shape = x.shape ∧ (GCXS.fromCooCore x caxes).tocoo.fill = x.fill ∧
    (GCXS.fromCooCore x caxes).tocoo.WF ∧ (keysOf (GCXS.fromCooCore x caxes).tocoo.entries).Nodup := by
  obtain ⟨h1, h2, h3, h4, h5⟩ := GCXS.tocoo_fromCooCore x caxes hwf hnd
    (hinc.imp (fun {a b} hab => by omega)) hlt
  exact ⟨h5, h1, h2, h3, h4⟩

/-- **tocoo_fromCoo_ok.** The same through the validating entry point `_from_coo`, for EVERY rank
(0-d and 1-d included) and every accepted `compressed_axes`, the default choice included. -/
theorem tocoo_fromCoo_ok (x : COO Int) (c : Option (List Nat)) (g : GCXS Int)
    (h : GCXS.fromCoo x c = .ok g) (hwf : x.WF) (hnd : (keysOf x.entries).Nodup) :
    (∀ i, InB i x.shape → g.tocoo.get i = x.get i) ∧ g.tocoo.shape = x.shape ∧ g.tocoo.fill = x.fill ∧
    g.tocoo.WF ∧ (keysOf g.tocoo.entries).Nodup := by
  obtain ⟨h1, h2, h3, h4, h5⟩ := GCXS.tocoo_fromCoo x c g h hwf hnd
  exact ⟨h5, h1, h2, h3, h4⟩

/-- the transpose stage of the chain, for any axis permutation (also what C08 needs) -/
theorem transpose_get (x : COO α) (axes : List Nat) (hp : axes.Perm (List.range x.shape.length))
    (hwf : x.WF) (hnd : (keysOf x.entries).Nodup) (j : Idx) (hj : InB j (gather x.shape axes)) :
    (x.transposeCore axes).get j = x.get (gather j (invPerm axes)) :=
  transposeCore_get x axes hp hwf hnd j hj

def exG : COO Int := { shape := [2, 3], entries := [([1, 2], 7), ([0, 1], 5)], fill := 0 }
example : 2 ≤ exG.shape.length ∧ exG.WF ∧ (keysOf exG.entries).Nodup ∧ ([1] : List Nat).Pairwise (· < ·) ∧
    (∀ a ∈ ([1] : List Nat), a < exG.shape.length) ∧ ([1] : List Nat).length < exG.shape.length := by
  refine ⟨by decide, by decide, by decide, by decide, by decide, by decide⟩
example : ∃ g, GCXS.fromCoo exG (some [1]) = .ok g := ⟨_, rfl⟩
example : ([1, 0] : List Nat).Perm (List.range exG.shape.length) := by decide

/-! ### 5. any history of conversions -/

/-- two arrays (in any formats) denote the same abstract array -/
def absEq (a b : SArr Int) : Prop :=
  a.toCoo.shape = b.toCoo.shape ∧ a.toCoo.fill = b.toCoo.fill ∧
  ∀ i, InB i a.toCoo.shape → a.toCoo.get i = b.toCoo.get i

/-- the invariant carried along a history: read as COO, the array stores in-bounds, pairwise
distinct indices -/
def GoodArr (a : SArr Int) : Prop := a.toCoo.WF ∧ (keysOf a.toCoo.entries).Nodup

/-- a history: convert through the formats `fs`, left to right -/
def convertAll (a : SArr Int) (fs : List Fmt) : Except Err (SArr Int) :=
  fs.foldlM (fun a f => a.convert f) a

theorem absEq_refl (a : SArr Int) : absEq a a := ⟨rfl, rfl, fun _ _ => rfl⟩

theorem absEq_trans {a b c : SArr Int} (h1 : absEq a b) (h2 : absEq b c) : absEq a c :=
  ⟨h1.1.trans h2.1, h1.2.1.trans h2.2.1, fun i hi => (h1.2.2 i hi).trans (h2.2.2 i (h1.1 ▸ hi))⟩

/-- **chain_preserves.** If every single conversion step preserves the abstract array and an
invariant `Good`, then so does EVERY history of conversions (any length, any formats). -/
theorem chain_preserves (Good : SArr Int → Prop)
    (hstep : ∀ a f b, SArr.convert a f = .ok b → Good a → absEq a b ∧ Good b) :
    ∀ (fs : List Fmt) (a b : SArr Int), Good a → convertAll a fs = .ok b → absEq a b ∧ Good b := by
  intro fs
  induction fs with
  | nil =>
    intro a b hg h
    simp only [convertAll, List.foldlM_nil, pure, Except.pure, Except.ok.injEq] at h
    subst h
    exact ⟨absEq_refl a, hg⟩
  | cons f fs ih =>
    intro a b hg h
    simp only [convertAll, List.foldlM_cons, bind, Except.bind] at h
    cases hc : SArr.convert a f with
    | error e => rw [hc] at h; cases h
    | ok a' =>
      rw [hc] at h
      obtain ⟨h1, h2⟩ := hstep a f a' hc hg
      obtain ⟨h3, h4⟩ := ih a' b h2 h
      exact ⟨absEq_trans h1 h3, h4⟩

/-- **step_preserves.** The single-step hypothesis holds for EVERY pair of formats
(coo, gcxs with any accepted compressed axes, dok, dense): nothing is left as a hypothesis. -/
theorem step_preserves (a : SArr Int) (f : Fmt) (b : SArr Int) (h : SArr.convert a f = .ok b)
    (hg : GoodArr a) : absEq a b ∧ GoodArr b := by
  have hgcxs : ∀ (c : Option (List Nat)), (GCXS.fromCoo a.toCoo c).map SArr.gcxs = .ok b →
      absEq a b ∧ GoodArr b := by
    intro c h
    cases hf : GCXS.fromCoo a.toCoo c with
    | error e => rw [hf] at h; cases h
    | ok g =>
      rw [hf] at h
      simp only [Except.map, Except.ok.injEq] at h
      subst h
      obtain ⟨h1, h2, h3, h4, h5⟩ := GCXS.tocoo_fromCoo a.toCoo c g hf hg.1 hg.2
      exact ⟨⟨h1.symm, h2.symm, fun i hi => (h5 i hi).symm⟩, h3, h4⟩
  cases f with
  | coo =>
    simp only [SArr.convert, Except.ok.injEq] at h
    subst h
    exact ⟨absEq_refl _, hg⟩
  | dok =>
    simp only [SArr.convert, Except.ok.injEq] at h
    subst h
    obtain ⟨h1, h2, h3, h4, h5⟩ := GCXS.build_good a.toCoo.shape a.toCoo.entries a.toCoo.fill hg.1 hg.2
    exact ⟨⟨h1.symm, h2.symm, fun i _ => (h5 i).symm⟩, h3, h4⟩
  | dense =>
    simp only [SArr.convert, Except.ok.injEq] at h
    subst h
    have hc := fromDense_canonical a.toCoo.shape a.toCoo.todense a.toCoo.fill
    exact ⟨⟨rfl, rfl, fun i hi => (fromDense_get a.toCoo.shape a.toCoo.get a.toCoo.fill i hi).symm⟩,
      hc.1, sortedLin_keys_nodup _ _ hc.2⟩
  | gcxs c =>
    cases a with
    | gcxs g0 =>
      simp only [SArr.convert] at h
      split at h
      · simp only [Except.ok.injEq] at h
        subst h
        exact ⟨absEq_refl _, hg⟩
      · exact hgcxs c h
    | coo x => exact hgcxs c h
    | dok s es fl => exact hgcxs c h
    | dense s fl d => exact hgcxs c h

/-- **chain_preserves_all (the history quantifier, unconditional).** Starting from any good array —
in particular any canonical COO — EVERY finite sequence of format conversions that succeeds ends in
an array denoting the same abstract array (same shape, fill value, and value at every index). -/
theorem chain_preserves_all (fs : List Fmt) (a b : SArr Int) (hg : GoodArr a)
    (h : convertAll a fs = .ok b) : absEq a b ∧ GoodArr b :=
  chain_preserves GoodArr step_preserves fs a b hg h

/-- **roundtrip_via.** coo → f → coo for any format `f` (dense, dok, gcxs with any accepted axes)
returns a COO with the same shape, fill and values. -/
theorem roundtrip_via (x : COO Int) (f : Fmt) (b : SArr Int) (hwf : x.WF) (hnd : (keysOf x.entries).Nodup)
    (h : convertAll (.coo x) [f, .coo] = .ok b) : absEq (.coo x) b :=
  (chain_preserves_all [f, .coo] (.coo x) b ⟨hwf, hnd⟩ h).1

/-- non-vacuity: a good array and a history that succeeds on it -/
example : GoodArr (.coo exG) := by
  refine ⟨by decide, by decide⟩
example : ∃ b, convertAll (.coo exD) [.dense, .dok, .coo] = .ok b := ⟨_, rfl⟩
example : ∃ b, SArr.convert (.coo exG) (.gcxs (some [0])) = .ok b := ⟨_, rfl⟩

end SparseV.C05

/-
  Property C14 — copying and persistence round-trip exactly.  Property theorems only.

  The theorems are about `SparseV.Npz` (Model/Npz.lean) instantiated with the tables of
  `SparseV.Generated.Npz`, which tools/tables.d/C14.py regenerates from /repo's current `save_npz`,
  `load_npz`, `COO.__getstate__/__setstate__` and `numba_extension.py` on every run.  Three switches of
  those tables describe defects of the pinned tree and their repairs:
    `gcxsExactTest`            `save_npz` selects the GCXS members by `type(m) is GCXS` (CSR/CSC get none),
    `Gen.npzNoneAxesAsEmpty`   / `Gen.npzEmptyAxesAsNone`: how `compressed_axes = None` is stored / read back,
    `Gen.cooShapeDtype`        the element type of the native `shape` tuple in numba code.
  Each theorem is proved for whichever values the generated file has (the proofs never look at the value
  of a switch unless the statement names it), so the file checks before and after the proposed fixes;
  which regime is in force is reported by the driver op `npz_config` and replayed on the real code by
  harness/c14.py.

  The consistency checks of the two constructors `load_npz` reaches (`Gen.cooCtorChecks`, `Gen.shapeEltOk`,
  `Gen.gcxsCtorChecks`, `Gen.gcxsShapeEltOk`) are translated from `COO.__init__`, `SparseArray.__init__` and
  `GCXS.__init__` on every run (tools/targets.d/C14.py); the theorems go through lemmas that unfold them, so
  a change of any check makes the theorems below fail to check.

  What is assumed, not proved: the zip/npy container (`Container`) is NumPy's and zlib's.  The two
  theorems about damaged files take its behaviour as explicit hypotheses.
-/
import SparseV.Lemmas.Npz
namespace SparseV.C14
open SparseV SparseV.Npz
variable {α : Type}

/-! ## save_npz → load_npz -/

/-- **Full statement.** For every well-formed COO or GCXS array (any rank, any stored pattern, any fill
value, any compressed axes, subclass instances included) `load_npz(save_npz(x))` returns an array of
the same format class with the same shape, fill value, compressed axes and stored fields. -/
def Statement_npz_roundtrip (α : Type) (axesOk : List Int → Bool) : Prop :=
  ∀ x : Arr α, x.WF axesOk → roundtrip axesOk x = .ok x.norm

/-- **npz_roundtrip_partial** (the round trip outside the excluded region). `load_npz(save_npz(x)) = x`
— same format class, shape, fill value, compressed axes, coords/indices/indptr and data — for every
well-formed `x` that is not `Excluded`: every COO of any rank, and every GCXS whose class `save_npz`
recognises and whose `compressed_axes` it can store. -/
theorem npz_roundtrip_partial (axesOk : List Int → Bool) (x : Arr α)
    (hwf : x.WF axesOk) (hex : ¬ Excluded x) : roundtrip axesOk x = .ok x.norm := by
  -- what `save_npz` wrote is known through `lookup` only (Lemmas/Npz: `save_*_lookup`, from `decide`d facts about the
  -- generated tables); `load_npz` sees the members through `lookup` only, so it may be run on them in a fixed order
  obtain ⟨m, hm⟩ := save_ok x
  have hrt : roundtrip axesOk x = load axesOk m := by simp [roundtrip, hm]
  rw [hrt]
  cases x with
  | coo s c d f =>
    rw [load_of_agree axesOk (save_coo_lookup s c d f hm)]
    have := cooCtor_wf axesOk s c d f hwf
    simpa [canonMembers, load, Gen.npzRequire, loadFrom, fetchAll, lookup, construct, Arr.norm] using this
  | gcxs e s d i p ca f =>
    have hcls : e = true ∨ gcxsExactTest = false := by
      cases e
      · right
        cases hg : gcxsExactTest
        · rfl
        · exact absurd (Or.inl ⟨rfl, hg⟩) hex
      · left; rfl
    rw [load_of_agree axesOk (save_gcxs_lookup e s d i p ca f hcls hm)]
    cases ca with
    | some l =>
      have hl0 : l ≠ [] := hwf.2.2.1
      have hdec : decodeAxes l = some l := by simp [decodeAxes, hl0]
      have hctor := gcxsCtor_wf axesOk e s d i p (some l) (some l) f hwf (Or.inl rfl) (fun h => absurd h (by simp))
      simp [canonMembers, encAxes, load, Gen.npzRequire, loadFrom, fetchAll, lookup,
        construct, hdec, hctor, Arr.norm]
    | none =>
      have hflags : Gen.npzNoneAxesAsEmpty = true ∧ Gen.npzEmptyAxesAsNone = true := by
        apply Classical.byContradiction
        intro hn
        exact hex (Or.inr ⟨rfl, hn⟩)
      obtain ⟨h1, h3⟩ := hflags
      have henc : (encAxes none : Payload α) = .ints [] := by simp [encAxes, h1]
      have hdec : decodeAxes [] = none := by simp [decodeAxes, h3]
      have hctor := gcxsCtor_wf axesOk e s d i p none none f hwf (Or.inl rfl) (fun _ => by simp [checkAxes])
      simp [canonMembers, henc, load, Gen.npzRequire, loadFrom, fetchAll, lookup,
        construct, hdec, hctor, Arr.norm]

/-- **npz_roundtrip_coo.** COO arrays of every rank (0-d included), pattern, fill value: exact round trip,
unconditionally. -/
theorem npz_roundtrip_coo (axesOk : List Int → Bool) (s : List Int) (c : Mat)
    (d : List α) (f : α) (hwf : (Arr.coo s c d f).WF axesOk) :
    roundtrip axesOk (Arr.coo s c d f) = .ok (Arr.coo s c d f) :=
  npz_roundtrip_partial axesOk _ hwf (fun h => h)

/-- **npz_roundtrip** (full statement, conditional on the switches): once `save_npz` recognises GCXS
subclasses and `None` axes are stored as an empty array and read back as `None`, nothing is excluded. -/
theorem npz_roundtrip (axesOk : List Int → Bool)
    (h1 : gcxsExactTest = false) (h2 : Gen.npzNoneAxesAsEmpty = true) (h3 : Gen.npzEmptyAxesAsNone = true) :
    Statement_npz_roundtrip α axesOk := by
  intro x hwf
  apply npz_roundtrip_partial axesOk x hwf
  cases x with
  | coo s c d f => exact fun h => h
  | gcxs e s d i p ca f =>
    intro h
    rcases h with ⟨_, h⟩ | ⟨_, h⟩
    · rw [h1] at h; exact absurd h (by simp)
    · exact h ⟨h2, h3⟩

/-- a 1-d GCXS array: `[0, 5, 0, 7]`, `compressed_axes = None`, `indptr = ()` -/
def w1d : Arr Int := .gcxs true [4] [5, 7] [1, 3] [] none 0
/-- a CSR matrix `[[5, 0], [0, 7]]` (instance of a subclass of GCXS) -/
def wcsr : Arr Int := .gcxs false [2, 2] [5, 7] [0, 1] [0, 1, 2] (some [0]) 0

/-- **npz_gcxs1d_counterexample.** While `compressed_axes = None` is stored as given, the 1-d GCXS array
`w1d` is well formed, saved, and `load_npz` raises ValueError on the file ("Object arrays cannot be
loaded"): the round trip fails. -/
theorem npz_gcxs1d_counterexample (h : Gen.npzNoneAxesAsEmpty = false) :
    w1d.WF strictlyIncreasing ∧ Excluded w1d ∧ roundtrip strictlyIncreasing w1d = .error .value := by
  refine ⟨by decide, ?_, ?_⟩
  · right; exact ⟨rfl, fun hh => by rw [h] at hh; exact absurd hh.1 (by simp)⟩
  · revert h
    decide

/-- **npz_subclass_counterexample.** While the dispatch tests `type(matrix) is GCXS`, a CSR matrix is
saved without `indices`/`indptr`/`compressed_axes` and `load_npz` raises RuntimeError on the file. -/
theorem npz_subclass_counterexample (h : gcxsExactTest = true) :
    wcsr.WF strictlyIncreasing ∧ Excluded wcsr ∧ roundtrip strictlyIncreasing wcsr = .error .runtime := by
  refine ⟨by decide, Or.inl ⟨rfl, h⟩, ?_⟩
  revert h
  decide

/-- **npz_roundtrip_counterexample.** In either defective regime the full statement is false. -/
theorem npz_roundtrip_counterexample (h : Gen.npzNoneAxesAsEmpty = false ∨ gcxsExactTest = true) :
    ¬ Statement_npz_roundtrip Int strictlyIncreasing := by
  intro hst
  rcases h with h | h
  · have := hst w1d (npz_gcxs1d_counterexample h).1
    rw [(npz_gcxs1d_counterexample h).2.2] at this
    exact absurd this (by simp)
  · have := hst wcsr (npz_subclass_counterexample h).1
    rw [(npz_subclass_counterexample h).2.2] at this
    exact absurd this (by simp)

/-! ## load_npz never defaults -/

/-- every field of `y` is the member of that name in `m` (coords up to the constructor's `(ndim, 0)`
normalisation of an empty array; compressed axes up to the decoding of the empty array and the
constructor's `None` for one dimension) -/
def FieldsFrom (m : Members α) : Arr α → Prop
  | .coo s c d f =>
    lookup m "shape" = some (.ints s) ∧ lookup m "data" = some (.vals d) ∧ lookup m "fill_value" = some (.val f)
    ∧ ∃ c0, lookup m "coords" = some (.mat c0) ∧ c = fixCoords s c0
  | .gcxs e s d i p ca f =>
    e = true ∧ lookup m "shape" = some (.ints s) ∧ lookup m "data" = some (.vals d)
    ∧ lookup m "fill_value" = some (.val f) ∧ lookup m "indices" = some (.ints i) ∧ lookup m "indptr" = some (.ints p)
    ∧ ∃ l, lookup m "compressed_axes" = some (.ints l) ∧ ca = normAxes s (decodeAxes l)

/-- **load_no_defaulting.** If `load_npz` returns an array `y` for a member map `m` — any member map, not
only one written by `save_npz` — then one `try` block of `load_npz` found *every* member it asks for, none
of them an object array, it is the block of `y`'s class, and every field of `y` is literally the member of
that name: nothing is defaulted, nothing is taken from elsewhere.  So a member set that is not the image of
`save_npz` is rejected or loads the array it literally describes — never some other array. -/
theorem load_no_defaulting (axesOk : List Int → Bool) (m : Members α) (y : Arr α)
    (h : load axesOk m = .ok y) :
    ∃ b ∈ Gen.npzRequire, b.1 = y.clsName ∧ (∀ k ∈ b.2, ∃ p, lookup m k = some p ∧ p ≠ .object) ∧ FieldsFrom m y := by
  obtain ⟨b, hb, f, hf, hc⟩ := loadFrom_ok_branch h
  obtain ⟨hall, hfrom⟩ := fetchAll_ok_lookup hf
  refine ⟨b, hb, ?_, hall, ?_⟩
  all_goals
    rcases construct_ok hc with ⟨hcls, c, d, s, v, h1, h2, h3, h4, hy⟩ | ⟨hcls, d, i, p, ca, s, v, h1, h2, h3, h4, h5, h6, hy⟩
    · obtain ⟨_, _, _, hy⟩ := (cooCtor_ok_iff c d s v y).mp hy
      subst hy
      first
        | exact hcls
        | exact ⟨hfrom _ _ h3, hfrom _ _ h2, hfrom _ _ h4, c, hfrom _ _ h1, rfl⟩
    · obtain ⟨_, _, _, hy⟩ := (gcxsCtor_ok_iff axesOk d i p (decodeAxes ca) s v y).mp hy
      subst hy
      first
        | exact hcls
        | exact ⟨rfl, hfrom _ _ h5, hfrom _ _ h1, hfrom _ _ h6, hfrom _ _ h2, hfrom _ _ h3, ca, hfrom _ _ h4, rfl⟩

/-! ## what load_npz accepts is a consistent array -/

/-- **load_accepted_wf.** Whatever member map `load_npz` accepts — any member map, written by `save_npz` or
not — the array it returns satisfies the structural invariant of its format: every extent is non-negative;
for COO there is one coordinate row per dimension and one value per coordinate column (every rank, 0-d
included); for GCXS — the full invariant of a compressed-row layout except order and uniqueness of the indices
within a row — there is one value per stored index (one dimension and up), with one dimension every index is a
position of the array, and with two dimensions and up `compressed_axes` is a non-empty admissible list of in-range
axes that does not name every dimension, `len(indptr)` is the number of compressed rows plus one, `indptr[0] = 0`,
`indptr[-1] = len(indices)`, `indptr` never decreases, and every index lies in `[0, product of the uncompressed
extents)`.  So a file whose members are inconsistent in any of these respects is rejected, never loaded.
(`hm`: the `coords` member NumPy hands over is a genuine 2-d array.) -/
theorem load_accepted_wf (axesOk : List Int → Bool) (m : Members α) (y : Arr α)
    (hm : ∀ c, lookup m "coords" = some (.mat c) → c.WF) (h : load axesOk m = .ok y) : y.WF axesOk := by
  obtain ⟨b, _, f, hf, hc⟩ := loadFrom_ok_branch h
  obtain ⟨_, hfrom⟩ := fetchAll_ok_lookup hf
  rcases construct_ok hc with ⟨_, c, d, s, v, h1, _, _, _, hy⟩ | ⟨_, d, i, p, ca, s, v, _, _, _, _, _, _, hy⟩
  · obtain ⟨hnn, hd, hn, hy⟩ := (cooCtor_ok_iff c d s v y).mp hy
    subst hy
    exact ⟨hnn, fixCoords_preserves_wf s c (hm c (hfrom _ _ h1)), hn.symm, hd⟩
  · obtain ⟨hax, hnn, hst, hy⟩ := (gcxsCtor_ok_iff axesOk d i p (decodeAxes ca) s v y).mp hy
    subst hy
    refine ⟨hnn, hst, ?_⟩
    cases hca : normAxes s (decodeAxes ca) with
    | none => trivial
    | some l =>
      unfold normAxes at hca
      split at hca
      · exact absurd hca (by simp)
      · rename_i h1d
        rw [hca] at hax
        obtain ⟨a1, a2, a3, a4⟩ := (checkAxes_ok_iff axesOk s.length (some l)).mp hax
        exact ⟨a1, a2, h1d, a3, a4⟩

/-- **load_accepted_roundtrips.** An accepted member map describes an array `save_npz` can write and
`load_npz` reads back unchanged: if `load_npz` returns `y` for `m` then `load_npz(save_npz(y)) = y` (outside
the `Excluded` region of the round trip, which is empty once `None` axes are stored as an empty array).  So
`load_npz` never produces an array that the persistence format itself cannot represent. -/
theorem load_accepted_roundtrips (axesOk : List Int → Bool) (m : Members α) (y : Arr α)
    (hm : ∀ c, lookup m "coords" = some (.mat c) → c.WF) (h : load axesOk m = .ok y) (hex : ¬ Excluded y) :
    roundtrip axesOk y = .ok y := by
  have hwf := load_accepted_wf axesOk m y hm h
  have hn : y.norm = y := by
    obtain ⟨_, _, _, _, hff⟩ := load_no_defaulting axesOk m y h
    cases y with
    | coo s c d f => rfl
    | gcxs e s d i p ca f => obtain ⟨he, _⟩ := hff; subst he; rfl
  have := npz_roundtrip_partial axesOk y hwf hex
  rwa [hn] at this

/-- **gcxs_member_damage_confined.** Take the file of any well-formed GCXS array of two or more dimensions and
replace ONE of the members `data`, `indices`, `indptr` by anything at all (no assumption on the container, the
checksum included).  If `load_npz` accepts the result, the array it returns has the original shape, compressed
axes, fill value and the two untouched members, the replaced member is what the file now holds, and the triple
satisfies the structural invariant `GcxsStruct` again: the damage cannot spread to anything else, and it cannot
produce an inconsistent array. -/
theorem gcxs_member_damage_confined (axesOk : List Int → Bool) (e : Bool) (s : List Int) (d : List α)
    (i p l : List Int) (f : α) (hwf : (Arr.gcxs e s d i p (some l) f).WF axesOk)
    (hex : ¬ Excluded (Arr.gcxs e s d i p (some l) f))
    (m : Members α) (hs : save (Arr.gcxs e s d i p (some l) f) = .ok m) (m' : Members α) (k : String)
    (hk : k = "data" ∨ k = "indices" ∨ k = "indptr")
    (hsame : ∀ k' ∈ vocabulary, k' ≠ k → lookup m' k' = lookup m k')
    (y : Arr α) (hload : load axesOk m' = .ok y) :
    ∃ d' i' p', y = .gcxs true s d' i' p' (some l) f
      ∧ lookup m' "data" = some (.vals d') ∧ lookup m' "indices" = some (.ints i') ∧ lookup m' "indptr" = some (.ints p')
      ∧ (k ≠ "data" → d' = d) ∧ (k ≠ "indices" → i' = i) ∧ (k ≠ "indptr" → p' = p)
      ∧ GcxsStruct s d' i' p' (some l) := by
  have hcls : e = true ∨ gcxsExactTest = false := by
    cases e
    · right
      cases hg : gcxsExactTest
      · rfl
      · exact absurd (Or.inl ⟨rfl, hg⟩) hex
    · left; rfl
  have hlk := save_gcxs_lookup e s d i p (some l) f hcls hs
  obtain ⟨_, _, hl0, _, hl2, _, _⟩ := hwf
  have hnocoords : lookup m' "coords" = none := by
    rw [hsame "coords" (by decide) (by rcases hk with h | h | h <;> subst h <;> decide), hlk "coords" (by decide)]
    simp [canonMembers, lookup]
  have hwf' := load_accepted_wf axesOk m' y (fun c hc => by rw [hnocoords] at hc; exact absurd hc (by simp)) hload
  obtain ⟨b, hb, hbc, hall, hff⟩ := load_no_defaulting axesOk m' y hload
  cases y with
  | coo s' c' d' f' =>
    obtain ⟨_, _, _, c0, hc0, _⟩ := hff
    rw [hnocoords] at hc0; exact absurd hc0 (by simp)
  | gcxs e' s' d' i' p' ca' f' =>
    obtain ⟨he', hms, hmd, hmf, hmi, hmp, la, hma, hca'⟩ := hff
    obtain ⟨_, hst', _⟩ := hwf'
    have hk1 : "shape" ≠ k := by rcases hk with h | h | h <;> subst h <;> decide
    have hk2 : "compressed_axes" ≠ k := by rcases hk with h | h | h <;> subst h <;> decide
    have hk3 : "fill_value" ≠ k := by rcases hk with h | h | h <;> subst h <;> decide
    rw [hsame "shape" (by decide) hk1, hlk "shape" (by decide)] at hms
    rw [hsame "compressed_axes" (by decide) hk2, hlk "compressed_axes" (by decide)] at hma
    rw [hsame "fill_value" (by decide) hk3, hlk "fill_value" (by decide)] at hmf
    simp [canonMembers, encAxes, lookup] at hms hma hmf
    subst hms; subst hma; subst hmf; subst he'
    have hdec : decodeAxes l = some l := by simp [decodeAxes, hl0]
    have hna : normAxes s (some l) = some l := by simp [normAxes, hl2]
    rw [hdec, hna] at hca'
    subst hca'
    refine ⟨d', i', p', rfl, hmd, hmi, hmp, fun h => ?_, fun h => ?_, fun h => ?_, hst'⟩
    · rw [hsame "data" (by decide) (Ne.symm h), hlk "data" (by decide)] at hmd
      simp [canonMembers, lookup] at hmd; exact hmd.symm
    · rw [hsame "indices" (by decide) (Ne.symm h), hlk "indices" (by decide)] at hmi
      simp [canonMembers, lookup] at hmi; exact hmi.symm
    · rw [hsame "indptr" (by decide) (Ne.symm h), hlk "indptr" (by decide)] at hmp
      simp [canonMembers, lookup] at hmp; exact hmp.symm

/-- **gcxs_count_damage_rejected.** Take the file of any well-formed GCXS array of two or more dimensions and
replace ONE of the members `data`, `indices`, `indptr` by anything with a different number of entries (what a
damaged `shape` field in that member's npy header produces; no assumption on the container, the checksum
included): `load_npz` raises.  Before the constructor validated its arguments such a file loaded as an
inconsistent array. -/
theorem gcxs_count_damage_rejected (axesOk : List Int → Bool) (e : Bool) (s : List Int) (d : List α)
    (i p l : List Int) (f : α) (hwf : (Arr.gcxs e s d i p (some l) f).WF axesOk)
    (hex : ¬ Excluded (Arr.gcxs e s d i p (some l) f))
    (m : Members α) (hs : save (Arr.gcxs e s d i p (some l) f) = .ok m) (m' : Members α) (k : String)
    (hk : k = "data" ∨ k = "indices" ∨ k = "indptr")
    (hsame : ∀ k' ∈ vocabulary, k' ≠ k → lookup m' k' = lookup m k')
    (hcount : ∀ q q', lookup m k = some q → lookup m' k = some q' → q'.count ≠ q.count) :
    ∃ err, load axesOk m' = .error err := by
  cases hload : load axesOk m' with
  | error err => exact ⟨err, rfl⟩
  | ok y =>
    exfalso
    obtain ⟨d', i', p', _, hmd, hmi, hmp, hd, hi, hp, hst1', _, hst2'⟩ :=
      gcxs_member_damage_confined axesOk e s d i p l f hwf hex m hs m' k hk hsame y hload
    have hcls : e = true ∨ gcxsExactTest = false := by
      cases e
      · right
        cases hg : gcxsExactTest
        · rfl
        · exact absurd (Or.inl ⟨rfl, hg⟩) hex
      · left; rfl
    have hlk := save_gcxs_lookup e s d i p (some l) f hcls hs
    have hmd0 : lookup m "data" = some (.vals d) := by rw [hlk "data" (by decide)]; simp [canonMembers, lookup]
    have hmi0 : lookup m "indices" = some (.ints i) := by rw [hlk "indices" (by decide)]; simp [canonMembers, lookup]
    have hmp0 : lookup m "indptr" = some (.ints p) := by rw [hlk "indptr" (by decide)]; simp [canonMembers, lookup]
    obtain ⟨_, ⟨hst1, _, hst2⟩, hl0, _, hl2, _, hl4⟩ := hwf
    have hs2 : 2 ≤ s.length := wf_axes_two_dims hl0 hl2 hl4
    have hsne : s ≠ [] := by intro h0; subst h0; simp at hs2
    obtain ⟨l0, hl0', hp1, _⟩ := hst2 hs2
    obtain ⟨l1, hl1', hp1', _⟩ := hst2' hs2
    simp only [Option.some.injEq] at hl0' hl1'
    subst hl0'; subst hl1'
    have hdi := hst1 hsne
    have hdi' := hst1' hsne
    rcases hk with hk | hk | hk <;> subst hk
    · have := hcount (.vals d) (.vals d') hmd0 hmd
      simp [Payload.count] at this
      have hii := hi (by decide)
      subst hii
      omega
    · have := hcount (.ints i) (.ints i') hmi0 hmi
      simp [Payload.count] at this
      have hdd := hd (by decide)
      subst hdd
      omega
    · have := hcount (.ints p) (.ints p') hmp0 hmp
      simp [Payload.count] at this
      omega

/-- **gcxs_content_damage_rejected.** Take the file of any well-formed GCXS array of two or more dimensions and
alter the *contents* of `indices` so that some index falls outside `[0, product of the uncompressed extents)`, or
the contents of `indptr` so that it decreases somewhere (lengths and end pointers may stay consistent; no
assumption on the container): `load_npz` raises.  Before 748e5d3 such a file loaded literally, as an array whose
stored positions are not positions of the array. -/
theorem gcxs_content_damage_rejected (axesOk : List Int → Bool) (e : Bool) (s : List Int) (d : List α)
    (i p l : List Int) (f : α) (hwf : (Arr.gcxs e s d i p (some l) f).WF axesOk)
    (hex : ¬ Excluded (Arr.gcxs e s d i p (some l) f))
    (m : Members α) (hs : save (Arr.gcxs e s d i p (some l) f) = .ok m) (m' : Members α) (k : String)
    (hsame : ∀ k' ∈ vocabulary, k' ≠ k → lookup m' k' = lookup m k')
    (hbad : (k = "indices" ∧ ∀ v, lookup m' "indices" = some (.ints v) → ¬ InRange v (colsOf s l))
      ∨ (k = "indptr" ∧ ∀ v, lookup m' "indptr" = some (.ints v) → ¬ v.Pairwise (· ≤ ·))) :
    ∃ err, load axesOk m' = .error err := by
  cases hload : load axesOk m' with
  | error err => exact ⟨err, rfl⟩
  | ok y =>
    exfalso
    have hk : k = "data" ∨ k = "indices" ∨ k = "indptr" := by
      rcases hbad with ⟨h, _⟩ | ⟨h, _⟩
      · exact Or.inr (Or.inl h)
      · exact Or.inr (Or.inr h)
    obtain ⟨d', i', p', _, _, hmi, hmp, _, _, _, _, _, hst2'⟩ :=
      gcxs_member_damage_confined axesOk e s d i p l f hwf hex m hs m' k hk hsame y hload
    obtain ⟨_, _, hl0, _, hl2, _, hl4⟩ := hwf
    have hs2 : 2 ≤ s.length := wf_axes_two_dims hl0 hl2 hl4
    obtain ⟨l1, hl1', _, _, _, hmono, hrange⟩ := hst2' hs2
    simp only [Option.some.injEq] at hl1'
    subst hl1'
    rcases hbad with ⟨_, h⟩ | ⟨_, h⟩
    · exact h i' hmi hrange
    · exact h p' hmp hmono

/-- **load_row_order_unchecked.** What is STILL trusted after the constructor validates lengths, end pointers,
monotonicity and index range: the order and the multiplicity of the indices *within a row*.  The member set
`rowOrderWitness` (Model/Npz.lean: a 2×3 array whose row 0 lists the columns `2, 0, 2` — out of order, one
twice) passes every check and is loaded literally (`load_no_defaulting`): the result is well formed in the sense
of `load_accepted_wf`, and that is all the constructor promises.  harness/c14.py replays the witness on the real
`load_npz`. -/
theorem load_row_order_unchecked :
    load strictlyIncreasing rowOrderWitness = .ok (.gcxs true [2, 3] [5, 7, 8, 9] [2, 0, 2, 1] [0, 3, 4] (some [0]) 0) := by
  decide

/-- **load_determined.** Two member maps that agree on the seven names `load_npz` asks for load the same
array (or both fail the same way): no other content of the file influences the result. -/
theorem load_determined (axesOk : List Int → Bool) (m m' : Members α)
    (h : ∀ k ∈ vocabulary, lookup m k = lookup m' k) : load axesOk m = load axesOk m' :=
  loadFrom_congr axesOk _ h

/-! ## damaged files (relative to explicit container hypotheses) -/

/-- **truncation_rejected.** Hypotheses about NumPy's container, *not* proved here:
(`h_dir_at_end`) the reader accepts a byte string only if it ends with a zip end-of-central-directory
record (the central directory is at the end of the file and is located first);
(`h_single_dir`) a strict prefix of a file written by `np.savez` does not end with such a record — or,
when `load_npz` rejects archives with leading data (`Gen.npzRejectLeadingData`), the archive that record
describes does not start at byte 0.
Then `load_npz` raises an exception on **every** strict prefix of **every** saved file.
(`h_single_dir` without the leading-data clause is false for an array whose data bytes spell a complete
npz file, saved uncompressed: harness/c14.py replays that witness.) -/
theorem truncation_rejected (C : Container α) (axesOk : List Int → Bool)
    (h_dir_at_end : ∀ b m, C.read b = .ok m → C.EndsWithDirectory b)
    (h_single_dir : ∀ m p, StrictPrefix p (C.write m) → C.EndsWithDirectory p →
      Gen.npzRejectLeadingData = true ∧ C.hasLeadingData p = true)
    (x : Arr α) (m : Members α) (_hs : save x = .ok m) (p : List UInt8) (hp : StrictPrefix p (C.write m)) :
    ∃ e, loadFile C axesOk p = .error e := by
  unfold loadFile
  cases hr : C.read p with
  | error e => exact ⟨e, rfl⟩
  | ok m' =>
    have := h_single_dir m p hp (h_dir_at_end p m' hr)
    exact ⟨.runtime, by simp [this.1, this.2]⟩

/-- **corruption_never_other.** Hypothesis about the container, *not* proved here (`h_crc`, CRC-32 per
member): whatever the reader returns for a damaged copy of a saved file, a member it presents under one of
the seven names `load_npz` asks for has the content the original file has under that name (a member whose
name was damaged is presented under a name outside that vocabulary, or not at all).
Then the damaged file is rejected or loads **the same array** as the original — never another one.
(`h_crc` holds for members `zipfile` reads in one chunk; for a member above 4096 stored bytes `numpy` stops
reading before the end and the checksum is never compared, unless `load_npz` verifies the archive first
(`Gen.npzVerifyCrc`): harness/c14.py replays that witness.) -/
theorem corruption_never_other (axesOk : List Int → Bool) (x : Arr α) (m : Members α) (hs : save x = .ok m)
    (m' : Members α) (h_crc : ∀ k ∈ vocabulary, lookup m' k = none ∨ lookup m' k = lookup m k)
    (y : Arr α) (hl : load axesOk m' = .ok y) : load axesOk m = .ok y :=
  loadFrom_sub (save_decisive x m hs) h_crc hl

/-! ## pickle, copy -/

/-- **pickle_roundtrip.** `__setstate__(__getstate__(x))` on a fresh object restores coords, data, shape and
fill value exactly and leaves the cache off (the cache is dropped, as the property allows: it is not part
of the array's value).  With CPython's `__reduce_ex__` this is `pickle.loads(pickle.dumps(x))` and the
value part of `copy.copy` / `copy.deepcopy`. -/
theorem pickle_roundtrip (x : CooObj α) : pickleRoundtrip x = .ok { x with cache := none } := by
  simp [pickleRoundtrip, getstate, Gen.cooGetState, attrsOf, CooObj.attr, setstate, Gen.cooSetState,
    Partial.assignAll, Partial.assign, Gen.cooSetStateReset, Partial.reset, Partial.complete]

/-- **shallowcopy_alias.** A shallow copy has equal fields and refers to the *same* two buffers, so a write
through the copy is visible in the original. -/
theorem shallowcopy_alias (h : Heap α) (o : CooRef α) (v : List α) :
    (shallowCopy o).coords = o.coords ∧ (shallowCopy o).data = o.data
    ∧ (shallowCopy o).shape = o.shape ∧ (shallowCopy o).fill = o.fill
    ∧ (h.writeData (shallowCopy o).data v).deref o = (h.writeData o.data v).deref o := by
  simp [shallowCopy]

/-- **deepcopy_disjoint.** A deep copy has equal contents, refers to two buffers that did not exist before
(so they are shared with no live object, the original included), leaves every existing buffer unchanged,
and a later write through the copy does not change what the original holds. -/
theorem deepcopy_disjoint (h : Heap α) (o : CooRef α) (hv : h.Valid o) (v : List α) :
    let h' := (deepCopy h o).1
    let o' := (deepCopy h o).2
    (∀ q : CooRef α, h.Valid q → o'.coords ≠ q.coords ∧ o'.data ≠ q.data)
    ∧ h'.deref o' = (h.deref o).map (fun x => { x with cache := none })
    ∧ (∀ q : CooRef α, h.Valid q → h'.deref q = h.deref q)
    ∧ (∀ q : CooRef α, h.Valid q → (h'.writeData o'.data v).deref q = h.deref q) := by
  obtain ⟨hc, hd⟩ := hv
  refine ⟨?_, ?_, ?_, ?_⟩
  · intro q ⟨hq1, hq2⟩
    simp only [deepCopy]
    exact ⟨by omega, by omega⟩
  · simp [deepCopy, Heap.deref, hc, hd, List.getD_eq_getElem?_getD]
  · intro q ⟨hq1, hq2⟩
    simp [deepCopy, Heap.deref, hq1, hq2, List.getElem?_append_left]
  · intro q ⟨hq1, hq2⟩
    simp [deepCopy, Heap.deref, Heap.writeData, hq1, hq2, List.getElem?_append_left]

/-! ## numba: boxing after unboxing -/

/-- **box_unbox_id.** If every extent of the shape fits the coords dtype, passing a COO through compiled
code (`numba.njit(lambda s: s)`) is the Python-level constructor applied to the array's own coords, data,
shape and fill value — which is the identity on a canonical array (constructor idempotence, C05/C06). -/
theorem box_unbox_id (ctor : Mat → List α → List Int → α → Except Err (CooObj α)) (t : IntTy) (x : CooObj α)
    (hfit : ∀ e ∈ x.shape, t.fits e) : boxUnbox ctor t x = ctor x.coords x.data x.shape x.fill := by
  have hs := nativeShape_of_fits t x.shape hfit
  simp [boxUnbox, unbox, Gen.cooStruct, unboxAll, unboxField, unboxField.lookupS, Gen.cooUnbox, CooObj.attr, hs,
    box, bindArgs, cooInitParams, Gen.cooBoxArgs, bindKwargs, Gen.cooBoxKwargs, lookup]

/-- … hence the identity whenever the constructor is the identity on `x`'s fields -/
theorem box_unbox_id_canonical (ctor : Mat → List α → List Int → α → Except Err (CooObj α)) (t : IntTy)
    (x : CooObj α) (hfit : ∀ e ∈ x.shape, t.fits e)
    (hcanon : ctor x.coords x.data x.shape x.fill = .ok { x with cache := none }) :
    boxUnbox ctor t x = .ok { x with cache := none } := by
  rw [box_unbox_id ctor t x hfit, hcanon]

/-- a COO with `uint8` coordinates and shape `(300,)`, one stored element at index 5 -/
def wbox : CooObj Int := ⟨⟨1, 1, [[5]]⟩, [1], [300], 0, none⟩

/-- **box_unbox_counterexample.** While the native shape tuple has the coords dtype, the array `wbox`
(`uint8` coordinates, shape `(300,)`: 300 does not fit) comes back from compiled code with the shape the
constructor was given, `(44,)` — whatever the constructor does, the result is not `wbox`. -/
theorem box_unbox_counterexample (h : Gen.cooShapeDtype = "coords")
    (ctor : Mat → List Int → List Int → Int → Except Err (CooObj Int))
    (hshape : ∀ c d s f y, ctor c d s f = .ok y → y.shape = s) :
    ¬ (∀ e ∈ wbox.shape, (⟨8, false⟩ : IntTy).fits e) ∧ boxUnbox ctor ⟨8, false⟩ wbox ≠ .ok wbox := by
  refine ⟨by decide, ?_⟩
  have hn : nativeShape ⟨8, false⟩ [300] = [44] := by
    simp [nativeShape, h, IntTy.wrap]
  have : boxUnbox ctor ⟨8, false⟩ wbox = ctor ⟨1, 1, [[5]]⟩ [1] [44] 0 := by
    simp [wbox, boxUnbox, unbox, Gen.cooStruct, unboxAll, unboxField, unboxField.lookupS, Gen.cooUnbox, CooObj.attr, hn,
      box, bindArgs, cooInitParams, Gen.cooBoxArgs, bindKwargs, Gen.cooBoxKwargs, lookup]
  rw [this]
  intro hc
  have := hshape _ _ _ _ _ hc
  simp [wbox] at this

/-! ## non-vacuity -/

/-- a 3-d COO, a 0-d COO with one stored element and a 3-d GCXS compressed along axes (0, 2) are well
formed, not excluded, and round-trip in the executable model -/
def exCoo : Arr Int := .coo [2, 3, 2] ⟨3, 2, [[0, 1], [2, 0], [1, 1]]⟩ [5, -7] 3
def exCoo0 : Arr Int := .coo [] ⟨0, 1, []⟩ [9] 0
def exGcxs : Arr Int := .gcxs true [2, 3, 2] [5, -7] [2, 0] [0, 1, 1, 1, 2] (some [0, 2]) 3
example : exCoo.WF strictlyIncreasing ∧ ¬ Excluded exCoo ∧ roundtrip strictlyIncreasing exCoo = .ok exCoo := by decide
example : exCoo0.WF strictlyIncreasing ∧ roundtrip strictlyIncreasing exCoo0 = .ok exCoo0 := by decide
example : exGcxs.WF strictlyIncreasing ∧ ¬ Excluded exGcxs ∧ roundtrip strictlyIncreasing exGcxs = .ok exGcxs := by decide
/-- a member set that is not an image of `save_npz` (no `fill_value`) is rejected; one with all members is loaded literally -/
example : load strictlyIncreasing ([("coords", .mat ⟨1, 1, [[0]]⟩), ("data", .vals [4]), ("shape", .ints [2])] : Members Int)
    = .error .runtime := by decide
/-- the hypotheses of `gcxs_count_damage_rejected` are satisfiable: `exGcxs` with its `indptr` member cut short is rejected -/
example : load strictlyIncreasing ([("data", .vals [5, -7]), ("shape", .ints [2, 3, 2]), ("fill_value", .val 3),
    ("indices", .ints [2, 0]), ("indptr", .ints [0, 1, 1, 2]), ("compressed_axes", .ints [0, 2])] : Members Int)
    = .error .value := by decide
/-- contents: an index outside the 2×2 array with a non-monotone `indptr` (accepted before 748e5d3), and each defect alone, are rejected -/
example : load strictlyIncreasing ([("data", .vals [5, 7]), ("shape", .ints [2, 2]), ("fill_value", .val 0),
    ("indices", .ints [9, -4]), ("indptr", .ints [0, 3, 2]), ("compressed_axes", .ints [0])] : Members Int) = .error .value := by decide
example : load strictlyIncreasing ([("data", .vals [5, 7]), ("shape", .ints [2, 2]), ("fill_value", .val 0),
    ("indices", .ints [0, 2]), ("indptr", .ints [0, 1, 2]), ("compressed_axes", .ints [0])] : Members Int) = .error .value := by decide
example : load strictlyIncreasing ([("data", .vals [5, 7]), ("shape", .ints [2, 2, 1]), ("fill_value", .val 0),
    ("indices", .ints [0, 1]), ("indptr", .ints [0, 2, 1, 2, 2]), ("compressed_axes", .ints [0, 1])] : Members Int) = .error .value := by decide
/-- … and a 1-d GCXS member set with an index equal to the extent -/
example : load strictlyIncreasing ([("data", .vals [5]), ("shape", .ints [4]), ("fill_value", .val 0),
    ("indices", .ints [4]), ("indptr", .ints []), ("compressed_axes", .ints [])] : Members Int) = .error .value := by decide
/-- a 0-d COO member set with two values (accepted before the constructor checked every shape) is rejected -/
example : load strictlyIncreasing ([("coords", .mat ⟨0, 1, []⟩), ("data", .vals [4, 4]), ("shape", .ints []), ("fill_value", .val 0)] : Members Int)
    = .error .value := by decide
example : (∀ e ∈ [255], (⟨8, false⟩ : IntTy).fits e) ∧ ¬ (⟨8, false⟩ : IntTy).fits 256 ∧ (⟨8, true⟩ : IntTy).wrap 200 = -56 := by decide

end SparseV.C14

/-
  Property C18 — every call terminates, and invalid arguments are rejected cleanly.  Property theorems only.

  (a) rejection decision logic, over the GENERATED validators `Gen.normalizeAxisInt`, `Gen.checkIndexInt`,
      `Gen.bcastOk` (tie T1: an edit to `_utils.normalize_axis`, `_slicing.check_index`, `_umath._get_broadcast_shape`
      changes the definitions these theorems are checked against) and the small models of `Model/Validate.lean`;
  (b) termination: every function of `SparseV.Model` is a total Lean function — Lean accepted structural or well-founded
      recursion for each (a documented fact of the build, not a theorem inside the logic); for the `while` loops of the code
      that are not structurally recursive, explicit fuel-based models with `…_terminates` theorems;
  (c) `no_internal_errors`: no modelled operation returns `Err.internal`; each returns only the clean classes named.

  `error_before_effect` is trivial here and therefore not a theorem: the model operations are pure functions
  `inputs → Except Err result`; an error result contains no partial result and there is no state to modify.
  (For the implementation the same holds for every operation except `DOK.__setitem__`, which is property C12's.)
-/
import SparseV.Lemmas.Validate
import SparseV.Lemmas.Loops
import SparseV.Lemmas.NoInternal
import SparseV.Lemmas.Gen.Bcast
import SparseV.Lemmas.Gen.Ctor
import SparseV.Lemmas.Gen.Slicing
import SparseV.Lemmas.MaskCost
import SparseV.Lemmas.Width
import SparseV.Generated.MaskHeuristic
import SparseV.Generated.Compressed
namespace SparseV.C18
open SparseV SparseV.Validate

/-! ## (a) rejection decision logic -/

/-- **rejects_iff_numpy_rejects_axis.** `normalize_axis` (integer branch, generated) raises exactly when
NumPy does — `axis ∉ [-ndim, ndim)` — and then with `ValueError` (NumPy's `AxisError` is one). -/
theorem rejects_iff_numpy_rejects_axis (axis ndim : Int) :
    (Gen.normalizeAxisInt axis ndim = .error Err.value ↔ ¬ (-ndim ≤ axis ∧ axis < ndim)) ∧
    (∀ e, Gen.normalizeAxisInt axis ndim = .error e → e = Err.value) := by
  rw [normalizeAxisInt_eq]
  constructor
  · split <;> simp [*]
  · intro e; split <;> simp; exact fun h => h.symm

/-- **rejects_iff_numpy_rejects_index.** `check_index` (integer branch, generated) raises exactly when
NumPy does — `i ∉ [-dim, dim)` — and then with `IndexError`. -/
theorem rejects_iff_numpy_rejects_index (i dim : Int) :
    (Gen.checkIndexInt i dim = .error Err.index ↔ ¬ (-dim ≤ i ∧ i < dim)) ∧
    (∀ e, Gen.checkIndexInt i dim = .error e → e = Err.index) := by
  rw [Gen.checkIndexInt_eq, Ref.checkIndexInt]
  constructor
  · split <;> simp [*]
  · intro e; split <;> simp; exact fun h => h.symm

example : Gen.normalizeAxisInt (-3) 2 = .error Err.value ∧ Gen.normalizeAxisInt (-2) 2 = .ok 0 := by
  simp [Gen.normalizeAxisInt_eq, Ref.normalizeAxisInt]
example : Gen.checkIndexInt 3 3 = .error Err.index ∧ Gen.checkIndexInt (-3) 3 = .ok () := by
  simp [Gen.checkIndexInt_eq, Ref.checkIndexInt]

/-- **rejects_iff_numpy_rejects_axes.** An axis tuple of a reduction is accepted iff every entry is in `[-ndim, ndim)` and no
axis is named twice after normalisation (NumPy: "duplicate value in 'axis'"); every rejection is a `ValueError`. -/
theorem rejects_iff_numpy_rejects_axes (axes : List Int) (ndim : Nat) :
    ((∃ vs, reduceAxes axes ndim = .ok vs) ↔
      (∀ a ∈ axes, -(ndim : Int) ≤ a ∧ a < ndim) ∧ (axes.map (normAxis ndim)).Nodup) ∧
    (∀ e, reduceAxes axes ndim = .error e → e = Err.value) := by
  unfold reduceAxes
  cases h : normalizeAxes axes ndim with
  | error e' =>
    have hno : ¬ ∀ a ∈ axes, -(ndim : Int) ≤ a ∧ a < ndim := fun hall =>
      absurd ((normalizeAxes_ok_iff axes ndim _).mpr ⟨hall, rfl⟩) (by rw [h]; simp)
    refine ⟨⟨fun ⟨_, h'⟩ => (by cases h'), fun h' => absurd h'.1 hno⟩, ?_⟩
    intro e he; cases he; exact normalizeAxes_error _ _ _ h
  | ok vs =>
    obtain ⟨hall, rfl⟩ := (normalizeAxes_ok_iff axes ndim vs).mp h
    by_cases hn : (axes.map (normAxis ndim)).Nodup
    · simp only [hn, if_true]
      exact ⟨⟨fun _ => ⟨hall, trivial⟩, fun _ => ⟨_, rfl⟩⟩, fun e he => (by cases he)⟩
    · simp only [hn, if_false]
      exact ⟨⟨fun ⟨_, h'⟩ => (by cases h'), fun h' => False.elim h'.2⟩, fun e he => (by cases he; rfl)⟩

/-- **rejects_iff_numpy_rejects_transpose.** `COO.transpose(axes)` accepts exactly the permutations of the axes (entries in
`[-ndim, ndim)`, distinct after normalisation, one per dimension); every rejection is a `ValueError`. -/
theorem rejects_iff_numpy_rejects_transpose (axes : List Int) (ndim : Nat) :
    ((∃ vs, transposeAxes (some axes) ndim = .ok vs) ↔ npTransposeOk axes ndim) ∧
    (∀ e, transposeAxes (some axes) ndim = .error e → e = Err.value) := by
  have hmap : (axes.map fun (a : Int) => if a < 0 then a + (ndim : Int) else a) = axes.map (normAxis ndim) := rfl
  unfold npTransposeOk
  rw [hmap]
  show ((∃ vs, (match normalizeAxes axes ndim with
      | .error e => .error e
      | .ok vs => if ¬ vs.Nodup then .error Err.value else if vs.length ≠ ndim then .error .value else .ok vs) = Except.ok vs) ↔ _) ∧
    (∀ e, (match normalizeAxes axes ndim with
      | .error e => .error e
      | .ok vs => if ¬ vs.Nodup then .error Err.value else if vs.length ≠ ndim then .error .value else .ok vs) = Except.error e → e = Err.value)
  cases h : normalizeAxes axes ndim with
  | error e' =>
    have hno : ¬ ∀ a ∈ axes, -(ndim : Int) ≤ a ∧ a < ndim := fun hall =>
      absurd ((normalizeAxes_ok_iff axes ndim _).mpr ⟨hall, rfl⟩) (by rw [h]; simp)
    refine ⟨⟨fun ⟨_, h'⟩ => (by cases h'), fun h' => absurd h'.1 hno⟩, ?_⟩
    intro e he; cases he; exact normalizeAxes_error _ _ _ h
  | ok vs =>
    obtain ⟨hall, rfl⟩ := (normalizeAxes_ok_iff axes ndim vs).mp h
    simp only [List.length_map]
    by_cases hn : (axes.map (normAxis ndim)).Nodup
    · by_cases hl : axes.length = ndim
      · simp only [hn, not_true_eq_false, if_false, hl, ne_eq]
        exact ⟨⟨fun _ => ⟨hall, trivial, trivial⟩, fun _ => ⟨_, rfl⟩⟩, fun e he => (by cases he)⟩
      · simp only [hn, not_true_eq_false, if_false, ne_eq, hl, not_false_eq_true, if_true]
        exact ⟨⟨fun ⟨_, h'⟩ => (by cases h'), fun h' => False.elim h'.2.2⟩, fun e he => (by cases he; rfl)⟩
    · simp only [hn, not_false_eq_true, if_true]
      exact ⟨⟨fun ⟨_, h'⟩ => (by cases h'), fun h' => False.elim h'.2.1⟩, fun e he => (by cases he; rfl)⟩

example : npTransposeOk [-1, 0] 2 ∧ ¬ npTransposeOk [0, -2] 2 ∧ ¬ npTransposeOk [0] 2 := by decide

/-- **rejects_iff_numpy_rejects_broadcast.** `_get_broadcast_shape` (the generated per-pair rule folded over the right-aligned
pairs) raises exactly when some right-aligned pair of extents is incompatible — different and neither equal to 1 — which is
NumPy's rule; every rejection is a `ValueError`. -/
theorem rejects_iff_numpy_rejects_broadcast (s1 s2 : List Nat) :
    (bshape2 s1 s2 false = .error Err.value ↔ ∃ p ∈ List.zip s1.reverse s2.reverse, p.1 ≠ p.2 ∧ p.1 ≠ 1 ∧ p.2 ≠ 1) ∧
    (∀ e, bshape2 s1 s2 false = .error e → e = Err.value) := by
  refine ⟨?_, fun e h => bshape2_error _ _ _ _ h⟩
  unfold bshape2
  simp only [Bool.false_and, Bool.false_eq_true, if_false]
  split
  · rename_i hall
    simp only [reduceCtorEq, false_iff, not_exists, not_and]
    intro p hp h1 h2
    have := List.all_eq_true.mp hall p hp
    simp only [Gen.bcastOk_iff, and_true] at this
    omega
  · rename_i hall
    simp only [true_iff]
    simp only [List.all_eq_true, Classical.not_forall] at hall
    obtain ⟨p, hp, hbad⟩ := hall
    refine ⟨p, hp, ?_⟩
    simp only [Gen.bcastOk_iff, and_true, not_or] at hbad
    omega

example : bshape2 [2, 3] [3] false = .ok [2, 3] ∧ bshape2 [2, 3] [2] false = .error Err.value := by
  constructor <;> rfl

/-- **rejects_iff_numpy_rejects_reshape.** For EVERY array shape and EVERY target shape, `COO.reshape` accepts exactly the
targets NumPy accepts (`_fix_unknown_dimension`: at most one unknown extent, the product of the others non-zero and dividing
the size; without an unknown extent the products agree) that have no extent below `-1`, and every rejection is a `ValueError`.
(NumPy reads every negative extent as "unknown"; the library knows only `-1` and rejects `-2`, `-3`, … cleanly — stricter than
NumPy, which the property allows.  Before the repair 999f0e4 this held only outside `ExcludedSeveralUnknown` and
`ExcludedInfExtent`.) -/
theorem rejects_iff_numpy_rejects_reshape (old : List Nat) (shape : List Int) :
    ((∃ s, reshapeShape old shape = .ok s) ↔ npReshapeOk old shape ∧ ¬ OtherNegative shape) ∧
    (∀ e, reshapeShape old shape = .error e → e = Err.value) :=
  reshapeShape_spec old shape

/-- the property's statement for `reshape`: every target shape NumPy rejects is rejected, and every rejection — of whatever
target — is a `ValueError` -/
def Statement_reshape_rejects_what_numpy_rejects : Prop :=
  ∀ (old : List Nat) (shape : List Int),
    (¬ npReshapeOk old shape → ∃ e, reshapeShape old shape = .error e) ∧
    (∀ e, reshapeShape old shape = .error e → e = Err.value)

/-- **reshape_rejects_what_numpy_rejects.** The full statement holds, with no excluded region. -/
theorem reshape_rejects_what_numpy_rejects : Statement_reshape_rejects_what_numpy_rejects := by
  intro old shape
  obtain ⟨h1, h2⟩ := reshapeShape_spec old shape
  refine ⟨fun hno => ?_, h2⟩
  cases h : reshapeShape old shape with
  | error e => exact ⟨e, rfl⟩
  | ok s => exact absurd (h1.mp ⟨s, h⟩).1 hno

/-- **reshape_retired_witnesses_rejected.** The witnesses of the two repaired defects are now rejected with `ValueError`:
several `-1` that "happen to match" (`(1,) → (-1,-1)`, `(3,) → (-1,-1,3)`, `(2,3) → (-1,-1,6)`) and a `-1` next to a zero extent on a
non-empty array (`(3,3) → (-1,0)`, formerly `int(inf)`: `OverflowError`; `() → (0,-1)`). -/
theorem reshape_retired_witnesses_rejected :
    reshapeShape [1] [-1, -1] = .error Err.value ∧ reshapeShape [3] [-1, -1, 3] = .error Err.value ∧
    reshapeShape [2, 3] [-1, -1, 6] = .error Err.value ∧
    reshapeShape [3, 3] [-1, 0] = .error Err.value ∧ reshapeShape [] [0, -1] = .error Err.value ∧
    ¬ npReshapeOk [1] [-1, -1] ∧ ¬ npReshapeOk [3, 3] [-1, 0] := by decide

/-- **reshape_other_negative_stricter.** the one remaining difference to NumPy: `-2` is NumPy's unknown extent; the library
rejects it (cleanly) -/
theorem reshape_other_negative_stricter :
    reshapeShape [4] [-2, 2] = .error Err.value ∧ npReshapeOk [4] [-2, 2] ∧ OtherNegative [-2, 2] := by decide

example : npReshapeOk [2, 3] [2, -1] ∧ ¬ OtherNegative [2, -1] ∧
    (reshapeShape [2, 3] [2, -1]).toOption = some [2, 3] ∧ (reshapeShape [2, 3] [4, -1]).toOption = none ∧
    (reshapeShape [0, 3] [-1, 5]).toOption = some [0, 5] := by decide

/-- the full statement for the COO constructor (1-d `data` of length `n`, integer `coords` of shape `(rows, cols)`) -/
def Statement_ctor_rejects_malformed : Prop :=
  ∀ (rows cols n : Nat) (sh : List Int),
    ((∃ r, cooCtor rows cols 1 n (some sh) = .ok r) ↔ ctorContract rows cols n sh) ∧
    (∀ e, cooCtor rows cols 1 n (some sh) = .error e → e = Err.value)

/-- **ctor_rejects_malformed.** For EVERY shape — `()` included (the two length tests sat under `if self.shape:` before the
repair 22a856d) — the constructor accepts exactly the inputs of its contract (non-negative extents, one coordinate row per
axis, one datum per coordinate column — or no coordinates and no data for a shape with an axis), and every rejection is a
`ValueError`. -/
theorem ctor_rejects_malformed : Statement_ctor_rejects_malformed :=
  fun rows cols n sh => ctor_spec rows cols n sh

/-- **ctor_retired_witness_rejected.** the witnesses of the repaired defect: `COO(coords of shape (0, 3), data of length 1,
shape=())` and `COO(np.zeros((0, 1)), [3, 2], shape=())` are rejected with `ValueError`; the contract rejects them too -/
theorem ctor_retired_witness_rejected :
    cooCtor 0 3 1 1 (some []) = .error Err.value ∧ cooCtor 0 1 1 2 (some []) = .error Err.value ∧
    ¬ ctorContract 0 3 1 [] ∧ ¬ ctorContract 0 1 2 [] := by decide

example : ctorContract 2 3 3 [4, 5] ∧ (cooCtor 2 3 1 3 (some [4, 5])).toOption = some [4, 5] ∧
    (cooCtor 2 3 1 2 (some [4, 5])).toOption = none ∧ (cooCtor 1 3 1 3 (some [4, 5])).toOption = none ∧
    (cooCtor 2 3 1 3 (some [4, -5])).toOption = none ∧
    ctorContract 0 1 1 [] ∧ (cooCtor 0 1 1 1 (some [])).toOption = some [] := by decide

/-! ### the GCXS constructor `GCXS((data, indices, indptr), shape, compressed_axes)` -/

/-- the full statement for the GCXS constructor (1-d `data` of length `dataLen`, 1-d integer `indices` and `indptr`): accepted exactly when
the contract `gcxsContract` holds — non-negative extents, admissible `compressed_axes`, one datum per index, index pointers of length
`prod(compressed extents) + 1` running from `0` to `len(indices)` and never decreasing, every index within the extent of the
uncompressed axes.  Deliberately NOT demanded (and not checked by the code): sorted or distinct indices within a row. -/
def Statement_gcxs_ctor_rejects_malformed : Prop :=
  ∀ (dataLen : Nat) (indices indptr sh : List Int) (caxes : Option (List Int)),
    gcxsCtor 1 dataLen indices indptr (some sh) caxes = .ok () ↔ gcxsContract dataLen indices indptr sh caxes

/-- **gcxs_ctor_counterexample_0d.** `GCXS((array([5]), array([0]), array([])), shape=())` is accepted: every test on the three arrays
sits under `len(shape) >= 1`; the contract (a 0-d array has no 1-d indices) rejects it -/
theorem gcxs_ctor_counterexample_0d :
    gcxsCtor 1 1 [0] [] (some []) none = .ok () ∧ ¬ gcxsContract 1 [0] [] [] none ∧ ExcludedZeroDim 1 [0] [] := by decide

theorem not_Statement_gcxs_ctor_rejects_malformed : ¬ Statement_gcxs_ctor_rejects_malformed := by
  intro h
  exact gcxs_ctor_counterexample_0d.2.1 ((h 1 [0] [] [] none).mp gcxs_ctor_counterexample_0d.1)

/-- **gcxs_ctor_rejects_malformed_partial.** For every shape with at least one axis (and for the 0-d shape with no stored data), every
`compressed_axes`, every `indices` and `indptr` — sorted or not, in range or not — the constructor accepts exactly the triples of its
contract.  This covers the lengths, both ends of `indptr`, its monotonicity and the range of every index (748e5d3). -/
theorem gcxs_ctor_rejects_malformed_partial (dataLen : Nat) (indices indptr sh : List Int) (caxes : Option (List Int))
    (hz : ¬ ExcludedZeroDim dataLen indices sh) :
    gcxsCtor 1 dataLen indices indptr (some sh) caxes = .ok () ↔ gcxsContract dataLen indices indptr sh caxes :=
  gcxsCtor_spec dataLen indices indptr sh caxes hz

/-- **gcxs_ctor_accepts_wellformed.** no well-formed triple is turned away, whatever the shape -/
theorem gcxs_ctor_accepts_wellformed (dataLen : Nat) (indices indptr sh : List Int) (caxes : Option (List Int))
    (h : gcxsContract dataLen indices indptr sh caxes) : gcxsCtor 1 dataLen indices indptr (some sh) caxes = .ok () :=
  gcxsCtor_accepts_contract dataLen indices indptr sh caxes h

/-- **gcxs_ctor_error_classes.** Every rejection — any rank of `data`, shape given or not — is a `ValueError`, except the `TypeError`
raised for `compressed_axes=None` with two or more axes (iterating `None`); never an internal class. -/
theorem gcxs_ctor_error_classes (dn dataLen : Nat) (indices indptr : List Int) (shape caxes : Option (List Int)) (e : Err)
    (h : gcxsCtor dn dataLen indices indptr shape caxes = .error e) :
    e = Err.value ∨ (e = Err.type ∧ caxes = none ∧ ∃ sh, shape = some sh ∧ 2 ≤ sh.length) :=
  gcxsCtor_error dn dataLen indices indptr shape caxes e h

/-- **gcxs_ctor_rows_in_bounds.** What acceptance buys the kernels: for an accepted array with two or more axes every index pointer lies
in `[0, len(indices)]`, so no row slice `indices[indptr[i] : indptr[i+1]]` (read without bounds checks in `nopython` mode) leaves the
array, and every index addresses a cell of the uncompressed extent. -/
theorem gcxs_ctor_rows_in_bounds (dataLen : Nat) (indices indptr sh : List Int) (c : List Int) (h2 : 2 ≤ sh.length)
    (h : gcxsCtor 1 dataLen indices indptr (some sh) (some c) = .ok ()) :
    (∀ p ∈ indptr, 0 ≤ p ∧ p ≤ (indices.length : Int)) ∧ (∀ v ∈ indices, 0 ≤ v ∧ v < uncompressedExtent sh c) := by
  have hz : ¬ ExcludedZeroDim dataLen indices sh := by
    rintro ⟨hnil, _⟩; simp [hnil] at h2
  have hc := (gcxsCtor_spec dataLen indices indptr sh (some c) hz).mp h
  obtain ⟨_, h0, hl, hp, hi⟩ := hc.2.2.2.2.2 h2
  exact ⟨indptr_in_bounds indptr _ h0 hl hp, hi⟩

/-- **gcxs_ctor_retired_witnesses_rejected.** the witnesses of the two repaired constructor defects: wrong lengths / index pointers not
ending at `len(indices)` (5753560) and contents outside the shape — column 3 of a 1-column array, a negative column, a 1-d index
`-1` and `5` of 3, index pointers `[0, 3, 2]` (748e5d3) — are all rejected with `ValueError` -/
theorem gcxs_ctor_retired_witnesses_rejected :
    gcxsCtor 1 1 [0] [0, 1] (some [2, 2]) (some [0]) = .error Err.value ∧
    gcxsCtor 1 2 [0] [0, 1, 1] (some [2, 2]) (some [0]) = .error Err.value ∧
    gcxsCtor 1 1 [0] [0, 2, 2] (some [2, 2]) (some [0]) = .error Err.value ∧
    gcxsCtor 1 1 [0] [1, 1, 1] (some [2, 2]) (some [0]) = .error Err.value ∧
    gcxsCtor 1 1 [3] [0, 1] (some [1, 1]) (some [0]) = .error Err.value ∧
    gcxsCtor 1 3 [4, 0, 0] [0, 1, 2, 3] (some [3, 2]) (some [0]) = .error Err.value ∧
    gcxsCtor 1 1 [-1] [0, 1, 1] (some [2, 2]) (some [0]) = .error Err.value ∧
    gcxsCtor 1 1 [-1] [] (some [3]) none = .error Err.value ∧
    gcxsCtor 1 1 [5] [] (some [3]) none = .error Err.value ∧
    gcxsCtor 1 2 [0, 1] [0, 3, 2] (some [2, 2]) (some [0]) = .error Err.value := by decide

/-- non-vacuity, and what is accepted by design: a well-formed `(2, 2, 3)` array compressed along axis 0 (index 5 = cell `(1, 2)` of the
`2 × 3` uncompressed extent; 6 is outside); a row with a repeated index and a row with descending indices are both accepted -/
example : gcxsContract 1 [5] [0, 1, 1] [2, 2, 3] (some [0]) ∧ gcxsCtor 1 1 [5] [0, 1, 1] (some [2, 2, 3]) (some [0]) = .ok () ∧
    gcxsCtor 1 1 [6] [0, 1, 1] (some [2, 2, 3]) (some [0]) = .error Err.value ∧
    gcxsCtor 1 2 [1, 1] [0, 2] (some [1, 2]) (some [0]) = .ok () ∧ gcxsCtor 1 2 [1, 0] [0, 2] (some [1, 2]) (some [0]) = .ok () ∧
    gcxsCtor 1 1 [0] [0, 1, 1] (some [2, 2]) none = .error Err.type := by decide

/-! ### the verdict does not depend on the integer dtype of `indices` / `indptr` -/

/-- **gcxs_ctor_dtype_independent.** Store `indices` in any integer type `ti` and `indptr` in any integer type `tp` (int8 … int64, uint8 …
uint64, the two may differ) that can hold their values: what the constructor reads back are the same integers, and every test of the model —
lengths, ends, the COMPARISON `indptr[1:] < indptr[:-1]`, the range of the indices — is a comparison of stored values, so the verdict is the
verdict on the mathematical integers. -/
theorem gcxs_ctor_dtype_independent (ti tp : IdxTy) (dn dataLen : Nat) (indices indptr : List Int) (shape caxes : Option (List Int))
    (hi : ∀ v ∈ indices, ti.fits v) (hp : ∀ v ∈ indptr, tp.fits v) :
    gcxsCtor dn dataLen (indices.map ti.wrap) (indptr.map tp.wrap) shape caxes = gcxsCtor dn dataLen indices indptr shape caxes := by
  have e1 : indices.map ti.wrap = indices := by
    conv => rhs; rw [← List.map_id indices]
    exact List.map_congr_left (fun v hv => IdxTy.wrap_of_fits (hi v hv))
  have e2 : indptr.map tp.wrap = indptr := by
    conv => rhs; rw [← List.map_id indptr]
    exact List.map_congr_left (fun v hv => IdxTy.wrap_of_fits (hp v hv))
  rw [e1, e2]

/-- **indptr_test_is_the_comparison.** The monotonicity test the constructor performs is the slice comparison — in the translated fragment
`Gen.gcxsCtorChecks` (tools/targets.d/C14.py pins the source text `np.any(self.indptr[1:] < self.indptr[:-1])` to its parameter
`ptrDecreases`; any other spelling is refused and this theorem no longer builds) a triple with consistent lengths and ends is rejected
exactly through that parameter — and the slice comparison finds a decrease in EVERY integer type, because it never computes in the type. -/
theorem indptr_test_is_the_comparison :
    (∀ (ndim sh0 nind rows cols iN imin imax : Int), 2 ≤ ndim →
      Gen.gcxsCtorChecks 1 true ndim sh0 nind nind (rows + 1) rows cols 0 nind true iN imin imax = .error Err.value) ∧
    (∀ (t : IdxTy) (p : List Int), decreasesIn t .sliceCompare p = !(nondecreasing p)) := by
  refine ⟨?_, fun _ _ => rfl⟩
  intro ndim sh0 nind rows cols iN imin imax h2
  rcases Npz.gcxsCtorChecks_cases 1 iN true true ndim sh0 nind nind (rows + 1) rows cols 0 nind imin imax with h | h
  · exact absurd (Npz.gcxsCtorChecks_ok_nondecreasing _ _ _ _ _ _ _ _ _ _ _ _ _ _ _ h2 h) (by decide)
  · exact h

/-- **diff_sign_wraps_unsigned.** What the other spelling would do: `np.diff` of an unsigned array wraps, so index pointers `[0, 3, 1, 3]`
stored as uint8 / uint16 / uint32 show no negative difference and would be accepted again, although they decrease (and the comparison
sees it in every type); in a signed type the difference form sees it too. -/
theorem diff_sign_wraps_unsigned :
    decreasesIn IdxTy.u8 .diffSign [0, 3, 1, 3] = false ∧ decreasesIn IdxTy.u16 .diffSign [0, 3, 1, 3] = false ∧
    decreasesIn IdxTy.u32 .diffSign [0, 3, 1, 3] = false ∧ decreasesIn IdxTy.i8 .diffSign [0, 3, 1, 3] = true ∧
    decreasesIn IdxTy.u8 .sliceCompare [0, 3, 1, 3] = true ∧ decreasesIn IdxTy.u32 .sliceCompare [0, 3, 1, 3] = true ∧
    gcxsCtor 1 3 [0, 1, 0] [0, 3, 1, 3] (some [3, 2]) (some [0]) = .error Err.value := by decide

/-! ## (b) termination -/

/-- **linear_filter_loop_terminates.** The first `while` of `get_slicing_selection` (cursors `count`, `col_count`) exits within
`(len(row) − count) + (len(col) − col_count) + 1` steps, for EVERY row and column array — sorted or not: each iteration breaks
or advances a cursor. -/
theorem linear_filter_loop_terminates (row col : List Nat) (fuel count colCount : Nat) (acc : List (Nat × Nat))
    (h : (row.length - count) + (col.length - colCount) < fuel) :
    Loops.linLoop row col fuel count colCount acc ≠ .outOfFuel :=
  Loops.linLoop_fuel row col fuel count colCount acc h

/-- **binary_search_loop_terminates.** The second `while` of `get_slicing_selection` exits within `len(col) − col_count + 1` steps:
the inner skip loop never moves `col_count` backwards and `col_count += 1` closes every iteration that does not break. -/
theorem binary_search_loop_terminates (row col : List Nat) (fuel size colCount : Nat) (acc : List (Nat × Nat))
    (h : col.length - colCount < fuel) :
    Loops.binLoop row col fuel size colCount acc ≠ .outOfFuel :=
  Loops.binLoop_fuel row col fuel size colCount acc h

/-- **get_slicing_selection_terminates.** With the budget `len(row) + len(col) + 1` per row the whole kernel never runs out of
fuel, whatever the index arrays contain: no guard is needed (contrast `_dot_coo_ndarray`, whose inner loop advances only when
the dense operand has at least one column — modelled and witnessed by the C04 check — and `algD`, whose rejection loop
terminates only if the oracle eventually accepts — `SparseV.Create.algD_error`, C19). -/
theorem get_slicing_selection_terminates (indices : Array Nat) (rows : List (Nat × Nat)) (col : Array Nat) :
    Loops.slicingSelection none indices rows col ≠ .outOfFuel := by
  unfold Loops.slicingSelection
  exact Loops.go_fuel _ _ _ _ _ _ _

/-- **get_slicing_selection_memory_safe.** Under the guard the caller establishes (`pos_slice`: the requested columns are
strictly ascending — positive-step slices, `is_sorted` index arrays) no iteration reads outside `current_row`/`col`
(`current_row[size]`, `current_row[-1]`, `col[col_count]`, `current_row[s]`), for every row content and any step budget:
the logical content of memory safety for this `nopython` kernel, which numba does not bounds-check. -/
theorem get_slicing_selection_memory_safe (fuel : Option Nat) (indices : Array Nat) (rows : List (Nat × Nat)) (col : Array Nat)
    (hcol : col.toList.Pairwise (· < ·)) :
    Loops.slicingSelection fuel indices rows col ≠ .oob := by
  unfold Loops.slicingSelection
  exact Loops.go_no_oob _ _ _ hcol _ _ _ _ _

/-- the budget matters: one step is not enough for a row that needs two -/
example : Loops.slicingSelection (some 1) #[1, 2] [(0, 2)] #[1, 2, 3] = .outOfFuel := by decide
/-- a concrete run: rows `[1,2]`, `[5,7]`; columns `2,5,6,7,8` -/
example : Loops.slicingSelection none #[1, 2, 5, 7] [(0, 2), (2, 4)] #[2, 5, 6, 7, 8] = .done [1, 2, 3] [0, 1, 3] [0, 1, 3] := by decide
/-- outside the guard the code guarantees (`col` strictly ascending: `is_sorted`) the second loop reads past the row:
`current_row[size]` with `size = len(current_row)` — numba does not bounds-check in nopython mode -/
example : Loops.slicingSelection none #[1, 2] [(0, 2)] #[2, 1] = .oob := by decide

/-! ### the cost of `_compute_mask` (COO basic indexing) -/

open MaskCost in
/-- **mask_heuristic_pinned.** The guard of the `while` loop of `_compute_mask` and the definition of `n_current_slices`, as read from the
source on this run (tools/tables.d/C18.py), are the ones the cost statement below is about:
`n_current_slices * np.log(n_current_slices / max(n_pairs, 1)) > n_matches + n_pairs`, `n_current_slices = len(range(…)) * n_pairs + 2`. -/
theorem mask_heuristic_pinned :
    Gen.maskHeuristicLhs = lhsAsRead ∧ Gen.maskHeuristicRhs = rhsAsRead ∧ Gen.maskSlicesDef = slicesAsRead := by decide

open MaskCost in
/-- **compute_mask_iterations_bound.** For ANY lengths `L` of the slices: with a guard that has the one property `HeuristicSound` — going on with
pairs on `S ≥ 3·max(p,1)` slices implies `S ≤ M + p`, which for the pinned guard is `log(S / max(p,1)) ≥ log 3 > 1` — all loop iterations of
`_compute_mask` (the two binary searches per slice position and pair, then the linear filter) on an array with `nnz` stored entries and an index
of `ndim` entries number at most `ndim · (3·nnz + 2)`.  The bound does not mention `L`: `x[1:]` on an axis of `2^62` positions with one stored
entry costs a handful of iterations. -/
theorem compute_mask_iterations_bound (take : Nat → Nat → Nat → Bool) (hs : HeuristicSound take) (nnz : Nat) (steps : List AxisStep)
    (hadm : Admissible nnz steps) :
    totalIterations take 1 nnz steps ≤ steps.length * (3 * nnz + 2) ∧
    pairIterations take 1 nnz steps ≤ steps.length * (3 * nnz + 2) := by
  refine ⟨totalIterations_le take hs nnz steps 1 nnz (by omega) (Nat.le_refl _) hadm, ?_⟩
  have h1 := pairIterations_le take hs nnz steps 1 nnz (by omega) (Nat.le_refl _) hadm
  have h2 := pairAxes_le_length take steps 1 nnz
  exact Nat.le_trans h1 (Nat.mul_le_mul_right _ h2)

open MaskCost in
/-- **compute_mask_needs_the_heuristic.** The hypothesis is not decoration: with a guard that never leaves the pair search (what a guard of the
form `S · log(max(M,1) / max(p,1)) > M + p` amounts to when at most one candidate entry per pair is left: the logarithm is ≤ 0) the iterations
equal the slice length, for every length. -/
theorem compute_mask_needs_the_heuristic (L : Nat) :
    pairIterations (fun _ _ _ => true) 1 1 [⟨L, 1, 1⟩] = L ∧ Admissible 1 [⟨L, 1, 1⟩] := by
  simp [pairIterations, Admissible]

open MaskCost in
/-- non-vacuity: the exact decision `S ≤ M + p` is a sound guard; a slice of a million positions over one pair with three entries leaves for the
filter (3 iterations), a slice of two positions is searched (2 iterations) -/
example : HeuristicSound (fun S p M => decide (S ≤ M + p)) ∧
    totalIterations (fun S p M => decide (S ≤ M + p)) 1 3 [⟨1000000, 1, 1⟩] = 3 ∧
    totalIterations (fun S p M => decide (S ≤ M + p)) 1 3 [⟨2, 2, 3⟩, ⟨1000000, 1, 1⟩] = 2 + 3 := by
  refine ⟨fun S p M h _ => by simpa using h, by decide, by decide⟩

/-! ## (c) no internal errors -/

/-- **no_internal_errors.** No modelled operation returns `Err.internal` (nor `overflow`, `runtime`, `notImplemented`, `hang`):
indexing rejects only with `IndexError`; broadcasting, element-wise application, reductions, GCXS construction, format
conversion, `reshape` (no `OverflowError` any more) and the COO constructor (any data rank, shape given or not) only with
`ValueError` — for EVERY input, well-formed or not. -/
theorem no_internal_errors :
    (∀ (x : COO Int) (idx : List IxE) (e : Err), x.getitem idx = .error e → e = Err.index) ∧
    (∀ (s1 s2 : List Nat) (r : Bool) (e : Err), bshape2 s1 s2 r = .error e → e = Err.value) ∧
    (∀ (shapes : List (List Nat)) (e : Err), bshapeN shapes = .error e → e = Err.value) ∧
    (∀ (x : COO Int) (s : List Nat) (e : Err), x.broadcastTo s = .error e → e = Err.value) ∧
    (∀ (f : List Int → Int) (ops : List (Operand Int)) (e : Err), elemwiseN f ops = .error e → e = Err.value) ∧
    (∀ (op : RedOp) (x : COO Int) (axes : Option (List Int)) (kd : Bool) (e : Err), COO.reduce op x axes kd = .error e → e = Err.value) ∧
    (∀ (x : COO Int) (c : Option (List Nat)) (e : Err), GCXS.fromCoo x c = .error e → e = Err.value) ∧
    (∀ (a : SArr Int) (f : Fmt) (e : Err), a.convert f = .error e → e = Err.value) ∧
    (∀ (old : List Nat) (shape : List Int) (e : Err), reshapeShape old shape = .error e → e = Err.value) ∧
    (∀ (rows cols dn n : Nat) (sh : Option (List Int)) (e : Err), cooCtor rows cols dn n sh = .error e → e = Err.value) :=
  ⟨fun x idx e h => COO.getitem_error x idx e h, bshape2_error, bshapeN_error, fun x s e h => COO.broadcastTo_error x s e h,
   fun f ops e h => elemwiseN_error f ops e h, COO.reduce_error, fun x c e h => GCXS.fromCoo_error x c e h,
   fun a f e h => convert_error a f e h, fun old shape => (reshapeShape_spec old shape).2,
   fun rows cols dn n sh e h => cooCtor_error rows cols dn n sh e h⟩

/-- the transposition/flip/roll/squeeze/expand_dims/reshape cores, concatenate/stack/triu/tril/diagonal cores and `GCXS.tocoo`
are total functions into arrays (no `Except`): they have no error branch at all -/
example (x : COO Int) (axes : List Nat) : COO Int := x.transposeCore axes

end SparseV.C18

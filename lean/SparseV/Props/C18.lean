/-
  Property C18 — every call terminates, and invalid arguments are rejected cleanly.  Property theorems only.
  `Gen.normalizeAxisInt`, `Gen.checkIndexInt`, `Gen.bcastOk` are GENERATED from the source (tie T1).
-/
import SparseV.Model.Validate
import SparseV.Model.Loops
import SparseV.Model.Elemwise
namespace SparseV.C18
open SparseV SparseV.Validate

/-! ## (a) rejection decision logic -/

/-- **rejects_iff_numpy_rejects_axis.** `normalize_axis` (integer branch, generated) raises exactly when
NumPy does — `axis ∉ [-ndim, ndim)` — and then with `ValueError` (NumPy's `AxisError` is one). -/
theorem rejects_iff_numpy_rejects_axis (axis ndim : Int) :
    (Gen.normalizeAxisInt axis ndim = .error Err.value ↔ ¬ (-ndim ≤ axis ∧ axis < ndim)) ∧
    (∀ e, Gen.normalizeAxisInt axis ndim = .error e → e = Err.value) := by
  simp only [Gen.normalizeAxisInt]
  constructor
  · grind
  · intro e; split <;> split <;> simp <;> grind

/-- **rejects_iff_numpy_rejects_index.** `check_index` (integer branch, generated) raises exactly when
NumPy does — `i ∉ [-dim, dim)` — and then with `IndexError`. -/
theorem rejects_iff_numpy_rejects_index (i dim : Int) :
    (Gen.checkIndexInt i dim = .error Err.index ↔ ¬ (-dim ≤ i ∧ i < dim)) ∧
    (∀ e, Gen.checkIndexInt i dim = .error e → e = Err.index) := by
  simp only [Gen.checkIndexInt]
  constructor
  · grind
  · intro e; split <;> (try split) <;> simp <;> grind

example : Gen.normalizeAxisInt (-3) 2 = .error Err.value ∧ Gen.normalizeAxisInt (-2) 2 = .ok 0 := by
  simp [Gen.normalizeAxisInt]
example : Gen.checkIndexInt 3 3 = .error Err.index ∧ Gen.checkIndexInt (-3) 3 = .ok () := by
  simp [Gen.checkIndexInt]

end SparseV.C18

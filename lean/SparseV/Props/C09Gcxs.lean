/-
  Property C09 — joining agrees with NumPy: the GCXS (compressed) code path.  Property theorems only.
  Model: `SparseV.Model.GcxsJoin` (`_compressed/common.py`: `concatenate`, `stack` — every member brought to
  `compressed_axes = (axis,)`, index pointers spliced with running offsets).  The statements are those of `concat_get`
  and `stack_get` (Props/C09) with `tocoo`.
-/
import SparseV.Lemmas.GcxsJoin
import SparseV.Props.C09
namespace SparseV.C09
open SparseV SparseV.COO SparseV.GIx SparseV.GCXS

/-- **gcxs_splice_spec** (the 2-d core).  Members that are well-formed CSR triples with a common number of columns
(`Rf x` rows each): the spliced index pointers (`indptr_0 ++ (indptr_1[1:] + nnz_0) ++ (indptr_2[1:] + nnz_0 + nnz_1) ++ …`)
with the concatenated `indices` / `data` are a well-formed CSR triple with `Σ Rf x` rows — monotone from 0 to the total
nnz, rows sorted — and row `ρ` is row `t` of member `k`, `(k, t) = locate (rows per member) ρ`. -/
theorem gcxs_splice_spec (xs : List (GCXS Int)) (d0 : GCXS Int) (hne : xs ≠ []) (Rf : GCXS Int → Nat) (C : Nat)
    (h : ∀ x ∈ xs, CsrWF (Rf x) C x.indptr x.indices x.data.length) :
    CsrWF (xs.map Rf).sum C (splice (xs.map fun x => (x.indptr, x.indices.length))) (xs.flatMap (·.indices))
      (xs.flatMap (·.data)).length ∧
    ∀ ρ, ρ < (xs.map Rf).sum →
      csrRow (splice (xs.map fun x => (x.indptr, x.indices.length))) (xs.flatMap (·.indices)) (xs.flatMap (·.data)) ρ
        = csrRow ((xs.getD (locate (xs.map Rf) ρ).1 d0).indptr) ((xs.getD (locate (xs.map Rf) ρ).1 d0).indices)
            ((xs.getD (locate (xs.map Rf) ρ).1 d0).data) (locate (xs.map Rf) ρ).2 :=
  joinRows_csr xs d0 hne Rf C h

/-- **gcxs_concat_wf.**  `concatenate` of well-formed n-d GCXS members (any compressed axes each) that agree off `axis`
and on the fill value is well-formed, with `compressed_axes = (axis,)`. -/
theorem gcxs_concat_wf (x0 : GCXS Int) (rest : List (GCXS Int)) (axis : Nat)
    (hwf : ∀ y ∈ x0 :: rest, y.WF) (hax : axis < x0.shape.length)
    (hshape : ∀ y ∈ rest, y.shape.set axis 0 = x0.shape.set axis 0)
    (hfill : ∀ y ∈ rest, y.fill = x0.fill) :
    (concatG x0 rest axis).WF ∧ (concatG x0 rest axis).caxes = some [axis] :=
  ⟨(concatG_spec x0 rest axis hwf hax hshape hfill).1, rfl⟩

/-- **gcxs_concat_get.**  Under the same hypotheses the result has `x0`'s shape with `Σ extents` along `axis`, `x0`'s fill
value, and every in-bounds result index `j` reads member `k` at `j` with `j[axis] - offset_k`, where
`(k, j[axis] - offset_k) = locate extents j[axis]` (`locate_spec`, `locate_unique`); that source index is in bounds of
member `k`.  Any number of members, members without stored elements and of extent 0 along `axis` included. -/
theorem gcxs_concat_get (x0 : GCXS Int) (rest : List (GCXS Int)) (axis : Nat)
    (hwf : ∀ y ∈ x0 :: rest, y.WF) (hax : axis < x0.shape.length)
    (hshape : ∀ y ∈ rest, y.shape.set axis 0 = x0.shape.set axis 0)
    (hfill : ∀ y ∈ rest, y.fill = x0.fill) :
    (concatG x0 rest axis).tocoo.shape = x0.shape.set axis ((x0 :: rest).map fun y => y.shape.getD axis 0).sum ∧
    (concatG x0 rest axis).tocoo.fill = x0.fill ∧
    ∀ j, InB j (x0.shape.set axis ((x0 :: rest).map fun y => y.shape.getD axis 0).sum) →
      (locate ((x0 :: rest).map fun y => y.shape.getD axis 0) (j.getD axis 0)).1 < (x0 :: rest).length ∧
      InB (j.set axis (locate ((x0 :: rest).map fun y => y.shape.getD axis 0) (j.getD axis 0)).2)
        ((x0 :: rest).getD (locate ((x0 :: rest).map fun y => y.shape.getD axis 0) (j.getD axis 0)).1 x0).shape ∧
      (concatG x0 rest axis).tocoo.get j =
        ((x0 :: rest).getD (locate ((x0 :: rest).map fun y => y.shape.getD axis 0) (j.getD axis 0)).1 x0).tocoo.get
          (j.set axis (locate ((x0 :: rest).map fun y => y.shape.getD axis 0) (j.getD axis 0)).2) :=
  (concatG_spec x0 rest axis hwf hax hshape hfill).2

/-- **gcxs_stack_get.**  `stack` of well-formed GCXS members of equal shape (rank ≥ 2) and fill: well-formed result of
shape `insertAt x0.shape axis m`, and element `insertAt i axis k` of the result is element `i` of member `k`. -/
theorem gcxs_stack_get (x0 : GCXS Int) (rest : List (GCXS Int)) (axis : Nat)
    (hwf : ∀ y ∈ x0 :: rest, y.WF) (hax : axis ≤ x0.shape.length)
    (hshape : ∀ y ∈ rest, y.shape = x0.shape) (hfill : ∀ y ∈ rest, y.fill = x0.fill) :
    (stackG x0 rest axis).WF ∧
    (stackG x0 rest axis).tocoo.shape = insertAt x0.shape axis (rest.length + 1) ∧
    (stackG x0 rest axis).tocoo.fill = x0.fill ∧
    ∀ (k : Nat) (i : Idx), k < rest.length + 1 → InB i x0.shape →
      InB (insertAt i axis k) (insertAt x0.shape axis (rest.length + 1)) ∧
      (stackG x0 rest axis).tocoo.get (insertAt i axis k) = ((x0 :: rest).getD k x0).tocoo.get i :=
  stackG_spec x0 rest axis hwf hax hshape hfill

/-! ### non-vacuity -/

/-- two CSR members of two columns: 2 rows / 1 row -/
def jA : GCXS Int := { shape := [2, 2], caxes := some [0], indptr := [0, 1, 3], indices := [1, 0, 1], data := [5, 7, 9], fill := 0 }
def jB : GCXS Int := { shape := [1, 2], caxes := some [0], indptr := [0, 1], indices := [0], data := [4], fill := 0 }

/-- the hypotheses of `gcxs_concat_get` hold for `concatenate([jA, jB], axis=0)`; the splice gives `[0, 1, 3, 4]` -/
example : (∀ y ∈ [jA, jB], y.WF) ∧ 0 < jA.shape.length ∧ (∀ y ∈ [jB], y.shape.set 0 0 = jA.shape.set 0 0) ∧
    (∀ y ∈ [jB], y.fill = jA.fill) ∧
    splice [(jA.indptr, jA.indices.length), (jB.indptr, jB.indices.length)] = [0, 1, 3, 4] ∧
    locate [2, 1] 2 = (1, 0) := by decide

/-- … and the theorem gives `result[2, 0] = jB[0, 0]` (row 2 is row 0 of the second member) -/
example : (concatG jA [jB] 0).tocoo.get [2, 0] = jB.tocoo.get [0, 0] := by
  obtain ⟨_, _, h⟩ := gcxs_concat_get jA [jB] 0 (by decide) (by decide) (by decide) (by decide)
  exact (h [2, 0] (by decide)).2.2

end SparseV.C09

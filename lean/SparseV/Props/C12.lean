/-
  Property C12 — DOK behaves as a mutable NumPy array under any sequence of assignments.
  Property theorems only.

  `Dok.get d k` is the element of the DOK model at index tuple `k` (stored value, else the fill value);
  the dense side (`Spec.dSetitem`, `Spec.dSetFancy`, `Spec.dStep`, `Spec.dRun`) is NumPy's meaning of the
  same assignments on a function `index tuple → value`.  `Agrees d r s` (Lemmas/DokRefine.lean): the
  model's outcome `r` (array afterwards, exception if any) of an assignment on state `d` agrees with
  NumPy's outcome `s` — if NumPy accepts: no exception, every index tuple reads NumPy's value, the state
  is canonical (`Canon`: distinct in-range keys, no stored fill value), shape and fill unchanged; if
  NumPy raises: an exception of the same class and an unchanged array.  `WFOp`/`WFSet` is the grammar
  of the property (non-zero slice steps, values broadcastable to the selection, one integer list per
  axis, masks of the array's shape); `Excluded…` are the decidable regions of the known findings.

  The slice bounds of `DOK._setitem` are `Gen.dokSliceBounds`, regenerated from the source on every
  run, and the slice normalisation is composed of the generated `_slicing.py` definitions: editing
  either changes what is proved here.

  When `start = ind.start or self.shape[i] - 1` is repaired upstream, `setitem_refines_counterexample` and
  `counterexample_negStepStart0` stop checking (that is the signal).  Then: delete those two, add
    theorem gen_is_fixed : Gen.dokSliceBounds = dokSliceBoundsFixed := by
      funext a b c d; simp only [Gen.dokSliceBounds, dokSliceBoundsFixed]; cases a <;> cases b <;> cases c <;> grind
  (checked against the generated definition of the patched source), and `setitem_refines_full_of_fixed
  gen_is_fixed` is the full theorem; drop `Excluded_negStepStart0` from `Spec.Excluded` and use it in
  place of `setitem_refines_partial` inside `step_refines_partial`.
-/
import SparseV.Lemmas.DokRefine
namespace SparseV.C12
open SparseV SparseV.Dok SparseV.Spec
variable {α : Type}

/-! ### (a) one element -/

/-- **setScalar_get.** After `d[k] = x` for one element, `k` reads `x` and every other index tuple
reads what it read before — also when `x` is the fill value (the entry is deleted). -/
theorem setScalar_get [DecidableEq α] (d : DOK α) (k j : DKey) (x : α) :
    get (setScalar d k x) j = if j = k then x else get d j :=
  alookup_store d.fill d.entries k j x

/-- **setScalar_canon.** One-element assignment at an in-range key keeps the state canonical: keys
distinct and inside the shape, no stored value equal to the fill value; shape and fill unchanged. -/
theorem setScalar_canon [DecidableEq α] (d : DOK α) (k : DKey) (x : α) (hc : Canon d) (hk : InBI k d.shape) :
    Canon (setScalar d k x) ∧ (setScalar d k x).shape = d.shape ∧ (setScalar d k x).fill = d.fill := by
  refine ⟨?_, rfl, rfl⟩
  have hinv : Inv d.fill (store d.fill d.entries k x) := store_inv (canon_inv hc) k x
  apply canon_of_inv (d := d) hinv
  intro j hj
  have hne := (mem_keys_iff hinv j).mp hj
  rw [alookup_store] at hne
  by_cases hjk : j = k
  · rw [hjk]; exact hk
  · simp only [hjk, if_false] at hne
    exact inb_of_mem_keys hc ((mem_keys_iff (canon_inv hc) j).mpr hne)

/-- **nnz_count.** In a canonical state `nnz` is the number of in-range index tuples whose value is
not the fill value. -/
theorem nnz_count [DecidableEq α] (d : DOK α) (hc : Canon d) :
    nnz d = (allKeys d.shape).countP (fun k => decide (get d k ≠ d.fill)) :=
  nnz_eq_count hc

/-- non-vacuity: store, overwrite, delete on a 2×3 array with fill 2 -/
def exD : DOK Int := { shape := [2, 3], entries := [([0, 1], 5), ([1, 2], 7)], fill := 2 }
example : Canon exD ∧ get (setScalar exD [1, 2] 9) [1, 2] = 9 ∧ nnz (setScalar exD [1, 2] 2) = 1
    ∧ get (setScalar exD [1, 2] 2) [1, 2] = 2 ∧ nnz (setScalar exD [1, 0] 4) = 3 := by decide

/-! ### (b) keys of integers and slices -/

/-- **setitem_refines_of_bounds.**  For EVERY bounds function that agrees with Python's
`slice.indices` on the slices of the key: `d[key] = value` (key of integers, possibly negative, and
slices of any non-zero step, shorter keys padded; value a scalar or any array broadcastable to the
selection) agrees with NumPy's assignment on the dense array — over exactly the index set Python's
slicing selects, with NumPy's broadcasting — keeps the state canonical, and raises IndexError
without changing anything exactly when NumPy does. -/
theorem setitem_refines_of_bounds [DecidableEq α]
    (bounds : Option Int → Option Int → Option Int → Int → Int × Int × Int)
    (d : DOK α) (key : List KeyPart) (v : Val α) (hc : Canon d) (hwf : WFSet d.shape key v)
    (hpy : PyBounds bounds (padKey key d.shape.length) d.shape) :
    Agrees d (setitemWith bounds d key v) (dSetitem d.shape (get d) key v) := by
  have h := setitemWith_refines bounds d key v hc hwf.1
    (slicesOK_of_pyBounds bounds _ _ (padKey_stepNonzero key _ hwf.1) hpy) hwf.2
  unfold Agrees
  cases hs : dSetitem d.shape (get d) key v with
  | ok a' => exact h.1 a' hs
  | error e => exact h.2 e hs

/-- the full statement for the code as it is: every key in the grammar -/
def Statement_setitem_refines : Prop :=
  ∀ (d : DOK Int) (key : List KeyPart) (v : Val Int), Canon d → WFSet d.shape key v →
    Agrees d (setitem d key v) (dSetitem d.shape (get d) key v)

/-- the witness: `d = DOK((5,)); d[0::-1] = 7` -/
def exNeg : DOK Int := { shape := [5], entries := [], fill := 0 }

/-- **setitem_refines_counterexample.**  `DOK((5,))[0::-1] = 7` also sets element 4 (NumPy sets
element 0 only): the full statement is false of the code as it is (`start = ind.start or …`). -/
theorem setitem_refines_counterexample : ¬ Statement_setitem_refines := by
  intro h
  have h1 := h exNeg [.slice (some 0) none (some (-1))] (Val.scalar 7) (by decide)
    ⟨by decide, fun sels hs => by
      simp only [padKey, exNeg] at hs
      have : sels = [Sel.range [0]] := by
        have h2 : rangeOf (pyAdjust (some 0) none ((some (-1) : Option Int).getD 1) ((5 : Nat) : Int)) = [0] := by decide
        simp only [List.length_cons, List.length_nil, Nat.sub_self, List.replicate_zero, List.append_nil,
          pySels, pySel, h2, Except.ok.injEq] at hs
        exact hs.symm
      subst this
      decide⟩
  have h2 := agreesAt_of_agrees h1 [4]
  revert h2
  decide

/-- **setitem_refines_partial.**  Outside the region `Excluded_negStepStart0` (some slice of the key has
a negative step, a normalised start of 0 and an axis longer than 1) the code as it is — bounds
`Gen.dokSliceBounds`, generated from `DOK._setitem` — agrees with NumPy's assignment. -/
theorem setitem_refines_partial [DecidableEq α] (d : DOK α) (key : List KeyPart) (v : Val α)
    (hc : Canon d) (hwf : WFSet d.shape key v) (hex : Excluded_negStepStart0 d.shape key = false) :
    Agrees d (setitem d key v) (dSetitem d.shape (get d) key v) := by
  have h := setitemWith_refines Gen.dokSliceBounds d key v hc hwf.1
    (slicesOK_gen _ _ (padKey_stepNonzero key _ hwf.1) hex) hwf.2
  unfold Agrees setitem
  cases hs : dSetitem d.shape (get d) key v with
  | ok a' => exact h.1 a' hs
  | error e => exact h.2 e hs

/-- **setitem_refines_fixed.**  With the negative-step start read as `ind.start if ind.start is not
None else …` (`dokSliceBoundsFixed`) the statement holds for EVERY key in the grammar: this is what
`setitem_refines_partial` becomes, with the same proof, once the generated definition changes. -/
theorem setitem_refines_fixed [DecidableEq α] (d : DOK α) (key : List KeyPart) (v : Val α)
    (hc : Canon d) (hwf : WFSet d.shape key v) :
    Agrees d (setitemWith dokSliceBoundsFixed d key v) (dSetitem d.shape (get d) key v) := by
  have h := setitemWith_refines dokSliceBoundsFixed d key v hc hwf.1
    (slicesOK_fixed _ _ (padKey_stepNonzero key _ hwf.1)) hwf.2
  unfold Agrees
  cases hs : dSetitem d.shape (get d) key v with
  | ok a' => exact h.1 a' hs
  | error e => exact h.2 e hs

/-- **setitem_refines_full_of_fixed.**  The switch: the day the generated bounds equal the repaired ones
(`Gen.dokSliceBounds = dokSliceBoundsFixed`, a one-line `funext`/`simp` fact once
`start = ind.start or …` is gone from `_setitem`), the code satisfies the statement for EVERY key in the
grammar and `Excluded_negStepStart0` disappears. -/
theorem setitem_refines_full_of_fixed [DecidableEq α] (hgen : Gen.dokSliceBounds = dokSliceBoundsFixed)
    (d : DOK α) (key : List KeyPart) (v : Val α) (hc : Canon d) (hwf : WFSet d.shape key v) :
    Agrees d (setitem d key v) (dSetitem d.shape (get d) key v) := by
  unfold setitem
  rw [hgen]
  exact setitem_refines_fixed d key v hc hwf

/-- **dSetSel_scalar.**  What the dense side means for a scalar: exactly the index tuples the key
selects (`posOf … ≠ none`: every integer entry matches, every slice entry lists the component) receive
the value; nothing else changes. -/
theorem dSetSel_scalar (a : Dense α) (sels : List Sel) (x : α) (k : DKey) :
    dSetSel a sels (Val.scalar x) k = if (posOf sels k).isSome then x else a k := by
  unfold dSetSel
  cases posOf sels k with
  | none => rfl
  | some p => simp [bcastGet, Val.scalar, ravel]

/-- non-vacuity of (b): a negative-step slice with an array value on a 2×3 array, then the same
selection assigned the fill value (everything deleted again) -/
def exE : DOK Int := { shape := [2, 3], entries := [], fill := 0 }
example :
    (setitem exE [.int (-1), .slice none none (some (-2))] ⟨[2], [8, 9]⟩).1.entries = [([1, 2], 8), ([1, 0], 9)]
    ∧ Excluded_negStepStart0 exE.shape [.int (-1), .slice none none (some (-2))] = false
    ∧ (setitem (setitem exE [.int (-1), .slice none none (some (-2))] ⟨[2], [8, 9]⟩).1
        [.slice none none none, .slice none none none] (Val.scalar 0)).1.entries = [] := by decide

/-! ### (c) every history -/

/-- the full statement for one assignment of any form in the grammar -/
def Statement_step_refines : Prop :=
  ∀ (d : DOK Int) (op : Op Int), Canon d → WFOp d.shape op = true →
    Agrees d (step d op) (dStep d.shape (get d) op)

/-- **step_refines_partial.**  One assignment of any form in the grammar (`WFOp`) outside the known
regions (`Excluded`: negative step with normalised start 0; a tuple of integers on a 1-d array other
than one in-range integer; the empty tuple; index lists with an entry outside `[0, dim)`, empty index
lists, a one-element array value for several listed elements; boolean masks) agrees with NumPy. -/
theorem step_refines_partial [DecidableEq α] (d : DOK α) (op : Op α) (hc : Canon d)
    (hwf : WFOp d.shape op = true) (hex : Excluded d.shape op = false) :
    Agrees d (step d op) (dStep d.shape (get d) op) := by
  cases op with
  | mask m v => simp [Excluded] at hex
  | fancy idxs v =>
    obtain ⟨a', hs, h1, h2, h3, h4, h5⟩ := setFancy_refines d idxs v hc hwf hex
    simp only [step, dStep, Agrees, hs]
    exact ⟨h1, h2, h3, h4, h5⟩
  | set bare key v =>
    simp only [Excluded, Bool.or_eq_false_iff] at hex
    obtain ⟨⟨hneg, htup⟩, hemp⟩ := hex
    have hws := wfSet_of_wfOp hwf
    simp only [step, dStep]
    cases hroute : tupleRoute d.shape bare key with
    | none =>
      have hnot : ¬ (key = [] ∧ bare = false) := by
        intro hh
        simp [Excluded_emptyTupleKey, hh.1, hh.2] at hemp
      simp only [hnot, if_false]
      exact setitem_refines_partial d key v hc hws hneg
    | some ints =>
      exact tupleRoute_refines d bare key v ints hc hws hroute htup

/-- `∃` a canonical state and an assignment in the grammar, inside the given region, on which the
code as it is does not agree with NumPy (witness checked at index tuple `k`) -/
def Disagrees (region : List Nat → Op Int → Bool) : Prop :=
  ∃ (d : DOK Int) (op : Op Int), Canon d ∧ WFOp d.shape op = true ∧ region d.shape op = true ∧
    ¬ Agrees d (step d op) (dStep d.shape (get d) op)

def ex3 : DOK Int := { shape := [3], entries := [], fill := 0 }
def ex23 : DOK Int := { shape := [2, 3], entries := [], fill := 0 }

/-- **counterexample_negStepStart0.** `DOK((5,))[0::-1] = 7` also sets element 4. -/
theorem counterexample_negStepStart0 :
    Disagrees (fun s op => match op with | .set _ key _ => Excluded_negStepStart0 s key | _ => false) :=
  ⟨exNeg, .set true [.slice (some 0) none (some (-1))] (Val.scalar 7), by decide, by decide, by decide,
    fun h => absurd (agreesAt_of_agrees h [4]) (by decide)⟩

/-- **counterexample_tupleRoute.** On a 1-d array `d[-1,] = 7` stores the key `(-1,)`: element 2 still
reads the fill value. (`d[1, 2] = 7` — too many indices for NumPy — is accepted and sets two elements.) -/
theorem counterexample_tupleRoute :
    Disagrees (fun s op => match op with | .set bare key _ => Excluded_tupleRoute s bare key | _ => false) :=
  ⟨ex3, .set false [.int (-1)] (Val.scalar 7), by decide, by decide, by decide,
    fun h => absurd (agreesAt_of_agrees h [2]) (by decide)⟩

theorem counterexample_tupleRoute_tooMany :
    Disagrees (fun s op => match op with | .set bare key _ => Excluded_tupleRoute s bare key | _ => false) :=
  ⟨ex3, .set false [.int 1, .int 2] (Val.scalar 7), by decide, by decide, by decide,
    fun h => absurd (agreesAt_of_agrees h [1]) (by decide)⟩

/-- **counterexample_emptyTupleKey.** `d[()] = 4` raises IndexError (NumPy assigns 4 to every element). -/
theorem counterexample_emptyTupleKey :
    Disagrees (fun _ op => match op with | .set bare key _ => Excluded_emptyTupleKey bare key | _ => false) :=
  ⟨ex3, .set false [] (Val.scalar 4), by decide, by decide, by decide,
    fun h => absurd (agreesAt_of_agrees h [0]) (by decide)⟩

/-- **counterexample_fancyRawIndex.** `d[[-1]] = 7` stores the key `(-1,)`. -/
theorem counterexample_fancyRawIndex :
    Disagrees (fun s op => match op with | .fancy idxs _ => Excluded_fancyRawIndex s idxs | _ => false) :=
  ⟨ex3, .fancy [[-1]] (Val.scalar 7), by decide, by decide, by decide,
    fun h => absurd (agreesAt_of_agrees h [2]) (by decide)⟩

/-- **counterexample_fancyEmpty.** `d[[]] = 5` raises IndexError (NumPy: nothing to assign, no error). -/
theorem counterexample_fancyEmpty :
    Disagrees (fun _ op => match op with | .fancy idxs _ => Excluded_fancyEmpty idxs | _ => false) :=
  ⟨ex3, .fancy [[]] (Val.scalar 5), by decide, by decide, by decide,
    fun h => absurd (agreesAt_of_agrees h [0]) (by decide)⟩

/-- **counterexample_fancyBcast1.** `d[[0, 1], [2, 1]] = [5]` raises ValueError (NumPy broadcasts the 5). -/
theorem counterexample_fancyBcast1 :
    Disagrees (fun _ op => match op with | .fancy idxs v => Excluded_fancyBcast1 idxs v | _ => false) :=
  ⟨ex23, .fancy [[0, 1], [2, 1]] ⟨[1], [5]⟩, by decide, by decide, by decide,
    fun h => absurd (agreesAt_of_agrees h [0, 2]) (by decide)⟩

/-- **counterexample_mask.** `d[mask] = 7` raises IndexError: boolean masks are not supported at all,
so there is no partial theorem for them (`Excluded` contains every mask assignment). -/
theorem counterexample_mask :
    Disagrees (fun _ op => match op with | .mask _ _ => true | _ => false) :=
  ⟨ex3, .mask [true, false, true] (Val.scalar 7), by decide, by decide, by decide,
    fun h => absurd (agreesAt_of_agrees h [0]) (by decide)⟩

/-- **step_refines_counterexample.** The full statement is false of the code as it is. -/
theorem step_refines_counterexample : ¬ Statement_step_refines := by
  intro h
  obtain ⟨d, op, hc, hwf, _, hno⟩ := counterexample_mask
  exact hno (h d op hc hwf)

/-- **dok_history.**  For EVERY finite sequence of assignments in the grammar and outside the known
regions, starting from any canonical state: after the whole sequence every index tuple reads what
a NumPy array with the same initial contents holds after the same assignments (an assignment NumPy
rejects changes nothing on either side), and the state is canonical — so every reachable state is. -/
theorem dok_history [DecidableEq α] (ops : List (Op α)) : ∀ (d : DOK α), Canon d →
    (∀ op ∈ ops, WFOp d.shape op = true ∧ Excluded d.shape op = false) →
    (∀ k, get (run d ops) k = dRun d.shape (get d) ops k) ∧ Canon (run d ops) ∧
      (run d ops).shape = d.shape ∧ (run d ops).fill = d.fill := by
  induction ops with
  | nil => intro d hc _; exact ⟨fun _ => rfl, hc, rfl, rfl⟩
  | cons op ops ih =>
    intro d hc hops
    have hop := hops op List.mem_cons_self
    have hstep := step_refines_partial d op hc hop.1 hop.2
    simp only [run, dRun]
    unfold Agrees at hstep
    cases hs : dStep d.shape (get d) op with
    | ok a' =>
      rw [hs] at hstep
      obtain ⟨_, hget, hc', hsh, hfi⟩ := hstep
      have := ih (step d op).1 hc' (fun o ho => by rw [hsh]; exact hops o (List.mem_cons_of_mem _ ho))
      rw [hsh, hfi] at this
      simp only
      rw [← dRun_congr d.shape (get (step d op).1) a' hget ops]
      exact this
    | error e =>
      rw [hs] at hstep
      simp only [hstep]
      exact ih d hc (fun o ho => hops o (List.mem_cons_of_mem _ ho))

/-- **nnz_invariant.**  After every such history `nnz` equals the number of elements of the NumPy
array that differ from the fill value: assigning the fill value removes the entry, nothing is ever
stored twice. -/
theorem nnz_invariant [DecidableEq α] (ops : List (Op α)) (d : DOK α) (hc : Canon d)
    (hops : ∀ op ∈ ops, WFOp d.shape op = true ∧ Excluded d.shape op = false) :
    nnz (run d ops) = (allKeys d.shape).countP (fun k => decide (dRun d.shape (get d) ops k ≠ d.fill)) := by
  obtain ⟨hget, hc', hsh, hfi⟩ := dok_history ops d hc hops
  rw [nnz_eq_count hc', hsh, hfi]
  congr 1
  funext k
  rw [hget k]

/-- **getitem_after_history.**  After every such history, reading one element `d[i0, i1, …]` (one integer
per axis, negative ones counting from the end) gives what the same read gives on the NumPy array:
IndexError exactly when an integer is outside `[-dim, dim)`, else the array's element. -/
theorem getitem_after_history [DecidableEq α] (ops : List (Op α)) (d : DOK α) (hc : Canon d)
    (hops : ∀ op ∈ ops, WFOp d.shape op = true ∧ Excluded d.shape op = false)
    (key : List Int) (hk : key.length = d.shape.length) :
    getInt (run d ops) key = match normKey key d.shape with
      | some k' => .ok (dRun d.shape (get d) ops k')
      | none => .error .index := by
  obtain ⟨hget, _, hsh, _⟩ := dok_history ops d hc hops
  rw [getInt_spec (run d ops) key (by rw [hsh]; exact hk), hsh]
  cases normKey key d.shape with
  | none => rfl
  | some k' => simp only [hget k']

/-- non-vacuity of (c): a 3-step history on a 2×3 array — a column, then a reversed row with an array
value that overwrites one element and deletes another (value 0 = fill), then an element deletion -/
def exOps : List (Op Int) :=
  [ .set false [.slice none none none, .int 1] (Val.scalar 5),
    .set false [.int 0, .slice none none (some (-1))] ⟨[3], [1, 0, 3]⟩,
    .set false [.int (-1), .int (-2)] (Val.scalar 0) ]
example : (∀ op ∈ exOps, WFOp exE.shape op = true ∧ Excluded exE.shape op = false)
    ∧ (run exE exOps).entries = [([0, 2], 1), ([0, 0], 3)] ∧ Canon exE ∧ nnz (run exE exOps) = 2
    ∧ (getInt (run exE exOps) [-2, -1]).toOption = some 1 ∧ (getInt (run exE exOps) [2, 0]).toOption = none := by decide

end SparseV.C12

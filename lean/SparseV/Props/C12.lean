/-
  Property C12 — DOK behaves as a mutable NumPy array under any sequence of assignments.
  Property theorems only.

  `Dok.get d k` is the element of the DOK model at index tuple `k` (stored value, else the fill value);
  the dense side (`Spec.dSetitem`, `Spec.dSetFancy`, `Spec.dSetMask`, `Spec.dStep`, `Spec.dRun`) is NumPy's
  meaning of the same assignments on a function `index tuple → value`.  `Agrees d r s`
  (Lemmas/DokRefine.lean): the model's outcome `r` (array afterwards, exception if any) of an assignment
  on state `d` agrees with NumPy's outcome `s` — if NumPy accepts: no exception, every index tuple reads
  NumPy's value, the state is canonical (`Canon`: distinct in-range keys, no stored fill value), shape and
  fill unchanged; if NumPy raises: an exception of the same class and an unchanged array.
  `WFOp`/`WFSet` is the grammar of the property (non-zero slice steps, values broadcastable to the
  selection, one integer list per axis with a common length, masks of the array's shape).

  The slice bounds of `DOK._setitem` are `Gen.dokSliceBounds`, regenerated from the source on every
  run, and the slice normalisation is composed of the generated `_slicing.py` definitions: editing
  either changes what is proved here.

  History.  Until /repo commits 5f937a6, 51373e1, e3a3b01, 6ad05a9, daad09e the code violated the
  statements below on seven regions (negative step with normalised start 0; tuples of integers on 1-d
  arrays; the empty tuple; un-normalised index-list entries; empty index lists; one-element values for
  index lists; boolean masks): this file then held `…_partial` theorems under `Excluded…` predicates and
  one proved counterexample per region.  All seven are repaired; the statements are now proved for the
  whole grammar and no region is excluded.  The former witnesses are kept as examples (and in the
  harness corpus), now showing agreement.
-/
import SparseV.Lemmas.DokRefine
namespace SparseV.C12
open SparseV SparseV.Dok SparseV.Spec
variable {α : Type}

/-! ### (a) one element -/

/-- **setScalar_get.** After `d[k] = x` for one element, `k` reads `x` and every other index tuple
reads what it read before — also when `x` is the fill value (the entry is deleted). -/
theorem setScalar_get [DecidableEq α] (d : DOK α) (k j : DKey) (x : α) :
    get (setScalar d k x) j = if j = k then x else get d j :=
  alookup_store d.fill d.entries k j x

/-- **setScalar_canon.** One-element assignment at an in-range key keeps the state canonical: keys
distinct and inside the shape, no stored value equal to the fill value; shape and fill unchanged. -/
theorem setScalar_canon [DecidableEq α] (d : DOK α) (k : DKey) (x : α) (hc : Canon d) (hk : InBI k d.shape) :
    Canon (setScalar d k x) ∧ (setScalar d k x).shape = d.shape ∧ (setScalar d k x).fill = d.fill := by
  refine ⟨?_, rfl, rfl⟩
  have hinv : Inv d.fill (store d.fill d.entries k x) := store_inv (canon_inv hc) k x
  apply canon_of_inv (d := d) hinv
  intro j hj
  have hne := (mem_keys_iff hinv j).mp hj
  rw [alookup_store] at hne
  by_cases hjk : j = k
  · rw [hjk]; exact hk
  · simp only [hjk, if_false] at hne
    exact inb_of_mem_keys hc ((mem_keys_iff (canon_inv hc) j).mpr hne)

/-- **nnz_count.** In a canonical state `nnz` is the number of in-range index tuples whose value is
not the fill value. -/
theorem nnz_count [DecidableEq α] (d : DOK α) (hc : Canon d) :
    nnz d = (allKeys d.shape).countP (fun k => decide (get d k ≠ d.fill)) :=
  nnz_eq_count hc

/-- non-vacuity: store, overwrite, delete on a 2×3 array with fill 2 -/
def exD : DOK Int := { shape := [2, 3], entries := [([0, 1], 5), ([1, 2], 7)], fill := 2 }
example : Canon exD ∧ get (setScalar exD [1, 2] 9) [1, 2] = 9 ∧ nnz (setScalar exD [1, 2] 2) = 1
    ∧ get (setScalar exD [1, 2] 2) [1, 2] = 2 ∧ nnz (setScalar exD [1, 0] 4) = 3 := by decide

/-! ### (b) keys of integers and slices -/

/-- **setitem_refines_of_bounds.**  For EVERY bounds function that agrees with Python's
`slice.indices` on the slices of the key: `d[key] = value` (key of integers, possibly negative, and
slices of any non-zero step, shorter keys padded; value a scalar or any array broadcastable to the
selection) agrees with NumPy's assignment on the dense array — over exactly the index set Python's
slicing selects, with NumPy's broadcasting — keeps the state canonical, and raises IndexError
without changing anything exactly when NumPy does. -/
theorem setitem_refines_of_bounds [DecidableEq α]
    (bounds : Option Int → Option Int → Option Int → Int → Int × Int × Int)
    (d : DOK α) (key : List KeyPart) (v : Val α) (hc : Canon d) (hwf : WFSet d.shape key v)
    (hpy : PyBounds bounds (padKey key d.shape.length) d.shape) :
    Agrees d (setitemWith bounds d key v) (dSetitem d.shape (get d) key v) := by
  have h := setitemWith_refines bounds d key v hc hwf.1
    (slicesOK_of_pyBounds bounds _ _ (padKey_stepNonzero key _ hwf.1) hpy) hwf.2
  unfold Agrees
  cases hs : dSetitem d.shape (get d) key v with
  | ok a' => exact h.1 a' hs
  | error e => exact h.2 e hs

/-- **gen_is_fixed.**  The slice bounds `DOK._setitem` computes — `Gen.dokSliceBounds`, regenerated from
the source on every run — are the reference bounds `dokSliceBoundsFixed` (a missing part is recognised
by `is None`, never by truthiness).  An edit of the bound computation that changes its value for any
input breaks this theorem (as `start = ind.start or self.shape[i] - 1` did until commit 5f937a6). -/
theorem gen_is_fixed : Gen.dokSliceBounds = dokSliceBoundsFixed := by
  funext a b c d
  exact Gen.dokSliceBounds_eq a b c d

/-- **setitem_refines_fixed.**  The reference bounds satisfy the statement for every key in the grammar. -/
theorem setitem_refines_fixed [DecidableEq α] (d : DOK α) (key : List KeyPart) (v : Val α)
    (hc : Canon d) (hwf : WFSet d.shape key v) :
    Agrees d (setitemWith dokSliceBoundsFixed d key v) (dSetitem d.shape (get d) key v) := by
  have h := setitemWith_refines dokSliceBoundsFixed d key v hc hwf.1
    (slicesOK_fixed _ _ (padKey_stepNonzero key _ hwf.1)) hwf.2
  unfold Agrees
  cases hs : dSetitem d.shape (get d) key v with
  | ok a' => exact h.1 a' hs
  | error e => exact h.2 e hs

/-- **setitem_refines.**  The code as it is (bounds generated from `DOK._setitem`), EVERY key in the
grammar — integers of either sign, slices with any non-zero step and any start/stop, short keys, the
empty tuple — and every scalar or broadcastable array value: `d[key] = value` agrees with NumPy's
assignment (same selected index set, same broadcasting, IndexError exactly when NumPy raises it, state
canonical afterwards).  No excluded region. -/
theorem setitem_refines [DecidableEq α] (d : DOK α) (key : List KeyPart) (v : Val α)
    (hc : Canon d) (hwf : WFSet d.shape key v) :
    Agrees d (setitem d key v) (dSetitem d.shape (get d) key v) := by
  unfold setitem
  rw [gen_is_fixed]
  exact setitem_refines_fixed d key v hc hwf

/-- **dSetSel_scalar.**  What the dense side means for a scalar: exactly the index tuples the key
selects (`posOf … ≠ none`: every integer entry matches, every slice entry lists the component) receive
the value; nothing else changes. -/
theorem dSetSel_scalar (a : Dense α) (sels : List Sel) (x : α) (k : DKey) :
    dSetSel a sels (Val.scalar x) k = if (posOf sels k).isSome then x else a k := by
  unfold dSetSel
  cases posOf sels k with
  | none => rfl
  | some p => simp [bcastGet, Val.scalar, ravel]

/-- non-vacuity of (b): a negative-step slice with an array value on a 2×3 array, then the same
selection assigned the fill value (everything deleted again); and the former witnesses of the
negative-step defect, `d[0::-1] = 7` and `d[-10:0:-1] = 7` on `DOK((5,))`, now set element 0 only / nothing -/
def exE : DOK Int := { shape := [2, 3], entries := [], fill := 0 }
def exNeg : DOK Int := { shape := [5], entries := [], fill := 0 }
example :
    (setitem exE [.int (-1), .slice none none (some (-2))] ⟨[2], [8, 9]⟩).1.entries = [([1, 2], 8), ([1, 0], 9)]
    ∧ (setitem (setitem exE [.int (-1), .slice none none (some (-2))] ⟨[2], [8, 9]⟩).1
        [.slice none none none, .slice none none none] (Val.scalar 0)).1.entries = []
    ∧ (setitem exNeg [.slice (some 0) none (some (-1))] (Val.scalar 7)).1.entries = [([0], 7)]
    ∧ (setitem exNeg [.slice (some (-10)) (some 0) (some (-1))] (Val.scalar 7)).1.entries = [] := by decide

/-! ### (c) every key form, every history -/

/-- **fancy_refines.**  One integer list per axis (entries anywhere in `[-dim, dim)`, repeated keys, empty
lists; scalar, `n`-element or one-element value): `d[idx0, idx1, …] = value` agrees with NumPy, and
raises IndexError without changing anything exactly when an entry is out of range. -/
theorem fancy_refines [DecidableEq α] (d : DOK α) (idxs : List (List Int)) (v : Val α) (hc : Canon d)
    (hwf : WFOp d.shape (.fancy idxs v) = true) :
    Agrees d (setFancy d idxs v) (dSetFancy d.shape (get d) idxs v) :=
  setFancy_refines d idxs v hc hwf

/-- **mask_refines.**  A boolean mask of the array's shape: `d[mask] = value` agrees with NumPy (the True
positions in row-major order receive the scalar, or the values one by one). -/
theorem mask_refines [DecidableEq α] (d : DOK α) (m : List Bool) (v : Val α) (hc : Canon d)
    (hwf : WFOp d.shape (.mask m v) = true) :
    Agrees d (setMask d m v) (dSetMask d.shape (get d) m v) :=
  setMask_refines d m v hc hwf

/-- **step_refines.**  One assignment of ANY form in the grammar of the property (`WFOp`): key of integers
and slices (including the empty tuple and tuples of integers on 1-d arrays), one integer list per axis,
boolean mask; scalar or broadcastable array value — agrees with NumPy.  No excluded region. -/
theorem step_refines [DecidableEq α] (d : DOK α) (op : Op α) (hc : Canon d) (hwf : WFOp d.shape op = true) :
    Agrees d (step d op) (dStep d.shape (get d) op) := by
  cases op with
  | mask m v => exact setMask_refines d m v hc hwf
  | fancy idxs v => exact setFancy_refines d idxs v hc hwf
  | set key v => exact setitem_refines d key v hc (wfSet_of_wfOp hwf)

/-- **dok_history.**  For EVERY finite sequence of assignments in the grammar, starting from any
canonical state: after the whole sequence every index tuple reads what a NumPy array with the same
initial contents holds after the same assignments (an assignment NumPy rejects changes nothing on
either side), and the state is canonical — so every reachable state is. -/
theorem dok_history [DecidableEq α] (ops : List (Op α)) : ∀ (d : DOK α), Canon d →
    (∀ op ∈ ops, WFOp d.shape op = true) →
    (∀ k, get (run d ops) k = dRun d.shape (get d) ops k) ∧ Canon (run d ops) ∧
      (run d ops).shape = d.shape ∧ (run d ops).fill = d.fill := by
  induction ops with
  | nil => intro d hc _; exact ⟨fun _ => rfl, hc, rfl, rfl⟩
  | cons op ops ih =>
    intro d hc hops
    have hstep := step_refines d op hc (hops op List.mem_cons_self)
    simp only [run, dRun]
    unfold Agrees at hstep
    cases hs : dStep d.shape (get d) op with
    | ok a' =>
      rw [hs] at hstep
      obtain ⟨_, hget, hc', hsh, hfi⟩ := hstep
      have := ih (step d op).1 hc' (fun o ho => by rw [hsh]; exact hops o (List.mem_cons_of_mem _ ho))
      rw [hsh, hfi] at this
      simp only
      rw [← dRun_congr d.shape (get (step d op).1) a' hget ops]
      exact this
    | error e =>
      rw [hs] at hstep
      simp only [hstep]
      exact ih d hc (fun o ho => hops o (List.mem_cons_of_mem _ ho))

/-- **nnz_invariant.**  After every such history `nnz` equals the number of elements of the NumPy
array that differ from the fill value: assigning the fill value removes the entry, nothing is ever
stored twice. -/
theorem nnz_invariant [DecidableEq α] (ops : List (Op α)) (d : DOK α) (hc : Canon d)
    (hops : ∀ op ∈ ops, WFOp d.shape op = true) :
    nnz (run d ops) = (allKeys d.shape).countP (fun k => decide (dRun d.shape (get d) ops k ≠ d.fill)) := by
  obtain ⟨hget, hc', hsh, hfi⟩ := dok_history ops d hc hops
  rw [nnz_eq_count hc', hsh, hfi]
  congr 1
  funext k
  rw [hget k]

/-- **getitem_after_history.**  After every such history, reading one element `d[i0, i1, …]` (one integer
per axis, negative ones counting from the end) gives what the same read gives on the NumPy array:
IndexError exactly when an integer is outside `[-dim, dim)`, else the array's element. -/
theorem getitem_after_history [DecidableEq α] (ops : List (Op α)) (d : DOK α) (hc : Canon d)
    (hops : ∀ op ∈ ops, WFOp d.shape op = true)
    (key : List Int) (hk : key.length = d.shape.length) :
    getInt (run d ops) key = match normKey key d.shape with
      | some k' => .ok (dRun d.shape (get d) ops k')
      | none => .error .index := by
  obtain ⟨hget, _, hsh, _⟩ := dok_history ops d hc hops
  rw [getInt_spec (run d ops) key (by rw [hsh]; exact hk), hsh]
  cases normKey key d.shape with
  | none => rfl
  | some k' => simp only [hget k']

/-- non-vacuity of (c): a 3-step history on a 2×3 array — a column, then a reversed row with an array
value that overwrites one element and deletes another (value 0 = fill), then an element deletion -/
def exOps : List (Op Int) :=
  [ .set [.slice none none none, .int 1] (Val.scalar 5),
    .set [.int 0, .slice none none (some (-1))] ⟨[3], [1, 0, 3]⟩,
    .set [.int (-1), .int (-2)] (Val.scalar 0) ]
example : (∀ op ∈ exOps, WFOp exE.shape op = true)
    ∧ (run exE exOps).entries = [([0, 2], 1), ([0, 0], 3)] ∧ Canon exE ∧ nnz (run exE exOps) = 2
    ∧ (getInt (run exE exOps) [-2, -1]).toOption = some 1 ∧ (getInt (run exE exOps) [2, 0]).toOption = none := by decide

/-- the former witnesses of the repaired defects, as one history on `DOK((3,))`: an index list with a
negative entry (stored as key 2), a boolean mask, the empty tuple (assigns everywhere), a one-element
value broadcast over two listed elements, empty index lists (nothing), a tuple of one negative integer,
and a too long tuple (IndexError, nothing changes) -/
def ex3 : DOK Int := { shape := [3], entries := [], fill := 0 }
def exOps3 : List (Op Int) :=
  [ .fancy [[-1]] (Val.scalar 7),
    .mask [true, false, false] (Val.scalar 4),
    .set [] (Val.scalar 2),
    .fancy [[0, -2]] ⟨[1], [5]⟩,
    .fancy [[]] (Val.scalar 9),
    .set [.int (-1)] (Val.scalar 0),
    .set [.int 1, .int 2] (Val.scalar 8) ]
example : (∀ op ∈ exOps3, WFOp ex3.shape op = true)
    ∧ (run ex3 (exOps3.take 2)).entries = [([2], 7), ([0], 4)]
    ∧ (run ex3 (exOps3.take 3)).entries = [([2], 2), ([0], 2), ([1], 2)]
    ∧ (run ex3 exOps3).entries = [([0], 5), ([1], 5)]
    ∧ (step (run ex3 (exOps3.take 6)) (.set [.int 1, .int 2] (Val.scalar 8))).2 = some .index := by decide

end SparseV.C12

import SparseV.Spec.Assign

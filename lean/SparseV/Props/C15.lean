/-
  Property C15 — the integer type used to store coordinates never affects values.  Property theorems only.

  For every width-sensitive site `W` of the library (models in `SparseV.Model.Width`, each computing in its
  stored width with exactly the guard the code performs):

    `W_width_independent`     guard → the result computed in type `t` equals the unbounded-integer result
    `W_guard_rejects_cleanly` ¬guard → the error value the code raises (`ValueError`)

  Every theorem holds for ALL index types (`t.bits` is a variable: 8, 16, 32, 64 and every other width),
  all coordinates, extents, shifts, offsets.  Hypotheses named `hshape`/`Holds` are the property's
  precondition "the index type can hold the operand's shape"; `0 ≤ c`, `c < n` say that `c` is a coordinate.

  Where the code's guard is too weak the full statement is kept as `Statement_W`, refuted by
  `W_counterexample` (a boundary instance that is replayed on the real code), and proved as `W_partial`
  under one extra decidable hypothesis; that hypothesis negated (`Excluded_W`) is the finding's region.
  The proposed fix of each such site is modelled too and satisfies the full statement (`WFixed_…`).
-/
import SparseV.Lemmas.Width
namespace SparseV.C15
open SparseV SparseV.IdxTy

/-! ## The rules every site theorem rests on -/

/-- **stored_value_exact.** Storing a representable value in an index type returns that value (no wrap), for
every signedness and width. -/
theorem stored_value_exact (t : IdxTy) (n : Int) (h : t.fits n) : t.wrap n = n := wrap_of_fits h

/-- whatever an unchecked store leaves in an index type is a value of that type -/
theorem stored_value_representable (t : IdxTy) (n : Int) : t.fits (t.wrap n) := fits_wrap t n

/-- `np.min_scalar_type(n)` can hold `n` -/
theorem min_scalar_type_holds (n : Int) (r : IdxTy) (h : minScalarType n = some r) : r.fits n := minScalarType_fits h

/-- the dtype chosen by `get_out_dtype` / `if not can_store(dt, n): dt = np.min_scalar_type(n)` can hold `n` -/
theorem get_out_dtype_holds (t r : IdxTy) (n : Int) (h : getOutDtype t n = some r) : r.fits n := getOutDtype_fits h

example : u8.wrap 300 = 44 ∧ i8.wrap 200 = -56 ∧ u8.fits 255 ∧ ¬ u8.fits 256 ∧ getOutDtype i8 200 = some u8 := by decide

/-! ## W1 COO `getitem`: `(coords - start) // step` -/

/-- the selected coordinates of a normalised slice are `start + j * step`, `j ≥ 0` -/
def Statement_getitem : Prop :=
  ∀ (t : IdxTy) (c start step j : Int), 0 ≤ c → 0 ≤ start → t.fits c → t.fits start → step ≠ 0 → 0 ≤ j →
    c = start + j * step → getitemCoord t c start step = .ok (getitemCoordInf c start step)

/-- region of finding F-getitem-step: the step is not representable in the coordinates' dtype
(every negative step for an unsigned dtype; `x[::200]` for `int8`) -/
def Excluded_getitem (t : IdxTy) (step : Int) : Prop := ¬ t.fits step
instance (t : IdxTy) (step : Int) : Decidable (Excluded_getitem t step) := by unfold Excluded_getitem; infer_instance

/-- **getitem_partial.** Outside the excluded region the new coordinate computed in the coordinates' dtype
is the position `j` of the element in the selection, for every dtype. -/
theorem getitem_partial (t : IdxTy) (c start step j : Int) (h0 : 0 ≤ c) (hs0 : 0 ≤ start) (hc : t.fits c)
    (hst : t.fits start) (hstep : step ≠ 0) (hj : 0 ≤ j) (heq : c = start + j * step)
    (hex : ¬ Excluded_getitem t step) :
    getitemCoord t c start step = .ok (getitemCoordInf c start step) := by
  have hfs : t.fits step := Classical.not_not.mp hex
  rw [getitemInf_eq c start step j hstep heq]
  have hd : c - start = j * step := by omega
  have habs := abs_le_mul hj hstep
  have hl := lo_le_zero t
  obtain ⟨c1, c2⟩ := hc
  obtain ⟨s1, s2⟩ := hst
  -- the difference and the quotient are representable
  have hfd : t.fits (c - start) := by
    cases hsg : t.signed with
    | true =>
      have := signed_lo t hsg
      exact ⟨by omega, by omega⟩
    | false =>
      have := unsigned_lo t hsg
      have hsp : 0 < step := by have := hfs.1; omega
      have : 0 ≤ j * step := Int.mul_nonneg hj (by omega)
      exact ⟨by omega, by omega⟩
  have hfj : t.fits j := by
    cases hsg : t.signed with
    | true =>
      have := signed_lo t hsg
      exact ⟨by omega, by omega⟩
    | false =>
      have := unsigned_lo t hsg
      have hsp : 0 < step := by have := hfs.1; omega
      have : 0 ≤ j * step := Int.mul_nonneg hj (by omega)
      exact ⟨by omega, by omega⟩
  have hst : t.fits start := ⟨s1, s2⟩
  simp only [getitemCoord, arrPy, hst, hfs, if_true, Op.eval, bind, Except.bind, wrap_of_fits hfd]
  rw [hd]
  simp only [pyFloorDiv, if_neg hstep, Int.mul_fdiv_cancel j hstep, wrap_of_fits hfj]

/-- `x[5::-1]` on `uint8` coordinates: `OverflowError` instead of position 2 -/
theorem getitem_counterexample : ¬ Statement_getitem := by
  intro h
  have := h u8 3 5 (-1) 2 (by decide) (by decide) (by decide) (by decide) (by decide) (by decide) (by decide)
  revert this
  decide

/-- non-vacuity of `getitem_partial`: `x[9:1:-2]` on `int8` coordinates, element 5 is at position 2 -/
example : getitemCoord i8 5 9 (-2) = .ok 2 ∧ ¬ Excluded_getitem i8 (-2) := by decide

/-- **getitemFixed_width_independent.** With the proposed fix (arithmetic in `intp`, result cast back) the
full statement holds for every dtype, with no condition on the step beyond fitting in `intp`. -/
theorem getitemFixed_width_independent (t : IdxTy) (c start step j : Int) (h0 : 0 ≤ c) (hs0 : 0 ≤ start)
    (hc : t.fits c) (hc64 : intp.fits c) (hst : intp.fits start) (hfs : intp.fits step) (hstep : step ≠ 0)
    (hj : 0 ≤ j) (heq : c = start + j * step) (hjc : j ≤ c ∨ t.fits j) :
    getitemCoordFixed t c start step = .ok (getitemCoordInf c start step) := by
  rw [getitemInf_eq c start step j hstep heq]
  have hd : c - start = j * step := by omega
  have habs := abs_le_mul hj hstep
  have hl64 : intp.lo = -intp.hi := signed_lo intp rfl
  obtain ⟨c1, c2⟩ := hc64
  obtain ⟨s1, s2⟩ := hst
  have hfd : intp.fits (c - start) := ⟨by omega, by omega⟩
  have hfj64 : intp.fits j := ⟨by omega, by omega⟩
  have hc64 : intp.fits c := ⟨c1, c2⟩
  have hst : intp.fits start := ⟨s1, s2⟩
  have hfj : t.fits j := by
    rcases hjc with h | h
    · exact fits_of_nonneg_le hc hj h
    · exact h
  simp only [getitemCoordFixed, arrPy, hst, hfs, if_true, Op.eval, bind, Except.bind, castTo, wrap_of_fits hc64,
    wrap_of_fits hfd, pure, Except.pure]
  rw [hd]
  simp only [pyFloorDiv, if_neg hstep, Int.mul_fdiv_cancel j hstep, wrap_of_fits hfj64, wrap_of_fits hfj]

/-! ## W2 `_calc_counts_invidx` -/

/-- full statement: the run starts and run lengths returned for the group numbers of an array whose
coordinates are stored in `t` are the true ones -/
def Statement_invidx : Prop :=
  ∀ (t : IdxTy) (groups : List Int), (∀ g ∈ groups, 0 ≤ g ∧ t.fits g) →
    calcCountsInvidx t groups = ((invIdxInf groups).map fun (p : Nat) => (p : Int), (countsInf groups).map fun (p : Nat) => (p : Int))

/-- region of finding F-invidx-dtype: more stored elements than the coordinates' dtype can count -/
def Excluded_invidx (t : IdxTy) (groups : List Int) : Prop := ¬ t.fits groups.length
instance (t : IdxTy) (g : List Int) : Decidable (Excluded_invidx t g) := by unfold Excluded_invidx; infer_instance

/-- **invidx_partial.** When the number of stored elements is representable in the coordinates' dtype the
positions and lengths are exact, for every dtype and every group list. -/
theorem invidx_partial (t : IdxTy) (groups : List Int) (hex : ¬ Excluded_invidx t groups) :
    calcCountsInvidx t groups = ((invIdxInf groups).map fun (p : Nat) => (p : Int), (countsInf groups).map fun (p : Nat) => (p : Int)) := by
  have hn : t.fits groups.length := Classical.not_not.mp hex
  have hpos : ∀ p ∈ invIdxInf groups, p ≤ groups.length := fun p hp => Nat.le_of_lt (invIdxInf_lt groups p hp)
  unfold calcCountsInvidx countsInf
  rw [map_castTo_id t groups.length hn _ hpos,
    map_castTo_id t groups.length hn _ (runCounts_le groups.length _ hpos)]

set_option maxRecDepth 20000 in
/-- 257 stored elements in two groups (256 + 1) with `uint8` coordinates: the second group is reported
to start at position 0 instead of 256 (`x.sum(axis=1)` then adds the wrong elements) -/
theorem invidx_counterexample : ¬ Statement_invidx := by
  intro h
  have := h u8 (List.replicate 256 0 ++ [1]) (by decide)
  revert this
  decide

example : calcCountsInvidx u8 [0, 0, 2, 2, 2, 5] = ([0, 2, 5], [2, 3, 1]) ∧ ¬ Excluded_invidx u8 [0, 0, 2, 2, 2, 5] := by decide

/-- **invidxFixed_width_independent.** With `dtype=np.intp` the outputs do not depend on the coordinates'
dtype at all, and are exact for every array that fits in memory. -/
theorem invidxFixed_width_independent (groups : List Int) (hn : intp.fits groups.length) :
    calcCountsInvidxFixed groups = ((invIdxInf groups).map fun (p : Nat) => (p : Int), (countsInf groups).map fun (p : Nat) => (p : Int)) := by
  have hpos : ∀ p ∈ invIdxInf groups, p ≤ groups.length := fun p hp => Nat.le_of_lt (invIdxInf_lt groups p hp)
  unfold calcCountsInvidxFixed countsInf
  rw [map_castTo_id intp groups.length hn _ hpos,
    map_castTo_id intp groups.length hn _ (runCounts_le groups.length _ hpos)]

/-! ## W3 COO `reshape` -/

/-- **reshape_width_independent.** Whatever dtype `reshape` chooses (the operand's, or `min_scalar_type` of
the largest new extent when that does not fit), every coordinate `(linear_loc // strides) % d` it
stores is the unbounded value. -/
theorem reshape_width_independent (t r : IdxTy) (shape : List Int) (lin strides d : Int)
    (hty : reshapeTy t shape = some r) (hd : d ∈ shape) (hpos : 0 < d) :
    reshapeCoord r lin strides d = reshapeCoordInf lin strides d := by
  have hne : shape ≠ [] := by intro h; rw [h] at hd; cases hd
  unfold reshapeTy at hty
  rw [if_neg hne] at hty
  have hfit := getOutDtype_fits hty
  have hr := pyMod_range (pyFloorDiv lin strides) d hpos
  unfold reshapeCoord reshapeCoordInf castTo
  exact wrap_of_fits (fits_of_nonneg_le hfit hr.1 (by have := le_listMax hd; omega))

/-- `reshape` has no rejection: for every shape an array can have it finds a dtype, and it keeps the
operand's dtype whenever that is wide enough -/
theorem reshape_upcast_exists (t : IdxTy) (shape : List Int) (h : ∀ d ∈ shape, 0 ≤ d ∧ d < 2 ^ 64) :
    (reshapeTy t shape).isSome = true ∧ (Holds t shape → reshapeTy t shape = some t) := by
  unfold reshapeTy
  by_cases hne : shape = []
  · simp [hne]
  · rw [if_neg hne]
    have hm := h _ (listMax_mem hne)
    constructor
    · unfold getOutDtype
      split
      · rfl
      · exact minScalarType_isSome hm.1 hm.2
    · intro hh
      exact getOutDtype_keeps (hh _ (listMax_mem hne))

example : reshapeTy u8 [2, 300] = some u16 ∧ reshapeCoord u16 599 1 300 = 299 := by decide

/-! ## W4 COO `concatenate` -/

/-- **concatenate_width_independent.** After the upcast the code performs, adding the offset of an operand
to its coordinates neither overflows (`OverflowError`) nor wraps. -/
theorem concatenate_width_independent (t r : IdxTy) (shape : List Int) (c off total : Int)
    (hty : concatTy t shape = some r) (htot : total ∈ shape) (h0 : 0 ≤ c) (hoff : 0 ≤ off) (hlt : c + off < total) :
    concatCoord r c off = .ok (c + off) := by
  have hfit := getOutDtype_fits hty
  have hle := le_listMax htot
  have hc : r.fits c := fits_of_nonneg_le hfit h0 (by omega)
  have hfo : r.fits off := fits_of_nonneg_le hfit hoff (by omega)
  have hs : r.fits (c + off) := fits_of_nonneg_le hfit (by omega) (by omega)
  unfold concatCoord castTo
  by_cases hz : off = 0
  · simp [hz, wrap_of_fits hc]
  · simp only [if_neg hz, arrPy, hfo, if_true, Op.eval, wrap_of_fits hc, wrap_of_fits hs]

/-- `concatenate` has no rejection either: a dtype is always found, the operands' own when it is wide enough -/
theorem concatenate_upcast_exists (t : IdxTy) (shape : List Int) (hne : shape ≠ []) (h : ∀ d ∈ shape, 0 ≤ d ∧ d < 2 ^ 64) :
    (concatTy t shape).isSome = true ∧ (Holds t shape → concatTy t shape = some t) := by
  unfold concatTy
  have hm := h _ (listMax_mem hne)
  constructor
  · unfold getOutDtype
    split
    · rfl
    · exact minScalarType_isSome hm.1 hm.2
  · intro hh
    exact getOutDtype_keeps (hh _ (listMax_mem hne))

example : concatTy i8 [200, 3] = some u8 ∧ concatCoord u8 99 100 = .ok 199 := by decide

/-! ## W5 COO `roll` -/

/-- **roll_width_independent.** When `roll`'s guard passes (and the in-place addition is not the
`unsigned += np.int64` form, which the code turns into a `ValueError`), every rolled coordinate equals the
unbounded `(c + shift) mod n`, for any number of shifts on the same axis, in every dtype. -/
theorem roll_width_independent (t : IdxTy) (kind : ShiftKind) (shape : List Int) (steps : List (Int × Int)) (n : Int)
    (shs : List Int) (c : Int) (hg : rollGuard t shape steps = true) (hkind : kind = .pyInt ∨ t.signed = true)
    (hn : n ∈ shape) (hsteps : ∀ sh ∈ shs, (sh, n) ∈ steps) (hc0 : 0 ≤ c) (hcn : c < n) :
    roll t kind shape steps n shs c = .ok (rollAxisInf n shs c) := by
  unfold roll
  rw [if_pos hg]
  unfold rollGuard at hg
  rw [Bool.and_eq_true] at hg
  have hmax := canStore_iff.mp hg.1
  have hmin := canStore_iff.mp hg.2
  have hall : ∀ x ∈ rollLimits shape steps, t.fits x := fun x hx => fits_of_listMax_listMin hmax hmin hx
  have hfn : t.fits n := hall n (by unfold rollLimits; simp [hn])
  apply rollAxis_exact t kind n shs hfn _ hkind c hc0 hcn
  intro sh hsh
  have hm := hsteps sh hsh
  constructor
  · apply hall; unfold rollLimits
    simp only [List.mem_append, List.mem_map]
    left; right; exact ⟨(sh, n), hm, rfl⟩
  · apply hall; unfold rollLimits
    simp only [List.mem_append, List.mem_map]
    right; exact ⟨(sh, n), hm, rfl⟩

/-- **roll_guard_rejects_cleanly.** When the guard fails `roll` raises `ValueError`, whatever the inputs. -/
theorem roll_guard_rejects_cleanly (t : IdxTy) (kind : ShiftKind) (shape : List Int) (steps : List (Int × Int)) (n : Int)
    (shs : List Int) (c : Int) (hg : rollGuard t shape steps = false) :
    roll t kind shape steps n shs c = .error .value := by
  unfold roll; simp [hg]

/-- the second rejection: an unsigned dtype with a broadcast (`np.int64`) shift ends in `ValueError` too,
never in a wrapped value -/
theorem roll_unsigned_np_rejects_cleanly (t : IdxTy) (shape : List Int) (steps : List (Int × Int)) (n sh : Int)
    (rest : List Int) (c : Int) (hu : t.signed = false) :
    roll t .npInt64 shape steps n (sh :: rest) c = .error .value := by
  have hstep : rollStepW t .npInt64 c sh n = .error .value := by
    unfold rollStepW rollAdd iaddNp promote
    simp only [hu, i64]
    by_cases hb : t.bits < 64
    · simp [hb, bind, Except.bind]
    · simp [hb, bind, Except.bind]
  unfold roll
  split
  · simp only [rollAxis, hstep, bind, Except.bind]
  · rfl

example : roll i8 .npInt64 [100] [(27, 100)] 100 [27] 99 = .ok 26 ∧ rollGuard i8 [100] [(27, 100)] = true := by decide
example : roll i8 .pyInt [100] [(28, 100)] 100 [28] 99 = .error .value := by decide

/-! ## W6 COO `flip` -/

/-- **flip_width_independent.** (No guard.)  For a dtype that holds the extent, `n - 1 - c` is exact. -/
theorem flip_width_independent (t : IdxTy) (n c : Int) (hn : t.fits n) (h0 : 0 ≤ c) (hc : c < n) :
    flipCoord t n c = .ok (n - 1 - c) := by
  have h1 : t.fits (n - 1) := fits_of_nonneg_le hn (by omega) (by omega)
  have h2 : t.fits (n - 1 - c) := fits_of_nonneg_le hn (by omega) (by omega)
  simp only [flipCoord, pyArr, h1, if_true, Op.eval, wrap_of_fits h2]

example : flipCoord u8 255 0 = .ok 254 := by decide

/-! ## W7 `kron`, W8 `pad`: array ∘ int64 array -/

/-- region of finding F-uint64: an unsigned 64-bit index type, which NumPy promotes with `intp` to `float64` -/
def Excluded_uint64 (t : IdxTy) : Prop := t.signed = false ∧ 64 ≤ t.bits
instance (t : IdxTy) : Decidable (Excluded_uint64 t) := by unfold Excluded_uint64; infer_instance

/-- **kron_width_independent.** For operand dtypes other than `uint64`, the coordinates `ca * nb + cb` are
computed in `intp` and are exact whenever the result's extent is addressable. -/
theorem kron_width_independent (ta tb : IdxTy) (ca nb cb : Int) (ha : ¬ Excluded_uint64 ta) (hb : ¬ Excluded_uint64 tb)
    (hba : ta.bits ≤ 64) (hbb : tb.bits ≤ 64) (hprod : intp.fits (ca * nb)) (hres : intp.fits (ca * nb + cb)) :
    kronCoord ta tb ca nb cb = some (intp, ca * nb + cb) := by
  have ha' : ta.signed = true ∨ ta.bits < 64 := by
    unfold Excluded_uint64 at ha
    cases hs : ta.signed with
    | true => left; rfl
    | false => right; rw [hs] at ha; simp at ha; omega
  have hb' : tb.signed = true ∨ tb.bits < 64 := by
    unfold Excluded_uint64 at hb
    cases hs : tb.signed with
    | true => left; rfl
    | false => right; rw [hs] at hb; simp at hb; omega
  simp only [kronCoord, arrNp, promote_intp ta ha' hba, Option.map, Op.eval, bind, Option.bind,
    promote_intp_left tb hb' hbb, wrap_of_fits hprod, wrap_of_fits hres, pure]

/-- with `uint64` coordinates the product is a `float64` array: no integer index comes out -/
theorem kron_uint64_is_float (tb : IdxTy) (ca nb cb : Int) : kronCoord u64 tb ca nb cb = none := by
  simp [kronCoord, arrNp, promote, u64, i64, bind, Option.bind]

/-- **pad_width_independent.** For a coordinates' dtype other than `uint64`, `coords + pad_before` is computed in `intp`
and is exact whenever the padded extent is addressable. -/
theorem pad_width_independent (t : IdxTy) (c before : Int) (ht : ¬ Excluded_uint64 t) (hbits : t.bits ≤ 64)
    (hres : intp.fits (c + before)) : padCoord t c before = some (intp, c + before) := by
  have ht' : t.signed = true ∨ t.bits < 64 := by
    unfold Excluded_uint64 at ht
    cases hs : t.signed with
    | true => left; rfl
    | false => right; rw [hs] at ht; simp at ht; omega
  simp only [padCoord, arrNp, promote_intp t ht' hbits, Option.map, Op.eval, wrap_of_fits hres]

/-- with `uint64` coordinates the padded coordinates are a `float64` array -/
theorem pad_uint64_is_float (c before : Int) : padCoord u64 c before = none := by
  simp [padCoord, arrNp, promote, u64, i64]

example : kronCoord u8 i8 200 100 99 = some (intp, 20099) ∧ padCoord u8 255 3 = some (intp, 258) := by decide

/-! ## W9 `triu` / `tril` -/

def Statement_triu : Prop :=
  ∀ (t : IdxTy) (c0 c1 k : Int), 0 ≤ c0 → 0 ≤ c1 → t.fits c0 → t.fits c1 →
    triuKeep t c0 c1 k = .ok (decide (c0 + k ≤ c1)) ∧ trilKeep t c0 c1 k = .ok (decide (c0 + k ≥ c1))

/-- region of finding F-triu-k: the diagonal offset, or a row coordinate plus the offset, is not
representable in the coordinates' dtype -/
def Excluded_triu (t : IdxTy) (c0 k : Int) : Prop := ¬ t.fits k ∨ ¬ t.fits (c0 + k)
instance (t : IdxTy) (c0 k : Int) : Decidable (Excluded_triu t c0 k) := by unfold Excluded_triu; infer_instance

/-- **triu_partial.** Outside the excluded region the masks of `triu` and `tril` are the true comparisons. -/
theorem triu_partial (t : IdxTy) (c0 c1 k : Int) (hex : ¬ Excluded_triu t c0 k) :
    triuKeep t c0 c1 k = .ok (decide (c0 + k ≤ c1)) ∧ trilKeep t c0 c1 k = .ok (decide (c0 + k ≥ c1)) := by
  unfold Excluded_triu at hex
  have hk : t.fits k := Classical.not_not.mp (fun h => hex (Or.inl h))
  have hs : t.fits (c0 + k) := Classical.not_not.mp (fun h => hex (Or.inr h))
  simp only [triuKeep, trilKeep, arrPy, hk, if_true, Op.eval, wrap_of_fits hs, bind, Except.bind, pure, Except.pure, and_self]

/-- `int8` coordinates, element (100, 0), `triu(x, k=100)`: `100 + 100` wraps to `-56 ≤ 0`, the element is
kept although it lies below the 100-th diagonal.  (`uint8`, `k = -1` raises `OverflowError` instead.) -/
theorem triu_counterexample : ¬ Statement_triu := by
  intro h
  have := (h i8 100 0 100 (by decide) (by decide) (by decide) (by decide)).1
  revert this
  decide

example : triuKeep u8 3 2 (-1) = .error .overflow ∧ triuKeep i8 3 2 (-1) = .ok true ∧ ¬ Excluded_triu i8 3 (-1) := by decide

/-- **triuFixed_width_independent.** With the row coordinate widened to `intp` first, the masks are exact for
every coordinates' dtype. -/
theorem triuFixed_width_independent (c0 c1 k : Int) (hc : intp.fits c0) (hk : intp.fits k) (hs : intp.fits (c0 + k)) :
    triuKeepFixed c0 c1 k = .ok (decide (c0 + k ≤ c1)) ∧ trilKeepFixed c0 c1 k = .ok (decide (c0 + k ≥ c1)) := by
  simp only [triuKeepFixed, trilKeepFixed, castTo, arrPy, hk, if_true, Op.eval, wrap_of_fits hc, wrap_of_fits hs, bind,
    Except.bind, pure, Except.pure, and_self]

/-! ## W10 GCXS index dtype (`_from_coo`, `_transpose`, `_1d_reshape`) -/

/-- **gcxs_width_independent.** Whatever index dtype is accepted or chosen for a GCXS array, every row
number, column number and `indptr` entry stored in it is exact. -/
theorem gcxs_width_independent (req : Option IdxTy) (t r : IdxTy) (rows cols nnz v : Int)
    (h : gcxsTy req t rows cols nnz = .ok (some r)) (h0 : 0 ≤ v) (hv : v ≤ rows ∨ v ≤ cols ∨ v ≤ nnz) :
    gcxsStore r v = v := by
  have hfit : r.fits (max (max rows cols) nnz) := by
    unfold gcxsTy at h
    cases req with
    | some i =>
      simp only at h
      split at h
      · rename_i hc
        cases h
        exact canStore_iff.mp hc
      · cases h
    | none =>
      simp only [Except.ok.injEq] at h
      exact getOutDtype_fits h
  unfold gcxsStore castTo
  exact wrap_of_fits (fits_of_nonneg_le hfit h0 (by omega))

/-- **gcxs_guard_rejects_cleanly.** A requested `idx_dtype` that cannot hold `max(rows, cols, nnz)` is refused
with `ValueError`. -/
theorem gcxs_guard_rejects_cleanly (i t : IdxTy) (rows cols nnz : Int) (h : canStore i (max (max rows cols) nnz) = false) :
    gcxsTy (some i) t rows cols nnz = .error .value := by
  simp only [gcxsTy, h, Bool.false_eq_true, if_false]

example : gcxsTy none i8 3 126 130 = .ok (some u8) ∧ gcxsTy (some i8) i8 3 126 130 = .error .value := by decide

/-! ## W11 GCXS `concatenate` / `stack` -/

def Statement_gcxsJoin : Prop :=
  ∀ (tp r : IdxTy) (totalNnz rows : Int), 0 ≤ totalNnz → 0 ≤ rows → joinIndptrTy tp totalNnz rows = some r →
    (∀ p off, 0 ≤ p → 0 ≤ off → p + off ≤ totalNnz → joinIndptrEntry r p off = .ok (p + off)) ∧
    (∀ i, 0 ≤ i → i < rows → uncompressRow r i = i)

/-- region of finding F-gcxs-join-rows: the joined array has more rows than its `indptr` dtype can number -/
def Excluded_gcxsJoin (r : IdxTy) (rows : Int) : Prop := ¬ r.fits rows
instance (r : IdxTy) (rows : Int) : Decidable (Excluded_gcxsJoin r rows) := by unfold Excluded_gcxsJoin; infer_instance

/-- **gcxsJoin_partial.** The `indptr` entries are always exact after the upcast the code performs; the row
numbers derived from `indptr` later are exact when the row count is representable too. -/
theorem gcxsJoin_partial (tp r : IdxTy) (totalNnz rows : Int)
    (hty : joinIndptrTy tp totalNnz rows = some r) (hex : ¬ Excluded_gcxsJoin r rows) :
    (∀ p off, 0 ≤ p → 0 ≤ off → p + off ≤ totalNnz → joinIndptrEntry r p off = .ok (p + off)) ∧
    (∀ i, 0 ≤ i → i < rows → uncompressRow r i = i) := by
  have hfit := getOutDtype_fits hty
  have hrows : r.fits rows := Classical.not_not.mp hex
  constructor
  · intro p off hp ho hle
    exact joinIndptr_exact r totalNnz hfit p off hp ho hle
  · intro i hi hlt
    exact wrap_of_fits (fits_of_nonneg_le hrows hi (by omega))

/-- two `int8` GCXS arrays of 100 rows and one stored element each: `indptr` stays `int8` (it holds 2), the
200 rows do not; row 199 is numbered `-57` -/
theorem gcxsJoin_counterexample : ¬ Statement_gcxsJoin := by
  intro h
  have := (h i8 i8 2 200 (by decide) (by decide) (by decide)).2 199 (by decide) (by decide)
  revert this
  decide

/-- **gcxsJoinFixed_width_independent.** With `needed = max(total_nnz, rows)` the full statement holds. -/
theorem gcxsJoinFixed_width_independent (tp r : IdxTy) (totalNnz rows : Int)
    (hty : joinIndptrTyFixed tp totalNnz rows = some r) :
    (∀ p off, 0 ≤ p → 0 ≤ off → p + off ≤ totalNnz → joinIndptrEntry r p off = .ok (p + off)) ∧
    (∀ i, 0 ≤ i → i < rows → uncompressRow r i = i) := by
  have hfit := getOutDtype_fits hty
  constructor
  · intro p off hp ho hle
    exact joinIndptr_exact r _ hfit p off hp ho (by omega)
  · intro i hi hlt
    exact wrap_of_fits (fits_of_nonneg_le hfit hi (by omega))

/-! ## W12 `idx_dtype=` (COO constructor, `from_numpy`, `random`) -/

/-- **idxCast_width_independent.** When the `idx_dtype` guard (`can_store(idx_dtype, max(shape))`) passes, casting a
coordinate to the requested dtype returns the coordinate. -/
theorem idxCast_width_independent (t : IdxTy) (shape : List Int) (c n : Int) (hg : canStore t (listMax shape) = true)
    (hn : n ∈ shape) (h0 : 0 ≤ c) (hc : c < n) : idxCast t shape c = .ok c := by
  have hfit := canStore_iff.mp hg
  have := le_listMax hn
  simp only [idxCast, hg, if_true, castTo, wrap_of_fits (fits_of_nonneg_le hfit h0 (by omega))]

/-- **idxCast_guard_rejects_cleanly.** When it fails the call raises `ValueError`. -/
theorem idxCast_guard_rejects_cleanly (t : IdxTy) (shape : List Int) (c : Int) (hg : canStore t (listMax shape) = false) :
    idxCast t shape c = .error .value := by
  simp [idxCast, hg]

example : idxCast u8 [3, 255] 254 = .ok 254 ∧ idxCast u8 [3, 256] 254 = .error .value := by decide

/-! ## W13 numba (un)boxing of `shape` -/

/-- **boxShape_width_independent.** Under the property's precondition (the dtype holds the shape) the shape
seen inside compiled code is the shape. -/
theorem boxShape_width_independent (t : IdxTy) (shape : List Int) (h : Holds t shape) : boxShape t shape = shape := by
  unfold boxShape
  have : shape.map (castTo t) = shape.map id := List.map_congr_left fun d hd => wrap_of_fits (h d hd)
  rw [this, List.map_id]

/-- the weaker precondition "every *coordinate* of the shape is representable" (which is all the COO
constructor needs of a user-supplied coordinate array) -/
def Statement_boxShape_coordsFit : Prop :=
  ∀ (t : IdxTy) (shape : List Int), (∀ d ∈ shape, 0 < d ∧ t.fits (d - 1)) → boxShape t shape = shape

/-- region of finding F-numba-shape: an extent that the coordinates' dtype cannot hold -/
def Excluded_boxShape (t : IdxTy) (shape : List Int) : Prop := ¬ ∀ d ∈ shape, t.fits d

/-- `COO(uint8 coords, shape=(256,))` is unboxed with shape `(0,)` -/
theorem boxShape_counterexample : ¬ Statement_boxShape_coordsFit := by
  intro h
  have := h u8 [256] (by decide)
  revert this
  decide

/-- outside the excluded region boxing preserves the shape (this is `boxShape_width_independent`) -/
theorem boxShape_partial (t : IdxTy) (shape : List Int) (hex : ¬ Excluded_boxShape t shape) : boxShape t shape = shape :=
  boxShape_width_independent t shape (Classical.not_not.mp hex)

/-- **boxShapeFixed_width_independent.** With the shape boxed as `intp` the coordinates' dtype plays no role. -/
theorem boxShapeFixed_width_independent (shape : List Int) (h : Holds intp shape) : boxShapeFixed shape = shape := by
  unfold boxShapeFixed
  have : shape.map (castTo intp) = shape.map id := List.map_congr_left fun d hd => wrap_of_fits (h d hd)
  rw [this, List.map_id]

/-! ## W14 GCXS reductions: row numbers of the regrouped array -/

def Statement_reduceRowIds : Prop := ∀ (tp : IdxTy) (rows : Nat), reduceRowIds tp rows = (List.range rows).map fun (i : Nat) => (i : Int)

/-- region of finding F-gcxs-reduce-rows: the regrouped array has more rows than the *original* array's
`indptr` dtype can number -/
def Excluded_reduceRowIds (tp : IdxTy) (rows : Nat) : Prop := ¬ tp.fits rows
instance (tp : IdxTy) (rows : Nat) : Decidable (Excluded_reduceRowIds tp rows) := by unfold Excluded_reduceRowIds; infer_instance

/-- **reduceRowIds_partial.** The row numbers are exact when the row count of the regrouped array is representable in
the original array's `indptr` dtype. -/
theorem reduceRowIds_partial (tp : IdxTy) (rows : Nat) (hex : ¬ Excluded_reduceRowIds tp rows) :
    reduceRowIds tp rows = (List.range rows).map fun (i : Nat) => (i : Int) := by
  have hfit : tp.fits rows := Classical.not_not.mp hex
  unfold reduceRowIds
  exact map_castTo_id tp rows hfit _ (fun p hp => Nat.le_of_lt (List.mem_range.mp hp))

set_option maxRecDepth 20000 in
/-- `uint8` indptr, 258 rows after regrouping: rows 256 and 257 are numbered 0 and 1 -/
theorem reduceRowIds_counterexample : ¬ Statement_reduceRowIds := by
  intro h
  have := h u8 258
  revert this
  decide

/-- **reduceRowIdsFixed_width_independent.** -/
theorem reduceRowIdsFixed_width_independent (rows : Nat) (h : intp.fits rows) :
    reduceRowIdsFixed rows = (List.range rows).map fun (i : Nat) => (i : Int) := by
  unfold reduceRowIdsFixed
  exact map_castTo_id intp rows h _ (fun p hp => Nat.le_of_lt (List.mem_range.mp hp))

/-! ## W15 GCXS `getitem` keys -/

def Statement_gcxsKey : Prop := ∀ (t : IdxTy) (k : Int), t.fits k → gcxsKey t k = .ok k

/-- region of finding F-gcxs-getitem-unsigned: an unsigned `indices` dtype -/
def Excluded_gcxsKey (t : IdxTy) : Prop := t.signed = false
instance (t : IdxTy) : Decidable (Excluded_gcxsKey t) := by unfold Excluded_gcxsKey; infer_instance

/-- **gcxsKey_partial.** For a signed `indices` dtype the keys reach the kernels unchanged. -/
theorem gcxsKey_partial (t : IdxTy) (k : Int) (hk : t.fits k) (hex : ¬ Excluded_gcxsKey t) : gcxsKey t k = .ok k := by
  unfold Excluded_gcxsKey at hex
  have hs : t.signed = true := by cases h : t.signed with
    | true => rfl
    | false => exact absurd h hex
  simp [gcxsKey, hs, castTo, wrap_of_fits hk]

/-- `uint8` indices: numba cannot type the kernel; the call dies with an internal error -/
theorem gcxsKey_counterexample : ¬ Statement_gcxsKey := by
  intro h
  have := h u8 1 (by decide)
  revert this
  decide

/-- **gcxsKeyFixed_width_independent.** With keys and flat positions in `intp` the indices' dtype plays no role. -/
theorem gcxsKeyFixed_width_independent (k : Int) (hk : intp.fits k) : gcxsKeyFixed k = .ok k := by
  simp [gcxsKeyFixed, castTo, wrap_of_fits hk]

/-- how the library itself reaches the excluded region: flattening an array of `2 ^ 32` elements whose
coordinates are `int32` (`x.sum()`, `x.reshape(-1)` of a 65536 × 65536 array) makes `reshape` choose
`np.min_scalar_type(2 ^ 32) = uint64` -/
theorem reshape_reaches_uint64 : reshapeTy i32 [4294967296] = some u64 ∧ Excluded_uint64 u64 := by decide

/-! ## W16 `uint64` index arrays -/

/-- **storedTy_fixed_not_uint64.** With the proposed fix no array keeps an unsigned 64-bit index dtype, so the
excluded region of `kron_width_independent` / `pad_width_independent` (and of everything else NumPy would
promote to `float64`) is never entered; every other dtype is kept as it is. -/
theorem storedTy_fixed_not_uint64 (t : IdxTy) :
    ¬ Excluded_uint64 (storedTy true t) ∧ (¬ Excluded_uint64 t → storedTy true t = t) := by
  unfold storedTy Excluded_uint64
  cases hs : t.signed with
  | true => simp [hs]
  | false =>
    by_cases hb : 64 ≤ t.bits
    · simp [hb, i64]
    · simp [hb]

/-- **storedCoord_width_independent.** Storing a coordinate that the given dtype holds (and that is addressable)
is exact with and without the fix. -/
theorem storedCoord_width_independent (fixed : Bool) (t : IdxTy) (c : Int) (hc : t.fits c) (h64 : intp.fits c) :
    storedCoord fixed t c = c := by
  unfold storedCoord storedTy castTo
  split
  · exact wrap_of_fits h64
  · exact wrap_of_fits hc

example : storedTy true u64 = intp ∧ storedTy false u64 = u64 ∧ storedTy true u8 = u8 ∧ Excluded_uint64 u64 := by decide

end SparseV.C15

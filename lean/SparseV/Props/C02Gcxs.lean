/-
  Property C02 — indexing agrees with NumPy: the GCXS (compressed) code path.  Property theorems only.
  Model: `SparseV.Model.GcxsIndex` (`_compressed/indexing.py`, helpers of `_compressed/convert.py`); the two `while`
  loops of `get_slicing_selection` are those of `SparseV.Model.Loops` (whose termination / memory safety are C18's).
  `GCXS.WF`, `GIx.CsrWF` state well-formedness; `Spec.GValid`, `Spec.srcOf`, `Spec.gOutShape` the NumPy side.
-/
import SparseV.Lemmas.GcxsGetitem
import SparseV.Props.C02
namespace SparseV.C02
open SparseV SparseV.Spec SparseV.COO SparseV.GIx

/-- **gcxs_tocoo_get.**  What a well-formed GCXS array means: `tocoo` (uncompress `indptr`, hand `[row, column]`
pairs to the COO constructor, reshape, transpose back) has the array's shape and fill value, well-formed duplicate-free
COO storage, and its value at an in-bounds index `i` is the value stored for column `lin % C` in row `lin / C` of the
CSR triple (`lin` = linear location of `i` after moving the compressed axes first), the fill value when the row has no
such column. -/
theorem gcxs_tocoo_get (g : GCXS Int) (c : List Nat) (hc : g.caxes = some c) (hwf : g.WF) :
    g.tocoo.shape = g.shape ∧ g.tocoo.fill = g.fill ∧ g.tocoo.WF ∧ (keysOf g.tocoo.entries).Nodup ∧
    ∀ i, InB i g.shape → g.tocoo.get i =
      rowGet (csrRow g.indptr g.indices g.data (GCXS.linOf g.shape c i / GCXS.csrC g.shape c)) g.fill
        (GCXS.linOf g.shape c i % GCXS.csrC g.shape c) :=
  GCXS.tocoo_get g c hc hwf

/-- **gcxs_kernels_agree.**  On strictly increasing rows and a strictly increasing, repeat-free list of requested
columns (the `pos_slice` guard), `get_slicing_selection` — whichever of its two `while` loops runs for a row, with the
step budget of C18 — returns exactly what `get_array_selection` returns: the same `ind_list`, `indices`, `indptr`. -/
theorem gcxs_kernels_agree (indices : List Nat) (rows : List (Nat × Nat)) (col : List Nat)
    (hrows : ∀ p ∈ rows, (rowSlice indices p.1 p.2).Pairwise (· < ·)) (hcol : col.Pairwise (· < ·)) :
    slicingSelection indices rows col = .ok (arraySelection indices rows col) := by
  rw [slicingSelection_eq indices rows col hrows hcol, arraySelection_eq indices rows col hrows]

/-- **gcxs_select_get** (the 2-d core).  On a well-formed CSR triple, for requested rows in range (any order, repeats)
and requested columns (any order and repeats on the `get_array_selection` path; strictly increasing when `pos_slice`
sends the call to `get_slicing_selection`), the selection step succeeds and returns a well-formed CSR triple of shape
`len(rows) × len(cols)` (rows sorted, `indptr` monotone from 0 to nnz) whose entry `(r', c')` is the operand's entry
`(rows[r'], cols[c'])`. -/
theorem gcxs_select_get (g : GCXS Int) (R C : Nat) (hwf : CsrWF R C g.indptr g.indices g.data.length)
    (rows cols : List Nat) (hrows : ∀ r ∈ rows, r < R) (posSlice : Bool)
    (hcols : posSlice = true → cols.Pairwise (· < ·)) :
    ∃ s dat, g.select rows cols posSlice = .ok (s, dat) ∧
      CsrWF rows.length cols.length s.indptr s.indices dat.length ∧
      ∀ (d : Int) (r' c' : Nat), r' < rows.length → c' < cols.length →
        rowGet (csrRow s.indptr s.indices dat r') d c' =
          rowGet (csrRow g.indptr g.indices g.data (rows.getD r' 0)) d (cols.getD c' 0) :=
  select_spec g R C hwf rows cols hrows posSlice hcols

/-- **gcxs_flat_spec.**  `convert_to_flat(inds, shape)` lists, in row-major order of the multi-positions, the linear
location in `shape` of the index picked from the per-axis index arrays. -/
theorem gcxs_flat_spec (A : List (List Nat)) (S : List Nat) (h : A.length = S.length) :
    convertToFlat A S = (allIdx (A.map List.length)).map fun p => ravel (pick A p) S :=
  convertToFlat_spec A S h

/-- **gcxs_getitem_get.**  For a well-formed n-d GCXS array (any admissible `compressed_axes`) and a valid normalised key
(integers, slices of any step, 1-d index arrays in any order with repeats; at least one non-integer entry), `getitem`
— full-slice shortcut, else `_getitem`: key reordering, `convert_to_flat`, `pos_slice`, one of the two kernels, the
three post-processing cases — returns an array `r` of the shape NumPy gives with the operand's fill value, and
`(tocoo r).get j = (tocoo g).get (srcOf key j)` for every in-bounds `j`; `srcOf key j` is inside the operand. -/
theorem gcxs_getitem_get (g : GCXS Int) (key : List NIx) (hwf : g.WF) (hv : GValid key g.shape)
    (ho : key.any keyOut = true) :
    ∃ r, g.getitemN key = .ok (.arr r) ∧ r.shape = gOutShape key ∧ r.fill = g.fill ∧
      r.tocoo.shape = gOutShape key ∧ r.tocoo.fill = g.fill ∧
      ∀ j, InB j (gOutShape key) → InB (srcOf key j) g.shape ∧ r.tocoo.get j = g.tocoo.get (srcOf key j) := by
  obtain ⟨r, h1, h2, h3, _, h5, h6, h7⟩ := GCXS.getitemN_spec g key hwf hv ho
  exact ⟨r, h1, h2, h3, h5, h6, h7⟩

/-- **gcxs_getitem_wf.**  Under the same hypotheses the result is again well-formed: `GCXS.WF` (compressed axes
admissible, `indptr` monotone of length rows+1 from 0 to nnz, column numbers in range and strictly increasing within
each row) for a result of rank ≥ 2, `GCXS.WF1` (strictly increasing in-range positions) for a 1-d result. -/
theorem gcxs_getitem_wf (g : GCXS Int) (key : List NIx) (hwf : g.WF) (hv : GValid key g.shape)
    (ho : key.any keyOut = true) :
    ∃ r, g.getitemN key = .ok (.arr r) ∧ (r.WF ∨ r.WF1) := by
  obtain ⟨r, h1, _, _, h4, _⟩ := GCXS.getitemN_spec g key hwf hv ho
  exact ⟨r, h1, h4⟩

/-- **gcxs_getitem_scalar.**  An all-integer valid key returns the scalar stored at those integers
(`get_single_element`: one binary search in the row), the fill value when nothing is stored there. -/
theorem gcxs_getitem_scalar (g : GCXS Int) (key : List NIx) (hwf : g.WF) (hv : GValid key g.shape)
    (ho : key.any keyOut = false) :
    g.getitemCore key = .ok (.scalar (g.tocoo.get (srcOf key []))) ∧ InB (srcOf key []) g.shape :=
  GCXS.getitemCore_scalar g key hwf hv ho

/-- **gcxs_getitem_eq_coo.**  For basic keys (no index arrays) the GCXS path and the COO path of `Props/C02`
(`getitemN_get`) agree element for element: with `x = tocoo g`, both results have shape `outShape key` and
`(tocoo r).get j = r'.get j = x.get (compose key j)`. -/
theorem gcxs_getitem_eq_coo (g : GCXS Int) (key : List NIx) (le : Bool) (hwf : g.WF) (hv : GValid key g.shape)
    (hn : NoArr key) (ho : key.any keyOut = true) :
    ∃ (r : GCXS Int) (r' : COO Int), g.getitemN key = .ok (.arr r) ∧ g.tocoo.getitemN key le = .arr r' ∧
      r.tocoo.shape = r'.shape ∧ r.tocoo.fill = r'.fill ∧
      ∀ j, InB j r'.shape → r.tocoo.get j = r'.get j := by
  obtain ⟨hvi, hsh, hho, hsrc⟩ := GCXS.basic_key_facts key g.shape hv hn
  cases hc : g.caxes with
  | none => unfold GCXS.WF at hwf; rw [hc] at hwf; exact absurd hwf (by simp)
  | some c =>
    obtain ⟨t1, t2, t3, t4, _⟩ := GCXS.tocoo_get g c hc hwf
    obtain ⟨r, h1, _, _, h5, h6, h7⟩ := gcxs_getitem_get g key hwf hv ho
    obtain ⟨r', k1, k2, k3, k4⟩ := getitemN_get g.tocoo key le t3 t4 (by rw [t1]; exact hvi) (by rw [hho]; exact ho)
    refine ⟨r, r', h1, k1, by rw [h5, k2, hsh], by rw [h6, k3, t2], fun j hj => ?_⟩
    have hj' : InB j (gOutShape key) := by rw [hsh, ← k2]; exact hj
    rw [(h7 j hj').2, (k4 j hj).2, hsrc j hj']

/-! ### non-vacuity -/

/-- a 2×3×4 array with `compressed_axes = (0, 2)`: 8 rows (axes 0 and 2), 3 columns (axis 1); five stored elements -/
def gA : GCXS Int :=
  { shape := [2, 3, 4], caxes := some [0, 2], indptr := [0, 1, 1, 3, 3, 3, 4, 4, 5], indices := [1, 0, 2, 1, 0],
    data := [5, 7, 9, 11, 13], fill := 0 }

/-- `gA` is well-formed, the key `[::-1, ::-1, [3, 0, 3]]` (negative steps on a compressed and on the uncompressed
axis, an unsorted index array with a repeat on a compressed axis) is valid, and the model returns the well-formed
2×3×3 array with `compressed_axes = (0, 2)` that the real code returns. -/
example : gA.WF ∧ GValid [.slice 1 (-1) (-1), .slice 2 (-1) (-1), .arr [3, 0, 3]] gA.shape ∧
    ([NIx.slice 1 (-1) (-1), .slice 2 (-1) (-1), .arr [3, 0, 3]].any keyOut = true) ∧
    (match gA.getitemN [.slice 1 (-1) (-1), .slice 2 (-1) (-1), .arr [3, 0, 3]] with
      | .ok (.arr r) => decide (r.shape = [2, 3, 3] ∧ r.caxes = some [0, 2] ∧ r.indptr = [0, 1, 1, 2, 2, 3, 3] ∧
          r.indices = [2, 2, 1] ∧ r.data = [13, 13, 5] ∧ r.WF)
      | _ => false) = true := by decide

/-- … and the theorem then gives its values: `r[t, u, v] = gA[1 - t, 2 - u, [3,0,3][v]]` -/
example : ∃ r, gA.getitemN [.slice 1 (-1) (-1), .slice 2 (-1) (-1), .arr [3, 0, 3]] = .ok (.arr r) ∧
    r.tocoo.get [0, 2, 0] = gA.tocoo.get [1, 0, 3] ∧ r.tocoo.get [1, 1, 1] = gA.tocoo.get [0, 1, 0] := by
  obtain ⟨r, h1, _, _, _, _, h7⟩ :=
    gcxs_getitem_get gA [.slice 1 (-1) (-1), .slice 2 (-1) (-1), .arr [3, 0, 3]] (by decide) (by decide) (by decide)
  refine ⟨r, h1, ?_, ?_⟩
  · exact (h7 [0, 2, 0] (by decide)).2
  · exact (h7 [1, 1, 1] (by decide)).2

/-- the `pos_slice` path on the same array: `gA[:, 1:3, 2]` (only positive steps) goes through `get_slicing_selection` -/
example : GValid [.slice 0 2 1, .slice 1 3 1, .int 2] gA.shape ∧
    (GCXS.keyRowsCols gA.shape [0, 2] [.slice 0 2 1, .slice 1 3 1, .int 2]) = ([2, 6], [1, 2], true) ∧
    (match gA.getitemN [.slice 0 2 1, .slice 1 3 1, .int 2] with
      | .ok (.arr r) => decide (r.shape = [2, 2] ∧ r.caxes = some [0] ∧ r.indptr = [0, 1, 1] ∧ r.indices = [1] ∧ r.data = [9])
      | _ => false) = true := by decide

/-- an all-integer key: `gA[1, 1, 1] = 11` -/
example : GValid [.int 1, .int 1, .int 1] gA.shape ∧
    (match gA.getitemCore [.int 1, .int 1, .int 1] with | .ok (.scalar v) => decide (v = 11) | _ => false) = true := by
  decide

end SparseV.C02

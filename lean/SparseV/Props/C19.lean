/-
  Property C19 — creation functions and random() deliver exactly what was requested.
  Property theorems only (helper lemmas: SparseV.Lemmas.Create).

  `eye` theorems are stated over the definitions GENERATED from `_common.py:eye` (`Gen.eyeLen`,
  `Gen.eyeCoord`), the `random` theorems over the GENERATED sampler selection `Gen.randomBranch` of
  `_utils.py:random`: editing those functions changes what is proved here.  `algA`, `algD`, `reverse` are the
  hand models of SparseV.Model.Create; every floating-point decision in them is an ORACLE and the theorems
  hold FOR EVERY ORACLE subject only to `Spec.OracleOK` (three sign/range facts, asserted on each recorded
  run of the real code by the harness).  Outside these theorems: the distribution of the sample, and that
  algD terminates with probability one (here: an exhausted oracle is `Err.hang`, and nothing else can go wrong).
-/
import SparseV.Lemmas.Create
namespace SparseV.C19
open SparseV SparseV.COO SparseV.Create SparseV.Spec

/-! ### eye -/

/-- **eye_get.** For ALL `N`, `M` (given or defaulted to `N`), `k` — zero extents and `|k| ≥ N` or `M`
included — the element `(i, j)` of `eye(N, M, k)` is 1 on the `k`-th diagonal and 0 elsewhere (`np.eye`);
the shape is `(N, M)` and the fill value 0. -/
theorem eye_get (N : Nat) (M : Option Nat) (k : Int) (i j : Nat) (hi : i < N) (hj : j < M.getD N) :
    (eye N M k).get [i, j] = eyeVal k i j ∧ (eye N M k).shape = [N, M.getD N] ∧ (eye N M k).fill = 0 := by
  cases M with
  | none =>
    simp only [Option.getD] at hj
    refine ⟨?_, ?_, ?_⟩
    · simp only [eye, eyeLen_none]; exact eyeCore_get N N k i j hi hj
    · simp only [eye, eyeCore, zeros, full, Option.getD]; split <;> rfl
    · simp only [eye, eyeCore, zeros, full]; split <;> rfl
  | some m =>
    simp only [Option.getD] at hj
    refine ⟨?_, ?_, ?_⟩
    · simp only [eye]; exact eyeCore_get N m k i j hi hj
    · simp only [eye, eyeCore, zeros, full, Option.getD]; split <;> rfl
    · simp only [eye, eyeCore, zeros, full]; split <;> rfl

/-- **eye_canonical.** The result of `eye` is canonical (every stored coordinate inside the shape,
coordinates strictly increasing in row-major order) although the constructor is called with
`sorted=True, has_duplicates=False` and runs no pass; and every stored value is 1 (none equals the fill). -/
theorem eye_canonical (N : Nat) (M : Option Nat) (k : Int) :
    (eye N M k).Canonical ∧ ∀ e ∈ (eye N M k).entries, e.2 = 1 := by
  have hones : ∀ (N M : Nat) (L : Int), ∀ e ∈ (eyeCore N M L k).entries, e.2 = 1 := by
    intro N M L e he
    unfold eyeCore at he
    split at he
    · simp [zeros, full] at he
    · simp only [eyeEntries, List.mem_map] at he
      obtain ⟨t, _, rfl⟩ := he
      rfl
  cases M with
  | none =>
    simp only [eye, eyeLen_none]
    exact ⟨⟨eyeCore_wf N N k, eyeCore_sorted N N _ k⟩, hones N N _⟩
  | some m =>
    simp only [eye]
    exact ⟨⟨eyeCore_wf N m k, eyeCore_sorted N m _ k⟩, hones N m _⟩

/-- **eye_nnz.** `eye` stores exactly one element per row whose diagonal column `i + k` exists:
`nnz = #{ i < N | 0 ≤ i + k < M }` (0 when the diagonal misses the matrix). -/
theorem eye_nnz (N : Nat) (M : Option Nat) (k : Int) :
    (eye N M k).nnz
      = ((List.range N).filter fun (i : Nat) => decide (0 ≤ (i : Int) + k ∧ (i : Int) + k < (M.getD N : Nat))).length := by
  cases M with
  | none => simp only [eye, eyeLen_none, Option.getD]; exact eyeCore_nnz N N k
  | some m => simp only [eye, Option.getD]; exact eyeCore_nnz N m k

/-- non-vacuity: a 3×4 matrix, first super-diagonal; a diagonal that misses the matrix; a zero extent -/
example : (eye 3 (some 4) 1).get [1, 2] = 1 ∧ (eye 3 (some 4) 1).get [1, 1] = 0 ∧ (eye 3 (some 4) 1).nnz = 3
    ∧ (eye 3 none (-3)).nnz = 0 ∧ (eye 0 (some 2) 0).nnz = 0 ∧ (eye 4 (some 2) (-3)).keys = [[3, 0]] := by decide

/-! ### full / zeros / ones / empty / *_like -/

/-- **full_get.** `full(shape, v)` has the requested shape, reads `v` at every index, stores nothing and is
canonical; `zeros`, `ones`, `empty` are the instances `v = 0, 1, 0`. -/
theorem full_get {α : Type} (shape : List Nat) (v : α) (i : Idx) :
    (full shape v).get i = v ∧ (full shape v).shape = shape ∧ (full shape v).fill = v ∧
    (full shape v).nnz = 0 ∧ (full shape v).Canonical := by
  refine ⟨by simp [full, COO.get], rfl, rfl, rfl, ?_, ?_⟩
  · intro e he; simp [full] at he
  · simp [full, COO.keys]

theorem zeros_ones_empty_get (shape : List Nat) (i : Idx) :
    (zeros shape).get i = 0 ∧ (ones shape).get i = 1 ∧ (empty shape).get i = 0 ∧
    (zeros shape).shape = shape ∧ (ones shape).shape = shape ∧ (empty shape).shape = shape := by
  simp [zeros, ones, empty, full, COO.get]

/-- **like_shape_fill.** `full_like(a, v, shape=None)` takes the shape of `a` unless one is given, reads `v`
everywhere and ignores the contents and the fill value of `a`. -/
theorem like_shape_fill {α β : Type} (a : COO β) (v : α) (shape : Option (List Nat)) (i : Idx) :
    (fullLike a v shape).shape = shape.getD a.shape ∧ (fullLike a v shape).get i = v ∧
    (fullLike a v shape).nnz = 0 := by
  cases shape <;> simp [fullLike, full, COO.get, COO.nnz]

example : (full [2, 3] (7 : Int)).get [1, 2] = 7 ∧ (onesLike (full [2, 3] (7 : Int)) none).shape = [2, 3]
    ∧ (zerosLike (full [2, 3] (7 : Int)) (some [4])).shape = [4] := by decide

/-! ### the samplers, for every oracle -/

/-- **algA_inv.** For every sequence of skip requests `r` (no constraint at all) and every last sample
`0 ≤ last < N_final`, `algA(n, N)` with `1 ≤ n ≤ N` returns exactly `n` strictly increasing indices in
`[0, N)`. -/
theorem algA_inv (n N : Int) (hn : 1 ≤ n) (hN : n ≤ N) (r : Nat → Nat) (last : Int)
    (hl0 : 0 ≤ last) (hl1 : last < algAFinalN n N r) :
    ∃ arr, algA n N r last = .ok arr ∧ IsSample n N arr :=
  let ⟨arr, h, a, b, c⟩ := algA_ok n N hn hN r last hl0 hl1
  ⟨arr, h, a, b, c⟩

/-- the constraint on `last` is always satisfiable: the population left after the loop is at least 1 -/
theorem algA_oracle_satisfiable (n N : Int) (hn : 1 ≤ n) (hN : n ≤ N) (r : Nat → Nat) :
    1 ≤ algAFinalN n N r := algAFinalN_pos n N hn hN r

/-- **algD_inv.** For every candidate list with non-negative `S` (guard results and accept bits arbitrary):
if `algD(n, N)` returns, it returns exactly `n ≥ 1` strictly increasing indices in `[0, N - 1)` (so also in
`[0, N)`) and has consumed a prefix of the oracle; the only other outcome for `n ≥ 1` is `hang`
(oracle exhausted). -/
theorem algD_inv (n N : Int) (o : List Cand) (ho : ∀ c ∈ o, 0 ≤ c.1) :
    (∀ arr o', algD n N o = .ok (arr, o') → IsSample n N arr ∧ (∀ x ∈ arr, x < N - 1) ∧ ∀ c ∈ o', c ∈ o) ∧
    (∀ e, 1 ≤ n → algD n N o = .error e → e = .hang) := by
  refine ⟨fun arr o' h => ?_, fun e hn h => algD_error n N hn o e h⟩
  obtain ⟨a, _, b, c, d⟩ := algD_spec n N o ho arr o' h
  exact ⟨⟨a, b, fun x hx => ⟨(c x hx).1, by have := (c x hx).2; omega⟩⟩, fun x hx => (c x hx).2, d⟩

/-- **reverse_spec.** On a strictly increasing list `inv` of indices of `[0, N)`, `reverse(inv, N)` returns
the complement: strictly increasing, containing exactly the indices of `[0, N)` not in `inv`, of length
`N - len(inv)`. -/
theorem reverse_spec (inv : List Int) (N : Int) (hN : 0 ≤ N) (hp : inv.Pairwise (· < ·))
    (hr : ∀ v ∈ inv, 0 ≤ v ∧ v < N) :
    ∃ out, reverse inv N = .ok out ∧ out.Pairwise (· < ·) ∧ (∀ x, x ∈ out ↔ (0 ≤ x ∧ x < N ∧ x ∉ inv)) ∧
      (out.length : Int) + inv.length = N := reverse_ok inv N hN hp hr

/-- non-vacuity: algA with clamped requests, algD with a guard failure and a rejection, a hang, a complement,
and `reverse` losing nothing at the end of the range -/
example : algA 3 10 (fun t => [2, 9].getD t 0) 0 = .ok [2, 8, 9] ∧ algAFinalN 3 10 (fun t => [2, 9].getD t 0) = 1
    ∧ algD 3 20 [(5, true), (30, true), (2, false), (3, true), (1, true)] = .ok ([5, 9, 11], [])
    ∧ (algD 2 20 [(1, true), (25, true)]).toOption = none
    ∧ reverse [1, 3, 4] 6 = .ok [0, 2, 5] ∧ reverse [0] 3 = .ok [1, 2] ∧ reverse [3, 1] 6 = .error .index := by decide

/-! ### random -/

/-- **random_branch_total.** For `0 ≤ nnz ≤ elements` the generated selection returns one of the seven
leaves, with the population `elements`, and calls every sampler inside its domain: `arange` only when
`nnz = elements`; `choice` with size 0 or 1 only; algD with `1 ≤ n < N`; algA with `1 ≤ n ≤ N`; the
complemented samplers with `n = elements - nnz`.  (The `10 ×` thresholds that choose between algA and algD are
performance choices; they are not part of the statement.) -/
theorem random_branch_total (nnz elements : Int) (dge1 : Bool) (h0 : 0 ≤ nnz) (h1 : nnz ≤ elements)
    (hd : dge1 = true → nnz = elements) :
    (Gen.randomBranch nnz elements dge1 = (0, nnz, elements) ∧ nnz = elements) ∨
    (Gen.randomBranch nnz elements dge1 = (1, nnz, elements) ∧ nnz < 2 ∧ nnz < elements) ∨
    (Gen.randomBranch nnz elements dge1 = (2, elements - nnz, elements) ∧ 2 ≤ nnz ∧ elements - nnz = 1) ∨
    (Gen.randomBranch nnz elements dge1 = (3, elements - nnz, elements) ∧ 1 ≤ elements - nnz ∧ 1 ≤ nnz) ∨
    (Gen.randomBranch nnz elements dge1 = (4, elements - nnz, elements) ∧ 1 ≤ elements - nnz ∧ 0 ≤ nnz) ∨
    (Gen.randomBranch nnz elements dge1 = (5, nnz, elements) ∧ 1 ≤ nnz ∧ 1 ≤ elements - nnz) ∨
    (Gen.randomBranch nnz elements dge1 = (6, nnz, elements) ∧ 1 ≤ nnz ∧ 0 ≤ elements - nnz) :=
  randomBranch_cases nnz elements dge1 h0 h1 hd

/-- **random_count_distinct_inrange.** For `0 ≤ nnz ≤ elements` (and `density ≥ 1` only together with
`nnz = elements`), FOR EVERY ORACLE satisfying `OracleOK`, whichever of the branches the generated selection
takes: if `random` gets an index list at all, it has exactly `nnz` entries, strictly increasing (hence distinct)
and inside `[0, elements)`; and the only way not to get one is algD not terminating within the oracle. -/
theorem random_count_distinct_inrange (nnz elements : Int) (dge1 : Bool) (o : Oracle)
    (h0 : 0 ≤ nnz) (h1 : nnz ≤ elements) (hd : dge1 = true → nnz = elements) (ok : OracleOK nnz elements dge1 o) :
    (∀ ind, randomIdx nnz elements dge1 o = .ok ind → IsSample nnz elements ind) ∧
    (∀ e, randomIdx nnz elements dge1 o = .error e → e = .hang) :=
  random_idx nnz elements dge1 o h0 h1 hd ok

/-- **random_coo_canonical.** The array `random` returns — constructor with default flags on the flat
index list, then `reshape(shape)` — has the requested shape and fill value, exactly `nnz` stored elements,
is canonical in the requested shape (in-range coordinates, strictly increasing in row-major order), and its
stored values are exactly the supplied `data_rvs(nnz)` in order. -/
theorem random_coo_canonical {α : Type} [Add α] [DecidableEq α] (shape : List Nat) (nnz : Int) (dge1 : Bool)
    (o : Oracle) (data : List α) (fill : α) (h0 : 0 ≤ nnz) (h1 : nnz ≤ (prod shape : Nat))
    (hd : dge1 = true → nnz = (prod shape : Nat)) (ok : OracleOK nnz (prod shape : Nat) dge1 o)
    (x : COO α) (h : random shape nnz dge1 o data fill = .ok x) :
    x.shape = shape ∧ x.fill = fill ∧ x.nnz = nnz.toNat ∧ x.Canonical ∧ x.vals = data :=
  random_coo shape nnz dge1 o data fill h0 h1 hd ok x h

/-- `random` returns an array whenever the sampler returns and `data_rvs` delivers as many values as indices
(so the hypothesis of `random_coo_canonical` is satisfiable exactly then) -/
theorem random_returns {α : Type} [Add α] [DecidableEq α] (shape : List Nat) (nnz : Int) (dge1 : Bool)
    (o : Oracle) (data : List α) (fill : α) (ind : List Int)
    (hi : randomIdx nnz (prod shape : Nat) dge1 o = .ok ind) (hl : ind.length = data.length) :
    ∃ x, random shape nnz dge1 o data fill = .ok x := by
  unfold random
  rw [hi]
  simp [hl]

/-- non-vacuity: an admissible oracle on the algA branch (6), the reverse∘algA branch (4) and the algD branch
(5, with a guard failure and a rejection), the index lists they produce, and an array that exists -/
def exO : Oracle := { choice := 0, skipsA := fun t => [1, 4, 0, 2].getD t 1, lastA := 0, candD := [(7, true), (50, true), (2, false), (3, true)] }
example : OracleOK 3 10 false exO ∧ randomIdx 3 10 false exO = .ok [1, 6, 7]
    ∧ OracleOK 7 10 false exO ∧ randomIdx 7 10 false exO = .ok [0, 2, 3, 4, 5, 8, 9]
    ∧ OracleOK 2 40 false exO ∧ randomIdx 2 40 false exO = .ok [7, 11] := by
  decide
example : ∃ x, random [2, 5] 3 false exO [10, 20, 30] (0 : Int) = .ok x :=
  random_returns [2, 5] 3 false exO [10, 20, 30] 0 [1, 6, 7] (by decide) (by decide)

end SparseV.C19

/-
  Property C16 — sparse stays sparse.  Property theorems only.
  Every theorem is about the cost semantics `SparseV.Cost` (cells written by the algorithm of the code,
  transcribed in `Model/Cost.lean`); bytes and seconds are runtime facts measured by the harness.
  "cells" of a COO array with `n` stored elements in `d` dimensions: `(d + 1) · n`; "frame": Σ shape + ndim.
-/
import SparseV.Lemmas.Cost
import SparseV.Lemmas.Big
namespace SparseV.C16
open SparseV

variable {α : Type}

/-! ## operations whose cost is linear in the stored cells -/

/-- **transpose_cost_bound.** K = 4. -/
theorem transpose_cost_bound (x : COO α) (axes : List Nat) :
    Cost.transpose x axes ≤ 4 * (x.cells + (x.transposeCore axes).cells + x.frame) := by
  unfold Cost.transpose Cost.sort COO.cells
  split
  · omega
  · simp only [Nat.add_mul, Nat.mul_add, Nat.one_mul]; omega

/-- **reshape_cost_bound.** K = 1: `reshape` writes exactly the cells of its result. -/
theorem reshape_cost_bound (x : COO α) (s : List Nat) :
    Cost.reshape x s ≤ 1 * (x.cells + (x.reshapeCore s).cells + x.frame) := by
  unfold Cost.reshape COO.cells
  rw [COO.reshapeCore_nnz, COO.reshapeCore_shape]
  split
  · omega
  · simp only [Nat.add_mul, Nat.mul_add, Nat.one_mul]; omega

/-- **flip_cost_bound.** K = 10 (validated axes: at most one per dimension). -/
theorem flip_cost_bound (x : COO α) (axes : List Nat) (h : axes.length ≤ x.shape.length) :
    Cost.flip x axes ≤ 10 * (x.cells + (x.flipCore axes).cells + x.frame) := by
  unfold Cost.flip Cost.sort Cost.sumDup COO.cells
  have := Nat.mul_le_mul_right x.nnz h
  simp only [Nat.add_mul, Nat.mul_add, Nat.one_mul]; omega

/-- **roll_cost_bound.** K = 6. -/
theorem roll_cost_bound (x : COO α) (axes : List Nat) (shifts : List Int) (h : axes.length ≤ x.shape.length) :
    Cost.roll x axes ≤ 6 * (x.cells + (x.rollCore axes shifts).cells + x.frame) := by
  unfold Cost.roll Cost.sort COO.cells
  have := Nat.mul_le_mul_right x.nnz h
  simp only [Nat.add_mul, Nat.mul_add, Nat.one_mul, Nat.mul_assoc]; omega

/-- **squeeze_cost_bound.** K = 1. -/
theorem squeeze_cost_bound (x : COO α) (axes : List Nat) :
    Cost.squeeze x axes ≤ 1 * (x.cells + (x.squeezeCore axes).cells + x.frame) := by
  unfold Cost.squeeze COO.cells
  rw [COO.squeezeCore_nnz]
  simp only [COO.squeezeCore, Nat.add_mul, Nat.one_mul]; omega

/-- **expand_dims_cost_bound.** K = 1. -/
theorem expand_dims_cost_bound (x : COO α) (p : Nat) :
    Cost.expandDims x ≤ 1 * (x.cells + (x.expandDimsCore p).cells + x.frame) := by
  unfold Cost.expandDims COO.cells
  rw [COO.expandDimsCore_nnz]
  simp only [COO.expandDimsCore, COO.insertAt_length, Nat.add_mul, Nat.one_mul]; omega

/-- **getitem_basic_cost_bound.** K = 5, for every index made of integers, slices and `None` and every result `r`
(in particular the model's `x.getitemN idx`). -/
theorem getitem_basic_cost_bound (x : COO α) (idx : List NIx) (r : COO α) :
    Cost.getitemBasic x idx r ≤ 5 * (x.cells + r.cells + x.frame) := by
  unfold Cost.getitemBasic Cost.mask Cost.sort COO.cells
  split <;> grind

/-- **elemwise1_cost_bound.** K = 2. -/
theorem elemwise1_cost_bound (x r : COO α) (h : r.shape.length = x.shape.length) :
    Cost.elemwise1 x r ≤ 2 * (x.cells + r.cells + x.frame) := by
  unfold Cost.elemwise1 COO.cells
  rw [h]
  simp only [Nat.add_mul, Nat.mul_add, Nat.one_mul]; omega

/-- **elemwise2_cost_bound.** K = 7: two COO operands with `nA`, `nB` stored elements in `d` dimensions, `nOut` in the result. -/
theorem elemwise2_cost_bound (d nA nB nOut : Nat) :
    Cost.elemwise2 d nA nB nOut ≤ 7 * ((d + 1) * nA + (d + 1) * nB + (d + 1) * nOut) := by
  unfold Cost.elemwise2 Cost.sort
  simp only [Nat.add_mul, Nat.mul_add, Nat.one_mul]; omega

/-- **elemwise_mixed_cost_bound.** K = 3: a mixed sparse–dense element-wise operation writes at most three times (stored cells in + stored
cells out + the number of elements of the dense operands' own broadcast shape `D`).  The bound is in `D`, NOT in the broadcast shape of
the result: a `(10^6)^3` array times a vector of length `10^6` costs a few million cells, not `10^18`. -/
theorem elemwise_mixed_cost_bound (d n m D : Nat) :
    Cost.elemwiseMixed d n m D ≤ 3 * ((d + 1) * n + (d + 1) * m + D) := by
  unfold Cost.elemwiseMixed
  simp only [Nat.add_mul, Nat.mul_add, Nat.one_mul]; omega

/-- 300 stored elements of a `(10^6)^3` array scaled along the last axis by a dense vector of length `10^6`: 2 002 100 cells -/
example : Cost.elemwiseMixed 3 300 300 1000000 = 2002100 := by decide

/-- **reduce_cost_bound.** K = 20, for `kept ++ axes` a split of the axes (`kept.length ≤ ndim`), `g ≤ nnz` groups,
`m ≤ g` of which survive pruning. -/
theorem reduce_cost_bound (x : COO Int) (kept axes : List Nat) (g m : Nat) (hk : kept.length ≤ x.shape.length)
    (hg : g ≤ x.nnz) (hm : m ≤ g) :
    Cost.reduce x kept axes g m ≤ 20 * (x.cells + x.frame) := by
  unfold Cost.reduce Cost.reshape Cost.prune
  have ht := transpose_cost_bound x (kept ++ axes)
  simp only [COO.transposeCore_nnz] at ht ⊢
  have hT : Cost.transpose x (kept ++ axes) ≤ 4 * ((x.shape.length + 1) * x.nnz) := by
    unfold Cost.transpose Cost.sort
    split
    · omega
    · simp only [Nat.add_mul, Nat.mul_add, Nat.one_mul]; omega
  have h1 := Nat.mul_le_mul_left kept.length (Nat.le_trans hm hg)
  have h2 := Nat.mul_le_mul_right x.nnz hk
  have h3 := Nat.mul_le_mul_left x.shape.length (Nat.le_trans hm hg)
  unfold COO.cells
  split <;> (simp only [List.length_cons, List.length_nil, Nat.add_mul, Nat.mul_add, Nat.one_mul] at *; omega)

/-- **concat_cost_bound.** K = 6 per input cell. -/
theorem concat_cost_bound (d N axis : Nat) : Cost.concat d N axis ≤ 6 * ((d + 1) * N) := by
  unfold Cost.concat Cost.sort
  split <;> (simp only [Nat.add_mul, Nat.mul_add, Nat.one_mul]; omega)

/-- **stack_cost_bound.** K = 8. -/
theorem stack_cost_bound (d N axis : Nat) : Cost.stack d N axis ≤ 8 * ((d + 1) * N) := by
  unfold Cost.stack Cost.sort
  split <;> (simp only [Nat.add_mul, Nat.mul_add, Nat.one_mul]; omega)

/-- **tri_cost_bound.** K = 1 (`triu`, `tril`). -/
theorem tri_cost_bound (x r : COO α) (h : r.shape.length = x.shape.length) :
    Cost.tri x r ≤ 1 * (x.cells + r.cells + x.frame) := by
  unfold Cost.tri COO.cells
  rw [h]
  simp only [Nat.add_mul, Nat.mul_add, Nat.one_mul]; omega

/-- **diagonal_cost_bound.** K = 12, `s ≤ nnz` entries on the diagonal. -/
theorem diagonal_cost_bound (x : COO α) (s : Nat) (hs : s ≤ x.nnz) :
    Cost.diagonal x s ≤ 12 * (x.cells + x.frame) := by
  unfold Cost.diagonal Cost.sort Cost.sumDup COO.cells
  have h1 : (x.shape.length - 1) * s ≤ x.shape.length * x.nnz :=
    Nat.mul_le_mul (Nat.sub_le _ _) hs
  simp only [Nat.add_mul, Nat.mul_add, Nat.one_mul]; omega

/-- **tocoo_cost_bound.** K = 21: `GCXS.tocoo` writes a multiple of the cells of its COO result. -/
theorem tocoo_cost_bound (g : GCXS α) : Cost.tocoo g ≤ 21 * ((g.shape.length + 1) * g.data.length) := by
  unfold Cost.tocoo Cost.sort Cost.sumDup
  simp only [Nat.add_mul, Nat.mul_add, Nat.one_mul]; omega

/-- **from_coo_cost_bound.** K = 7: GCXS with a SINGLE compressed axis `c`: `indptr` has `shape[c] + 1 ≤ Σ shape + 1` cells. -/
theorem from_coo_cost_bound (x : COO α) (c : Nat) (hd : 1 ≤ x.shape.length) :
    Cost.fromCoo x [c] ≤ 7 * (x.cells + x.frame) := by
  unfold Cost.fromCoo COO.cells COO.frame
  have := getD_le_lsum x.shape c
  simp only [COO.gather, List.map_cons, List.map_nil, prod, Nat.mul_one, Nat.add_mul, Nat.mul_add, Nat.one_mul]; omega

/-- **dot_csr_csr_cost_bound.** K = 5: the sparse–sparse product kernels `_dot_csr_csr` / `_dot_coo_coo` for an
`nRow × nCol` result with `nnzOut` stored elements and `work` (a-entry, b-entry) products write at most
`5 · (nnzOut + work + nRow + nCol + 2)` cells — no term in `nRow · nCol` (the scratch arrays `next_`/`sums` are allocated
once and restored entry by entry). -/
theorem dot_csr_csr_cost_bound (nRow nCol nnzOut work : Nat) :
    Cost.dotCsrCsr nRow nCol nnzOut work ≤ 5 * (nnzOut + work + nRow + nCol + 2) := by
  unfold Cost.dotCsrCsr; omega

/-- the full statement for the sparse–sparse product kernels: linear in stored elements out, products and the frame -/
def Statement_dot_csr_csr : Prop :=
  ∃ K : Nat, ∀ nRow nCol nnzOut work : Nat, Cost.dotCsrCsr nRow nCol nnzOut work ≤ K * (nnzOut + work + nRow + nCol + 2)

/-- **statement_dot_csr_csr.** The full statement holds (it was false of the code before the per-row reset
`next_[:] = -1` was removed: two empty `m × m` operands cost more than `m²`). -/
theorem statement_dot_csr_csr : Statement_dot_csr_csr := ⟨5, dot_csr_csr_cost_bound⟩

/-- two `(10^6)^2` operands, 400 stored elements in the result, 500 products: 4 004 001 cells (`10^12` more before the repair) -/
example : Cost.dotCsrCsr 1000000 1000000 400 500 = 4004001 := by decide

/-! ## the bundle -/

/-- one call of a modelled operation, with the sizes the cost depends on (results `r`, group counts `g`, survivors `m`
are those of the model's evaluation; the theorem holds for any values satisfying `Admissible`) -/
inductive Op where
  | transpose (x : COO Int) (axes : List Nat)
  | reshape (x : COO Int) (shape : List Nat)
  | flip (x : COO Int) (axes : List Nat)
  | roll (x : COO Int) (axes : List Nat) (shifts : List Int)
  | squeeze (x : COO Int) (axes : List Nat)
  | expandDims (x : COO Int) (pos : Nat)
  | getitem (x : COO Int) (idx : List NIx) (r : COO Int)
  | elemwise1 (x r : COO Int)
  | elemwise2 (d nA nB nOut : Nat)
  | reduce (x : COO Int) (kept axes : List Nat) (g m : Nat)
  | concat (d N axis : Nat)
  | stack (d N axis : Nat)
  | tri (x r : COO Int)
  | diagonal (x : COO Int) (s : Nat)
  | tocoo (g : GCXS Int)
  | fromCoo1 (x : COO Int) (c : Nat)
  | dotCsrCsr (nRow nCol nnzOut work : Nat)
  | elemwiseMixed (d n m D : Nat)

namespace Op
/-- cells written -/
def cost : Op → Nat
  | transpose x a => Cost.transpose x a
  | reshape x s => Cost.reshape x s
  | flip x a => Cost.flip x a
  | roll x a _ => Cost.roll x a
  | squeeze x a => Cost.squeeze x a
  | expandDims x _ => Cost.expandDims x
  | getitem x i r => Cost.getitemBasic x i r
  | elemwise1 x r => Cost.elemwise1 x r
  | elemwise2 d a b o => Cost.elemwise2 d a b o
  | reduce x k a g m => Cost.reduce x k a g m
  | concat d n a => Cost.concat d n a
  | stack d n a => Cost.stack d n a
  | tri x r => Cost.tri x r
  | diagonal x s => Cost.diagonal x s
  | tocoo g => Cost.tocoo g
  | fromCoo1 x c => Cost.fromCoo x [c]
  | dotCsrCsr r c n w => Cost.dotCsrCsr r c n w
  | elemwiseMixed d n m D => Cost.elemwiseMixed d n m D
/-- stored cells in and out + Σ shape + ndim (products: stored elements out + products + rows + columns;
mixed sparse–dense operations: stored cells in and out + the size of the dense operands, not of the broadcast shape) -/
def size : Op → Nat
  | transpose x a => x.cells + (x.transposeCore a).cells + x.frame
  | reshape x s => x.cells + (x.reshapeCore s).cells + x.frame
  | flip x a => x.cells + (x.flipCore a).cells + x.frame
  | roll x a sh => x.cells + (x.rollCore a sh).cells + x.frame
  | squeeze x a => x.cells + (x.squeezeCore a).cells + x.frame
  | expandDims x p => x.cells + (x.expandDimsCore p).cells + x.frame
  | getitem x _ r => x.cells + r.cells + x.frame
  | elemwise1 x r => x.cells + r.cells + x.frame
  | elemwise2 d a b o => (d + 1) * a + (d + 1) * b + (d + 1) * o
  | reduce x _ _ _ _ => x.cells + x.frame
  | concat d n _ => (d + 1) * n
  | stack d n _ => (d + 1) * n
  | tri x r => x.cells + r.cells + x.frame
  | diagonal x _ => x.cells + x.frame
  | tocoo g => (g.shape.length + 1) * g.data.length
  | fromCoo1 x _ => x.cells + x.frame
  | dotCsrCsr r c n w => n + w + r + c + 2
  | elemwiseMixed d n m D => (d + 1) * n + (d + 1) * m + D
/-- the explicit constant of each operation -/
def K : Op → Nat
  | transpose .. => 4 | reshape .. => 1 | flip .. => 10 | roll .. => 6 | squeeze .. => 1 | expandDims .. => 1
  | getitem .. => 5 | elemwise1 .. => 2 | elemwise2 .. => 7 | reduce .. => 20 | concat .. => 6 | stack .. => 8
  | tri .. => 1 | diagonal .. => 12 | tocoo .. => 21 | fromCoo1 .. => 7 | dotCsrCsr .. => 5 | elemwiseMixed .. => 3
/-- what argument validation and the model guarantee about the sizes -/
def Admissible : Op → Prop
  | flip x a => a.length ≤ x.shape.length
  | roll x a _ => a.length ≤ x.shape.length
  | elemwise1 x r => r.shape.length = x.shape.length
  | reduce x k _ g m => k.length ≤ x.shape.length ∧ g ≤ x.nnz ∧ m ≤ g
  | tri x r => r.shape.length = x.shape.length
  | diagonal x s => s ≤ x.nnz
  | fromCoo1 x _ => 1 ≤ x.shape.length
  | _ => True
end Op

/-- **opCost_sparse_bound.** For every modelled operation with a sparse algorithm, the cells written are at most
`K_op · (stored cells in + stored cells out + Σ shape + ndim)` with the explicit constants `Op.K` (≤ 21). -/
theorem opCost_sparse_bound (o : Op) (h : o.Admissible) : o.cost ≤ o.K * o.size := by
  cases o with
  | transpose x a => exact transpose_cost_bound x a
  | reshape x s => exact reshape_cost_bound x s
  | flip x a => exact flip_cost_bound x a h
  | roll x a sh => exact roll_cost_bound x a sh h
  | squeeze x a => exact squeeze_cost_bound x a
  | expandDims x p => exact expand_dims_cost_bound x p
  | getitem x i r => exact getitem_basic_cost_bound x i r
  | elemwise1 x r => exact elemwise1_cost_bound x r h
  | elemwise2 d a b o => exact elemwise2_cost_bound d a b o
  | reduce x k a g m => exact reduce_cost_bound x k a g m h.1 h.2.1 h.2.2
  | concat d n a => exact concat_cost_bound d n a
  | stack d n a => exact stack_cost_bound d n a
  | tri x r => exact tri_cost_bound x r h
  | diagonal x s => exact diagonal_cost_bound x s h
  | tocoo g => exact tocoo_cost_bound g
  | fromCoo1 x c => exact from_coo_cost_bound x c h
  | dotCsrCsr r c n w => exact dot_csr_csr_cost_bound r c n w
  | elemwiseMixed d n m D => exact elemwise_mixed_cost_bound d n m D

/-! ## where the bound is false of the code -/

/-- the full statement for GCXS construction with any admissible compressed axes -/
def Statement_from_coo_any_axes : Prop :=
  ∃ K : Nat, ∀ (x : COO Int) (caxes : List Nat), caxes.length < x.shape.length →
    Cost.fromCoo x caxes ≤ K * (x.cells + x.frame)

/-- the family: the EMPTY array of shape `(m, m, 1)` compressed along axes `(0, 1)`: `indptr` has `m² + 1` cells -/
def gcxsWitness (m : Nat) : COO Int := { shape := [m, m, 1], entries := [], fill := 0 }

/-- **from_coo_counterexample_family.** For every `K` there is an input whose cost exceeds `K ·` its size:
`_from_coo` allocates `prod(compressed extents) + 1` cells for `indptr` (and as many for `bincount`). -/
theorem from_coo_counterexample_family (K : Nat) :
    Cost.fromCoo (gcxsWitness (2 * K + 5)) [0, 1] > K * ((gcxsWitness (2 * K + 5)).cells + (gcxsWitness (2 * K + 5)).frame) := by
  simp only [Cost.fromCoo, gcxsWitness, COO.cells, COO.frame, COO.nnz, COO.gather, List.map, List.getD_cons_zero,
    List.getD_cons_succ, prod, lsum, List.length_cons, List.length_nil, Nat.mul_zero, Nat.mul_one, Nat.zero_add, Nat.add_zero]
  grind

theorem not_Statement_from_coo_any_axes : ¬ Statement_from_coo_any_axes := by
  rintro ⟨K, h⟩
  have := h (gcxsWitness (2 * K + 5)) [0, 1] (by simp [gcxsWitness])
  have := from_coo_counterexample_family K
  omega

/-- the full statement for indexing with an integer array of length `L` -/
def Statement_getitem_adv_linear : Prop :=
  ∃ K : Nat, ∀ (x : COO Int) (idx : List NIx) (L : Nat) (r : COO Int),
    Cost.getitemAdv x idx L r ≤ K * (x.cells + r.cells + L + x.frame)

/-- the family: `m` stored elements in one dimension indexed by an array of length `m` -/
def advWitness (m : Nat) : COO Int := { shape := [1], entries := List.replicate m ([0], 0), fill := 0 }
def emptyResult : COO Int := { shape := [0], entries := [], fill := 0 }

/-- **getitem_adv_counterexample_family.** `_compute_multi_mask` runs `_compute_mask` over the whole array once per entry
of the index array: the cells written grow like `L · nnz`, not `L + nnz`. -/
theorem getitem_adv_counterexample_family (K : Nat) :
    Cost.getitemAdv (advWitness (K + 1)) [] (K + 1) emptyResult
      > K * ((advWitness (K + 1)).cells + emptyResult.cells + (K + 1) + (advWitness (K + 1)).frame) := by
  simp only [Cost.getitemAdv, Cost.mask, Cost.sort, advWitness, emptyResult, COO.cells, COO.frame, COO.nnz, lsum,
    List.length_cons, List.length_nil, List.length_replicate, Nat.mul_zero, Nat.zero_add, Nat.add_zero, Nat.one_mul]
  grind

theorem not_Statement_getitem_adv_linear : ¬ Statement_getitem_adv_linear := by
  rintro ⟨K, h⟩
  have := h (advWitness (K + 1)) [] (K + 1) emptyResult
  have := getitem_adv_counterexample_family K
  omega

/-- **getitem_adv_partial.** linear for a bounded index array: K = 7 · (L + 1) -/
theorem getitem_adv_partial (x : COO α) (idx : List NIx) (L : Nat) (r : COO α) :
    Cost.getitemAdv x idx L r ≤ 7 * (L + 1) * (x.cells + r.cells + x.frame) := by
  unfold Cost.getitemAdv Cost.mask Cost.sort COO.cells
  grind

/-! ## non-vacuity -/

/-- a (10^6)^3 array with three stored elements -/
def big3 : COO Int :=
  { shape := [1000000, 1000000, 1000000],
    entries := [([0, 5, 7], 1), ([3, 2, 999999], 2), ([999999, 0, 0], 3)],
    fill := 0 }

/-- the cost of transposing it is 30 cells; the bound is 4 · (12 + 12 + 3000003) -/
example : Cost.transpose big3 [2, 0, 1] = 30 := by decide

example : Cost.fromCoo (gcxsWitness 1000) [0, 1] = 2000001 := by decide

end SparseV.C16

/-
  Property C20 — the MLIR backend matches NumPy/SciPy and keeps its buffers alive.
  Property theorems only.  What they decide: the meaning of the storage formats (`toDense`), the
  bookkeeping of the NumPy/SciPy conversions, `_determine_format`, and the ownership graph.
  What they do NOT cover: the arithmetic, which MLIR-compiled code performs (no model executes it).
  All theorems are unbounded: every rank, shape, order permutation, array content, command history.
-/
import SparseV.Lemmas.Levels
import SparseV.Lemmas.Ownership
namespace SparseV.C20
open SparseV SparseV.Levels SparseV.COO

variable {α : Type}

/-! ## format semantics -/

/-- **dense_toDense.** For a dense format of ANY rank and ANY `order` permutation, the constituent
array means: element `i` of the array is `values[ravel(i[order], shape[order])]`. -/
theorem dense_toDense (f : Format) (shape : List Nat) (arrs : List (List Nat)) (vals : List α) (fill : α)
    (hd : f.isDense = true) (hv : f.valid = true) (hs : shape.length = f.rank) :
    toDense f shape arrs vals fill
      = (allIdx shape).map fun i => vals.getD (ravel (lvlIdx f.order i) (lvlShape f.order shape)) fill := by
  unfold toDense
  apply List.map_congr_left
  intro i hi
  exact dense_get f shape arrs vals fill hd hv hs i ((mem_allIdx_iff _ _).mp hi)

/-- **csr_toDense.** The level semantics of (dense, compressed) with order (0,1) on the arrays
`(indptr, indices, data)` is the matrix a scipy CSR array with those fields encodes: the stored
elements are, in storage order, `(row of position q, indices[q]) ↦ data[q]` (COO-style lookup). -/
theorem csr_toDense (f : Format) (R C : Nat) (indptr indices : List Nat) (data : List α) (fill : α)
    (hk : f.kinds = [.dense, .compressed]) (ho : f.order = [0, 1])
    (hlen : indptr.length = R + 1) (hip : IndptrOk indptr) :
    toDense f [R, C] [indptr, indices] data fill
      = (allIdx [R, C]).map (lookup ((Scipy.csx true [R, C] indptr indices data).triples fill) fill) := by
  unfold toDense Levels.get
  rw [csx_entries f true R C indptr indices data fill hk (by simpa using ho) (by simpa using hlen) hip]

/-- **csc_toDense.** Same levels with order (1,0): the compressed level runs over the rows of each
column; the arrays mean the scipy CSC matrix with those fields. -/
theorem csc_toDense (f : Format) (R C : Nat) (indptr indices : List Nat) (data : List α) (fill : α)
    (hk : f.kinds = [.dense, .compressed]) (ho : f.order = [1, 0])
    (hlen : indptr.length = C + 1) (hip : IndptrOk indptr) :
    toDense f [R, C] [indptr, indices] data fill
      = (allIdx [R, C]).map (lookup ((Scipy.csx false [R, C] indptr indices data).triples fill) fill) := by
  unfold toDense Levels.get
  rw [csx_entries f false R C indptr indices data fill hk (by simpa using ho) (by simpa using hlen) hip]

/-- **coo_toDense (any rank).** A COO format (one compressed level, then singleton levels) stores
one element per position `q ∈ [pos[0], pos[1])` whose coordinates are read off the coordinate
arrays at `q`. -/
theorem coo_toDense_nd (f : Format) (shape : List Nat) (pos crd0 : List Nat) (crds : List (List Nat))
    (vals : List α) (fill : α)
    (hk : f.kinds = .compressed :: List.replicate crds.length .singleton)
    (hs : (lvlShape f.order shape).length = crds.length + 1) :
    toDense f shape (pos :: crd0 :: crds) vals fill
      = (allIdx shape).map (lookup
          ((List.range' (pos.getD 0 0) (pos.getD 1 0 - pos.getD 0 0)).map fun q =>
            (dimIdx f.order (crd0.getD q 0 :: crds.map fun c => c.getD q 0), vals.getD q fill)) fill) := by
  unfold toDense Levels.get
  rw [coo_entries f shape pos crd0 crds vals fill hk hs]

/-- **coo_toDense.** The 2-d instance `_from_scipy` builds (`pos = [0, nnz]`, order (0,1)) means the
scipy COO matrix `(row, col, data)`. -/
theorem coo_toDense (f : Format) (R C : Nat) (row col : List Nat) (data : List α) (fill : α)
    (hk : f.kinds = [.compressed, .singleton]) (ho : f.order = [0, 1]) :
    toDense f [R, C] [[0, data.length], row, col] data fill
      = (allIdx [R, C]).map (lookup ((Scipy.coo [R, C] row col data).triples fill) fill) := by
  rw [coo_toDense_nd f [R, C] [0, data.length] row [col] data fill (by simpa using hk) (by rw [ho]; rfl)]
  simp only [Scipy.triples, ho]
  congr 2
  rw [List.range_eq_range']
  apply List.map_congr_left
  intro q _
  rfl

/-- **coo_encode_toDense.** For every rank ≥ 1: the COO encoding (`pos = [0, nnz]`, one coordinate array per
dimension, values) of ANY entry list — duplicates and explicit zeros included — means the array that
`SparseV.COO.lookup` reads from that entry list, and stores the entries in the same order. -/
theorem coo_encode_toDense (f : Format) (shape : List Nat) (es : List (Idx × α)) (n : Nat) (fill : α)
    (hk : f.kinds = .compressed :: List.replicate n .singleton) (ho : f.order = List.range (n + 1))
    (hs : shape.length = n + 1) (hkeys : ∀ e ∈ es, e.1.length = n + 1) :
    toDense f shape (cooEncode es (n + 1)) (es.map (·.2)) fill = (allIdx shape).map (lookup es fill)
    ∧ entries f shape (cooEncode es (n + 1)) (es.map (·.2)) fill = es := by
  have h := coo_encode_entries f shape es n fill hk ho hs hkeys
  refine ⟨?_, h⟩
  unfold toDense Levels.get
  rw [h]

/-- a well-formed 2-d scipy array: a monotone index pointer of the right length (CSR / CSC), a 2-d shape -/
def ScipyWf : Scipy α → Prop
  | .csx csr shape indptr _ _ => IndptrOk indptr ∧ ∃ R C, shape = [R, C] ∧ indptr.length = (if csr then R else C) + 1
  | .coo shape _ _ _ => ∃ R C, shape = [R, C]

/-- **from_scipy_meaning.** Whatever `_from_scipy` accepts means, under the level semantics, the
scipy array it was made from (CSR, CSC and COO alike). -/
theorem from_scipy_meaning (s : Scipy α) (m : ScipyMeta) (x : MArr α) (fill : α)
    (hx : fromScipy s m = .ok x)
    (hwf : ScipyWf s) :
    x.dense fill = (allIdx s.shape).map (s.get fill) := by
  cases s with
  | csx csr shape indptr indices data =>
    obtain ⟨hip, R, C, hshape, hlen⟩ := hwf
    subst hshape
    simp only [fromScipy] at hx
    cases hmk : mkFormat (withCanonical m.canonical (csfLevels 2)) (if csr then [0, 1] else [1, 0]) m.ptrWidth m.idxWidth m.dtype with
    | error e => rw [hmk] at hx; cases hx
    | ok f =>
      rw [hmk] at hx
      obtain ⟨hf, _⟩ := mkFormat_ok hmk
      have hk : f.kinds = [.dense, .compressed] := by rw [hf]; exact kinds_csf2 m.canonical
      simp only [Except.bind, fromConstituentArrays] at hx
      split at hx
      · cases hx
      split at hx
      · cases hx
      cases hx
      unfold MArr.dense toDense Levels.get Scipy.get
      simp only [Scipy.shape]
      rw [csx_entries f csr R C indptr indices data fill hk (by rw [hf]) hlen hip]
  | coo shape row col data =>
    obtain ⟨R, C, hshape⟩ := hwf
    subst hshape
    simp only [fromScipy] at hx
    split at hx
    · cases hx
    · cases hmk : mkFormat (withCanonical m.canonical (cooLevels 2)) [0, 1] 64 m.idxWidth m.dtype with
      | error e => rw [hmk] at hx; cases hx
      | ok f =>
        rw [hmk] at hx
        obtain ⟨hf, _⟩ := mkFormat_ok hmk
        have hk : f.kinds = [.compressed, .singleton] := by rw [hf]; exact kinds_coo2 m.canonical
        simp only [Except.bind, fromConstituentArrays] at hx
        split at hx
        · cases hx
        split at hx
        · cases hx
        cases hx
        have := coo_toDense f R C row col data fill hk (by rw [hf])
        unfold MArr.dense Scipy.get
        simp only [Scipy.shape]
        exact this

/-! ## NumPy round trip -/

/-- **to_numpy_from_numpy_id.** `to_numpy(asarray(a)) = a` for every rank (0-d included), every
shape, every content: the dense round trip through `_from_numpy`'s C-ordered format. -/
theorem to_numpy_from_numpy_id [Inhabited α] (a : DArr α) (dtype : String) (hlen : a.flat.length = prod a.shape) :
    toNumpy (fromNumpy a dtype) = .ok a := by
  have hp : (List.range a.shape.length).Perm (List.range a.shape.length) := List.Perm.refl _
  have henc : fromNumpy a dtype = encodeDense (List.range a.shape.length) a dtype := by
    simp only [fromNumpy, encodeDense, MArr.mk.injEq, true_and]
    have h1 : lvlShape (List.range a.shape.length) a.shape = a.shape := gather_range a.shape
    rw [h1]
    have h2 : (allIdx a.shape).map (fun c => a.flat.getD (ravel (dimIdx (List.range a.shape.length) c) a.shape) default)
        = (allIdx a.shape).map (fun c => a.flat.getD (ravel c a.shape) default) := by
      apply List.map_congr_left
      intro c hc
      have hcl : c.length = a.shape.length := allIdx_length_eq hc
      have : dimIdx (List.range a.shape.length) c = c := by
        unfold dimIdx; rw [invPerm_range, ← hcl]; exact gather_range c
      rw [this]
    rw [h2, allIdx_map_getD_flat a.shape a.flat default hlen]
  have hx := encodeDense_dense (List.range a.shape.length) a dtype default hp hlen
  have hrank : (encodeDense (List.range a.shape.length) a dtype).fmt.rank = a.shape.length := by
    simp [encodeDense, Format.rank, denseLevels]
  have hd : (encodeDense (List.range a.shape.length) a dtype).fmt.isDense = true := by
    simp only [Format.isDense, hrank]
    simp only [encodeDense, isThisFormat, denseLevels, List.length_replicate, beq_self_eq_true, Bool.true_and,
      List.all_eq_true]
    intro p hp'
    rw [List.eq_of_mem_replicate (List.of_mem_zip hp').1, List.eq_of_mem_replicate (List.of_mem_zip hp').2]
    simp
  have hv : (encodeDense (List.range a.shape.length) a dtype).fmt.valid = true := by
    simp only [Format.valid, hrank]; exact perm_orderOk hp
  rw [henc]
  have := toNumpyWith_ok .argOrder (encodeDense (List.range a.shape.length) a dtype) default hd hv
    (by rw [hrank]; rfl)
    (by show ((allIdx _).map _).length = _
        rw [List.length_map, allIdx_length]
        exact prod_gather hp rfl)
    (by show gather a.shape (argOrder _ (List.range a.shape.length)) = _
        rw [hrank, argOrder_eq_invPerm hp, invPerm_range]; rfl)
  unfold toNumpy
  rw [this, hx]
  rfl

/-- the inputs on which `to_numpy` computes the wrong `storage_shape`: the extents gathered by the
inverse permutation differ from the level extents (impossible when `order` is its own inverse,
hence for every rank ≤ 2 and for C/F order) -/
def ExcludedOrder (order shape : List Nat) : Prop := gather shape (invPerm order) ≠ lvlShape order shape
instance (order shape : List Nat) : Decidable (ExcludedOrder order shape) := by unfold ExcludedOrder; infer_instance

/-- the full dense round trip for every order permutation: store `a` in the dense format with
level order `order`, convert back with `to_numpy` -/
def Statement_dense_roundtrip (sf : ShapeFrom) : Prop :=
  ∀ (order : List Nat) (a : DArr Int) (dtype : String),
    order.Perm (List.range a.shape.length) → a.flat.length = prod a.shape →
    toNumpyWith sf (encodeDense order a dtype) = .ok a

def witnessA : DArr Int := { shape := [2, 3, 4], flat := (List.range 24).map Int.ofNat }

/-- **dense_roundtrip_counterexample.** The code as written fails the statement: order (1,2,0) on a
2×3×4 array comes back with shape (3,4,2). -/
theorem dense_roundtrip_counterexample : ¬ Statement_dense_roundtrip .argOrder := by
  intro h
  have := h [1, 2, 0] witnessA "f8" (by decide) (by decide)
  revert this
  decide

/-- **dense_roundtrip_partial.** Outside the excluded region the round trip is the identity, for
every rank, shape, order and content. -/
theorem dense_roundtrip_partial [Inhabited α] (order : List Nat) (a : DArr α) (dtype : String)
    (hp : order.Perm (List.range a.shape.length)) (hlen : a.flat.length = prod a.shape)
    (hex : ¬ ExcludedOrder order a.shape) :
    toNumpy (encodeDense order a dtype) = .ok a := by
  have hrank : (encodeDense order a dtype).fmt.rank = a.shape.length := by simp [encodeDense, Format.rank, denseLevels]
  have hd : (encodeDense order a dtype).fmt.isDense = true := by
    simp only [Format.isDense, hrank]
    simp only [encodeDense, isThisFormat, denseLevels, List.length_replicate, beq_self_eq_true, Bool.true_and,
      List.all_eq_true]
    intro p hp'
    rw [List.eq_of_mem_replicate (List.of_mem_zip hp').1, List.eq_of_mem_replicate (List.of_mem_zip hp').2]
    simp
  have hv : (encodeDense order a dtype).fmt.valid = true := by
    simp only [Format.valid, hrank]; exact perm_orderOk hp
  have := toNumpyWith_ok .argOrder (encodeDense order a dtype) default hd hv (by rw [hrank]; rfl)
    (by show ((allIdx _).map _).length = _
        rw [List.length_map, allIdx_length]
        exact prod_gather hp rfl)
    (by show gather a.shape (argOrder _ order) = _
        rw [hrank, argOrder_eq_invPerm hp]
        exact Decidable.not_not.mp hex)
  unfold toNumpy
  rw [this, encodeDense_dense order a dtype default hp hlen]
  rfl

/-- **dense_roundtrip_fixed.** With `storage_shape` gathered by `order` (the proposed one-line fix)
the full statement holds. -/
theorem dense_roundtrip_fixed [Inhabited α] (order : List Nat) (a : DArr α) (dtype : String)
    (hp : order.Perm (List.range a.shape.length)) (hlen : a.flat.length = prod a.shape) :
    toNumpyWith .order (encodeDense order a dtype) = .ok a := by
  have hrank : (encodeDense order a dtype).fmt.rank = a.shape.length := by simp [encodeDense, Format.rank, denseLevels]
  have hd : (encodeDense order a dtype).fmt.isDense = true := by
    simp only [Format.isDense, hrank]
    simp only [encodeDense, isThisFormat, denseLevels, List.length_replicate, beq_self_eq_true, Bool.true_and,
      List.all_eq_true]
    intro p hp'
    rw [List.eq_of_mem_replicate (List.of_mem_zip hp').1, List.eq_of_mem_replicate (List.of_mem_zip hp').2]
    simp
  have hv : (encodeDense order a dtype).fmt.valid = true := by
    simp only [Format.valid, hrank]; exact perm_orderOk hp
  have := toNumpyWith_ok .order (encodeDense order a dtype) default hd hv (by rw [hrank]; rfl)
    (by show ((allIdx _).map _).length = _
        rw [List.length_map, allIdx_length]
        exact prod_gather hp rfl)
    rfl
  rw [this, encodeDense_dense order a dtype default hp hlen]
  rfl

/-- **to_numpy_meaning.** For ANY dense backend array (any constituent array, not only one made by
`encodeDense`), `to_numpy` returns exactly the array the format semantics assigns to it, outside
the excluded region. -/
theorem to_numpy_meaning [Inhabited α] (x : MArr α) (fill : α)
    (hd : x.fmt.isDense = true) (hv : x.fmt.valid = true) (hs : x.shape.length = x.fmt.rank)
    (hlen : x.vals.length = prod x.shape) (hex : ¬ ExcludedOrder x.fmt.order x.shape) :
    toNumpy x = .ok { shape := x.shape, flat := x.dense fill } := by
  refine toNumpyWith_ok .argOrder x fill hd hv hs hlen ?_
  show gather x.shape (argOrder _ x.fmt.order) = _
  rw [argOrder_eq_invPerm (orderOk_perm hv)]
  exact Decidable.not_not.mp hex

/-! ## SciPy round trip -/

/-- **scipy_roundtrip_id.** `to_scipy(asarray(s))` has the fields of `s` (format kind, shape,
indptr/indices or row/col, data), for CSR, CSC and COO, whatever the contents. -/
theorem scipy_roundtrip_id (s : Scipy α) (m : ScipyMeta) (x : MArr α) (hx : fromScipy s m = .ok x) :
    toScipy x = .ok s := by
  cases s with
  | csx csr shape indptr indices data =>
    simp only [fromScipy] at hx
    cases hmk : mkFormat (withCanonical m.canonical (csfLevels 2)) (if csr then [0, 1] else [1, 0]) m.ptrWidth m.idxWidth m.dtype with
    | error e => rw [hmk] at hx; cases hx
    | ok f =>
      rw [hmk] at hx
      obtain ⟨hf, _⟩ := mkFormat_ok hmk
      have hk : f.kinds = [.dense, .compressed] := by rw [hf]; exact kinds_csf2 m.canonical
      simp only [Except.bind, fromConstituentArrays] at hx
      split at hx
      · cases hx
      · split at hx
        · cases hx
        · cases hx
          simp only [toScipy, hk]
          cases csr <;> simp [hf]
  | coo shape row col data =>
    simp only [fromScipy] at hx
    split at hx
    · cases hx
    · cases hmk : mkFormat (withCanonical m.canonical (cooLevels 2)) [0, 1] 64 m.idxWidth m.dtype with
      | error e => rw [hmk] at hx; cases hx
      | ok f =>
        rw [hmk] at hx
        obtain ⟨hf, _⟩ := mkFormat_ok hmk
        have hk : f.kinds = [.compressed, .singleton] := by rw [hf]; exact kinds_coo2 m.canonical
        simp only [Except.bind, fromConstituentArrays] at hx
        split at hx
        · cases hx
        · split at hx
          · cases hx
          · cases hx
            simp only [toScipy, hk]

/-! ## scipy inputs that are not canonical -/

/-- the full statement: what the level walk reads from an entry list (the FIRST entry stored for an index — `toDense`,
`from_scipy_meaning`) is what scipy means by it (the SUM of the entries stored for that index) -/
def Statement_scipy_meaning_sum : Prop := ∀ (es : List (Idx × Int)) (i : Idx), lookup es 0 i = sumAt es i

/-- the inputs on which the two meanings differ: an index stored more than once (`has_canonical_format == False` through
duplicate entries) -/
def ExcludedDuplicates (es : List (Idx × Int)) : Prop := ¬ (keysOf es).Nodup
instance (es : List (Idx × Int)) : Decidable (ExcludedDuplicates es) := by unfold ExcludedDuplicates; infer_instance

/-- **scipy_meaning_sum_counterexample.** `_from_scipy` hands duplicate entries to a NonUnique level format unchanged: the
index (0, 1) stored with 1 and with 10 reads 1 under the level semantics and means 11 to scipy. -/
theorem scipy_meaning_sum_counterexample : ¬ Statement_scipy_meaning_sum := by
  intro h
  have := h [([0, 1], 1), ([0, 1], 10)] [0, 1]
  revert this
  decide

/-- **scipy_meaning_sum_partial.** Without duplicate indices (sorted or not, explicit zeros anywhere) the two meanings agree,
for every entry list and every index. -/
theorem scipy_meaning_sum_partial (es : List (Idx × Int)) (hnd : ¬ ExcludedDuplicates es) (i : Idx) :
    lookup es 0 i = sumAt es i := by
  have hnd' : (keysOf es).Nodup := Decidable.not_not.mp hnd
  clear hnd
  induction es with
  | nil => simp [sumAt]
  | cons e es ih =>
    simp only [keysOf, List.map_cons, List.nodup_cons] at hnd'
    rw [lookup_cons]
    unfold sumAt
    by_cases h : e.1 = i
    · have hz : (es.filter fun e => e.1 == i) = [] := by
        rw [List.filter_eq_nil_iff]
        intro x hx hxi
        apply hnd'.1
        have : x.1 = i := by simpa using hxi
        rw [h, ← this]
        exact List.mem_map.mpr ⟨x, hx, rfl⟩
      simp [h, hz]
    · have hb : (e.1 == i) = false := by simpa using h
      rw [if_neg h, ih hnd'.2, List.filter_cons, hb]
      simp [sumAt]

/-- **from_scipy_meaning_sum.** Whatever `_from_scipy` accepts means, under the level semantics, what scipy means by the input
(`toarray()`: duplicates summed) — provided no index is stored twice. -/
theorem from_scipy_meaning_sum (s : Scipy Int) (m : ScipyMeta) (x : MArr Int)
    (hx : fromScipy s m = .ok x)
    (hwf : ScipyWf s)
    (hnd : ¬ ExcludedDuplicates (s.triples 0)) :
    x.dense 0 = (allIdx s.shape).map (sumAt (s.triples 0)) := by
  rw [from_scipy_meaning s m x 0 hx hwf]
  apply List.map_congr_left
  intro i _
  exact scipy_meaning_sum_partial (s.triples 0) hnd i

/-! ## `_determine_format` -/

/-- **determine_format_wf.** Whenever `_determine_format` returns a format for a non-empty group:
its rank is `out_ndim` (the largest input rank when not given), `order` is a permutation of
`0..rank-1`, the index widths are the maxima of the inputs' widths, the dtype is the requested one,
and the levels are `dense … dense compressed … compressed` with the documented counts
(`union`: as many dense levels as the densest input has, capped by the rank; otherwise as many
sparse levels as the sparsest-level-richest input has, capped). -/
theorem determine_format_wf (g : Format) (gs : List Format) (dtype : String) (union : Bool) (outNdim : Option Nat)
    (f : Format) (h : determineFormat (g :: gs) dtype union outNdim = .ok f) :
    let n := outNdim.getD (maxRank (g :: gs))
    let k := if union then n - min n (maxCount union (g :: gs)) else min n (maxCount union (g :: gs))
    f.rank = n ∧ f.order.Perm (List.range n)
    ∧ f.posWidth = (g :: gs).foldl (fun m x => max m x.posWidth) 0
    ∧ f.crdWidth = (g :: gs).foldl (fun m x => max m x.crdWidth) 0
    ∧ f.dtype = dtype
    ∧ f.levels = List.replicate (n - k) dLevel ++ List.replicate k cLevel := by
  intro n k
  simp only [determineFormat] at h
  obtain ⟨hf, hok⟩ := mkFormat_ok h
  have hcount := dfFold_count union (g :: gs) dfInit
  simp only [dfInit, Option.getD_none] at hcount
  have hk : (if union then n - min n ((List.foldl (dfStep union) dfInit (g :: gs)).nCounted.getD 0)
      else min n ((List.foldl (dfStep union) dfInit (g :: gs)).nCounted.getD 0)) = k := by
    simp only [dfInit, hcount]; rfl
  have hkn : k ≤ n := by
    show (if union then n - min n (maxCount union (g :: gs)) else min n (maxCount union (g :: gs))) ≤ n
    split <;> omega
  rw [hk] at hf hok
  have hlen : (sparseDenseLevels k n).length = n := sparseDenseLevels_length k n hkn
  rw [hlen] at hok
  subst hf
  refine ⟨hlen, orderOk_perm hok, ?_, ?_, rfl, rfl⟩
  · exact dfFold_pos union (g :: gs) dfInit
  · exact dfFold_crd union (g :: gs) dfInit

/-- **determine_format_empty.** With no input formats: `out_ndim` (default 0) levels, all dense for
`union`, all compressed otherwise, C order, 64-bit indices. -/
theorem determine_format_empty (dtype : String) (union : Bool) (outNdim : Option Nat) :
    determineFormat [] dtype union outNdim
      = .ok { levels := List.replicate (outNdim.getD 0) (if union then dLevel else cLevel),
              order := List.range (outNdim.getD 0), posWidth := 64, crdWidth := 64, dtype := dtype } := by
  simp only [determineFormat]
  exact mkFormat_of_ok 64 64 dtype (by rw [List.length_replicate]; exact perm_orderOk (List.Perm.refl _))

/-- **determine_format_total.** It always returns a format when every input format is valid and
none has more dimensions than the result (always the case for `add`, and for `reshape` to the same
or a higher rank). -/
theorem determine_format_total (fmts : List Format) (dtype : String) (union : Bool) (outNdim : Option Nat)
    (hv : ∀ g ∈ fmts, g.valid = true ∧ g.rank ≤ outNdim.getD (maxRank fmts)) :
    ∃ f, determineFormat fmts dtype union outNdim = .ok f := by
  cases fmts with
  | nil => exact ⟨_, determine_format_empty dtype union outNdim⟩
  | cons g gs =>
    simp only [determineFormat]
    refine ⟨_, mkFormat_of_ok _ _ dtype ?_⟩
    have hkn : ∀ n c : Nat, (if union then n - min n c else min n c) ≤ n := by intro n c; split <;> omega
    rw [sparseDenseLevels_length _ _ (hkn _ _)]
    apply dfOrder_ok
    apply dfFold_order union _ (g :: gs) dfInit hv
    intro o ho
    simp only [dfInit, Option.some.injEq] at ho
    exact ⟨0, Nat.zero_le _, by rw [← ho]; exact List.Perm.refl _⟩

/-- for `add` (`out_ndim=None`) validity of the inputs suffices -/
theorem determine_format_total_add (fmts : List Format) (dtype : String) (union : Bool)
    (hv : ∀ g ∈ fmts, g.valid = true) : ∃ f, determineFormat fmts dtype union none = .ok f :=
  determine_format_total fmts dtype union none (fun g hg => ⟨hv g hg, le_maxRank fmts g hg⟩)

/-- **determine_format_truncation_counterexample.** When the result has FEWER dimensions than an
input, the truncated `order[:out_ndim]` need not be a permutation and the constructor raises
ValueError: a 2-d format with order (1,0) reshaped to 1-d. -/
theorem determine_format_truncation_counterexample :
    determineFormat [{ levels := denseLevels 2, order := [1, 0], posWidth := 64, crdWidth := 64, dtype := "f8" }]
      "f8" false (some 1) = .error .value := by decide

/-! ## ownership -/

open SparseV.Own

/-- **code_has_every_edge.** The keep-alive edges READ OFF THE SOURCE (`SparseV.Gen.mlirHoldViews`, `mlirHoldInputs`,
`mlirFromArraysOwns`, regenerated from `formats.py` / `_conversions.py` by tools/tables.d/C20.py on every run) are:
`_hold_ref(storage, arr)` for every source array of a non-owning storage, `_hold_ref(view, storage)` for every view of an
OWNING storage AND for every view of a NON-OWNING storage, hung on the array at the bottom of NumPy's base chain
(`mlirHoldOnBaseRoot`: the `while isinstance(arr.base, np.ndarray)` walk), and conversions build non-owning storages.  Every ownership
theorem below is about `Cfg.code`; it goes through this equation, so it stops checking when an edge becomes conditional. -/
theorem code_has_every_edge : Cfg.code = Cfg.full := by decide

/-- the invariants after any history of the code as it is -/
theorem code_invariants (cs : List Cmd) (h : Heap) (hex : ExcludedHistory cs = false)
    (hr : run Cfg.code Heap.empty cs = some h) : WF h ∧ Shape h := by
  rw [code_has_every_edge] at hr
  exact ⟨run_WF cs hex WF.empty hr, run_Shape cs hex WF.empty Shape.empty hr⟩

/-- **reachable_correct.** The one-pass marking the executable model (and the harness comparison)
uses is graph reachability from the program's references. -/
theorem reachable_correct (cs : List Cmd) (h : Heap) (hex : ExcludedHistory cs = false)
    (hr : run Cfg.code Heap.empty cs = some h) (o : Nat) :
    o ∈ reachable h ↔ Reach h o :=
  mem_reachable_iff (code_invariants cs h hex hr).1 o

/-- **reachable_refcount_pos.** Reference counts: an object the program can reach — a backend array, a storage, a view,
an external NumPy array or SciPy matrix given as input or handed back as output — has a positive reference count
(references held by the program + references from objects not yet finalised), so reference counting does not release it. -/
theorem reachable_refcount_pos (cs : List Cmd) (h : Heap) (hex : ExcludedHistory cs = false)
    (hr : run Cfg.code Heap.empty cs = some h) (o : Nat) (ho : Reach h o) : 0 < refcount h o :=
  refcount_pos_of_reach (code_invariants cs h hex hr).1 ho

/-- the full statement: no history at all leaves a reachable object over a released buffer, and no
buffer is released twice -/
def Statement_no_dangling : Prop :=
  ∀ (cs : List Cmd) (h : Heap), run Cfg.code Heap.empty cs = some h → dangling h = [] ∧ h.freed.Nodup

/-- the history of `r = reshape(asarray(a), a.shape)` for 1-d `a`, then `del r`, `del a`, `del x`:
the result's storage releases `a`'s buffer (object 4) while `x` still reads it, and `a` releases it again -/
def aliasWitness : List Cmd :=
  [.newArray 7, .npView 0, .mkStorage [1], .mkArray 2, .drop 1, .drop 2,      -- a, x = asarray(a)
   .opAliased 3, .mkArray 4, .drop 4,                                          -- r = reshape(x, x.shape)
   .drop 5, .finalize 5, .finalize 4]                                          -- del r

/-- **no_dangling_counterexample.** The full statement fails inside the excluded region: an owning result whose fields
are its operand's buffers (what a rank-1 `reshape` returned before it was repaired in /repo); deleting the result releases
the input's buffer while the operand is still reachable (use after free), and deleting the input releases it again
(double free — glibc aborts the process). -/
theorem no_dangling_counterexample : ¬ Statement_no_dangling := by
  intro h
  have h1 := h aliasWitness _ rfl
  revert h1
  decide

/-- the same history continued: the input's own finalisation releases the buffer a second time -/
theorem double_free_counterexample :
    ∃ h, run Cfg.code Heap.empty (aliasWitness ++ [.drop 3, .finalize 3, .finalize 2, .finalize 1, .drop 0, .finalize 0]) = some h
      ∧ ¬ h.freed.Nodup := by
  refine ⟨_, rfl, ?_⟩
  decide

/-- **castview_counterexample.** The base walk of `get_constituent_arrays` is necessary.  For an element type the MLIR runtime
re-views (complex64, complex128, float16) the array handed back is `raw.view(dtype)` and NumPy bases every further view on `raw`.
In the variant WITHOUT the walk (`holdOnBaseRoot := false`: the keep-alive hangs on the re-view, as the code did before /repo
d206752) `castWitness` — `t = to_numpy(add(x, x))`, the temporary dropped — runs to its end: the owning storage is finalised and
releases buffer 0 while `t` (object 4) and the raw array (2) still address it.  For the code as it is (`Cfg.code`, the flag
read off the source) the same history stops at its last command: after everything else the storage is still reachable
(`t` → raw array → storage), there is nothing left to finalise and nothing dangles.  The second and third parts are about the
generated flag: they stop checking when the walk is removed from the source. -/
theorem castview_counterexample :
    (run { Cfg.code with holdOnBaseRoot := false } Heap.empty castWitness).map (fun h => (reachable h, h.freed, dangling h))
      = some ([4, 2], [0], [(4, 0), (2, 0)])
    ∧ (run Cfg.code Heap.empty castWitness.dropLast).map (fun h => (reachable h, h.freed ++ garbage h, dangling h))
      = some ([4, 2, 0], [], [])
    ∧ run Cfg.code Heap.empty castWitness = none := by
  decide

/-- **no_dangling.** (partial: histories without an aliasing result) After ANY history of commands of the code as it is
(`Cfg.code`, read off the source) — the program creating NumPy arrays and SciPy matrices, conversions building NON-OWNING
storages over them (`_hold_ref(storage, arr)`), results of add/reshape/asformat (OWNING storages, `owns_memory=True`),
the views of `get_constituent_arrays` of either kind (`_hold_ref(view, storage)`, for re-viewed element types on the array at
the bottom of the base chain: `rawField` / `castView`), NumPy views of those (`to_numpy`),
SciPy matrices over them (`to_scipy`), further references, dropping references to inputs, arrays and outputs in any
order and finalising unreachable objects one at a time in any order — every buffer addressed by an object that the
program can still reach has not been released. -/
theorem no_dangling (cs : List Cmd) (h : Heap) (hex : ExcludedHistory cs = false)
    (hr : run Cfg.code Heap.empty cs = some h)
    (o : Nat) (ho : Reach h o) (b : Nat) (hb : b ∈ (h.obj o).bufs) : b ∉ h.freed := by
  have hw : WF h := (code_invariants cs h hex hr).1
  obtain ⟨w, hp, hwo⟩ := hw.keeps_owner o b hb
  have hrw : Reach h w := ho.path hp
  intro hf
  obtain ⟨w', hwd, hwo'⟩ := hw.freed_owner b hf
  have : w = w' := hw.own_unique w w' b hwo hwo'
  exact hw.reach_alive w hrw (this ▸ hwd)

/-- the executable form the driver evaluates: the list of (reachable object, released buffer) is empty -/
theorem no_dangling_exec (cs : List Cmd) (h : Heap) (hex : ExcludedHistory cs = false)
    (hr : run Cfg.code Heap.empty cs = some h) : dangling h = [] := by
  have hw : WF h := (code_invariants cs h hex hr).1
  unfold dangling
  rw [List.flatMap_eq_nil_iff]
  intro o ho
  rw [List.map_eq_nil_iff, List.filter_eq_nil_iff]
  intro b hb hc
  exact no_dangling cs h hex hr o ((mem_reachable_iff hw o).mp ho) b hb (List.contains_iff_mem.mp hc)

/-- **view_reaches_allocation.** The invariant behind `no_dangling`, for BOTH kinds of storage.  After any history of the
code as it is, a view `v` (an array of `get_constituent_arrays`, hence also what `to_numpy` / `to_scipy` hand back) that
the program can still reach is a view of a storage `s` which it keeps alive, and for every buffer `b` it addresses:
* if `s` is OWNING (`owns_memory=True`: add / reshape / asformat), `s` itself is the allocation, it has not been finalised
  and `b` has not been released;
* if `s` is NON-OWNING (built from NumPy / SciPy input, user buffers, `copy()`, `asarray(copy=True)`), `s` keeps alive a
  source array `r` it was built from, from which a chain of keep-alive edges leads to the allocation `w` of `b` — an
  EXTERNAL object (a NumPy array that owns its buffer, or an owning storage), different from `s`, not finalised — and `b`
  has not been released, whether or not the program still holds any reference of its own to the sources. -/
theorem view_reaches_allocation (cs : List Cmd) (h : Heap) (hex : ExcludedHistory cs = false)
    (hr : run Cfg.code Heap.empty cs = some h)
    (v : Nat) (hv : (h.obj v).kind = .view) (hlive : Reach h v) (b : Nat) (hb : b ∈ (h.obj v).bufs) :
    ∃ s, (h.obj v).refs = [s] ∧ (h.obj s).kind = .storage ∧ b ∈ (h.obj s).bufs ∧ s ∉ h.dead ∧ b ∉ h.freed ∧
      ((h.obj s).om = true → b ∈ (h.obj s).owns) ∧
      ((h.obj s).om = false → ∃ r ∈ (h.obj s).refs, ∃ w, Path h r w ∧ w ≠ s ∧ b ∈ (h.obj w).owns ∧ w ∉ h.dead ∧
          (((h.obj w).kind = .ndarray ∧ (h.obj w).refs = []) ∨ ((h.obj w).kind = .storage ∧ (h.obj w).om = true))) := by
  obtain ⟨hw, hsh⟩ := code_invariants cs h hex hr
  obtain ⟨s, hrefs, _, hks, hsub⟩ := hsh.view_of v hv
  have hrs : Reach h s := Reach.step hlive (by rw [hrefs]; simp)
  have hbs : b ∈ (h.obj s).bufs := hsub b hb
  refine ⟨s, hrefs, hks, hbs, hw.reach_alive s hrs, no_dangling cs h hex hr v hlive b hb, ?_, ?_⟩
  · intro hom
    rw [hsh.owning s hks hom]; exact hbs
  · intro hom
    obtain ⟨hno, hsrc⟩ := hsh.nonowning s hks hom
    obtain ⟨r, hr', _, hbr⟩ := hsrc b hbs
    obtain ⟨w, hp, hwo⟩ := hw.keeps_owner r b hbr
    have hrw : Reach h w := (Reach.step hrs hr').path hp
    refine ⟨r, hr', w, hp, ?_, hwo, hw.reach_alive w hrw, hsh.owner_kind w b hwo⟩
    intro e
    rw [e, hno] at hwo
    cases hwo

/-- **no_double_free.** No buffer is released twice, and a buffer is released only by the
finalisation of its unique owner. -/
theorem no_double_free (cs : List Cmd) (h : Heap) (hex : ExcludedHistory cs = false)
    (hr : run Cfg.code Heap.empty cs = some h) :
    h.freed.Nodup ∧ ∀ b ∈ h.freed, ∃ w, w ∈ h.dead ∧ b ∈ (h.obj w).owns :=
  let hw := (code_invariants cs h hex hr).1
  ⟨hw.freed_nodup, hw.freed_owner⟩

/-- **no_leak.** Every buffer owned by a finalised object has been released (results of
add/reshape/asformat own their buffers; external NumPy arrays release theirs). -/
theorem no_leak (cs : List Cmd) (h : Heap) (hex : ExcludedHistory cs = false)
    (hr : run Cfg.code Heap.empty cs = some h)
    (w : Nat) (hw : w ∈ h.dead) (b : Nat) (hb : b ∈ (h.obj w).owns) : b ∈ h.freed :=
  (code_invariants cs h hex hr).1.dead_freed w hw b hb

/-- **inputs_not_written.** No command of the library — conversions, operations, views, deletions,
finalisations, in any order and for any `_hold_ref` configuration — changes the contents of a buffer
that existed before it: operations write only into buffers they allocate. -/
theorem inputs_not_written (cfg : Cfg) (cs₁ cs₂ : List Cmd) (h₁ h₂ : Heap)
    (h1 : run cfg Heap.empty cs₁ = some h₁) (h2 : run cfg h₁ cs₂ = some h₂) (b : Nat) (hb : b < h₁.nbuf) :
    h₂.cont[b]? = h₁.cont[b]? := by
  have hl : h₁.cont.length = h₁.nbuf := (run_frame cfg cs₁ (h := Heap.empty) rfl h1).1
  exact (run_frame cfg cs₂ hl h2).2.2 b hb

/-- **hold_ref_needed.** The code's configuration is the ONLY safe one: for every other choice of which `_hold_ref` loops
run (for which kind of storage), of where the keep-alive of a re-viewed array hangs, and of which storage class the conversions build, there is a history with no aliasing
result — an object graph and a deletion order, `edgeWitness` — after which the program still reaches an object over a
released buffer.  In particular every edge the code makes is necessary, for owning AND for non-owning storages. -/
theorem hold_ref_needed (cfg : Cfg) (hne : cfg ≠ Cfg.code) :
    ∃ h, ExcludedHistory (edgeWitness cfg) = false ∧ run cfg Heap.empty (edgeWitness cfg) = some h ∧ dangling h ≠ [] := by
  rw [code_has_every_edge] at hne
  obtain ⟨a, b, c, d, e⟩ := cfg
  cases a <;> cases b <;> cases c <;> cases d <;> cases e <;>
    first
      | exact absurd rfl hne
      | exact ⟨_, by decide, rfl, by decide⟩

/-- **nonowning_view_edge_counterexample.** The variant in which only views of OWNING storages keep their storage alive
(`if owns_memory: for arr in arrays: _hold_ref(arr, self)`): build an array from a NumPy input, take a constituent array,
delete the input and the backend array — the view (object 3) is still reachable and addresses buffer 0, which the
finalisation of the input array has released. -/
theorem nonowning_view_edge_counterexample :
    (run { Cfg.full with holdViewNonOwning := false } Heap.empty
        [.newArray 7, .mkStorage [0], .mkArray 1, .drop 1, .view 2 0, .drop 0, .drop 2, .finalize 2, .finalize 1, .finalize 0]).map
      (fun h => (reachable h, h.freed, dangling h)) = some ([3], [0], [(3, 0)]) := by decide

/-! ## non-vacuity -/

/-- the CSF example of the backend's own tests decodes to the expected dense array -/
example : toDense { levels := csfLevels 3, order := [0, 1, 2], posWidth := 64, crdWidth := 64, dtype := "f8" }
    [2, 2, 4] [[0, 1, 3], [1, 0, 1], [0, 3, 5, 7], [0, 1, 3, 0, 3, 0, 1]] [1, 2, 3, 4, 5, 6, 7] (0 : Int)
    = [0, 0, 0, 0, 1, 2, 0, 3, 4, 0, 0, 5, 6, 7, 0, 0] := by decide

/-- hypotheses of `csr_toDense` on a concrete 2×3 matrix -/
example : IndptrOk [0, 2, 3] ∧ [0, 2, 3].length = 2 + 1 ∧
    toDense { levels := csfLevels 2, order := [0, 1], posWidth := 32, crdWidth := 32, dtype := "f8" }
      [2, 3] [[0, 2, 3], [0, 2, 1]] [5, 6, 7] (0 : Int) = [5, 0, 6, 0, 7, 0] := by decide

/-- the COO encoding of a 2×2 entry list with a duplicate index: first stored entry wins, as in `COO.lookup` -/
example : toDense { levels := cooLevels 2, order := [0, 1], posWidth := 64, crdWidth := 64, dtype := "i8" } [2, 2]
    (cooEncode [([0, 1], 5), ([1, 0], 7), ([0, 1], 9)] 2) [5, 7, 9] (0 : Int) = [0, 5, 7, 0] := by decide

/-- a non-involutive order outside the excluded region (all extents equal), and one inside -/
example : ¬ ExcludedOrder [1, 2, 0] [2, 2, 2] ∧ ExcludedOrder [1, 2, 0] [2, 3, 4] ∧ ¬ ExcludedOrder [2, 1, 0] [2, 3, 4] := by
  decide

/-- `determine_format_wf` on CSR + dense: a dense 2-d format with the wider indices -/
example : determineFormat
    [{ levels := csfLevels 2, order := [0, 1], posWidth := 32, crdWidth := 64, dtype := "f8" },
     { levels := denseLevels 2, order := [0, 1], posWidth := 64, crdWidth := 8, dtype := "f8" }] "f8" true none
    = .ok { levels := denseLevels 2, order := [0, 1], posWidth := 64, crdWidth := 64, dtype := "f8" } := by decide

/-- a history in which input, storage, array and a view are created and the input and the array are
deleted: the view still reaches its buffer, which is not released -/
example : (run Cfg.code Heap.empty [.newArray 7, .mkStorage [0], .mkArray 1, .drop 1, .view 2 0, .drop 0, .drop 2, .finalize 2]).map
    (fun h => (reachable h, h.freed, dangling h)) = some ([3, 1, 0], [], []) := by decide

/-- a SciPy round trip with every reference of the program to the sources dropped: the input matrix (object 3, over the
arrays 0-2), `x = asarray(S)` (non-owning storage 4, array 5), `T = to_scipy(x)` (views 6-8, matrix 9), then `del S`,
`del x`: only `T` is held; its arrays still reach the three source buffers (reference counts: source 0 is referenced by the
storage alone, the storage by the three views), nothing has been released and nothing dangles -/
example : (run Cfg.code Heap.empty [.newArray 1, .newArray 2, .newArray 3, .mkScipy [0, 1, 2], .drop 0, .drop 1, .drop 2,
    .mkStorage [0, 1, 2], .mkArray 4, .drop 4, .view 5 0, .view 5 1, .view 5 2, .mkScipy [8, 7, 6], .drop 6, .drop 7, .drop 8,
    .drop 3, .drop 5, .finalize 5, .finalize 3]).map
    (fun h => (reachable h, h.freed ++ garbage h, dangling h, [refcount h 0, refcount h 4]))
    = some ([9, 8, 7, 6, 4, 2, 1, 0], [], [], [1, 3]) := by decide

/-- with the base walk the two commands for a re-viewed constituent array ARE `view` + `npView`: the same history written with
either pair reaches the same heap, and it is not an excluded history -/
example : ExcludedHistory castWitness = false ∧
    run Cfg.code Heap.empty castWitness.dropLast
      = run Cfg.code Heap.empty [.opStorage [1], .mkArray 0, .drop 0, .view 1 0, .npView 2, .npView 3, .drop 2, .drop 3, .finalize 3,
          .drop 1, .finalize 1] := by
  decide

/-- the hypotheses of `hold_ref_needed` are satisfiable, and its witness for the variant of the seeded kind is the
numpy-input history -/
example : ({ Cfg.full with holdViewNonOwning := false } : Cfg) ≠ Cfg.code ∧
    edgeWitness { Cfg.full with holdViewNonOwning := false }
      = [.newArray 7, .mkStorage [0], .mkArray 1, .drop 1, .view 2 0, .drop 0, .drop 2, .finalize 2, .finalize 1, .finalize 0] := by
  decide

end SparseV.C20

/-
  Property C13 — results do not depend on thread interleaving.  Property theorems only; the invariants
  (MInv, CInv, PInv) and their preservation lemmas are in Lemmas/Interleave.lean.

  The theorems quantify over ALL schedules (lists of thread ids of any length), any number of
  threads, any list of calls per thread and any initial content of the shared state that satisfies
  the sequential invariant of C11.  What they do not cover (the claim is partial): the atomicity
  granularity is an assumption about CPython's GIL; data races inside `nogil` kernels are not
  modelled (C11: kernels write only into buffers they allocated); free-threaded builds are out of
  scope.
-/

import SparseV.Lemmas.Interleave
import SparseV.Lemmas.SharedReads

namespace SparseV.C13

open SparseV SparseV.Interleave SparseV.Cache

/-! ### (a) the memo dict -/

section Memo

variable {K V : Type} [DecidableEq K]

/-- **memo_race_benign.** `_memoize_dtype` without a lock: for ALL schedules, any number of threads
and calls and any (correct) initial dict, every finished call returned `compute args` — never a
wrong value, never a KeyError.  (Two threads may both compute the same key; the later store
shadows the earlier; the values are equal.) -/
theorem memo_race_benign (compute : K → V) (m : List (K × V)) (hm : MemoOK compute m)
    (progs : List (List K)) (sched : List Nat) :
    ∀ th ∈ (runSched (mstep compute) sched (minit m progs)).threads,
      ∀ r ∈ th.rets, r.2 = .ok (compute r.1) := by
  intro th hth r hr
  have := run_inv (mstep compute) (MInv compute) (mstep_inv compute) sched _ (minit_inv compute m hm progs)
  exact (this.2 th hth).1 r hr

/-- and the dict itself stays correct, so every later (sequential or concurrent) use is too -/
theorem memo_stays_correct (compute : K → V) (m : List (K × V)) (hm : MemoOK compute m)
    (progs : List (List K)) (sched : List Nat) :
    MemoOK compute (runSched (mstep compute) sched (minit m progs)).memo :=
  (run_inv (mstep compute) (MInv compute) (mstep_inv compute) sched _ (minit_inv compute m hm progs)).1

end Memo

/-- non-vacuity: two threads race on the same key — both miss, both compute, both store — and a
third call hits; every call returned `compute k`, and both stores happened. -/
example :
    let s := runSched (mstep (fun k : Nat => k * 10)) [0, 1, 0, 1, 0, 1, 0, 1, 0, 0, 0] (minit [] [[7, 7], [7]])
    s.threads.map (·.rets) = [[(7, .ok 70), (7, .ok 70)], [(7, .ok 70)]] ∧ s.memo = [(7, 70), (7, 70)] := by
  decide

/-! ### (b) the cache deque -/

variable {V : Type}

/-- **cache_values_correct_all_schedules.** Shared cache deque, code as it is (`live`) or repaired
(`snapshot`): for EVERY schedule, any number of threads and calls, any correct initial deque —
whenever a call returns a value, it is `compute key`.  No interleaving of lookups, insertions and
evictions makes a call return another key's result or a stale one. -/
theorem cache_values_correct_all_schedules (mode : Mode) (compute : Key → V) (dq : Cache V)
    (hd : DqOK compute dq) (progs : List (List Key)) (sched : List Nat) :
    ∀ th ∈ (runSched (cstep mode compute) sched (cinit dq progs)).threads,
      ∀ r ∈ th.rets, ∀ v, r.2 = .ok v → v = compute r.1 := by
  intro th hth
  have := run_inv (cstep mode compute) (CInv compute) (cstep_inv mode compute) sched _ (cinit_inv compute dq hd progs)
  exact (this.2 th hth).1

/-- the deque stays correct and bounded under every schedule (so the array remains usable) -/
theorem cache_stays_correct (mode : Mode) (compute : Key → V) (dq : Cache V)
    (hd : DqOK compute dq) (progs : List (List Key)) (sched : List Nat) :
    DqOK compute (runSched (cstep mode compute) sched (cinit dq progs)).dq :=
  (run_inv (cstep mode compute) (CInv compute) (cstep_inv mode compute) sched _ (cinit_inv compute dq hd progs)).1

/-- **The full statement**: under no schedule does any call end with an error (sequentially none
does: `compute` is total). -/
def Statement_no_new_errors (mode : Mode) (compute : Key → V) : Prop :=
  ∀ (dq : Cache V) (progs : List (List Key)) (sched : List Nat),
    errorsOf (runSched (cstep mode compute) sched (cinit dq progs)) = []

/-! #### the code as it is: the statement is false -/

/- the witness (`cexDq`, `cexProgs`, `cexSched`, defined in Model/Interleave.lean): the cache already holds one entry; thread 0 looks up another key and has fetched
and compared that entry (idle→start, start→iter, next, compare) when thread 1 runs a whole call for
a third key (miss, compute, append); thread 0's next `next()` sees the changed deque version. -/

/-- **cache_iter_race_counterexample.** A concrete 2-thread schedule on the current code in which a
call that succeeds when run alone ends with RuntimeError (deque mutated during iteration). -/
theorem cache_iter_race_counterexample : ¬ Statement_no_new_errors .live (fun k : Key => k) := by
  intro h
  have := h cexDq cexProgs cexSched
  revert this
  decide

/-- the witness lies in the excluded region, and the same schedule is harmless for the repair -/
example : Excluded_appendDuringIteration .live (fun k : Key => k) (cinit cexDq cexProgs) cexSched = true
    ∧ errorsOf (runSched (cstep .live (fun k : Key => k)) cexSched (cinit cexDq cexProgs))
        = [(.transpose [2, 1, 0], .runtime)]
    ∧ errorsOf (runSched (cstep .snapshot (fun k : Key => k)) (cexSched ++ [0, 0, 0]) (cinit cexDq cexProgs)) = []
    ∧ allDone (runSched (cstep .snapshot (fun k : Key => k)) (cexSched ++ [0, 0, 0]) (cinit cexDq cexProgs)) = true := by
  decide

/-! #### the code as it is: outside the excluded region the statement holds -/

/-- **no_new_errors_partial.** On the current code: every schedule in which no `append` executes
while some thread is inside its lookup loop — the complement of the decidable predicate
`Excluded_appendDuringIteration` — ends without any error.  So the deque-iteration race is the
ONLY way a concurrent cached call can fail. -/
theorem no_new_errors_partial (compute : Key → V) (dq : Cache V) (progs : List (List Key)) (sched : List Nat)
    (hex : Excluded_appendDuringIteration .live compute (cinit dq progs) sched = false) :
    errorsOf (runSched (cstep .live compute) sched (cinit dq progs)) = [] := by
  have gen : ∀ (sched : List Nat) (s : CState V), PInv s →
      Excluded_appendDuringIteration .live compute s sched = false →
      PInv (runSched (cstep .live compute) sched s) := by
    intro sched
    induction sched with
    | nil => intro s h _; exact h
    | cons t ts ih =>
      intro s h hex
      simp only [Excluded_appendDuringIteration, Bool.or_eq_false_iff] at hex
      exact ih _ (cstep_pinv compute t s h hex.1) hex.2
  have h0 : PInv (cinit dq progs) := by
    intro th hth
    simp only [cinit, List.mem_map] at hth
    obtain ⟨p, _, rfl⟩ := hth
    exact ⟨(by intro r hr; cases hr), trivial⟩
  exact errorsOf_nil_of_noErr _ (fun th hth => (gen sched _ h0 hex th hth).1)

/-! #### the repair: iterate over a snapshot -/

/-- **snapshot_no_errors.** With the lookup iterating over `tuple(deque)` (proposed_fixes/
C13-cache-iter.diff) the full statement holds: no schedule, for any number of threads and calls,
makes any call fail. -/
theorem snapshot_no_errors (compute : Key → V) : Statement_no_new_errors .snapshot compute := by
  intro dq progs sched
  have h0 : ∀ th ∈ (cinit dq progs).threads, NoErr th := by
    intro th hth
    simp only [cinit, List.mem_map] at hth
    obtain ⟨p, _, rfl⟩ := hth
    intro r hr; cases hr
  exact errorsOf_nil_of_noErr _
    (run_inv (cstep .snapshot compute) (fun s => ∀ th ∈ s.threads, NoErr th)
      (cstep_snapshot_noErr compute) sched _ h0)

/-! #### actions on private state commute with everything -/

/-- **pure_calls_independent.** An action that touches no shared state (starting the next call,
comparing a fetched key, building the result) commutes with every action of every other thread:
`step u ∘ step t = step t ∘ step u`.  So the position of such actions in a schedule is irrelevant —
which is why the traced scheduler may merge them into the neighbouring quantum, and why calls that
never reach the shared cache (every call on an array without caching) are independent of all
interleavings. -/
theorem pure_calls_independent (mode : Mode) (compute : Key → V) (s : CState V) (t u : Nat) (htu : t ≠ u)
    (th : CThread V) (ht : s.threads[t]? = some th) (hl : isLocalPc th = true) :
    cstep mode compute u (cstep mode compute t s) = cstep mode compute t (cstep mode compute u s) := by
  rw [cstep_local mode compute s t th ht hl, cstep_overwrite mode compute s t u htu]
  have ht' : (cstep mode compute u s).threads[t]? = some th := by rw [cstep_other_slot mode compute s t u htu]; exact ht
  rw [cstep_local mode compute _ t th ht' hl]

/-- non-vacuity: in the witness run, after three steps thread 0 is about to compare a fetched key
(a private action) while thread 1 has all its shared actions still to do -/
example : ((runSched (cstep .live (fun k : Key => k)) [0, 0, 0] (cinit cexDq cexProgs)).threads[0]?).map isLocalPc = some true := by
  decide

/-! #### the harness's coarse schedules are fine schedules -/

/-- **coarse_run_is_fine_run.** A schedule at the granularity of the traced scheduler (one thread
id per source-line quantum) is an ordinary schedule of the transition system: the theorems above,
which quantify over all fine schedules, apply to every run the harness replays or explores. -/
theorem coarse_run_is_fine_run (mode : Mode) (compute : Key → V) (coarse : List Nat) :
    ∀ s : CState V, (coarseRun mode compute coarse s).1
      = runSched (cstep mode compute) (coarseRun mode compute coarse s).2 s := by
  induction coarse with
  | nil => intro s; rfl
  | cons t ts ih =>
    intro s
    simp only [coarseRun]
    rw [runSched_append, ← quantum_is_fine, ← ih]

/-- the witness at the harness's granularity: nine quanta, standing for the twelve fine steps -/
example : (coarseRun .live (fun k : Key => k) [0, 0, 0, 1, 1, 1, 1, 1, 0] (cinit cexDq cexProgs)).2 = cexSched := by
  decide

/-! ### (c) the dictionary of a shared DOK array -/

open SparseV.Shared

/-- **reads_only_no_new_errors.** Calls whose statements only READ the shared dictionary (statement
loops and comprehensions over the live dictionary, one-call reads such as `list(d.items())`, `len`,
`k in d`): for ALL schedules, any number of threads and calls per thread and any dictionary (dead
slots included) — no call raises (`dictionary changed size during iteration` is unreachable), the
dictionary is left exactly as it was, and every call has seen what it sees when it runs alone. -/
theorem reads_only_no_new_errors (d0 : Dict) (progs : List (List Op))
    (hp : ∀ p ∈ progs, ∀ op ∈ p, Op.isRead op = true) (sched : List Nat) :
    derrorsOf (runSched dstep sched (dinit d0 progs)) = []
    ∧ (runSched dstep sched (dinit d0 progs)).dict = d0
    ∧ ∀ th ∈ (runSched dstep sched (dinit d0 progs)).threads, ∀ r ∈ th.rets, r.2 = .ok (seqSeen d0 r.1) := by
  have h := run_inv dstep (DInv d0) (dstep_inv d0) sched _ (dinit_inv d0 progs hp)
  refine ⟨derrorsOf_nil (fun th hth r hr => ⟨_, (h.2 th hth).2.1 r hr⟩), h.1, fun th hth => (h.2 th hth).2.1⟩

/-- non-vacuity: three threads — `todense` (statement loop), a comprehension, `asformat` (one-call read) —
interleaved step by step on a dictionary with a dead slot; all finish, each saw both live entries. -/
example :
    let s := runSched dstep [0, 1, 2, 0, 1, 2, 0, 1, 2, 0, 1, 2, 0, 1, 0, 1, 0, 0, 0, 0]
      (dinit [some (0, 5), none, some (2, 0)] [[[.iterItems]], [[.scanItems]], [[.snapshot]]])
    dallDone s = true ∧ s.threads.map (fun th => th.rets.map (·.2)) = [[.ok [(0, 5), (2, 0)]], [.ok [(0, 5), (2, 0)]], [.ok [(0, 5), (2, 0)]]] := by
  decide

/-- **dok_read_methods_read_only.** Over the table GENERATED from the current source of class DOK
(every mention of `self.data`, classified): every method that is not one of the documented mutators
(`__init__`, `__setitem__`, `_fancy_setitem`, `_setitem`) is understood and consists of reads only.
A method that starts to write `self.data`, to alias it or to use it in a way the extractor does not
understand makes this theorem fail. -/
theorem dok_read_methods_read_only :
    (match dokReadProtos with
     | some ps => ps.all Op.isRead
     | none => false) = true := by
  decide

/-- **dok_reads_no_new_errors.** Hence, for the DOK class as it is in the source: no interleaving of
calls of its read-only methods (todense, asformat — and through it every conversion, `__getitem__`,
reshape, element-wise and reduction call —, nnz, _fancy_getitem) on a shared array raises, changes
the dictionary, or shows a call anything but the whole dictionary. -/
theorem dok_reads_no_new_errors (ps : List Op) (hps : dokReadProtos = some ps) (d0 : Dict) (progs : List (List Op))
    (hp : ∀ p ∈ progs, ∀ op ∈ p, op ∈ ps) (sched : List Nat) :
    derrorsOf (runSched dstep sched (dinit d0 progs)) = []
    ∧ (runSched dstep sched (dinit d0 progs)).dict = d0
    ∧ ∀ th ∈ (runSched dstep sched (dinit d0 progs)).threads, ∀ r ∈ th.rets, r.2 = .ok (seqSeen d0 r.1) := by
  have h := dok_read_methods_read_only
  rw [hps] at h
  simp only [List.all_eq_true] at h
  exact reads_only_no_new_errors d0 progs (fun p hpm op hop => h op (hp p hpm op hop)) sched

/-- non-vacuity: the table yields protocols, `todense` is a live loop and `asformat` a one-call read -/
example : dokReadProtos.isSome = true ∧ methodProto "todense" = some [.iterItems] ∧ methodProto "asformat" = some [.snapshot] := by
  decide

/-- **The full statement** for calls drawn from a given set of methods: under no schedule does a call
fail, and the dictionary is left as it was. -/
def Statement_dict_reads_safe (allowed : List Op) : Prop :=
  ∀ (d0 : Dict) (progs : List (List Op)), (∀ p ∈ progs, ∀ op ∈ p, op ∈ allowed) → ∀ sched : List Nat,
    derrorsOf (runSched dstep sched (dinit d0 progs)) = [] ∧ (runSched dstep sched (dinit d0 progs)).dict = d0

/-- **pruning_read_counterexample.** If a "read" prunes — `asformat` first deletes the entries equal
to the fill value, `for c in [c for c, d in self.data.items() if d == fill]: del self.data[c]` — the
statement is false: a concrete 2-thread schedule in which `todense`, which succeeds alone, ends with
RuntimeError (dictionary changed size during iteration). -/
theorem pruning_read_counterexample : ¬ Statement_dict_reads_safe [[.iterItems], [.pruneFill, .snapshot]] := by
  intro h
  have := (h pruneDict pruneProgs (by decide) pruneSched).1
  revert this
  decide

/-- and such a read changes its operand even when it runs alone: no second thread is needed to see it -/
theorem pruning_read_changes_operand :
    (runSched dstep (List.replicate 11 0) (dinit pruneDict [[[.pruneFill, .snapshot]]])).dict ≠ pruneDict
    ∧ derrorsOf (runSched dstep (List.replicate 11 0) (dinit pruneDict [[[.pruneFill, .snapshot]]])) = []
    ∧ dallDone (runSched dstep (List.replicate 11 0) (dinit pruneDict [[[.pruneFill, .snapshot]]])) = true := by
  decide

/-- the extractor's rows for the pruning variant are mapped to that protocol, and rejected as a read -/
example :
    let rows := [("asformat", "iter-comp", ""), ("asformat", "write:del", ""), ("asformat", "snapshot", ""), ("todense", "iter-loop", "")]
    methodProtoIn rows "asformat" = some [.pruneFill, .snapshot]
    ∧ ((readMethodsIn rows).mapM (methodProtoIn rows)).map (fun ps => ps.all Op.isRead) = some false := by
  decide

/-- the harness's line-granularity schedules of the dictionary rig are ordinary schedules -/
theorem dcoarse_run_is_fine_run (fuel : Nat) (coarse : List Nat) :
    ∀ s : DState, (dcoarseRun fuel coarse s).1 = runSched dstep (dcoarseRun fuel coarse s).2 s := by
  have hq : ∀ (fuel : Nat) (t : Nat) (s : DState), (dquantum fuel t s).1 = runSched dstep (dquantum fuel t s).2 s := by
    intro fuel
    induction fuel with
    | zero => intro t s; rfl
    | succ n ih =>
      intro t s
      simp only [dquantum]
      split
      · simp only [runSched, List.foldl_cons]; exact ih t (dstep t s)
      · rfl
  induction coarse with
  | nil => intro s; rfl
  | cons t ts ih =>
    intro s
    simp only [dcoarseRun]
    rw [runSched_append, ← hq, ← ih]

/-! ### (d) the process-global warning filters -/

/-- is the call one of the library's: a `catch_warnings` block from `blocks`, or a call that emits a
warning of the catalogue -/
def WOp.fromLib (blocks : List (List Filter)) (cat : List Warn) : WOp → Bool
  | .block fs => blocks.contains fs
  | .warn w => cat.contains w

/-- **The full statement** for a library with the given blocks and warnings: started from a filter
list without harmful entries (Python's default has none), under no schedule does a call that merely
warns when it runs alone end with an error. -/
def Statement_filters_no_new_errors (blocks : List (List Filter)) (cat : List Warn) : Prop :=
  ∀ (fs0 : List Filter), benign cat fs0 = true → ∀ (progs : List (List WOp)),
    (∀ p ∈ progs, ∀ op ∈ p, WOp.fromLib blocks cat op = true) → ∀ sched : List Nat,
      werrorsOf (runSched wstep sched (winit fs0 progs)) = []

/-- **filters_no_new_errors.** If no block installs a harmful filter — one whose action is "error" and
which matches a catalogued warning or has no message — then for ALL schedules, any number of threads
and calls, nested or not: no warning is ever turned into an error.  (The installed list need NOT be
restored: see the example below — a warning can be lost, no result changes.) -/
theorem filters_no_new_errors (blocks : List (List Filter)) (cat : List Warn)
    (hb : blocks.all (benign cat) = true) : Statement_filters_no_new_errors blocks cat := by
  intro fs0 hfs progs hp sched
  have hops : ∀ p ∈ progs, ∀ op ∈ p, WOpOK cat op := by
    intro p hpm op hop
    have := hp p hpm op hop
    cases op with
    | block fs =>
      simp only [WOp.fromLib, List.contains_iff_mem] at this
      exact benign_iff.mp (List.all_eq_true.mp hb fs this)
    | warn w =>
      simp only [WOp.fromLib, List.contains_iff_mem] at this
      exact this
  have h := run_inv wstep (WInv cat) (wstep_inv cat) sched _ (winit_inv cat fs0 (benign_iff.mp hfs) progs hops)
  exact werrorsOf_nil (fun th hth => (h.2 th hth).2.1)

/-- **library_blocks_benign.** Over the tables GENERATED from the current source: no
`with warnings.catch_warnings()` block of the package installs a harmful filter (the catalogue: NumPy's
floating-point warnings and every `warnings.warn` of the package), and no function edits process-global
state outside such a block. -/
theorem library_blocks_benign : libraryBlocks.all (benign libraryCatalogue) = true ∧ Gen.globalWrites = [] := by
  decide

/-- **library_filters_no_new_errors.** Hence, for the package as it is in the source: whatever the
interleaving of `can_store` (reshape, concatenate, conversions to and from GCXS, GCXS indexing),
`density`, `html_table` and calls that warn (1/s, log(s), g/g, matmul with NaN, nan-reductions), no
warning becomes an error. -/
theorem library_filters_no_new_errors : Statement_filters_no_new_errors libraryBlocks libraryCatalogue :=
  filters_no_new_errors _ _ library_blocks_benign.1

/-- non-vacuity, and what is NOT claimed: `can_store`'s two filters ("ignore" everything; "error" for a
DeprecationWarning starting with "out-of-bound", which nothing emits) are in the table; two threads
leaving their blocks in non-nested order leave both filters installed for good — the list is not
restored — and a later division by zero is silently ignored instead of shown: a lost warning, not an error. -/
example :
    let cs : List Filter := [⟨.ignore, [], "Warning"⟩, ⟨.error, "out-of-bound".toList, "DeprecationWarning"⟩]
    let s := runSched wstep [0, 0, 0, 0, 1, 1, 0, 0, 1, 1, 1, 1, 2, 2] (winit [] [[.block cs], [.block cs], [.warn divWarn]])
    libraryBlocks.contains cs = true ∧ libraryCatalogue.contains ⟨"RuntimeWarning", "divide by zero encountered".toList⟩ = true
    ∧ wallDone s = true ∧ s.filters ≠ [] ∧ werrorsOf s = [] := by
  decide

/-- **error_filter_transient_counterexample.** A block that installs a catch-all "error" filter
(`warnings.simplefilter("error")`): while one thread is inside, a call of another thread that merely
warns when run alone raises. -/
theorem error_filter_transient_counterexample : ¬ Statement_filters_no_new_errors [[errAll]] [divWarn] := by
  intro h
  have := h [] (by decide) transientProgs (by decide) transientSched
  revert this
  decide

/-- **error_filter_lasting_counterexample.** Two such blocks left in non-nested order re-install a list
that still holds the "error" filter: after BOTH threads have left their blocks it is installed for
good, and a warning emitted by a third call long afterwards raises. -/
theorem error_filter_lasting_counterexample :
    wallDone (runSched wstep lastingSched (winit [] lastingProgs)) = true
    ∧ (runSched wstep lastingSched (winit [] lastingProgs)).filters = [errAll]
    ∧ werrorsOf (runSched wstep lastingSched (winit [] lastingProgs)) = [(.warn divWarn, .runtime)] := by
  decide

end SparseV.C13

/-
  Property C13 — results do not depend on thread interleaving.  Property theorems only; the invariants
  (MInv, CInv, PInv) and their preservation lemmas are in Lemmas/Interleave.lean.

  The theorems quantify over ALL schedules (lists of thread ids of any length), any number of
  threads, any list of calls per thread and any initial content of the shared state that satisfies
  the sequential invariant of C11.  What they do not cover (the claim is partial): the atomicity
  granularity is an assumption about CPython's GIL; data races inside `nogil` kernels are not
  modelled (C11: kernels write only into buffers they allocated); free-threaded builds are out of
  scope.
-/

import SparseV.Lemmas.Interleave

namespace SparseV.C13

open SparseV SparseV.Interleave SparseV.Cache

/-! ### (a) the memo dict -/

section Memo

variable {K V : Type} [DecidableEq K]

/-- **memo_race_benign.** `_memoize_dtype` without a lock: for ALL schedules, any number of threads
and calls and any (correct) initial dict, every finished call returned `compute args` — never a
wrong value, never a KeyError.  (Two threads may both compute the same key; the later store
shadows the earlier; the values are equal.) -/
theorem memo_race_benign (compute : K → V) (m : List (K × V)) (hm : MemoOK compute m)
    (progs : List (List K)) (sched : List Nat) :
    ∀ th ∈ (runSched (mstep compute) sched (minit m progs)).threads,
      ∀ r ∈ th.rets, r.2 = .ok (compute r.1) := by
  intro th hth r hr
  have := run_inv (mstep compute) (MInv compute) (mstep_inv compute) sched _ (minit_inv compute m hm progs)
  exact (this.2 th hth).1 r hr

/-- and the dict itself stays correct, so every later (sequential or concurrent) use is too -/
theorem memo_stays_correct (compute : K → V) (m : List (K × V)) (hm : MemoOK compute m)
    (progs : List (List K)) (sched : List Nat) :
    MemoOK compute (runSched (mstep compute) sched (minit m progs)).memo :=
  (run_inv (mstep compute) (MInv compute) (mstep_inv compute) sched _ (minit_inv compute m hm progs)).1

end Memo

/-- non-vacuity: two threads race on the same key — both miss, both compute, both store — and a
third call hits; every call returned `compute k`, and both stores happened. -/
example :
    let s := runSched (mstep (fun k : Nat => k * 10)) [0, 1, 0, 1, 0, 1, 0, 1, 0, 0, 0] (minit [] [[7, 7], [7]])
    s.threads.map (·.rets) = [[(7, .ok 70), (7, .ok 70)], [(7, .ok 70)]] ∧ s.memo = [(7, 70), (7, 70)] := by
  decide

/-! ### (b) the cache deque -/

variable {V : Type}

/-- **cache_values_correct_all_schedules.** Shared cache deque, code as it is (`live`) or repaired
(`snapshot`): for EVERY schedule, any number of threads and calls, any correct initial deque —
whenever a call returns a value, it is `compute key`.  No interleaving of lookups, insertions and
evictions makes a call return another key's result or a stale one. -/
theorem cache_values_correct_all_schedules (mode : Mode) (compute : Key → V) (dq : Cache V)
    (hd : DqOK compute dq) (progs : List (List Key)) (sched : List Nat) :
    ∀ th ∈ (runSched (cstep mode compute) sched (cinit dq progs)).threads,
      ∀ r ∈ th.rets, ∀ v, r.2 = .ok v → v = compute r.1 := by
  intro th hth
  have := run_inv (cstep mode compute) (CInv compute) (cstep_inv mode compute) sched _ (cinit_inv compute dq hd progs)
  exact (this.2 th hth).1

/-- the deque stays correct and bounded under every schedule (so the array remains usable) -/
theorem cache_stays_correct (mode : Mode) (compute : Key → V) (dq : Cache V)
    (hd : DqOK compute dq) (progs : List (List Key)) (sched : List Nat) :
    DqOK compute (runSched (cstep mode compute) sched (cinit dq progs)).dq :=
  (run_inv (cstep mode compute) (CInv compute) (cstep_inv mode compute) sched _ (cinit_inv compute dq hd progs)).1

/-- **The full statement**: under no schedule does any call end with an error (sequentially none
does: `compute` is total). -/
def Statement_no_new_errors (mode : Mode) (compute : Key → V) : Prop :=
  ∀ (dq : Cache V) (progs : List (List Key)) (sched : List Nat),
    errorsOf (runSched (cstep mode compute) sched (cinit dq progs)) = []

/-! #### the code as it is: the statement is false -/

/- the witness (`cexDq`, `cexProgs`, `cexSched`, defined in Model/Interleave.lean): the cache already holds one entry; thread 0 looks up another key and has fetched
and compared that entry (idle→start, start→iter, next, compare) when thread 1 runs a whole call for
a third key (miss, compute, append); thread 0's next `next()` sees the changed deque version. -/

/-- **cache_iter_race_counterexample.** A concrete 2-thread schedule on the current code in which a
call that succeeds when run alone ends with RuntimeError (deque mutated during iteration). -/
theorem cache_iter_race_counterexample : ¬ Statement_no_new_errors .live (fun k : Key => k) := by
  intro h
  have := h cexDq cexProgs cexSched
  revert this
  decide

/-- the witness lies in the excluded region, and the same schedule is harmless for the repair -/
example : Excluded_appendDuringIteration .live (fun k : Key => k) (cinit cexDq cexProgs) cexSched = true
    ∧ errorsOf (runSched (cstep .live (fun k : Key => k)) cexSched (cinit cexDq cexProgs))
        = [(.transpose [2, 1, 0], .runtime)]
    ∧ errorsOf (runSched (cstep .snapshot (fun k : Key => k)) (cexSched ++ [0, 0, 0]) (cinit cexDq cexProgs)) = []
    ∧ allDone (runSched (cstep .snapshot (fun k : Key => k)) (cexSched ++ [0, 0, 0]) (cinit cexDq cexProgs)) = true := by
  decide

/-! #### the code as it is: outside the excluded region the statement holds -/

/-- **no_new_errors_partial.** On the current code: every schedule in which no `append` executes
while some thread is inside its lookup loop — the complement of the decidable predicate
`Excluded_appendDuringIteration` — ends without any error.  So the deque-iteration race is the
ONLY way a concurrent cached call can fail. -/
theorem no_new_errors_partial (compute : Key → V) (dq : Cache V) (progs : List (List Key)) (sched : List Nat)
    (hex : Excluded_appendDuringIteration .live compute (cinit dq progs) sched = false) :
    errorsOf (runSched (cstep .live compute) sched (cinit dq progs)) = [] := by
  have gen : ∀ (sched : List Nat) (s : CState V), PInv s →
      Excluded_appendDuringIteration .live compute s sched = false →
      PInv (runSched (cstep .live compute) sched s) := by
    intro sched
    induction sched with
    | nil => intro s h _; exact h
    | cons t ts ih =>
      intro s h hex
      simp only [Excluded_appendDuringIteration, Bool.or_eq_false_iff] at hex
      exact ih _ (cstep_pinv compute t s h hex.1) hex.2
  have h0 : PInv (cinit dq progs) := by
    intro th hth
    simp only [cinit, List.mem_map] at hth
    obtain ⟨p, _, rfl⟩ := hth
    exact ⟨(by intro r hr; cases hr), trivial⟩
  exact errorsOf_nil_of_noErr _ (fun th hth => (gen sched _ h0 hex th hth).1)

/-! #### the repair: iterate over a snapshot -/

/-- **snapshot_no_errors.** With the lookup iterating over `tuple(deque)` (proposed_fixes/
C13-cache-iter.diff) the full statement holds: no schedule, for any number of threads and calls,
makes any call fail. -/
theorem snapshot_no_errors (compute : Key → V) : Statement_no_new_errors .snapshot compute := by
  intro dq progs sched
  have h0 : ∀ th ∈ (cinit dq progs).threads, NoErr th := by
    intro th hth
    simp only [cinit, List.mem_map] at hth
    obtain ⟨p, _, rfl⟩ := hth
    intro r hr; cases hr
  exact errorsOf_nil_of_noErr _
    (run_inv (cstep .snapshot compute) (fun s => ∀ th ∈ s.threads, NoErr th)
      (cstep_snapshot_noErr compute) sched _ h0)

/-! #### actions on private state commute with everything -/

/-- **pure_calls_independent.** An action that touches no shared state (starting the next call,
comparing a fetched key, building the result) commutes with every action of every other thread:
`step u ∘ step t = step t ∘ step u`.  So the position of such actions in a schedule is irrelevant —
which is why the traced scheduler may merge them into the neighbouring quantum, and why calls that
never reach the shared cache (every call on an array without caching) are independent of all
interleavings. -/
theorem pure_calls_independent (mode : Mode) (compute : Key → V) (s : CState V) (t u : Nat) (htu : t ≠ u)
    (th : CThread V) (ht : s.threads[t]? = some th) (hl : isLocalPc th = true) :
    cstep mode compute u (cstep mode compute t s) = cstep mode compute t (cstep mode compute u s) := by
  rw [cstep_local mode compute s t th ht hl, cstep_overwrite mode compute s t u htu]
  have ht' : (cstep mode compute u s).threads[t]? = some th := by rw [cstep_other_slot mode compute s t u htu]; exact ht
  rw [cstep_local mode compute _ t th ht' hl]

/-- non-vacuity: in the witness run, after three steps thread 0 is about to compare a fetched key
(a private action) while thread 1 has all its shared actions still to do -/
example : ((runSched (cstep .live (fun k : Key => k)) [0, 0, 0] (cinit cexDq cexProgs)).threads[0]?).map isLocalPc = some true := by
  decide

/-! #### the harness's coarse schedules are fine schedules -/

/-- **coarse_run_is_fine_run.** A schedule at the granularity of the traced scheduler (one thread
id per source-line quantum) is an ordinary schedule of the transition system: the theorems above,
which quantify over all fine schedules, apply to every run the harness replays or explores. -/
theorem coarse_run_is_fine_run (mode : Mode) (compute : Key → V) (coarse : List Nat) :
    ∀ s : CState V, (coarseRun mode compute coarse s).1
      = runSched (cstep mode compute) (coarseRun mode compute coarse s).2 s := by
  induction coarse with
  | nil => intro s; rfl
  | cons t ts ih =>
    intro s
    simp only [coarseRun]
    rw [runSched_append, ← quantum_is_fine, ← ih]

/-- the witness at the harness's granularity: nine quanta, standing for the twelve fine steps -/
example : (coarseRun .live (fun k : Key => k) [0, 0, 0, 1, 1, 1, 1, 1, 0] (cinit cexDq cexProgs)).2 = cexSched := by
  decide

end SparseV.C13

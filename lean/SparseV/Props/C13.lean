/-
  Property C13 — results do not depend on thread interleaving.  Property theorems only (plus the
  invariants they are assembled from).

  The theorems quantify over ALL schedules (lists of thread ids of any length), any number of
  threads, any list of calls per thread and any initial content of the shared state that satisfies
  the sequential invariant of C11.  What they do not cover (the claim is partial): the atomicity
  granularity is an assumption about CPython's GIL; data races inside `nogil` kernels are not
  modelled (C11: kernels write only into buffers they allocated); free-threaded builds are out of
  scope.
-/
import SparseV.Model.Interleave
import SparseV.Props.C11
namespace SparseV.C13
open SparseV SparseV.Interleave SparseV.Cache

/-! ### generic -/

theorem forall_set {T : Type} {P : T → Prop} {l : List T} {i : Nat} {b : T}
    (hl : ∀ a ∈ l, P a) (hb : P b) : ∀ a ∈ l.set i b, P a := by
  intro a ha
  rcases List.mem_or_eq_of_mem_set ha with h | h
  · exact hl a h
  · exact h ▸ hb

theorem run_inv {σ : Type} (step : Nat → σ → σ) (I : σ → Prop) (hstep : ∀ t s, I s → I (step t s))
    (sched : List Nat) : ∀ s, I s → I (runSched step sched s) := by
  induction sched with
  | nil => intro s h; exact h
  | cons t ts ih => intro s h; exact ih _ (hstep t s h)

/-! ### (a) the memo dict -/
section Memo
variable {K V : Type} [DecidableEq K]

def MemoOK (compute : K → V) (m : List (K × V)) : Prop := ∀ e ∈ m, e.2 = compute e.1

def MThreadOK (compute : K → V) (m : List (K × V)) (th : MThread K V) : Prop :=
  (∀ r ∈ th.rets, r.2 = .ok (compute r.1)) ∧
  (match th.pc with
   | .get k => (dictGet m k).isSome = true
   | .store k v => v = compute k
   | _ => True)

def MInv (compute : K → V) (s : MState K V) : Prop :=
  MemoOK compute s.memo ∧ ∀ th ∈ s.threads, MThreadOK compute s.memo th

theorem dictGet_ok {compute : K → V} {m : List (K × V)} (hm : MemoOK compute m) {k : K} {v : V}
    (h : dictGet m k = some v) : v = compute k := by
  unfold dictGet at h
  cases hf : m.find? (fun e => e.1 == k) with
  | none => simp [hf] at h
  | some e =>
    simp only [hf, Option.map_some, Option.some.injEq] at h
    have hmem := List.mem_of_find?_eq_some hf
    have hk : e.1 = k := by simpa using List.find?_some hf
    rw [← h, ← hk]; exact hm e hmem

theorem dictGet_cons_isSome {m : List (K × V)} {k k' : K} {v : V}
    (h : (dictGet m k').isSome = true) : (dictGet ((k, v) :: m) k').isSome = true := by
  unfold dictGet at *
  simp only [List.find?_cons]
  by_cases hk : (k == k') = true
  · simp [hk]
  · have : (k == k') = false := by simpa using hk
    simp only [this]; exact h

theorem mthread_mono {compute : K → V} {m : List (K × V)} {th : MThread K V} (k : K) (v : V)
    (h : MThreadOK compute m th) : MThreadOK compute ((k, v) :: m) th := by
  refine ⟨h.1, ?_⟩
  have h2 := h.2
  cases hp : th.pc with
  | get k' => simp only [hp] at h2 ⊢; exact dictGet_cons_isSome h2
  | store k' v' => simp only [hp] at h2 ⊢; exact h2
  | idle => trivial
  | check _ => trivial
  | compute _ => trivial

theorem mstep_inv (compute : K → V) (t : Nat) (s : MState K V) (h : MInv compute s) :
    MInv compute (mstep compute t s) := by
  obtain ⟨hm, hth⟩ := h
  unfold mstep
  cases ht : s.threads[t]? with
  | none => exact ⟨hm, hth⟩
  | some th =>
    have hmem : th ∈ s.threads := List.mem_of_getElem? ht
    have hok := hth th hmem
    simp only
    cases hp : th.pc with
    | idle =>
      simp only
      cases hd : th.todo with
      | nil => exact ⟨hm, hth⟩
      | cons k ks => exact ⟨hm, forall_set hth ⟨hok.1, trivial⟩⟩
    | check k =>
      simp only
      by_cases hc : (dictGet s.memo k).isSome = true
      · rw [if_pos hc]; exact ⟨hm, forall_set hth ⟨hok.1, hc⟩⟩
      · rw [if_neg hc]; exact ⟨hm, forall_set hth ⟨hok.1, trivial⟩⟩
    | get k =>
      simp only
      have hg := hok.2
      simp only [hp] at hg
      cases hd : dictGet s.memo k with
      | none => rw [hd] at hg; cases hg
      | some v =>
        refine ⟨hm, forall_set hth ⟨?_, trivial⟩⟩
        intro r hr
        rcases List.mem_cons.mp hr with hr | hr
        · rw [hr]; simp only; rw [dictGet_ok hm hd]
        · exact hok.1 r hr
    | compute k =>
      exact ⟨hm, forall_set hth ⟨hok.1, rfl⟩⟩
    | store k v =>
      have hv := hok.2
      simp only [hp] at hv
      refine ⟨?_, forall_set (fun a ha => mthread_mono k v (hth a ha)) ⟨?_, trivial⟩⟩
      · intro e he
        rcases List.mem_cons.mp he with he | he
        · rw [he]; exact hv
        · exact hm e he
      · intro r hr
        rcases List.mem_cons.mp hr with hr | hr
        · rw [hr]; simp only; rw [hv]
        · exact hok.1 r hr

theorem minit_inv (compute : K → V) (m : List (K × V)) (hm : MemoOK compute m) (progs : List (List K)) :
    MInv compute (minit m progs) := by
  refine ⟨hm, ?_⟩
  intro th hth
  simp only [minit, List.mem_map] at hth
  obtain ⟨p, _, rfl⟩ := hth
  exact ⟨(by intro r hr; cases hr), trivial⟩

/-- **memo_race_benign.** `_memoize_dtype` without a lock: for ALL schedules, any number of threads
and calls and any (correct) initial dict, every finished call returned `compute args` — never a
wrong value, never a KeyError.  (Two threads may both compute the same key; the later store
shadows the earlier; the values are equal.) -/
theorem memo_race_benign (compute : K → V) (m : List (K × V)) (hm : MemoOK compute m)
    (progs : List (List K)) (sched : List Nat) :
    ∀ th ∈ (runSched (mstep compute) sched (minit m progs)).threads,
      ∀ r ∈ th.rets, r.2 = .ok (compute r.1) := by
  intro th hth r hr
  have := run_inv (mstep compute) (MInv compute) (mstep_inv compute) sched _ (minit_inv compute m hm progs)
  exact (this.2 th hth).1 r hr

/-- and the dict itself stays correct, so every later (sequential or concurrent) use is too -/
theorem memo_stays_correct (compute : K → V) (m : List (K × V)) (hm : MemoOK compute m)
    (progs : List (List K)) (sched : List Nat) :
    MemoOK compute (runSched (mstep compute) sched (minit m progs)).memo :=
  (run_inv (mstep compute) (MInv compute) (mstep_inv compute) sched _ (minit_inv compute m hm progs)).1

end Memo

/-- non-vacuity: two threads race on the same key — both miss, both compute, both store — and a
third call hits; every call returned `compute k`, and both stores happened. -/
example :
    let s := runSched (mstep (fun k : Nat => k * 10)) [0, 1, 0, 1, 0, 1, 0, 1, 0, 0, 0] (minit [] [[7, 7], [7]])
    s.threads.map (·.rets) = [[(7, .ok 70), (7, .ok 70)], [(7, .ok 70)]] ∧ s.memo = [(7, 70), (7, 70)] := by
  decide

/-! ### (b) the cache deque -/

variable {V : Type}

def DqOK (compute : Key → V) (c : Cache V) : Prop := ∀ e ∈ c, e.2 = compute e.1

/-- what a thread holds is correct: returned values, the fetched item, its snapshot, the value it
is about to append -/
def CThreadOK (compute : Key → V) (th : CThread V) : Prop :=
  (∀ r ∈ th.rets, ∀ v, r.2 = .ok v → v = compute r.1) ∧
  (match th.pc with
   | .iter _ _ _ snap => DqOK compute snap
   | .compare _ _ _ snap it => DqOK compute snap ∧ it.2 = compute it.1
   | .append k v => v = compute k
   | _ => True)

def CInv (compute : Key → V) (s : CState V) : Prop :=
  DqOK compute s.dq ∧ ∀ th ∈ s.threads, CThreadOK compute th

theorem dqOK_append {compute : Key → V} {c : Cache V} (h : DqOK compute c) (k : Key) :
    DqOK compute (Cache.append c k (compute k)) := by
  intro e he
  rcases C11.mem_append he with he | he
  · exact h e he
  · rw [he]

theorem cstep_inv (mode : Mode) (compute : Key → V) (t : Nat) (s : CState V) (h : CInv compute s) :
    CInv compute (cstep mode compute t s) := by
  obtain ⟨hd, hth⟩ := h
  unfold cstep
  cases ht : s.threads[t]? with
  | none => exact ⟨hd, hth⟩
  | some th =>
    have hmem : th ∈ s.threads := List.mem_of_getElem? ht
    have hok := hth th hmem
    simp only
    cases hp : th.pc with
    | idle =>
      simp only
      cases hdo : th.todo with
      | nil => exact ⟨hd, hth⟩
      | cons k ks => exact ⟨hd, forall_set hth ⟨hok.1, trivial⟩⟩
    | start k =>
      cases mode with
      | live => exact ⟨hd, forall_set hth ⟨hok.1, by intro e he; cases he⟩⟩
      | snapshot => exact ⟨hd, forall_set hth ⟨hok.1, hd⟩⟩
    | iter k ver idx snap =>
      have hs := hok.2
      simp only [hp] at hs
      have herr : ∀ r ∈ (k, (Except.error Err.runtime : Except Err V)) :: th.rets, ∀ v, r.2 = .ok v → v = compute r.1 := by
        intro r hr v hv
        rcases List.mem_cons.mp hr with hr | hr
        · rw [hr] at hv; cases hv
        · exact hok.1 r hr v hv
      cases mode with
      | live =>
        simp only
        by_cases hv : s.ver ≠ ver
        · rw [if_pos hv]; exact ⟨hd, forall_set hth ⟨herr, trivial⟩⟩
        · rw [if_neg hv]
          cases hi : s.dq[idx]? with
          | none => exact ⟨hd, forall_set hth ⟨hok.1, trivial⟩⟩
          | some it => exact ⟨hd, forall_set hth ⟨hok.1, hs, hd it (List.mem_of_getElem? hi)⟩⟩
      | snapshot =>
        simp only
        cases hi : snap[idx]? with
        | none => exact ⟨hd, forall_set hth ⟨hok.1, trivial⟩⟩
        | some it => exact ⟨hd, forall_set hth ⟨hok.1, hs, hs it (List.mem_of_getElem? hi)⟩⟩
    | compare k ver idx snap it =>
      have hs := hok.2
      simp only [hp] at hs
      simp only
      by_cases hk : it.1 = k
      · rw [if_pos hk]
        refine ⟨hd, forall_set hth ⟨?_, trivial⟩⟩
        intro r hr v hv
        rcases List.mem_cons.mp hr with hr | hr
        · rw [hr] at hv ⊢
          simp only [Except.ok.injEq] at hv
          rw [← hv, hs.2, hk]
        · exact hok.1 r hr v hv
      · rw [if_neg hk]; exact ⟨hd, forall_set hth ⟨hok.1, hs.1⟩⟩
    | compute k => exact ⟨hd, forall_set hth ⟨hok.1, rfl⟩⟩
    | append k v =>
      have hv := hok.2
      simp only [hp] at hv
      refine ⟨?_, forall_set hth ⟨?_, trivial⟩⟩
      · rw [hv]; exact dqOK_append hd k
      · intro r hr v' hv'
        rcases List.mem_cons.mp hr with hr | hr
        · rw [hr] at hv' ⊢
          simp only [Except.ok.injEq] at hv'
          rw [← hv', hv]
        · exact hok.1 r hr v' hv'

theorem cinit_inv (compute : Key → V) (dq : Cache V) (hd : DqOK compute dq) (progs : List (List Key)) :
    CInv compute (cinit dq progs) := by
  refine ⟨hd, ?_⟩
  intro th hth
  simp only [cinit, List.mem_map] at hth
  obtain ⟨p, _, rfl⟩ := hth
  exact ⟨(by intro r hr; cases hr), trivial⟩

/-- **cache_values_correct_all_schedules.** Shared cache deque, code as it is (`live`) or repaired
(`snapshot`): for EVERY schedule, any number of threads and calls, any correct initial deque —
whenever a call returns a value, it is `compute key`.  No interleaving of lookups, insertions and
evictions makes a call return another key's result or a stale one. -/
theorem cache_values_correct_all_schedules (mode : Mode) (compute : Key → V) (dq : Cache V)
    (hd : DqOK compute dq) (progs : List (List Key)) (sched : List Nat) :
    ∀ th ∈ (runSched (cstep mode compute) sched (cinit dq progs)).threads,
      ∀ r ∈ th.rets, ∀ v, r.2 = .ok v → v = compute r.1 := by
  intro th hth
  have := run_inv (cstep mode compute) (CInv compute) (cstep_inv mode compute) sched _ (cinit_inv compute dq hd progs)
  exact (this.2 th hth).1

/-- the deque stays correct and bounded under every schedule (so the array remains usable) -/
theorem cache_stays_correct (mode : Mode) (compute : Key → V) (dq : Cache V)
    (hd : DqOK compute dq) (progs : List (List Key)) (sched : List Nat) :
    DqOK compute (runSched (cstep mode compute) sched (cinit dq progs)).dq :=
  (run_inv (cstep mode compute) (CInv compute) (cstep_inv mode compute) sched _ (cinit_inv compute dq hd progs)).1

/-- **The full statement**: under no schedule does any call end with an error (sequentially none
does: `compute` is total). -/
def Statement_no_new_errors (mode : Mode) (compute : Key → V) : Prop :=
  ∀ (dq : Cache V) (progs : List (List Key)) (sched : List Nat),
    errorsOf (runSched (cstep mode compute) sched (cinit dq progs)) = []

/-! #### the code as it is: the statement is false -/

/-- the witness: the cache already holds one entry; thread 0 looks up another key and has fetched
and compared that entry (idle→start, start→iter, next, compare) when thread 1 runs a whole call for
a third key (miss, compute, append); thread 0's next `next()` sees the changed deque version. -/
def cexDq : Cache Key := [(.transpose [1, 0, 2], .transpose [1, 0, 2])]
def cexProgs : List (List Key) := [[.transpose [2, 1, 0]], [.transpose [0, 2, 1]]]
def cexSched : List Nat := [0, 0, 0, 0, 1, 1, 1, 1, 1, 1, 1, 0]

/-- **cache_iter_race_counterexample.** A concrete 2-thread schedule on the current code in which a
call that succeeds when run alone ends with RuntimeError (deque mutated during iteration). -/
theorem cache_iter_race_counterexample : ¬ Statement_no_new_errors .live (fun k : Key => k) := by
  intro h
  have := h cexDq cexProgs cexSched
  revert this
  decide

/-- the witness lies in the excluded region, and the same schedule is harmless for the repair -/
example : Excluded_appendDuringIteration .live (fun k : Key => k) (cinit cexDq cexProgs) cexSched = true
    ∧ errorsOf (runSched (cstep .live (fun k : Key => k)) cexSched (cinit cexDq cexProgs))
        = [(.transpose [2, 1, 0], .runtime)]
    ∧ errorsOf (runSched (cstep .snapshot (fun k : Key => k)) (cexSched ++ [0, 0, 0]) (cinit cexDq cexProgs)) = []
    ∧ allDone (runSched (cstep .snapshot (fun k : Key => k)) (cexSched ++ [0, 0, 0]) (cinit cexDq cexProgs)) = true := by
  decide

/-! #### the code as it is: outside the excluded region the statement holds -/

def NoErr (th : CThread V) : Prop := ∀ r ∈ th.rets, ∀ e, r.2 ≠ .error e

/-- every thread inside its loop has seen the current deque version -/
def VerOK (s : CState V) (th : CThread V) : Prop :=
  match th.pc with
  | .iter _ ver _ _ => ver = s.ver
  | .compare _ ver _ _ _ => ver = s.ver
  | _ => True

def PInv (s : CState V) : Prop := ∀ th ∈ s.threads, NoErr th ∧ VerOK s th

theorem noErr_cons_ok {th : CThread V} (h : NoErr th) (k : Key) (v : V) :
    ∀ r ∈ (k, (Except.ok v : Except Err V)) :: th.rets, ∀ e, r.2 ≠ .error e := by
  intro r hr e
  rcases List.mem_cons.mp hr with hr | hr
  · rw [hr]; intro hc; cases hc
  · exact h r hr e

theorem cstep_pinv (compute : Key → V) (t : Nat) (s : CState V) (h : PInv s)
    (hr : racyStep s t = false) : PInv (cstep .live compute t s) := by
  unfold cstep
  cases ht : s.threads[t]? with
  | none => exact h
  | some th =>
    have hmem : th ∈ s.threads := List.mem_of_getElem? ht
    have hok := h th hmem
    simp only
    cases hp : th.pc with
    | idle =>
      simp only
      cases hdo : th.todo with
      | nil => exact h
      | cons k ks => exact forall_set h ⟨hok.1, trivial⟩
    | start k => exact forall_set h ⟨hok.1, rfl⟩
    | iter k ver idx snap =>
      have hv := hok.2
      simp only [VerOK, hp] at hv
      simp only
      rw [if_neg (by intro hc; exact hc hv.symm)]
      cases hi : s.dq[idx]? with
      | none => exact forall_set h ⟨hok.1, trivial⟩
      | some it => exact forall_set h ⟨hok.1, hv⟩
    | compare k ver idx snap it =>
      have hv := hok.2
      simp only [VerOK, hp] at hv
      simp only
      by_cases hk : it.1 = k
      · rw [if_pos hk]; exact forall_set h ⟨noErr_cons_ok hok.1 k it.2, trivial⟩
      · rw [if_neg hk]; exact forall_set h ⟨hok.1, hv⟩
    | compute k => exact forall_set h ⟨hok.1, trivial⟩
    | append k v =>
      -- not racy: no thread is inside its loop, so nobody holds an old version
      have hnone : s.threads.any midIter = false := by
        simp only [racyStep, ht, atAppend, hp, Bool.true_and] at hr
        exact hr
      have hno : ∀ u ∈ s.threads, midIter u = false := by
        intro u hu
        cases hm : midIter u with
        | false => rfl
        | true =>
          have : s.threads.any midIter = true := List.any_eq_true.mpr ⟨u, hu, hm⟩
          rw [hnone] at this; cases this
      refine forall_set ?_ ⟨noErr_cons_ok hok.1 k v, trivial⟩
      intro u hu
      refine ⟨(h u hu).1, ?_⟩
      have := hno u hu
      unfold midIter at this
      unfold VerOK
      cases hpu : u.pc with
      | iter _ _ _ _ => rw [hpu] at this; cases this
      | compare _ _ _ _ _ => rw [hpu] at this; cases this
      | idle => trivial
      | start _ => trivial
      | compute _ => trivial
      | append _ _ => trivial

theorem errorsOf_nil_of_noErr (s : CState V) (h : ∀ th ∈ s.threads, NoErr th) : errorsOf s = [] := by
  unfold errorsOf
  rw [List.flatMap_eq_nil_iff]
  intro th hth
  rw [List.filterMap_eq_nil_iff]
  intro r hr
  cases hr2 : r.2 with
  | ok v => rfl
  | error e => exact absurd hr2 (h th hth r hr e)

/-- **no_new_errors_partial.** On the current code: every schedule in which no `append` executes
while some thread is inside its lookup loop — the complement of the decidable predicate
`Excluded_appendDuringIteration` — ends without any error.  So the deque-iteration race is the
ONLY way a concurrent cached call can fail. -/
theorem no_new_errors_partial (compute : Key → V) (dq : Cache V) (progs : List (List Key)) (sched : List Nat)
    (hex : Excluded_appendDuringIteration .live compute (cinit dq progs) sched = false) :
    errorsOf (runSched (cstep .live compute) sched (cinit dq progs)) = [] := by
  have gen : ∀ (sched : List Nat) (s : CState V), PInv s →
      Excluded_appendDuringIteration .live compute s sched = false →
      PInv (runSched (cstep .live compute) sched s) := by
    intro sched
    induction sched with
    | nil => intro s h _; exact h
    | cons t ts ih =>
      intro s h hex
      simp only [Excluded_appendDuringIteration, Bool.or_eq_false_iff] at hex
      exact ih _ (cstep_pinv compute t s h hex.1) hex.2
  have h0 : PInv (cinit dq progs) := by
    intro th hth
    simp only [cinit, List.mem_map] at hth
    obtain ⟨p, _, rfl⟩ := hth
    exact ⟨(by intro r hr; cases hr), trivial⟩
  exact errorsOf_nil_of_noErr _ (fun th hth => (gen sched _ h0 hex th hth).1)

/-! #### the repair: iterate over a snapshot -/

theorem cstep_snapshot_noErr (compute : Key → V) (t : Nat) (s : CState V)
    (h : ∀ th ∈ s.threads, NoErr th) : ∀ th ∈ (cstep .snapshot compute t s).threads, NoErr th := by
  unfold cstep
  cases ht : s.threads[t]? with
  | none => exact h
  | some th =>
    have hok := h th (List.mem_of_getElem? ht)
    simp only
    cases hp : th.pc with
    | idle =>
      simp only
      cases hdo : th.todo with
      | nil => exact h
      | cons k ks => exact forall_set h hok
    | start k => exact forall_set h hok
    | iter k ver idx snap =>
      simp only
      cases hi : snap[idx]? with
      | none => exact forall_set h hok
      | some it => exact forall_set h hok
    | compare k ver idx snap it =>
      simp only
      by_cases hk : it.1 = k
      · rw [if_pos hk]; exact forall_set h (noErr_cons_ok hok k it.2)
      · rw [if_neg hk]; exact forall_set h hok
    | compute k => exact forall_set h hok
    | append k v => exact forall_set h (noErr_cons_ok hok k v)

/-- **snapshot_no_errors.** With the lookup iterating over `tuple(deque)` (proposed_fixes/
C13-cache-iter.diff) the full statement holds: no schedule, for any number of threads and calls,
makes any call fail. -/
theorem snapshot_no_errors (compute : Key → V) : Statement_no_new_errors .snapshot compute := by
  intro dq progs sched
  have h0 : ∀ th ∈ (cinit dq progs).threads, NoErr th := by
    intro th hth
    simp only [cinit, List.mem_map] at hth
    obtain ⟨p, _, rfl⟩ := hth
    intro r hr; cases hr
  exact errorsOf_nil_of_noErr _
    (run_inv (cstep .snapshot compute) (fun s => ∀ th ∈ s.threads, NoErr th)
      (cstep_snapshot_noErr compute) sched _ h0)

/-! #### actions on private state commute with everything -/

/-- what a thread does to itself when its next action touches no shared state -/
def localUpd (compute : Key → V) (th : CThread V) : CThread V :=
  match th.pc with
  | .idle =>
    (match th.todo with
     | [] => th
     | k :: ks => { th with pc := .start k, todo := ks })
  | .compare k ver idx snap it =>
    if it.1 = k then { th with pc := .idle, rets := (k, .ok it.2) :: th.rets }
    else { th with pc := .iter k ver idx snap }
  | .compute k => { th with pc := .append k (compute k) }
  | _ => th

def isLocalPc (th : CThread V) : Bool :=
  match th.pc with
  | .idle => true
  | .compare .. => true
  | .compute _ => true
  | _ => false

theorem set_self {α : Type} (l : List α) (i : Nat) (a : α) (h : l[i]? = some a) : l.set i a = l := by
  induction l generalizing i with
  | nil => rfl
  | cons x xs ih =>
    cases i with
    | zero => simp at h; simp [h]
    | succ j => simp at h; simp [ih j h]

theorem cstep_local (mode : Mode) (compute : Key → V) (s : CState V) (t : Nat) (th : CThread V)
    (ht : s.threads[t]? = some th) (hl : isLocalPc th = true) :
    cstep mode compute t s = { s with threads := s.threads.set t (localUpd compute th) } := by
  unfold cstep localUpd
  simp only [ht]
  cases hp : th.pc with
  | idle =>
    simp only
    cases hd : th.todo with
    | nil => simp only; rw [set_self _ _ _ ht]
    | cons k ks => rfl
  | compare k ver idx snap it =>
    simp only
    by_cases hk : it.1 = k
    · simp only [if_pos hk]
    · simp only [if_neg hk]
  | compute k => rfl
  | start k => simp [isLocalPc, hp] at hl
  | iter k ver idx snap => simp [isLocalPc, hp] at hl
  | append k v => simp [isLocalPc, hp] at hl

theorem cstep_other_slot (mode : Mode) (compute : Key → V) (s : CState V) (t u : Nat) (htu : t ≠ u) :
    (cstep mode compute u s).threads[t]? = s.threads[t]? := by
  unfold cstep
  cases hu : s.threads[u]? with
  | none => rfl
  | some th =>
    simp only
    cases hp : th.pc <;> simp only <;> (try split) <;> (try split) <;> (try split) <;>
      first | rfl | (simp only [List.getElem?_set_ne (Ne.symm htu)])

theorem cstep_overwrite (mode : Mode) (compute : Key → V) (s : CState V) (t u : Nat) (htu : t ≠ u) (x : CThread V) :
    cstep mode compute u { s with threads := s.threads.set t x }
      = { (cstep mode compute u s) with threads := (cstep mode compute u s).threads.set t x } := by
  unfold cstep
  have hget : (s.threads.set t x)[u]? = s.threads[u]? := List.getElem?_set_ne htu
  simp only [hget]
  cases hu : s.threads[u]? with
  | none => rfl
  | some th =>
    simp only
    cases hp : th.pc <;> simp only <;> (try split) <;> (try split) <;> (try split) <;>
      first | rfl | (simp only [List.set_comm _ _ htu])

/-- **pure_calls_independent.** An action that touches no shared state (starting the next call,
comparing a fetched key, building the result) commutes with every action of every other thread:
`step u ∘ step t = step t ∘ step u`.  So the position of such actions in a schedule is irrelevant —
which is why the traced scheduler may merge them into the neighbouring quantum, and why calls that
never reach the shared cache (every call on an array without caching) are independent of all
interleavings. -/
theorem pure_calls_independent (mode : Mode) (compute : Key → V) (s : CState V) (t u : Nat) (htu : t ≠ u)
    (th : CThread V) (ht : s.threads[t]? = some th) (hl : isLocalPc th = true) :
    cstep mode compute u (cstep mode compute t s) = cstep mode compute t (cstep mode compute u s) := by
  rw [cstep_local mode compute s t th ht hl, cstep_overwrite mode compute s t u htu]
  have ht' : (cstep mode compute u s).threads[t]? = some th := by rw [cstep_other_slot mode compute s t u htu]; exact ht
  rw [cstep_local mode compute _ t th ht' hl]

/-- non-vacuity: in the witness run, after three steps thread 0 is about to compare a fetched key
(a private action) while thread 1 has all its shared actions still to do -/
example : ((runSched (cstep .live (fun k : Key => k)) [0, 0, 0] (cinit cexDq cexProgs)).threads[0]?).map isLocalPc = some true := by
  decide

/-! #### the harness's coarse schedules are fine schedules -/

theorem runSched_append {σ : Type} (step : Nat → σ → σ) (a b : List Nat) (s : σ) :
    runSched step (a ++ b) s = runSched step b (runSched step a s) := by
  unfold runSched; rw [List.foldl_append]

theorem quantum_is_fine (mode : Mode) (compute : Key → V) (t : Nat) (s : CState V) :
    (quantum mode compute t s).1 = runSched (cstep mode compute) (quantum mode compute t s).2 s := by
  unfold quantum
  simp only
  split
  · split <;> rfl
  · rfl

/-- **coarse_run_is_fine_run.** A schedule at the granularity of the traced scheduler (one thread
id per source-line quantum) is an ordinary schedule of the transition system: the theorems above,
which quantify over all fine schedules, apply to every run the harness replays or explores. -/
theorem coarse_run_is_fine_run (mode : Mode) (compute : Key → V) (coarse : List Nat) :
    ∀ s : CState V, (coarseRun mode compute coarse s).1
      = runSched (cstep mode compute) (coarseRun mode compute coarse s).2 s := by
  induction coarse with
  | nil => intro s; rfl
  | cons t ts ih =>
    intro s
    simp only [coarseRun]
    rw [runSched_append, ← quantum_is_fine, ← ih]

/-- the witness at the harness's granularity: nine quanta, standing for the twelve fine steps -/
example : (coarseRun .live (fun k : Key => k) [0, 0, 0, 1, 1, 1, 1, 1, 0] (cinit cexDq cexProgs)).2 = cexSched := by
  decide

end SparseV.C13
